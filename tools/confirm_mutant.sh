#!/bin/sh
# usage: tools/confirm_mutant.sh <mutant dir with patch.diff demo.py meta.json> <Cnn> [tier]
# confirms the mutant (applies, baseline suite unchanged, demo 0 -> 1) in a scratch copy of /repo and runs the check against it.
set -u
m="$1"; prop="$2"; tier="${3:-quick}"
d=$(mktemp -d /tmp/mutconf.XXXXXX)
git -C /repo worktree add -q --detach "$d/repo" HEAD || exit 2
PYTHONPATH="$d/repo" /venv/bin/python "$m/demo.py" > "$d/demo0.txt" 2>&1; r0=$?
if ! git -C "$d/repo" apply "$m/patch.diff"; then echo "RESULT patch-does-not-apply"; git -C /repo worktree remove --force "$d/repo"; rm -rf "$d"; exit 2; fi
/venv/bin/python tools/baseline.py "$d/repo" > "$d/base.txt" 2>&1; rb=$?
PYTHONPATH="$d/repo" /venv/bin/python "$m/demo.py" > "$d/demo1.txt" 2>&1; r1=$?
cd "$(dirname "$0")/.."
VERIF_REPO="$d/repo" ./check "$prop" --tier "$tier" > "$d/out.txt" 2> "$d/err.txt"; rc=$?
echo "RESULT demo_clean=$r0 baseline_missing=$(head -1 $d/base.txt | sed 's/.*missing=//') demo_mutant=$r1 check_exit=$rc"
grep -E "^VIOLATION" "$d/out.txt" | cut -c1-200 | head -4
grep -E "^  ->" "$d/err.txt" | cut -c1-260 | head -4
git -C /repo worktree remove --force "$d/repo"; rm -rf "$d"
