#!/usr/bin/env python3
"""Resolve git conflict hunks by keeping both sides (ours then theirs). For Driver.lean handler lists the comma between the
two sides is repaired. usage: resolve_union.py file..."""
import re, sys
for p in sys.argv[1:]:
    s = open(p).read()
    def rep(m):
        ours, theirs = m.group(1), m.group(2)
        if p.endswith("Driver.lean") and ours.rstrip().endswith(")") and theirs.lstrip().startswith("("):
            return ours.rstrip("\n") + ",\n" + theirs
        return ours + theirs
    s2 = re.sub(r"<<<<<<< [^\n]*\n(.*?)=======\n(.*?)>>>>>>> [^\n]*\n", rep, s, flags=re.S)
    open(p, "w").write(s2)
