#!/bin/sh
# resolve the standard union conflicts after `git merge <branch>` (shared one-liner files)
set -e
b="$1"
/venv/bin/python tools/resolve_union.py lean/Driver.lean lean/SqlLineage.lean tools/manifest.py 2>/dev/null || true
git show HEAD:known_findings.json > /tmp/kf_ours.json
git show "$b":known_findings.json > /tmp/kf_theirs.json
/venv/bin/python - <<'PY'
import json
a=json.load(open('/tmp/kf_ours.json')); b=json.load(open('/tmp/kf_theirs.json'))
ids={(e['id'],e['property']) for e in a['entries']}
for e in b['entries']:
    if (e['id'],e['property']) not in ids: a['entries'].append(e)
json.dump(a,open('known_findings.json','w'),indent=1)
PY
rm -f /tmp/kf_ours.json /tmp/kf_theirs.json
/venv/bin/python tools/manifest.py
