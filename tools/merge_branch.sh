#!/bin/sh
# resolve the standard conflicts after `git merge <branch>` (shared one-liner files). Sub-agent branches add a CHECKS["Cnn"] = dict(...)
# entry (or a dict item) to tools/manifest.py: it is converted to tools/checks/Cnn.json and manifest.py is restored to ours.
set -e
b="$1"
/venv/bin/python tools/resolve_union.py lean/Driver.lean lean/SqlLineage.lean 2>/dev/null || true
# their manifest.py: evaluate its CHECKS table and export new entries
git show "$b":tools/manifest.py > /tmp/manifest_theirs.py
git checkout --ours tools/manifest.py 2>/dev/null || git show HEAD:tools/manifest.py > tools/manifest.py
/venv/bin/python - <<'PY'
import json, os
src=open('/tmp/manifest_theirs.py').read().split("def main():")[0]
ns={'__file__':os.path.abspath('tools/manifest.py')}
try:
    exec(src, ns)
    for k,v in ns.get('CHECKS',{}).items():
        p=f'tools/checks/{k}.json'
        if not os.path.exists(p):
            json.dump(v,open(p,'w'),indent=1); print("exported",k)
except Exception as e:
    print("could not evaluate their manifest.py:", e)
PY
git show HEAD:known_findings.json > /tmp/kf_ours.json
git show "$b":known_findings.json > /tmp/kf_theirs.json
/venv/bin/python - <<'PY'
import json
a=json.load(open('/tmp/kf_ours.json')); b=json.load(open('/tmp/kf_theirs.json'))
ids={(e['id'],e['property']) for e in a['entries']}
for e in b['entries']:
    if (e['id'],e['property']) not in ids: a['entries'].append(e)
json.dump(a,open('known_findings.json','w'),indent=1)
PY
rm -f /tmp/kf_ours.json /tmp/kf_theirs.json /tmp/manifest_theirs.py
/venv/bin/python tools/manifest.py
# strip inline CHECKS["Cnn"] = dict(...) blocks that git auto-merged into manifest.py (entries live in tools/checks/*.json)
/venv/bin/python - <<'PY'
p='tools/manifest.py'
s=open(p).read()
if 'CHECKS["' in s:
    head=s[:s.index('            CHECKS[_f[:-5]] = json.load(_fh)')+len('            CHECKS[_f[:-5]] = json.load(_fh)')]
    tail=s[s.index('NOT_YET ='):]
    open(p,'w').write(head+"\n\n"+tail)
PY
/venv/bin/python tools/manifest.py
