#!/bin/sh
# usage: tools/run_all.sh [tier] [ids...]   runs the registered checks one after the other against /repo, prints one summary line each
tier="${1:-quick}"; shift 2>/dev/null
cd "$(dirname "$0")/.."
ids="$*"; [ -z "$ids" ] && ids=$(ls tools/checks | sed 's/\.json$//')
mkdir -p /tmp/runall
for p in $ids; do
  s=$(date +%s)
  ./check "$p" --tier "$tier" > "/tmp/runall/$p.$tier.out" 2> "/tmp/runall/$p.$tier.err"; rc=$?
  echo "$p tier=$tier exit=$rc wall=$(( $(date +%s) - s ))s known=$(grep -c '^KNOWN-FINDING' /tmp/runall/$p.$tier.out) viol=$(grep -c '^VIOLATION' /tmp/runall/$p.$tier.out)"
done
