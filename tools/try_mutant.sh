#!/bin/sh
# usage: tools/try_mutant.sh <patch.diff> <Cnn> [tier]   — applies the patch to a scratch copy of /repo (never /repo itself), runs the
# check against it, prints the exit code and VIOLATION lines, removes the scratch copy.
set -u
patch="$1"; prop="$2"; tier="${3:-quick}"
d=$(mktemp -d /tmp/mutrun.XXXXXX)
git -C /repo worktree add -q --detach "$d/repo" HEAD || exit 2
if ! git -C "$d/repo" apply "$patch"; then echo "PATCH DOES NOT APPLY"; git -C /repo worktree remove --force "$d/repo"; rm -rf "$d"; exit 2; fi
cd "$(dirname "$0")/.."
VERIF_REPO="$d/repo" ./check "$prop" --tier "$tier" > "$d/out.txt" 2> "$d/err.txt"
rc=$?
grep -E "^(VIOLATION|KNOWN-FINDING)" "$d/out.txt" | cut -c1-220
grep -E "^  ->" "$d/err.txt" | cut -c1-300 | head -5
echo "exit=$rc"
git -C /repo worktree remove --force "$d/repo"; rm -rf "$d"
exit $rc
