#!/venv/bin/python
"""usage: tools/store_mutant.py <mutant dir> <Cnn> <k> <detection text> [check_strengthened text]
copies a CONFIRMED seeded change (tools/confirm_mutant.sh said demo 0 -> 1, baseline missing=0) to seeded/<Cnn>-<k>/ and
completes its meta.json"""
import json, os, shutil, sys
src, prop, k, detection = sys.argv[1:5]
strengthened = sys.argv[5] if len(sys.argv) > 5 else None
dst = os.path.join(os.path.dirname(os.path.abspath(__file__)), "..", "seeded", f"{prop}-{k}")
os.makedirs(dst, exist_ok=True)
for f in ("patch.diff", "demo.py"):
    shutil.copy(os.path.join(src, f), os.path.join(dst, f))
m = json.load(open(os.path.join(src, "meta.json")))
m["breaks_property"] = prop
m["confirmed_by"] = ("tools/confirm_mutant.sh: scratch worktree of /repo HEAD; demo.py exits 0 on the clean tree; patch applies; "
                     "tools/baseline.py reports missing=0 (all 425 baseline tests still pass); demo.py exits 1 with the patch; "
                     f"./check {prop} --tier quick with VERIF_REPO=<scratch> exits 1")
m["detection"] = detection
if strengthened:
    m["check_strengthened"] = strengthened
json.dump(m, open(os.path.join(dst, "meta.json"), "w"), indent=1, ensure_ascii=False)
print("stored", dst)
