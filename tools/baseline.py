#!/usr/bin/env python3
"""Run the repository's baseline suite on a tree (default /repo) and compare with /root/.vp/BASELINE.json stable_pass.
usage: baseline.py [repo_dir]   -> prints tests of stable_pass that did not pass; exit 0 iff none"""
import json, os, subprocess, sys, tempfile, xml.etree.ElementTree as ET
repo = sys.argv[1] if len(sys.argv) > 1 else "/repo"
base = json.load(open("/root/.vp/BASELINE.json"))
out = tempfile.mktemp(suffix=".xml")
subprocess.run(["/venv/bin/python", "-m", "pytest", "-q", "-p", "no:cacheprovider", "--timeout=900", "--continue-on-collection-errors",
                "-n", "12", f"--junitxml={out}"], cwd=repo, capture_output=True, text=True)
passed = set()
for tc in ET.parse(out).getroot().iter("testcase"):
    if not any(c.tag in ("failure", "error", "skipped") for c in tc):
        passed.add(f"{tc.get('classname')}::{tc.get('name')}")
os.unlink(out)
missing = [t for t in base["stable_pass"] if t not in passed]
print(f"stable_pass={len(base['stable_pass'])} passed_now={len(passed)} missing={len(missing)}")
for t in missing:
    print("  NOT PASSING:", t)
sys.exit(1 if missing else 0)
