#!/bin/sh
# usage: tools/selftest_all.sh [tier] [seeded/Cnn-k ...]   re-validates every stored seeded change against the current /repo HEAD (scratch worktrees), one after
# the other; writes seeded/RESULTS.tsv: id, demo on clean tree, baseline missing, demo on mutant, check exit, first VIOLATION line
tier="${1:-quick}"; shift 2>/dev/null
cd "$(dirname "$0")/.."
out=seeded/RESULTS.tsv
list="$*"
if [ -z "$list" ]; then
  printf "id\tdemo_clean\tbaseline_missing\tdemo_mutant\tcheck_exit\tfirst_violation\n" > "$out"
  list=$(ls -d seeded/C??-?)
else
  # re-validate only the named ones: their old lines are replaced
  for x in $list; do id=$(basename "$x"); grep -v "^$id	" "$out" > "$out.tmp" && mv "$out.tmp" "$out"; done
fi
for d in $list; do
  id=$(basename "$d"); prop=${id%-*}
  r=$(tools/confirm_mutant.sh "$(pwd)/$d" "$prop" "$tier" 2>&1)
  res=$(echo "$r" | grep '^RESULT' | head -1)
  v=$(echo "$r" | grep '^VIOLATION' | head -1 | sed 's/replay=[^ ]* *//')
  dc=$(echo "$res" | sed -n 's/.*demo_clean=\([0-9]*\).*/\1/p'); bm=$(echo "$res" | sed -n 's/.*baseline_missing=\([0-9]*\).*/\1/p')
  dm=$(echo "$res" | sed -n 's/.*demo_mutant=\([0-9]*\).*/\1/p'); ce=$(echo "$res" | sed -n 's/.*check_exit=\([0-9]*\).*/\1/p')
  [ -z "$res" ] && res="$r"
  printf "%s\t%s\t%s\t%s\t%s\t%s\n" "$id" "${dc:-?}" "${bm:-?}" "${dm:-?}" "${ce:-?}" "${v:-$(echo "$res" | head -1)}" >> "$out"
  echo "$id $res"
done
