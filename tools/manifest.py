#!/usr/bin/env python3
"""Regenerates MANIFEST.json from tools/checks/<Cnn>.json (one file per property: category, text, design_ref, note, technique).
TB below is the common trusted-base sentence (already expanded inside the JSON files)."""
import json
import os

VERIF = os.path.dirname(os.path.dirname(os.path.abspath(__file__)))
BASELINE = "cd /repo && /venv/bin/python -m pytest -ra -q -p no:cacheprovider --timeout=900 --continue-on-collection-errors"
TB = ("Lean 4.33 kernel; axioms propext, Classical.choice, Quot.sound only (audited per theorem on every run, no native_decide/"
      "bv_decide/sorry); tools/translate.py for the generated tables; the hand-written model is tied to /repo by the "
      "correspondence check named in `technique`")

CHECKS = {}
_d = os.path.join(os.path.dirname(os.path.abspath(__file__)), "checks")
for _f in sorted(os.listdir(_d)):
    if _f.endswith(".json"):
        with open(os.path.join(_d, _f)) as _fh:
            CHECKS[_f[:-5]] = json.load(_fh)

CHECKS["C18"] = dict(
    category="proof",
    text="Lean theorems about the model of io.to_cytoscape and LineageRunner.__str__ (Model/Export.lean) for EVERY graph view (any node "
         "order, any payloads): the node entries are the printed names of the view's nodes with multiplicity and order (nodes_exact), "
         "the edges are the view's edges with ids e0.. in order (edges_exact, edges_exact_mem, edge_ids_sequence, edge_ids_unique), "
         "every edge endpoint is an exported node id under the invariant 'edge endpoints are nodes' (endpoints_are_nodes; the invariant "
         "and duplicate-free node lists are proved preserved by every graph operation and by the assembler: wf_buildWith), every parent "
         "reference is an exported parent id and there is one parent entry per distinct owner, named by the last column (parents_are_nodes, "
         "parents_exact), node ids are unique IFF printing is injective on nodes and owners (ids_unique_iff_print_injective, ids_unique, "
         "all_ids_unique_iff), the summary lists each role's tables sorted, as a permutation, once (summary_lists_roles_sorted_once, "
         "summary_names_once); witnesses that the unchanged code emits duplicate ids (dev_D24_sql: complete model run on the AST of a "
         "two-branch UNION whose derived tables share an alias; dev_D24, dev_D24_class, dev_D24_node_vs_parent, edge_id_clash_witness). "
         "Tied to the code by harness/c18.py: every SQL of the repository's tests + TPC-DS and generated statements/scripts through the real "
         "LineageRunner at both levels and through POST /lineage; per result a structural oracle on the implementation alone and an EXACT "
         "comparison (entries, order, edge ids, summary text) with the model run on the implementation's own combined graph (driver command "
         "exportfull: views, both exports, role lists, summary); generated inputs also end to end through the walk model; io.to_cytoscape on "
         "hand-made graphs in every node order",
    design_ref="DESIGN.md §5 C18, §6 D24",
    note=TB + ". Modelled, not verified: networkx subgraph views (their iteration order is taken from the implementation's output and the "
         "theorems hold for every order). The walk's statement holders satisfy the graph invariants: checked per generated case at run "
         "time, not proved for Model/Walk.lean. End-to-end differences (walk model vs analysis; summary-only for select-item subqueries "
         "and dialect-specific CREATE TABLE trees) are reported in the evidence and attributed to C01/C02 when the comparison on the "
         "implementation's own graph is exact. Known finding D24 (duplicate node ids when "
         "two distinct nodes/owners print alike).",
    technique="Lean 4 proof over a hand-written model + differential correspondence (model driver vs real LineageRunner / WSGI app / "
              "io.to_cytoscape) with a model-independent structural oracle",
)

NOT_YET = "machinery not built yet (build phase in progress, see DESIGN.md §9)"


def main():
    ids = [json.loads(l)["id"] for l in open(os.path.join(VERIF, "properties.jsonl"))]
    checks = []
    for pid in ids:
        if pid not in CHECKS:
            continue
        c = CHECKS[pid]
        checks.append({
            "property_id": pid,
            "quick_cmd": f"./check {pid} --tier quick",
            "thorough_cmd": f"./check {pid} --tier thorough",
            "evidence_file": f"evidence/{pid}.json",
            "replay_cmd_template": f"./check {pid} --replay {{path}}",
            "engine": "lean-model+correspondence",
            "level_claimed": {"category": c["category"], "text": c["text"], "design_ref": c["design_ref"]},
            "level_note": c["note"],
            "technique": c["technique"],
        })
    m = {
        "version": 1,
        "setup_cmd": "cd lean && lake build",
        "hooks": {
            "guard": "SQLLINEAGE_VERIF",
            "enable": "no source hooks: every tap is placed from the harness process (subclassing / patching); checks import the "
                      "working tree through PYTHONPATH=/repo, so there is nothing to build",
            "baseline_off_cmd": BASELINE,
            "source_commits": [],
            "add_only": True,
        },
        "engines": [{
            "name": "lean-model+correspondence", "path": "check",
            "serves_properties": [c["property_id"] for c in checks],
            "kind_free_text": "Lean 4 model + theorems (lean/), regenerated tables (tools/translate.py), line-protocol model driver "
                              "(lean/Driver.lean, compiled), Python differential harness (harness/)",
        }],
        "checks": checks,
        "notes": "fix: commits in /repo are recorded in known_findings.json (status fixed); see DESIGN.md",
        "not_applicable": [{"property_id": i, "reason": NOT_YET} for i in ids if i not in CHECKS],
    }
    with open(os.path.join(VERIF, "MANIFEST.json"), "w") as f:
        json.dump(m, f, indent=1)
        f.write("\n")


if __name__ == "__main__":
    main()
