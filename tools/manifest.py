#!/usr/bin/env python3
"""Regenerates MANIFEST.json from the per-property table below (single place to edit)."""
import json
import os

VERIF = os.path.dirname(os.path.dirname(os.path.abspath(__file__)))
BASELINE = "cd /repo && /venv/bin/python -m pytest -ra -q -p no:cacheprovider --timeout=900 --continue-on-collection-errors"
TB = ("Lean 4.33 kernel; axioms propext, Classical.choice, Quot.sound only (audited per theorem on every run, no native_decide/"
      "bv_decide/sorry); tools/translate.py for the generated tables; the hand-written model is tied to /repo by the "
      "correspondence check named in `technique`")

CHECKS = {
    "C15": dict(
        category="proof",
        text="Lean theorems about the model of config.py (noninterference for every interleaving at operation and at "
             "micro-operation granularity, scope exit restores, rejected attempts change nothing, assignment refused, coercion, "
             "thread-id reuse) + bounded-exhaustive correspondence of the model with the real _SQLLineageConfigLoader "
             "(outputs, final state and logged dict/set mutations) + real threads under a line-level deterministic scheduler",
        design_ref="DESIGN.md §5 C15",
        note=TB + ". Assumed: GIL atomicity of single dict/set operations, threading.get_ident unique among live threads, `with` "
             "exit guarantee; override values range over str/int/bool.",
        technique="Lean 4 proof over a hand-written model + exhaustive differential correspondence (model driver vs real object)",
    ),
    "C05": dict(
        category="proof",
        text="Lean theorems, for ALL token lists / scripts (unbounded), about the model of helpers.split / trim_comment (sqlparse's "
             "lexer as a one-character state machine + its statement splitter on tokens) and of LineageRunner._eval: lex_render, "
             "render_lex, split_spec (kept pieces = non-empty `;`-delimited segments), split_render / count_eq for scripts "
             "assembled from statements and arbitrary separator noise, empty_and_comment_only_dropped, `;` inside literals and "
             "comments does not split, eval_is_fold / run_is_fold (falsy provider, session bracket, both split modes), "
             "script_eq_statements_partial, script_concat_partial + differential correspondence of the model with helpers.split, the texts _eval "
             "analyses (statement tap), statements() and the count on bounded-exhaustive and seeded-random assembled scripts "
             "(generated pool + corpus statements), an assembly-known oracle, script-vs-per-statement lineage, and T-SQL "
             "no-semicolon mode",
        design_ref="DESIGN.md §5 C05",
        note="partial: sqlparse's and sqlfluff's real lexers are modelled (not verified); Level0 restriction. " + TB +
             ". The per-statement analyser and the assembler are abstract parameters of the runner theorems; insensitivity of the "
             "analysis to attached comments / blanks / the trailing `;` (C07) is a hypothesis of script_eq_statements_partial and is "
             "exercised, not proved, here. T-SQL batch splitting (sqlfluff) is an abstract splitter in the theorems and is "
             "checked impl-vs-impl. Class level0 (decidable, part of every hypothesis and of the generator): printable ASCII + "
             "TAB + LF without $ \\ [, terminated literals/comments, no comment opener directly behind an operator character, no "
             "hint comments, no BEGIN / DECLARE / upper-case GO, #( <= #) at every `;`.",
        technique="Lean 4 proof over a hand-written model + differential correspondence (model driver vs helpers.split / tapped "
                  "LineageRunner) + implementation-only oracles",
    ),
}

NOT_YET = "machinery not built yet (build phase in progress, see DESIGN.md §9)"


def main():
    ids = [json.loads(l)["id"] for l in open(os.path.join(VERIF, "properties.jsonl"))]
    checks = []
    for pid in ids:
        if pid not in CHECKS:
            continue
        c = CHECKS[pid]
        checks.append({
            "property_id": pid,
            "quick_cmd": f"./check {pid} --tier quick",
            "thorough_cmd": f"./check {pid} --tier thorough",
            "evidence_file": f"evidence/{pid}.json",
            "replay_cmd_template": f"./check {pid} --replay {{path}}",
            "engine": "lean-model+correspondence",
            "level_claimed": {"category": c["category"], "text": c["text"], "design_ref": c["design_ref"]},
            "level_note": c["note"],
            "technique": c["technique"],
        })
    m = {
        "version": 1,
        "setup_cmd": "cd lean && lake build",
        "hooks": {
            "guard": "SQLLINEAGE_VERIF",
            "enable": "no source hooks: every tap is placed from the harness process (subclassing / patching); checks import the "
                      "working tree through PYTHONPATH=/repo, so there is nothing to build",
            "baseline_off_cmd": BASELINE,
            "source_commits": [],
            "add_only": True,
        },
        "engines": [{
            "name": "lean-model+correspondence", "path": "check",
            "serves_properties": [c["property_id"] for c in checks],
            "kind_free_text": "Lean 4 model + theorems (lean/), regenerated tables (tools/translate.py), line-protocol model driver "
                              "(lean/Driver.lean, compiled), Python differential harness (harness/)",
        }],
        "checks": checks,
        "notes": "fix: commits in /repo are recorded in known_findings.json (status fixed); see DESIGN.md",
        "not_applicable": [{"property_id": i, "reason": NOT_YET} for i in ids if i not in CHECKS],
    }
    with open(os.path.join(VERIF, "MANIFEST.json"), "w") as f:
        json.dump(m, f, indent=1)
        f.write("\n")


if __name__ == "__main__":
    main()
