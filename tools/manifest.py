#!/usr/bin/env python3
"""Regenerates MANIFEST.json from tools/checks/<Cnn>.json (one file per property: category, text, design_ref, note, technique).
TB below is the common trusted-base sentence (already expanded inside the JSON files)."""
import json
import os

VERIF = os.path.dirname(os.path.dirname(os.path.abspath(__file__)))
BASELINE = "cd /repo && /venv/bin/python -m pytest -ra -q -p no:cacheprovider --timeout=900 --continue-on-collection-errors"
TB = ("Lean 4.33 kernel; axioms propext, Classical.choice, Quot.sound only (audited per theorem on every run, no native_decide/"
      "bv_decide/sorry); tools/translate.py for the generated tables; the hand-written model is tied to /repo by the "
      "correspondence check named in `technique`")

CHECKS = {}
_d = os.path.join(os.path.dirname(os.path.abspath(__file__)), "checks")
for _f in sorted(os.listdir(_d)):
    if _f.endswith(".json"):
        with open(os.path.join(_d, _f)) as _fh:
            CHECKS[_f[:-5]] = json.load(_fh)

NOT_YET = "machinery not built yet (build phase in progress, see DESIGN.md §9)"


def main():
    ids = [json.loads(l)["id"] for l in open(os.path.join(VERIF, "properties.jsonl"))]
    checks = []
    for pid in ids:
        if pid not in CHECKS:
            continue
        c = CHECKS[pid]
        checks.append({
            "property_id": pid,
            "quick_cmd": f"./check {pid} --tier quick",
            "thorough_cmd": f"./check {pid} --tier thorough",
            "evidence_file": f"evidence/{pid}.json",
            "replay_cmd_template": f"./check {pid} --replay {{path}}",
            "engine": "lean-model+correspondence",
            "level_claimed": {"category": c["category"], "text": c["text"], "design_ref": c["design_ref"]},
            "level_note": c["note"],
            "technique": c["technique"],
        })
    m = {
        "version": 1,
        "setup_cmd": "cd lean && lake build",
        "hooks": {
            "guard": "SQLLINEAGE_VERIF",
            "enable": "no source hooks: every tap is placed from the harness process (subclassing / patching); checks import the "
                      "working tree through PYTHONPATH=/repo, so there is nothing to build",
            "baseline_off_cmd": BASELINE,
            "source_commits": [],
            "add_only": True,
        },
        "engines": [{
            "name": "lean-model+correspondence", "path": "check",
            "serves_properties": [c["property_id"] for c in checks],
            "kind_free_text": "Lean 4 model + theorems (lean/), regenerated tables (tools/translate.py), line-protocol model driver "
                              "(lean/Driver.lean, compiled), Python differential harness (harness/)",
        }],
        "checks": checks,
        "notes": "fix: commits in /repo are recorded in known_findings.json (status fixed); see DESIGN.md",
        "not_applicable": [{"property_id": i, "reason": NOT_YET} for i in ids if i not in CHECKS],
    }
    with open(os.path.join(VERIF, "MANIFEST.json"), "w") as f:
        json.dump(m, f, indent=1)
        f.write("\n")


if __name__ == "__main__":
    main()
