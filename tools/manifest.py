#!/usr/bin/env python3
"""Regenerates MANIFEST.json from the per-property table below (single place to edit)."""
import json
import os

VERIF = os.path.dirname(os.path.dirname(os.path.abspath(__file__)))
BASELINE = "cd /repo && /venv/bin/python -m pytest -ra -q -p no:cacheprovider --timeout=900 --continue-on-collection-errors"
TB = ("Lean 4.33 kernel; axioms propext, Classical.choice, Quot.sound only (audited per theorem on every run, no native_decide/"
      "bv_decide/sorry); tools/translate.py for the generated tables; the hand-written model is tied to /repo by the "
      "correspondence check named in `technique`")

CHECKS = {
    "C15": dict(
        category="proof",
        text="Lean theorems about the model of config.py (noninterference for every interleaving at operation and at "
             "micro-operation granularity, scope exit restores, rejected attempts change nothing, assignment refused, coercion, "
             "thread-id reuse) + bounded-exhaustive correspondence of the model with the real _SQLLineageConfigLoader "
             "(outputs, final state and logged dict/set mutations) + real threads under a line-level deterministic scheduler",
        design_ref="DESIGN.md §5 C15",
        note=TB + ". Assumed: GIL atomicity of single dict/set operations, threading.get_ident unique among live threads, `with` "
             "exit guarantee; override values range over str/int/bool.",
        technique="Lean 4 proof over a hand-written model + exhaustive differential correspondence (model driver vs real object)",
    ),
    "C12": dict(
        category="proof",
        text="Lean theorems about the model of the metadata provider, its session and LineageRunner._eval as a program tree over "
             "provider accesses, for ALL scripts (arbitrary per-statement analyses), fault placements (split, statement k, provider "
             "lookup j, assembly) and histories: the session is deregistered on every exit path once entered, base metadata never "
             "changes, a reused provider IS a fresh one after any run (so every run of any history has its fresh-provider outcome "
             "and the provider answers get_table_columns as a fresh one), runs on different provider objects commute, any "
             "interleaving of provider accesses is invisible to a thread with its own provider, and a falsy provider (the shared "
             "default) is never looked up + differential correspondence of the model with the real DummyMetaDataProvider / "
             "MetaDataSession / LineageRunner under harness-side taps (event log, session content, answers, exception class; "
             "sequential histories with every fault point, and real threads under a deterministic provider-access scheduler) + "
             "model-independent oracles (reused vs fresh provider, history in one process vs each run in a fresh process, shared "
             "default provider, tsql split cache, 16-thread pools)",
        design_ref="DESIGN.md §5 C12",
        note=TB + ". PARTIAL: real thread interleavings inside sqlfluff/sqlparse are sampled (16-thread pools, several seeds), not "
             "enumerated - the interleaving theorems and the deterministic scheduler work at the granularity of provider accesses; "
             "per-statement analysis and final assembly are abstract in the model (arbitrary decision trees over gated lookups), "
             "tied to the code for 8 statement templates only. Assumed: the `with` statement's exit guarantee; the configuration "
             "object is the other module-level state (C15).",
        technique="Lean 4 proof over a hand-written model + differential correspondence through taps (no repo edits) + "
                  "fresh-process / fresh-provider / thread-pool oracles on the real code",
    ),
}

NOT_YET = "machinery not built yet (build phase in progress, see DESIGN.md §9)"


def main():
    ids = [json.loads(l)["id"] for l in open(os.path.join(VERIF, "properties.jsonl"))]
    checks = []
    for pid in ids:
        if pid not in CHECKS:
            continue
        c = CHECKS[pid]
        checks.append({
            "property_id": pid,
            "quick_cmd": f"./check {pid} --tier quick",
            "thorough_cmd": f"./check {pid} --tier thorough",
            "evidence_file": f"evidence/{pid}.json",
            "replay_cmd_template": f"./check {pid} --replay {{path}}",
            "engine": "lean-model+correspondence",
            "level_claimed": {"category": c["category"], "text": c["text"], "design_ref": c["design_ref"]},
            "level_note": c["note"],
            "technique": c["technique"],
        })
    m = {
        "version": 1,
        "setup_cmd": "cd lean && lake build",
        "hooks": {
            "guard": "SQLLINEAGE_VERIF",
            "enable": "no source hooks: every tap is placed from the harness process (subclassing / patching); checks import the "
                      "working tree through PYTHONPATH=/repo, so there is nothing to build",
            "baseline_off_cmd": BASELINE,
            "source_commits": [],
            "add_only": True,
        },
        "engines": [{
            "name": "lean-model+correspondence", "path": "check",
            "serves_properties": [c["property_id"] for c in checks],
            "kind_free_text": "Lean 4 model + theorems (lean/), regenerated tables (tools/translate.py), line-protocol model driver "
                              "(lean/Driver.lean, compiled), Python differential harness (harness/)",
        }],
        "checks": checks,
        "notes": "fix: commits in /repo are recorded in known_findings.json (status fixed); see DESIGN.md",
        "not_applicable": [{"property_id": i, "reason": NOT_YET} for i in ids if i not in CHECKS],
    }
    with open(os.path.join(VERIF, "MANIFEST.json"), "w") as f:
        json.dump(m, f, indent=1)
        f.write("\n")


if __name__ == "__main__":
    main()
