#!/usr/bin/env python3
"""Regenerates MANIFEST.json from tools/checks/<Cnn>.json (one file per property: category, text, design_ref, note, technique).
TB below is the common trusted-base sentence (already expanded inside the JSON files)."""
import json
import os

VERIF = os.path.dirname(os.path.dirname(os.path.abspath(__file__)))
BASELINE = "cd /repo && /venv/bin/python -m pytest -ra -q -p no:cacheprovider --timeout=900 --continue-on-collection-errors"
TB = ("Lean 4.33 kernel; axioms propext, Classical.choice, Quot.sound only (audited per theorem on every run, no native_decide/"
      "bv_decide/sorry); tools/translate.py for the generated tables; the hand-written model is tied to /repo by the "
      "correspondence check named in `technique`")

CHECKS = {}
_d = os.path.join(os.path.dirname(os.path.abspath(__file__)), "checks")
for _f in sorted(os.listdir(_d)):
    if _f.endswith(".json"):
        with open(os.path.join(_d, _f)) as _fh:
            CHECKS[_f[:-5]] = json.load(_fh)

CHECKS["C04"] = dict(
    category="proof",
    text="Lean theorems about the script level of the model: (1) session — Runner.analyzeAll is the generic statement loop; after any "
         "prefix of the script the session is the initial one followed by what each statement registered (first write target's "
         "non-wildcard columns, nothing when empty), a lookup answers with the LAST registration for the table, and the next statement "
         "is analysed with exactly that knowledge (session_invariant(_generic), session_lookup_last/none, kth_statement_sees, "
         "later_sees_earlier), by induction on the statement list for EVERY analysis function; (2) for every well-formed graph, cycles "
         "included, the end points of the reported column paths are exactly the (root, leaf) pairs, root != leaf, related by the "
         "transitive closure of the edge relation (endpoints_eq_reach: DFS soundness + completeness + cycle removal); (3) "
         "chain_composition: for two statement graphs whose only shared columns are produced-only by the first and consumed-only by "
         "the second, the end-to-end pairs of the composed graph = R1;R2 + pairs of 1 not consumed downstream + pairs of 2 not "
         "produced by 1 — and script_chain_composition states it for the graph Assemble.build returns for two DROP/RENAME-free, Resolved "
         "(no multi-candidate column) statement holders (build_two: the assembler succeeds and has the nodes and column-sourced "
         "edges of the compose; columnLineage_congr); (4) D11 witnesses through the whole model (dev_D11, dev_D11_metadata), star-expansion / unqualified-"
         "attribution witnesses. Tied to the code by: chain shape (9) x consumer column pattern (4) x provider (3) x schema (2) fully "
         "enumerated scripts with seeded random bodies, run through the real LineageRunner with a session tap — complete path sets, "
         "table roles and register events vs the model (driver cmd chain), and an implementation-only oracle (script pairs == "
         "composition of the pairs of each statement analysed alone with the session knowledge the tap saw; session hygiene)",
    design_ref="DESIGN.md §5 C04, §6 D11",
    note=TB + ". partial: the composition theorem is for TWO statements under explicit hypotheses on the statement holders (WF, ColOut, "
         "Resolved, no DROP/RENAME, SharedOnlyIntermediate); that the holders Model/Walk.lean produces satisfy them, and the n-statement "
         "generalisation, are not proved — covered by the correspondence and the implementation-only oracle. "
         "star_expands_from_session / unqualified_attributed_from_session are proved as concrete witnesses only (they go through "
         "Model/Walk.lean, tied by correspondence). Known finding D11.",
    technique="Lean 4 proof (induction over the statement list; path enumeration sound/complete; relational composition) + differential "
              "correspondence on Lean-rendered chained scripts with a session tap + implementation-only composition oracle",
)

CHECKS["C06"] = dict(
    category="proof",
    text="Lean theorems about Paths.pathsFrom/simplePaths/columnLineage (model of get_column_lineage over networkx.all_simple_paths, "
         "fixed code) for EVERY graph: paths_sound, paths_complete, simple_paths_exact, column_lineage_exact (reported paths = the "
         "duplicate-free root-to-leaf edge chains with a hop), path_is_chain, path_nodup, path_has_hop, path_starts_at_root, "
         "path_ends_at_written_table_column, path_ends_differ; columns_only and hops_are_lineage under the explicit graph invariant "
         "ColOut, which (with WF and KeyPay) is proved preserved by add_column_lineage, add_write_column, add_read/add_write, compose, "
         "remove_node, remove_edge and by the assembler itself (build_wf for every script; build_colOut_partial for scripts without RENAME), so "
         "script_paths_exact / script_paths_columns_only_partial hold for the model's combined graph of a script; resolved_single_owner / owner_part_of_identity / node_single_owner (the owner is part of a "
         "column's key); D12 witness. Tied to the code by the ENUMERATION correspondence: Paths.columnLineage run (driver cmd "
         "chainpaths) on the implementation's own combined graph of every analysed input must return exactly the paths "
         "get_column_lineage returned (both argument settings). The remaining clauses (projection onto table lineage, node "
         "retrievability by eq/hash, single owner in the graph) are evaluated by harness/monitor.py on every implementation result of "
         "the harvested test-suite corpus (21 dialects incl. sqlparse) + 99 TPC-DS queries + C01/C02 generators + C04 chained scripts",
    design_ref="DESIGN.md §5 C06, §6 D2, D11, D12",
    note=TB + ". partial: ColOut through the assembler is proved without the RENAME relabelling step (build_colOut_partial); that "
         "every holder Model/Walk.lean returns satisfies WF/ColOut is not proved (observed by the enumeration correspondence). "
         "The projection onto table lineage (column_edge_projects of the design) is NOT proved — it depends on the "
         "extractor model; it is checked by the monitor (implementation-only oracle), which found and records D2, D11, D26 (LATERAL "
         "VIEW alias), D27 (RENAME leaves columns under the old table), D1p (D1 in the deprecated sqlparse analyser). 'Retrievable by "
         "equality and hash' concerns Python object identity and is monitored, not modelled.",
    technique="Lean 4 proof (induction on fuel / on the path, graph invariants) + direct differential of the path enumeration on "
              "implementation graphs + invariant monitor on every result (corpus, generators, chained scripts)",
)

CHECKS["C09"] = dict(
    category="translation_validation",
    text="Translation validation of generated core-SQL programs, with a proved reduction. Proved in Lean (Props/C09.lean): the model of "
         "the analyzer takes no dialect (analyze_dialect_free / run_dialect_free, definitional) and agreement of every accepting dialect "
         "with ONE reference implies pairwise agreement (agreement_reduction, _accepting, _modulo, _masked, agreement_from_reference); "
         "structural facts about the normalised tree shape the typed AST stands for (Model/Shape.lean: root type = dispatch type, clause "
         "arities); the statement-type renamings the shape check allow-lists are claimed by the same extractor in the REGENERATED dispatch "
         "table (alias_same_extractor) and impala's CTAS type by none (dev_K3_unclaimed). NOT provable: that ~30 third-party grammars turn "
         "the text into that tree. Validated per generated statement on the real code: (a) shape correspondence - the tree the analyzer "
         "actually received under every accepting sqlfluff dialect (tapped at Linter.parse_string), normalised, equals the Lean shape "
         "modulo an explicit counted allow-list of per-dialect wrappers/renamings; (b) agreement - tables and the complete set of column "
         "paths identical under every accepting dialect (8 in quick, all 28 in thorough; acceptance matrix in the evidence) and the same "
         "TABLE lineage from dialect='non-validating'; implementation vs implementation, the model is not the oracle; (c) tsql batch "
         "path: scripts agree under ansi, tsql, and tsql with TSQL_NO_SEMICOLON. A disagreement is accepted only inside a decidable "
         "syntactic class (Lean Spec/Agreement.lean, Spec.deviations) listed for that analyzer in known_findings.json; anything else is "
         "shrunk on the AST and reported",
    design_ref="DESIGN.md §5 C09, §2.2 (shape correspondence), §7",
    note=TB + ". The level is translation_validation, not proof: the theorems are the (trivial but honest) reduction and shape facts; the "
         "universal claim over statements x dialect pairs rests on the per-program validation, bounded by the generator (harness/gensql.py "
         "defines 'core SQL': SELECT with joins/comma lists/derived tables/subqueries/CASE/functions/windows/casts, set operations, WITH, "
         "INSERT..query, CTAS, CREATE VIEW over keyword-free identifiers; column `d` is replaced because snowflake reads it as a date "
         "part). Trusted: sqlfluff/sqlparse as black boxes, the normalisation filter and the allow-list in harness/c09.py, PYTHONHASHSEED "
         "fixed by ./check. Known findings on the unchanged tree: K1 clickhouse IN-subquery parsed as tuple, K2 exasol CREATE VIEW target "
         "type, K3 impala CTAS statement type unclaimed, K4 oracle CASE..END alias without AS; legacy analyzer classes L1-L6, L8 and the "
         "C01 classes D2/D3/D4 (there the legacy analyzer is the one that is right). The class predicates over-approximate the defects.",
    technique="differential translation validation (dialect x dialect x legacy analyzer on Lean-rendered generated statements) + tree-shape "
              "correspondence against a Lean-defined shape + Lean proof of the agreement reduction",
)

NOT_YET = "machinery not built yet (build phase in progress, see DESIGN.md §9)"


def main():
    ids = [json.loads(l)["id"] for l in open(os.path.join(VERIF, "properties.jsonl"))]
    checks = []
    for pid in ids:
        if pid not in CHECKS:
            continue
        c = CHECKS[pid]
        checks.append({
            "property_id": pid,
            "quick_cmd": f"./check {pid} --tier quick",
            "thorough_cmd": f"./check {pid} --tier thorough",
            "evidence_file": f"evidence/{pid}.json",
            "replay_cmd_template": f"./check {pid} --replay {{path}}",
            "engine": "lean-model+correspondence",
            "level_claimed": {"category": c["category"], "text": c["text"], "design_ref": c["design_ref"]},
            "level_note": c["note"],
            "technique": c["technique"],
        })
    m = {
        "version": 1,
        "setup_cmd": "cd lean && lake build",
        "hooks": {
            "guard": "SQLLINEAGE_VERIF",
            "enable": "no source hooks: every tap is placed from the harness process (subclassing / patching); checks import the "
                      "working tree through PYTHONPATH=/repo, so there is nothing to build",
            "baseline_off_cmd": BASELINE,
            "source_commits": [],
            "add_only": True,
        },
        "engines": [{
            "name": "lean-model+correspondence", "path": "check",
            "serves_properties": [c["property_id"] for c in checks],
            "kind_free_text": "Lean 4 model + theorems (lean/), regenerated tables (tools/translate.py), line-protocol model driver "
                              "(lean/Driver.lean, compiled), Python differential harness (harness/)",
        }],
        "checks": checks,
        "notes": "fix: commits in /repo are recorded in known_findings.json (status fixed); see DESIGN.md",
        "not_applicable": [{"property_id": i, "reason": NOT_YET} for i in ids if i not in CHECKS],
    }
    with open(os.path.join(VERIF, "MANIFEST.json"), "w") as f:
        json.dump(m, f, indent=1)
        f.write("\n")


if __name__ == "__main__":
    main()
