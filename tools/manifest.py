#!/usr/bin/env python3
"""Regenerates MANIFEST.json from the per-property table below (single place to edit)."""
import json
import os

VERIF = os.path.dirname(os.path.dirname(os.path.abspath(__file__)))
BASELINE = "cd /repo && /venv/bin/python -m pytest -ra -q -p no:cacheprovider --timeout=900 --continue-on-collection-errors"
TB = ("Lean 4.33 kernel; axioms propext, Classical.choice, Quot.sound only (audited per theorem on every run, no native_decide/"
      "bv_decide/sorry); tools/translate.py for the generated tables; the hand-written model is tied to /repo by the "
      "correspondence check named in `technique`")

CHECKS = {
    "C15": dict(
        category="proof",
        text="Lean theorems about the model of config.py (noninterference for every interleaving at operation and at "
             "micro-operation granularity, scope exit restores, rejected attempts change nothing, assignment refused, coercion, "
             "thread-id reuse) + bounded-exhaustive correspondence of the model with the real _SQLLineageConfigLoader "
             "(outputs, final state and logged dict/set mutations) + real threads under a line-level deterministic scheduler",
        design_ref="DESIGN.md §5 C15",
        note=TB + ". Assumed: GIL atomicity of single dict/set operations, threading.get_ident unique among live threads, `with` "
             "exit guarantee; override values range over str/int/bool.",
        technique="Lean 4 proof over a hand-written model + exhaustive differential correspondence (model driver vs real object)",
    ),
    "C17": dict(
        category="proof",
        text="Lean theorems about the model of the WSGI app's path handling with the repaired containment check, for every "
             "request (unbounded path length, arbitrary characters): GET serves only below the static folder "
             "(get_contained, from 'no .. substring => no .. segment'), POST serves only below root_path or the configured "
             "default directory (post_contained, post_escape_refused), refusals have fixed bodies (refusal_reveals_nothing), "
             "the operating system's own resolution ends at the lexically resolved location on a symlink-free tree "
             "(os_resolve_lexical, disclosure_is_under_root); witnesses that the original check let '..' and prefix-sibling "
             "paths through (D22) and listed the parent of the root (D23) + bounded-exhaustive correspondence of the model "
             "with the real sqllineage.drawing.app on a scratch tree and a model-independent marker oracle",
        design_ref="DESIGN.md §5 C17",
        note=TB + ". Assumed: no symbolic links (Path.resolve() = lexical resolution, compared with pathlib on every "
             "enumerated spelling), POSIX paths, string-valued f/d/e payload members, readable tree.",
        technique="Lean 4 proof over a hand-written model + exhaustive differential correspondence (model driver vs real "
                  "WSGI callable, <=4/5 segments over 9 segment kinds x relative/absolute x route x method x 2 root settings)",
    ),
    "C16": dict(
        category="proof",
        text="Lean theorems for ALL strings about the model of escape_identifier_name / Schema / Table / Path / SubQuery / "
             "Column / SqlFluffTable.of / to_source_columns (unquoted names are case-insensitive; each quote style keeps case "
             "and loses only the quotes; last-dot split; three-part limit; equal entities hash equally; the same spelling "
             "gives the same column / table / schema at every creation site, incl. written-then-read) + exhaustive "
             "correspondence of the model with the real functions on every string over a 9-character alphabet up to length "
             "5/6, on SqlFluffTable.of and to_source_columns, eq/hash on real objects, and SQL-level spelling x position x "
             "dialect runs judged implementation-vs-implementation",
        design_ref="DESIGN.md §5 C16",
        note=TB + ". The model describes the code with fixes/D20-*.patch and fixes/D21-*.patch applied; two residual "
             "double-normalisation sites are recorded findings (D20-scalar-subquery, D20-unknown-qualifier). Assumed: ASCII "
             "identifiers; sqlfluff's parse trees and sqlparse's remove_quotes as observed; SqlFluffTable.of is driven with "
             "duck-typed segments in the direct part and with real trees in the SQL-level part.",
        technique="Lean 4 proof over a hand-written model + exhaustive differential correspondence (model driver vs real "
                  "functions) + metamorphic SQL-level check (same statement under the plain spelling, renamed)",
    ),
}

CHECKS["C03"] = dict(
    category="proof",
    text="Lean theorems about the model of SQLLineageHolder._build_digraph and the role predicates: for every DROP/RENAME-free "
         "history (any length, any tables) the table edges and the source/target/intermediate sets are exactly those the "
         "per-statement reads/writes imply, self-loop tables are source and target but not intermediate, order and repetition "
         "are irrelevant; DROP never fails, never changes an edge or another node, and removes the table iff its degree is zero; "
         "single-pair RENAME never fails and removes the old name; witness that the RENAME hypothesis is needed; D10 witness. "
         "The model is tied to the code by an EXHAUSTIVE differential of all histories of <=3 abstract statements over 3 tables "
         "(70 643 histories) against SQLLineageHolder.of, plus two-pair renames under both pair orders and random SQL scripts "
         "through LineageRunner with a statement tap",
    design_ref="DESIGN.md §5 C03, Appendix C",
    note=TB + ". Modelled, not verified: networkx DiGraph/compose/relabel_nodes/remove_edge (Model/Graph.lean re-implements the "
         "parts used; the correspondence exercises them). RENAME 'puts y exactly in x's place' is proved at the level of "
         "nodes/edges removal and totality, the role transfer under the PlainLineage hypothesis is checked by the exhaustive "
         "differential and the implementation-only oracle, not yet a theorem. Known finding D10 (multi-pair RENAME).",
    technique="Lean 4 proof (invariant over the statement fold) + exhaustive differential correspondence (model driver vs SQLLineageHolder.of)",
)

CHECKS["C01"] = dict(
    category="proof",
    text="Lean model of the sqlfluff extractors on a typed AST of core SQL (Model/Walk.lean: subquery discovery per clause, SQL-89 "
         "branch, deep join crawl, CTE handling, create/insert target detection) and a denotational specification of the tables a "
         "statement reads/writes with standard WITH scoping (Spec/Tables.lean). Theorems so far: the regenerated dispatch tables "
         "are disjoint (dispatch order irrelevant), no-op statement types report nothing for every configuration, dispatch "
         "totality. The exactness theorem `reads_exact` on the syntactic fragment Frag01 is work in progress; until it lands, "
         "model = spec on Frag01 rests on the three-way differential: every generated statement (bounded-exhaustive shapes + "
         "seeded random) is rendered by Lean and run through the real LineageRunner under 4 (quick) / all (thorough) sqlfluff "
         "dialects and compared with model AND specification; statements outside Frag01 must match the model and fall in a "
         "listed deviation class",
    design_ref="DESIGN.md §5 C01, §6 D1-D5, Appendix A/B",
    note=TB + ". partial: the step text -> sqlfluff tree (third-party grammars) is not modelled; UPDATE/MERGE/COPY/SELECT INTO are not "
         "in the typed AST yet. D1 repaired (4da7204). Known findings D2, D2w, D3, D4, D5, D7 (table lineage lost at specific syntactic positions).",
    technique="Lean 4 model + specification with proved dispatch lemmas; three-way differential (implementation / model / specification) "
              "on Lean-rendered SQL",
)

CHECKS["C02"] = dict(
    category="proof",
    text="Lean theorems about the column layer of the model for every expression / alias map / graph: the naming rule (alias, "
         "else own name, else expression text; source references independent of the text), scope resolution (qualified reference "
         "resolves to the relation answering to the qualifier; unknown qualifier becomes a table, never a guess; unqualified "
         "reference resolves to the only relation, or carries exactly the scope as candidates whatever the set iteration order), "
         "which names a table answers to, positional wiring rule of end_of_query_cleanup, D6/D7 mechanisms. The end-to-end "
         "statement pairs_exact is NOT proved (kept as a comment): the composition of the layers is tied to the code by the "
         "SQL-level correspondence — every generated data-moving statement (bounded-exhaustive shapes + seeded random, expression "
         "depth<=3, nesting<=4) run through the real LineageRunner under 3 (quick) / all (thorough) dialects, complete path sets "
         "compared with the model's, tolerant only of the hash-order class D16",
    design_ref="DESIGN.md §5 C02, §6 D6-D9, D25",
    note=TB + ". partial (staged): no Lean specification of column dataflow yet; `_get_column_from_subquery` (sqlparse analyzer on the raw "
         "subquery text) is not modelled, so statements with a subquery inside a select item are outside the column-level "
         "correspondence; UPDATE/MERGE not in the typed AST. Known findings D6, D7, D16, D25.",
    technique="Lean 4 proof of the column-resolution layer + differential correspondence of complete column path sets on Lean-rendered SQL",
)

CHECKS["C13"] = dict(
    category="proof",
    text="Lean theorems about the model of the provider-driven steps (Model/HolderOps.lean expandWildcard / replaceWildcard / "
         "addWriteColumns, Model/Assemble.lean resolveOne, Model/InsertCols.lean = the repaired create/insert target handling): for EVERY "
         "graph and provider each step touches only column nodes and edges incident to a column node and no tag (frame lemmas), hence "
         "holder.read/.write/.cte/.drop, statement read/write sets and dataset-to-dataset edges are independent of the provider "
         "(tables_independent_of_provider_ops, resolveAll_tables; statement level for statements without a query and flat "
         "SELECT/CTAS/VIEW: tables_independent_of_provider_partial); star_exact (the target's successor list after _replace_wildcard = old "
         "list + the source table's columns in the provider's order minus existing names and wildcards, both wildcard nodes removed); "
         "unqualified_by_metadata / never_to_known_lacking / graph_owner_first / resolved_edges (owners chosen = exactly the candidates "
         "whose known columns list the name); insert_positions_from_target_meta, explicit_list_wins(_over_provider), positional_wiring for "
         "the repaired code; unknown_tables_unchanged_*; dev_D8 witness on the unrepaired model. Tied to the code by a differential "
         "check: targeted shapes x overlap pattern x EVERY subset of the tables in scope known x provider {dict, SQLAlchemy on in-memory "
         "sqlite} + seeded random qualified statements, against implementation-only oracles O1-O6 and the Lean model (sqlfx)",
    design_ref="DESIGN.md §5 C13, §6 D8",
    note=TB + ". partial: the lift of the frame lemmas through the whole mutual walk (INSERT ... SELECT with provider-named write columns, "
         "nested queries) is not a theorem: table-level independence for those statements rests on the differential (O1 on every case); the "
         "theorem covers every statement without a query and SELECT / CTAS / VIEW over one flat SELECT block. "
         "SQLAlchemy reflection is a black box. Known finding D27 (wildcard vs positional naming); D8 repaired by "
         "fixes/D8-explicit-insert-column-list-wins.patch (Model/Stmt.lean follows with patches/Stmt-D8.patch).",
    technique="Lean 4 proof (frame invariant + normal form of add_write_column) over a hand-written model + differential correspondence "
              "and implementation-only metamorphic / absolute oracles under both bundled providers",
)

CHECKS["C14"] = dict(
    category="proof",
    text="Lean: qualifyStmt (Model/Qualify.lean) writes every bare base-table name of a typed-AST statement as S.name with standard WITH "
         "scoping; theorems: one lemma per Table creation site of the model (mkTable_default_eq_qualified, fallback_default_eq_qualified "
         "for the repaired Table.__init__), qualified_unaffected, placeholder_uniform, spec_default_eq_qualify(+_writes) and "
         "spec_qualified_stmt_unaffected for ALL statements (tables read/written under default S = those of the qualified statement "
         "under no / any other default), walk_default_eq_qualify_partial + walk_flat_default_eq_qualify_partial (EQUAL holder graphs — "
         "tables, aliases, columns, edges, order — for every statement without a query and for SELECT / INSERT..SELECT / CTAS / VIEW over "
         "one flat SELECT block, any provider), dev_D17 witnesses. Tied to the code by an implementation-vs-implementation differential: generated scripts (qualified text "
         "rendered by Lean) + the repository's test SQL (conservative token-level rewriter) + text cases, x S in {unset, fresh, used "
         "qualifier} x mechanism {scoped override, SQLLINEAGE_DEFAULT_SCHEMA in a fresh subprocess[, both]}, comparing tables, all column "
         "paths and both cytoscape exports; plus model-vs-implementation table lineage on both sides",
    design_ref="DESIGN.md §5 C14, §6 D17",
    note=TB + ". partial: the walk-level equality for statements with NESTED queries (derived tables, CTEs, subqueries, set operations) is "
         "not a theorem (subquery identity is the rendered text, which qualification changes; needs graph equivalence modulo subquery "
         "renaming through a 30-function mutual recursion for which Lean generates no equation lemmas): it is checked differentially. S ranges over plain "
         "lower-case names; how the default reaches the call (env / scoped override) is C15. Known findings D26 (select-list subquery loses "
         "the schema of its table), D16 (hash order of relations under an unqualified `*`, C11's subject); D17 repaired by "
         "fixes/D17-default-schema-at-call-time.patch.",
    technique="Lean 4 proof (mutual structural induction over the typed AST against the denotational table specification) + "
              "implementation-vs-implementation metamorphic differential with Lean-rendered partner texts",
)

NOT_YET = "machinery not built yet (build phase in progress, see DESIGN.md §9)"


def main():
    ids = [json.loads(l)["id"] for l in open(os.path.join(VERIF, "properties.jsonl"))]
    checks = []
    for pid in ids:
        if pid not in CHECKS:
            continue
        c = CHECKS[pid]
        checks.append({
            "property_id": pid,
            "quick_cmd": f"./check {pid} --tier quick",
            "thorough_cmd": f"./check {pid} --tier thorough",
            "evidence_file": f"evidence/{pid}.json",
            "replay_cmd_template": f"./check {pid} --replay {{path}}",
            "engine": "lean-model+correspondence",
            "level_claimed": {"category": c["category"], "text": c["text"], "design_ref": c["design_ref"]},
            "level_note": c["note"],
            "technique": c["technique"],
        })
    m = {
        "version": 1,
        "setup_cmd": "cd lean && lake build",
        "hooks": {
            "guard": "SQLLINEAGE_VERIF",
            "enable": "no source hooks: every tap is placed from the harness process (subclassing / patching); checks import the "
                      "working tree through PYTHONPATH=/repo, so there is nothing to build",
            "baseline_off_cmd": BASELINE,
            "source_commits": [],
            "add_only": True,
        },
        "engines": [{
            "name": "lean-model+correspondence", "path": "check",
            "serves_properties": [c["property_id"] for c in checks],
            "kind_free_text": "Lean 4 model + theorems (lean/), regenerated tables (tools/translate.py), line-protocol model driver "
                              "(lean/Driver.lean, compiled), Python differential harness (harness/)",
        }],
        "checks": checks,
        "notes": "fix: commits in /repo are recorded in known_findings.json (status fixed); see DESIGN.md",
        "not_applicable": [{"property_id": i, "reason": NOT_YET} for i in ids if i not in CHECKS],
    }
    with open(os.path.join(VERIF, "MANIFEST.json"), "w") as f:
        json.dump(m, f, indent=1)
        f.write("\n")


if __name__ == "__main__":
    main()
