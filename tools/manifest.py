#!/usr/bin/env python3
"""Regenerates MANIFEST.json from the per-property table below (single place to edit)."""
import json
import os

VERIF = os.path.dirname(os.path.dirname(os.path.abspath(__file__)))
BASELINE = "cd /repo && /venv/bin/python -m pytest -ra -q -p no:cacheprovider --timeout=900 --continue-on-collection-errors"
TB = ("Lean 4.33 kernel; axioms propext, Classical.choice, Quot.sound only (audited per theorem on every run, no native_decide/"
      "bv_decide/sorry); tools/translate.py for the generated tables; the hand-written model is tied to /repo by the "
      "correspondence check named in `technique`")

CHECKS = {
    "C15": dict(
        category="proof",
        text="Lean theorems about the model of config.py (noninterference for every interleaving at operation and at "
             "micro-operation granularity, scope exit restores, rejected attempts change nothing, assignment refused, coercion, "
             "thread-id reuse) + bounded-exhaustive correspondence of the model with the real _SQLLineageConfigLoader "
             "(outputs, final state and logged dict/set mutations) + real threads under a line-level deterministic scheduler",
        design_ref="DESIGN.md §5 C15",
        note=TB + ". Assumed: GIL atomicity of single dict/set operations, threading.get_ident unique among live threads, `with` "
             "exit guarantee; override values range over str/int/bool.",
        technique="Lean 4 proof over a hand-written model + exhaustive differential correspondence (model driver vs real object)",
    ),
    "C16": dict(
        category="proof",
        text="Lean theorems for ALL strings about the model of escape_identifier_name / Schema / Table / Path / SubQuery / "
             "Column / SqlFluffTable.of / to_source_columns (unquoted names are case-insensitive; each quote style keeps case "
             "and loses only the quotes; last-dot split; three-part limit; equal entities hash equally; the same spelling "
             "gives the same column / table / schema at every creation site, incl. written-then-read) + exhaustive "
             "correspondence of the model with the real functions on every string over a 9-character alphabet up to length "
             "5/6, on SqlFluffTable.of and to_source_columns, eq/hash on real objects, and SQL-level spelling x position x "
             "dialect runs judged implementation-vs-implementation",
        design_ref="DESIGN.md §5 C16",
        note=TB + ". The model describes the code with fixes/D20-*.patch and fixes/D21-*.patch applied; two residual "
             "double-normalisation sites are recorded findings (D20-scalar-subquery, D20-unknown-qualifier). Assumed: ASCII "
             "identifiers; sqlfluff's parse trees and sqlparse's remove_quotes as observed; SqlFluffTable.of is driven with "
             "duck-typed segments in the direct part and with real trees in the SQL-level part.",
        technique="Lean 4 proof over a hand-written model + exhaustive differential correspondence (model driver vs real "
                  "functions) + metamorphic SQL-level check (same statement under the plain spelling, renamed)",
    ),
}

NOT_YET = "machinery not built yet (build phase in progress, see DESIGN.md §9)"


def main():
    ids = [json.loads(l)["id"] for l in open(os.path.join(VERIF, "properties.jsonl"))]
    checks = []
    for pid in ids:
        if pid not in CHECKS:
            continue
        c = CHECKS[pid]
        checks.append({
            "property_id": pid,
            "quick_cmd": f"./check {pid} --tier quick",
            "thorough_cmd": f"./check {pid} --tier thorough",
            "evidence_file": f"evidence/{pid}.json",
            "replay_cmd_template": f"./check {pid} --replay {{path}}",
            "engine": "lean-model+correspondence",
            "level_claimed": {"category": c["category"], "text": c["text"], "design_ref": c["design_ref"]},
            "level_note": c["note"],
            "technique": c["technique"],
        })
    m = {
        "version": 1,
        "setup_cmd": "cd lean && lake build",
        "hooks": {
            "guard": "SQLLINEAGE_VERIF",
            "enable": "no source hooks: every tap is placed from the harness process (subclassing / patching); checks import the "
                      "working tree through PYTHONPATH=/repo, so there is nothing to build",
            "baseline_off_cmd": BASELINE,
            "source_commits": [],
            "add_only": True,
        },
        "engines": [{
            "name": "lean-model+correspondence", "path": "check",
            "serves_properties": [c["property_id"] for c in checks],
            "kind_free_text": "Lean 4 model + theorems (lean/), regenerated tables (tools/translate.py), line-protocol model driver "
                              "(lean/Driver.lean, compiled), Python differential harness (harness/)",
        }],
        "checks": checks,
        "notes": "fix: commits in /repo are recorded in known_findings.json (status fixed); see DESIGN.md",
        "not_applicable": [{"property_id": i, "reason": NOT_YET} for i in ids if i not in CHECKS],
    }
    with open(os.path.join(VERIF, "MANIFEST.json"), "w") as f:
        json.dump(m, f, indent=1)
        f.write("\n")


if __name__ == "__main__":
    main()
