import SqlLineage.Props.C02
open SqlLineage Ast Walk Holder Graph ColumnsExact SqlLineage.Props.C02

def exDev : Stmt :=
  .insert .insertInto false ["foo"] none
    (.select false
      [.mk (.col ["foo"] "x") (some "a") true,
       .mk (.col ["foo"] "y") (some "b") true,
       .mk (.lit "1") (some "l1") true,
       .mk (.col ["foo"] "z") (some "c") true]
      [.mk (.table ["bar"] none false) []]
      none [] none) false

#eval fragStmt {} exDev
#eval lineageEdges (analyze {} false exDev)
#eval (specPairs {} (stmtTarget exDev) (stmtItems exDev) (stmtFrom exDev))
#eval Render.stmt {} exDev
