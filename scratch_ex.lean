import SqlLineage.Proofs.ColumnsExact
open SqlLineage Ast Walk Holder Graph ColumnsExact

def exStmt : Stmt :=
  .insert .insertInto false ["tgt"] none
    (.select false
      [.mk (.col ["x"] "a") none false,
       .mk (.bin "+" (.col [] "b") (.lit "1")) (some "f") true,
       .mk (.func "coalesce" false [.col ["x"] "c", .lit "2"] none) none false]
      [.mk (.table ["s1", "t1"] (some "x") false) []] none [] none) false

def linEdges (r : Except Err LGraph) : List (Node × Node) :=
  match r with
  | .ok g => g.edges.filter (fun e => g.ety e.1 e.2 == some .lineage)
  | .error _ => []

#eval fragStmt {} exStmt
#eval linEdges (analyze {} false exStmt)
#eval specPairs {} ["tgt"] (stmtItems exStmt) (stmtFrom exStmt)

example : fragStmt {} exStmt = true := by decide +kernel
