import SqlLineage.Model.Config
import SqlLineage.Model.Ident
import SqlLineage.Gen.Config
import SqlLineage.Gen.Const
import SqlLineage.Gen.Dispatch
import SqlLineage.Props.C15
import SqlLineage.IO.Config
