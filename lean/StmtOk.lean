/-
Evaluates `Props.C06.stmtOKb` (the Boolean form of the hypothesis `StmtOK` of the projection theorems) on statements given as JSON,
one per line on stdin; prints `1` / `0` per line (`E` when the line does not decode).  Run with `lake env lean --run StmtOk.lean`.
-/
import SqlLineage.Props.C06
import SqlLineage.IO.Sql
open Lean SqlLineage

partial def loop (h : IO.FS.Stream) : IO Unit := do
  let line ← h.getLine
  if line.isEmpty then return ()
  let out := match Json.parse line with
    | .ok j => (match IO.Sql.stmtOf j with
        | .ok s => if Props.C06.stmtOKb {} s then "1" else "0"
        | .error _ => "E")
    | .error _ => "E"
  IO.println out
  loop h

def main : IO Unit := do loop (← IO.getStdin)
