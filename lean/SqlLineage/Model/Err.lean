namespace SqlLineage

/-- what can escape an analysis: the library's own exception types, or `internal` for anything else
    (IndexError, KeyError, StopIteration, NetworkXError, AssertionError, …) — the thing C10 forbids. -/
inductive Err
  | invalidSyntax
  | unsupported
  | lineage            -- SQLLineageException proper
  | config
  | provider           -- MetaDataProviderException
  | internal (site : String)
  deriving DecidableEq, Repr, Inhabited

def Err.isLibrary : Err → Bool
  | .internal _ => false
  | _ => true

end SqlLineage
