/-
The target side of INSERT / CTAS / CREATE VIEW as the REPAIRED `CreateInsertExtractor.extract` leaves it (fix D8,
create_insert.py:70‑90 and :104‑116):

  * at the table reference: `add_write(table)`; for an INSERT with a truthy provider the table's known columns are added as
    write columns (index 0 … n‑1);
  * at an explicit column list: the write columns present so far are REMOVED
    (`holder.graph.remove_nodes_from(holder.write_columns)`), then the listed columns are added (index 0 … m‑1).

`Model/Stmt.lean::exWriteQuery` still mirrors the unrepaired code (no removal) until `patches/Stmt-D8.patch` is applied; the
definitions below are what it becomes, plus `analyzeFixed` / `evalFixed` — `Walk.analyze` / `Runner.eval` with only that one
step exchanged — so that the correspondence check of C13 can be run against the repaired tree independently of the patch.
-/
import SqlLineage.Model.Runner

namespace SqlLineage.InsertCols
open SqlLineage Ast Holder Graph Walk

/-- `holder.graph.remove_nodes_from(holder.write_columns)` (absent nodes are skipped silently) -/
def dropWriteColumns (g : LGraph) : LGraph :=
  (writeColumns g).foldl (fun g n => if g.hasNode n then g.removeNode n else g) g

/-- the explicit column list replaces whatever write columns are there -/
def setExplicitColumns (g : LGraph) (cols : List Column) : LGraph := addWriteColumns (dropWriteColumns g) cols

/-- the holder when the extractor reaches the query: target, provider columns (INSERT only), explicit list -/
def targetHolder (env : Env) (isInsert : Bool) (tgt : List String) (cols : Option (List Column)) : LGraph :=
  let t := mkTable env tgt none
  let g := addWriteO Graph.empty t
  let g := if isInsert && env.prov.truthy then addWriteColumns g (provColumns env.prov t.d t.printed) else g
  match cols with
  | some cs => setExplicitColumns g cs
  | none => g

/-- `CreateInsertExtractor.extract` for INSERT … query / CTAS / CREATE VIEW, repaired -/
def exWriteQueryFixed (env : Env) (isInsert : Bool) (tgt : List String) (cols : Option (List String)) (q : Query) :
    Except Err LGraph :=
  let g := targetHolder env isInsert tgt (cols.map (fun cs => cs.map listColumn))
  match exQuery env (ctxOf g) q with
  | .ok h => .ok (g.compose h)
  | .error e => .error e

/-- the UNREPAIRED extractor (the tree before fix D8), kept for the deviation witness `Props.C13.dev_D8`: the explicit list is
    added on top of the provider's columns, nothing is removed -/
def exWriteQueryUnrepaired (env : Env) (isInsert : Bool) (tgt : List String) (cols : Option (List String)) (q : Query) :
    Except Err LGraph :=
  let t := mkTable env tgt none
  let g := addWriteO Graph.empty t
  let g := if isInsert && env.prov.truthy then addWriteColumns g (provColumns env.prov t.d t.printed) else g
  let g := match cols with | some cs => addWriteColumns g (cs.map listColumn) | none => g
  match exQuery env (ctxOf g) q with
  | .ok h => .ok (g.compose h)
  | .error e => .error e

/-- `Walk.analyze` with the repaired create/insert extractor -/
def analyzeFixed (env : Env) (silent : Bool) (s : Stmt) : Except Err LGraph :=
  match s with
  | .insert _ _ tgt cols q _ =>
    (match dispatch (stmtType s) with
      | none => if silent then .ok Graph.empty else .error .unsupported
      | some _ => exWriteQueryFixed env true tgt cols q)
  | .insertValues tgt cols _ =>
    (match dispatch (stmtType s) with
      | none => if silent then .ok Graph.empty else .error .unsupported
      | some _ => .ok (targetHolder env true tgt (cols.map (fun cs => cs.map listColumn))))
  | _ => analyze env silent s

def analyzeAllFixed (c : Runner.Config) : Runner.Provider → List Stmt → Except Err (Runner.Provider × List LGraph)
  | p, [] => .ok (p, [])
  | p, s :: r =>
    match analyzeFixed ⟨c.cfgDefault, c.importDefault, p.view, c.ro, c.revStar⟩ c.silent s with
    | .error e => .error e
    | .ok h =>
      match analyzeAllFixed c (Runner.register p h) r with
      | .error e => .error e
      | .ok (p', hs) => .ok (p', h :: hs)

/-- `Runner.eval` with the repaired create/insert extractor -/
def evalFixed (c : Runner.Config) (base : List (String × List String)) (stmts : List Stmt) :
    Except Err (LGraph × List LGraph) :=
  match analyzeAllFixed c ⟨base, []⟩ stmts with
  | .error e => .error e
  | .ok (p, hs) =>
    match Assemble.build p.asmView hs with
    | .error e => .error e
    | .ok g => .ok (g, hs)

end SqlLineage.InsertCols
