/-
Typed AST of the core SQL the theorems quantify over (DESIGN Appendix A).  Identifiers carry their *spelling* as
written (possibly quoted); normalisation happens in the walk, as in the code.  Brackets are implicit where the grammar
requires them (derived tables, CTE bodies, scalar / IN / EXISTS subqueries) and explicit flags elsewhere.

Nested lists are used directly (`List Item` …); functions over the AST are written as mutual structural recursions with
one auxiliary function per list type.
-/
namespace SqlLineage.Ast

mutual
/-- expressions.  `bin` chains are flattened by sqlfluff into one `expression` segment; `paren` is a `bracketed`. -/
inductive Expr
  | col (quals : List String) (name : String)      -- column_reference  q1.q2.name
  | star (quals : List String)                     -- wildcard_expression  [q.]*
  | lit (text : String)                            -- numeric or quoted literal, as written
  | func (name : String) (distinct : Bool) (args : List Expr) (over : Option Over)
  | cast (e : Expr) (ty : String)                  -- CAST(e AS ty)  (a `function` segment in ANSI)
  | case (whens : List When) (els : Option Expr)
  | bin (op : String) (a b : Expr)                 -- a op b  (arithmetic, comparison, AND/OR, ||)
  | paren (e : Expr)                               -- ( e )
  | subq (q : Query)                               -- ( query )
  | inSubq (e : Expr) (neg : Bool) (q : Query)     -- e [NOT] IN ( query )
  | exist (neg : Bool) (q : Query)                 -- [NOT] EXISTS ( query )
inductive Over
  | mk (partition : List Expr) (order : List Expr)
inductive When
  | mk (cond : Expr) (res : Expr)
inductive Item
  | mk (e : Expr) (alias : Option String) (asKw : Bool)
/-- a query.  `select`: SELECT items [FROM comma‑separated from‑expressions] [WHERE] [GROUP BY] [HAVING].
    `setop`: first branch + (operator, branch)*; every branch is a SELECT, optionally bracketed.
    `withq`: WITH ctes body (body: select or setop). -/
inductive Query
  | select (distinct : Bool) (items : List Item) (frm : List FromExpr) (wh : Option Expr) (grp : List Expr)
      (hav : Option Expr)
  | setop (first : Branch) (rest : List OpBranch)
  | withq (ctes : List Cte) (body : Query)
inductive Branch
  | mk (q : Query) (bracketed : Bool)
inductive OpBranch
  | mk (op : String) (b : Branch)
inductive Cte
  | mk (name : String) (q : Query)
inductive FromElem
  | table (parts : List String) (alias : Option String) (asKw : Bool)
  | derived (q : Query) (alias : Option String) (asKw : Bool)
inductive Join
  | mk (kind : String) (e : FromElem) (on : Option Expr) (usingCols : List String)
inductive FromExpr
  | mk (base : FromElem) (joins : List Join)
end

/-- SET clause of UPDATE / MERGE‑UPDATE: target column reference := source expression -/
structure SetClause where
  tgt : List String            -- column_reference parts
  src : Expr

structure MergeInsert where
  cols : List (List String)    -- column references
  vals : List Expr

inductive MergeSource
  | table (parts : List String) (alias : Option String)
  | derived (q : Query) (alias : Option String)

inductive InsertKind | insertInto | insertOverwrite
  deriving DecidableEq, Repr

/-- statements.  `q` of insert / ctas / view: select, setop or withq; `bracketed` = the query is written in parentheses. -/
inductive Stmt
  | query (q : Query) (bracketed : Bool)
  | insert (kind : InsertKind) (tableKw : Bool) (tgt : List String) (cols : Option (List String)) (q : Query) (bracketed : Bool)
  | insertValues (tgt : List String) (cols : Option (List String)) (rows : List (List Expr))
  | ctas (tgt : List String) (orReplace : Bool) (ifNotExists : Bool) (q : Query) (bracketed : Bool)
  | createView (tgt : List String) (orReplace : Bool) (cols : Option (List String)) (q : Query)
  | createTable (tgt : List String) (ifNotExists : Bool) (cols : List (String × String))
  | createTableLike (tgt : List String) (src : List String)
  | update (tgt : List String) (alias : Option String) (sets : List SetClause) (frm : List FromExpr) (wh : Option Expr)
  | merge (tgt : List String) (tgtAlias : Option String) (src : MergeSource) (on : Expr)
      (updates : List (List SetClause)) (inserts : List MergeInsert)
  | copy (tgt : List String) (path : String)
  | drop (view : Bool) (ifExists : Bool) (tgt : List String)
  | alterRename (x y : List String)
  | renameTable (pairs : List (List String × List String))      -- mysql RENAME TABLE a TO b, c TO d
  | noop (kind : String) (sql : String)         -- statement of a kind that moves no data, given as text
  | unsupported (sql : String)                  -- statement of a type no extractor claims, given as text

end SqlLineage.Ast
