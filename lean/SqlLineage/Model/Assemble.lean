/-
Model of `core/holders.py:297‑458`: `SQLLineageHolder._build_digraph` (the statement fold), the role predicates and
the table / column views.  Statement holders are `LGraph`s (what `StatementLineageHolder.graph` is).

Set iteration orders (`holder.drop`, `holder.rename`, `read × write`) are hash‑seed dependent in the code; here
they are the graph's own orders.  The rename pairs of one statement are enumerated in an order given by the explicit
argument `renameOrd` and then SORTED by the `index` of their edges (D10 repaired: before, the enumeration order — a set's
hash order — decided the outcome, incl. a `NetworkXError`); `Props.C11` shows the argument no longer matters.
-/
import SqlLineage.Model.Node
import SqlLineage.Model.Err
import SqlLineage.Model.Ident
import SqlLineage.Gen.Const

namespace SqlLineage.Assemble
open SqlLineage Graph

/-- `{t for t, attr in graph.nodes(data=True) if attr.get(prop) is True}` (holders.py:73) -/
def tagged (g : LGraph) (t : Tag) : List Node := g.nodes.filter (fun n => g.tag n t == some true)

/-- `StatementLineageHolder.read` / `.write` (holders.py:264‑270): only `Path`/`Table` survive -/
def stmtRead (h : LGraph) : List Node := (tagged h .read).filter Node.isDataset
def stmtWrite (h : LGraph) : List Node := (tagged h .write).filter Node.isDataset
/-- `StatementLineageHolder.drop` (holders.py:272) -/
def stmtDrop (h : LGraph) : List Node := tagged h .drop
/-- `StatementLineageHolder.rename` (holders.py:279) -/
def stmtRename (h : LGraph) : List (Node × Node) :=
  h.edgesOrdered.filter (fun e => h.ety e.1 e.2 == some .rename)

/-- what the assembler may ask a metadata provider (already including session metadata) -/
structure Prov where
  truthy : Bool
  cols : String → List String        -- keyed by the table's printed name "schema.table"

def Prov.none : Prov := ⟨false, fun _ => []⟩

def dropStep (g : LGraph) (ts : List Node) : LGraph :=
  ts.foldl (fun g t => if g.hasNode t && g.degree t == 0 then g.removeNode t else g) g

def insertPair (x : (Node × Node) × Nat) : List ((Node × Node) × Nat) → List ((Node × Node) × Nat)
  | [] => [x]
  | y :: r => if x.2 < y.2 then x :: y :: r else y :: insertPair x r

/-- stable sort by index (`sorted(..., key=lambda r: r[0])`) -/
def sortPairs (l : List ((Node × Node) × Nat)) : List ((Node × Node) × Nat) := l.foldl (fun acc x => insertPair x acc) []

/-- the rename pairs of holder `h`, enumerated as `l`, in the order `_build_digraph` takes them since the repair of D10:
    sorted by the `index` attribute of their RENAME edge (default 0), i.e. in statement order -/
def renamesInOrder (h : LGraph) (l : List (Node × Node)) : List (Node × Node) :=
  (sortPairs (l.map (fun e => (e, (h.idx e.1 e.2).getD 0)))).map (·.1)

/-- `g.remove_edges_from(pairs)`: edges that are not there are ignored -/
def removeEdges (g : LGraph) (ps : List (Node × Node)) : LGraph :=
  { g with edges := g.edges.filter (fun e => !ps.contains e) }

/-- one rename pair (holders.py, D10 repaired): relabel, then drop the new name if nothing is attached to it.  Total: the
    pair's own RENAME edge is gone before (`removeEdges`), so there is no self loop to remove, and the degree is only looked
    up for a node that exists. -/
def renameOne (g : LGraph) (p : Node × Node) : LGraph :=
  let g1 := g.relabel p.1 p.2
  if g1.hasNode p.2 && g1.degree p.2 == 0 then g1.removeNode p.2 else g1

/-- all pairs of one RENAME statement: first every RENAME edge of the statement is removed, then the pairs are applied in
    order -/
def renameStep (g : LGraph) (ps : List (Node × Node)) : LGraph := ps.foldl renameOne (removeEdges g ps)

def product (rs ws : List Node) : List (Node × Node) := rs.flatMap (fun r => ws.map (fun w => (r, w)))

/-- the read/write branch (holders.py:390‑404) -/
def rwStep (g : LGraph) (read write : List Node) : LGraph :=
  if read.length > 0 && write.length == 0 then g.setTags read .sourceOnly true
  else if read.length == 0 && write.length > 0 then g.setTags write .targetOnly true
  else (product read write).foldl (fun g e => g.addEdge e.1 e.2 .lineage) g

/-- one iteration of the loop over statement holders -/
def foldStep (renameOrd : List (Node × Node) → List (Node × Node)) (g : LGraph) (h : LGraph) : Except Err LGraph :=
  let g := g.compose h
  let drop := stmtDrop h
  let ren := stmtRename h
  if !drop.isEmpty then .ok (dropStep g drop)
  else if !ren.isEmpty then .ok (renameStep g (renamesInOrder h (renameOrd ren)))
  else .ok (rwStep g (stmtRead h) (stmtWrite h))

def foldAll (renameOrd : List (Node × Node) → List (Node × Node)) : LGraph → List LGraph → Except Err LGraph
  | g, [] => .ok g
  | g, h :: r => match foldStep renameOrd g h with | .ok g' => foldAll renameOrd g' r | .error e => .error e

/-! ### the tail of `_build_digraph`: self‑loop tags, unresolved columns, orphans -/

def tagSelfloops (g : LGraph) : LGraph := g.setTags g.selfloopNodes .selfloop true

/-- candidates of a column node as stored in the key object -/
def cands (g : LGraph) (n : Node) : List (DS × String) :=
  match g.payload n with | some (.col c) => c.parents | _ => []

def rawOf (g : LGraph) (n : Node) : String :=
  match g.payload n with | some (.col c) => c.raw | _ => ""

/-- `[(s, t) for s, t in g.edges if isinstance(s, Column) and len(s.parent_candidates) > 1]` (holders.py:411) -/
def unresolved (g : LGraph) : List (Node × Node) :=
  g.edgesOrdered.filter (fun e => e.1.isCol && (cands g e.1).length > 1)

/-- `Column._from_raw_name(raw); col.parent = parent` (the already normalised name is kept) -/
def mkSrcCol (raw : String) (p : DS × String) : Column := Column.mk1 raw (some p)

def schemaOf : DS → Option String
  | .table s _ => some s
  | _ => none

def resolveOne (prov : Prov) (g : LGraph) (e : Node × Node) : Except Err LGraph :=
  let u := e.1
  let tgt := e.2
  let raw := rawOf g u
  let cs := cands g u
  -- candidates that already own a column of that name in the graph
  let inGraph := (cs.map (mkSrcCol raw)).filter (fun c => match c.parent? with
    | some (d, _) => g.hasEdge (.ds d) c.key | none => false)
  let fromProv :=
    if inGraph.isEmpty && prov.truthy then
      cs.flatMap (fun p => match p.1 with
        | .table s n =>
          if s != Gen.Const.schemaUnknown then
            ((prov.cols (s ++ "." ++ n)).map (fun cn => Column.mk1 (Ident.escapeS cn) (some p))).filter
              (fun c => raw == c.raw)
          else []
        | _ => [])
    else []
  let srcs := inGraph ++ fromProv
  let g1 := srcs.foldl (fun g c => g.addEdge c.key tgt .lineage none (some (.col c)) none) g
  if srcs.isEmpty then .ok g1
  else match g1.removeEdge? u tgt with
    | some g2 => .ok g2
    | none => .error (.internal "remove_edge")

def resolveAll (prov : Prov) : LGraph → List (Node × Node) → Except Err LGraph
  | g, [] => .ok g
  | g, e :: r => match resolveOne prov g e with | .ok g' => resolveAll prov g' r | .error x => .error x

/-- holders.py:446‑448 -/
def removeOrphans (g : LGraph) : LGraph :=
  (g.nodes.filter (fun n => g.degree n == 0 && n.isCol && (cands g n).length > 1)).foldl
    (fun g n => g.removeNode n) g

/-- `SQLLineageHolder._build_digraph(provider, *holders)` -/
def buildWith (renameOrd : List (Node × Node) → List (Node × Node)) (prov : Prov) (hs : List LGraph) :
    Except Err LGraph :=
  match foldAll renameOrd Graph.empty hs with
  | .error e => .error e
  | .ok g =>
    let g := tagSelfloops g
    match resolveAll prov g (unresolved g) with
    | .error e => .error e
    | .ok g => .ok (removeOrphans g)

def build (prov : Prov) (hs : List LGraph) : Except Err LGraph := buildWith id prov hs

/-! ### views and role predicates (holders.py:310‑371) -/

def tableGraph (g : LGraph) : LGraph := g.subgraph Node.isDataset
def columnGraph (g : LGraph) : LGraph := g.subgraph Node.isCol

/-- `__retrieve_tag_tables(tag)` -/
def tagTables (g : LGraph) (t : Tag) : List Node := (tagged g t).filter Node.isDataset

def union (a b : List Node) : List Node := a ++ b.filter (fun x => !a.contains x)

def sourceTables (g : LGraph) : List Node :=
  let tg := tableGraph g
  union (union (tg.nodes.filter (fun n => tg.inDeg n == 0 && tg.outDeg n > 0)) (tagTables g .selfloop))
    (tagTables g .sourceOnly)

def targetTables (g : LGraph) : List Node :=
  let tg := tableGraph g
  union (union (tg.nodes.filter (fun n => tg.outDeg n == 0 && tg.inDeg n > 0)) (tagTables g .selfloop))
    (tagTables g .targetOnly)

def intermediateTables (g : LGraph) : List Node :=
  let tg := tableGraph g
  (tg.nodes.filter (fun n => tg.inDeg n > 0 && tg.outDeg n > 0)).filter
    (fun n => !(tagTables g .selfloop).contains n)

end SqlLineage.Assemble
