/-
Statement level: which extractor handles a statement (`SqlFluffLineageAnalyzer.analyze`, analyzer.py:47‑78) and the
statement extractors that are not query extractors (create/insert, update, merge, copy, drop, rename, no‑op).
-/
import SqlLineage.Model.Walk
import SqlLineage.Gen.Dispatch

namespace SqlLineage.Walk
open SqlLineage Ast Holder Graph

/-- `SqlFluffColumn.of(column_reference | identifier)` for a column‑list entry: `Column(column.raw, …)` -/
def listColumn (raw : String) : Column := Column.mk1 (Ident.escapeS raw) none

/-- `holder.graph.remove_nodes_from(holder.write_columns)` (create_insert.py, fix D8; absent nodes are skipped silently) -/
def removeWriteColumns (g : LGraph) : LGraph :=
  (writeColumns g).foldl (fun g n => if g.hasNode n then g.removeNode n else g) g

/-- the holder when the create/insert extractor reaches the query: target, the provider's columns of the target (INSERT
    only, create_insert.py:104‑116), then the explicit column list, which REPLACES the write columns present so far
    (create_insert.py:70‑90, fix D8) -/
def writeTargetHolder (env : Env) (isInsert : Bool) (tgt : List String) (cols : Option (List String)) : LGraph :=
  let t := mkTable env tgt none
  let g := addWriteO Graph.empty t
  let g := if isInsert && env.prov.truthy then addWriteColumns g (provColumns env.prov t.d t.printed) else g
  match cols with
  | some cs => addWriteColumns (removeWriteColumns g) (cs.map listColumn)
  | none => g

/-- `CreateInsertExtractor.extract` for INSERT … query / CTAS / CREATE VIEW (extractors/create_insert.py:28‑126) -/
def exWriteQuery (env : Env) (isInsert : Bool) (tgt : List String) (cols : Option (List String)) (q : Query) :
    Except Err LGraph :=
  let g := writeTargetHolder env isInsert tgt cols
  match exQuery env (ctxOf g) q with
  | .ok h => .ok (g.compose h)
  | .error e => .error e

/-- first `column_reference` that is a DIRECT child of the `expression` segment an expression is wrapped in -/
def firstFlatCol : Expr → Option (List String × String)
  | .col qs c => some (qs, c)
  | .bin _ a b => match firstFlatCol a with | some x => some x | none => firstFlatCol b
  | _ => none

/-- in a VALUES bracket `get_children("literal", "expression")` sees every value: literals, and everything else wrapped in
    an `expression` segment (a bare column and a function call too) -/
def isLitOrExprSeg : Expr → Bool
  | .star _ => false
  | _ => true

/-- `UpdateExtractor.extract` (extractors/update.py).  Only `SET c = col` clauses (exactly two column references) give column
    lineage; WHERE subqueries are not looked at; the target's alias is not registered. -/
def exUpdate (env : Env) (ctx : Ctx) (tgt : List String) (sets : List SetClause) (frm : List FromExpr) :
    Except Err LGraph :=
  let g := addWriteO (initHolder ctx) (mkTable env tgt none)
  let g := (tablesOfFrom env g frm).foldl addReadO g
  let specs : List ColSpec := sets.filterMap (fun sc =>
    match sc.src with
    | .col qs c => some (ColSpec.of (sc.tgt.getLast?.getD "") [(c, qs.getLast?)])
    | _ => none)
  match (writeSet g).head? with
  | none => .ok g
  | some t =>
    let tp := (t, printedDS g t)
    let m := aliasMapping g (objsOf g .read)
    match specs.foldlM (fun g c =>
        (toSourceColumns env.importDefault m c env.revStar).foldlM
          (fun g s => addColumnLineage g s (Column.mk1 c.raw (some tp))) g) g with
    | .error e => .error e
    | .ok g' => sqFrom env (decide (frm.length > 1)) frm g'

/-- `MergeExtractor.extract` (extractors/merge.py) -/
def exMerge (env : Env) (tgt : List String) (src : MergeSource) (updates : List (List SetClause))
    (inserts : List MergeInsert) : Except Err LGraph :=
  let t := mkTable env tgt none
  let g := addWriteO Graph.empty t
  let tp := (t.d, t.printed)
  -- USING: a table (no alias is registered) or a bracketed query with its alias
  let srcRes : Except Err (LGraph × Option (DS × String)) :=
    match src with
    | .table parts _ =>
      let s := mkTable env parts none
      .ok (addReadO g s, some (s.d, s.printed))
    | .derived q alias =>
      let obj := mkSubq (subqRaw env q) alias
      let g1 := addReadO g obj
      match exQuery env ⟨cteObjs g1, [obj], []⟩ q with
      | .error e => .error e
      | .ok h => .ok (g1.compose h, some (obj.d, obj.printed))
  match srcRes with
  | .error e => .error e
  | .ok (g, ds) =>
    let mkSrc := fun (c : String) => Column.mk1 (Ident.escapeS c) ds
    let mkTgt := fun (c : String) => Column.mk1 (Ident.escapeS c) (some tp)
    -- WHEN MATCHED THEN UPDATE SET c = col
    let upd := updates.flatten.filterMap (fun sc =>
      match sc.src with
      | .col _ c => some (mkSrc c, mkTgt (sc.tgt.getLast?.getD ""))
      | _ => none)
    match upd.foldlM (fun g p => addColumnLineage g p.1 p.2) g with
    | .error e => .error e
    | .ok g =>
      -- WHEN NOT MATCHED THEN INSERT (cols) VALUES (vals): position j of the literal/expression values
      inserts.foldlM (fun g ins =>
        let cols := ins.cols.map (fun c => mkTgt (c.getLast?.getD ""))
        ((ins.vals.filter isLitOrExprSeg).zipIdx).foldlM (fun g vi =>
          match firstFlatCol vi.1 with
          | some (_, c) =>
            (match cols[vi.2]? with
              | some tc => addColumnLineage g (mkSrc c) tc
              | none => .ok g)          -- more values than insert columns: the surplus values are skipped (D14 repair)
          | none => .ok g) g) g

/-- `CopyExtractor.extract` (extractors/copy.py), `COPY tgt FROM 'path'` -/
def exCopy (env : Env) (tgt : List String) (path : String) : LGraph :=
  addRead (addWriteO Graph.empty (mkTable env tgt none)) (.path (Ident.escapeS path)) none

def exDrop (env : Env) (tgt : List String) : LGraph := addDrop Graph.empty (mkTable env tgt none).d
def exRename (env : Env) (ps : List (List String × List String)) : LGraph :=
  ps.foldl (fun g p => addRename g (mkTable env p.1 none).d (mkTable env p.2 none).d) Graph.empty

/-- statement type (the sqlfluff segment type the dispatch looks at) -/
def stmtType : Stmt → String
  | .query (.select ..) false => "select_statement"
  | .query (.setop ..) false => "set_expression"
  | .query (.withq ..) false => "with_compound_statement"
  | .query _ true => "bracketed"
  | .insert .. => "insert_statement"
  | .insertValues .. => "insert_statement"
  | .ctas .. => "create_table_statement"
  | .createView .. => "create_view_statement"
  | .createTable .. => "create_table_statement"
  | .createTableLike .. => "create_table_statement"
  | .update .. => "update_statement"
  | .merge .. => "merge_statement"
  | .copy .. => "copy_statement"
  | .drop false _ _ => "drop_table_statement"
  | .drop true _ _ => "drop_view_statement"
  | .alterRename .. => "alter_table_statement"
  | .renameTable .. => "rename_table_statement"
  | .noop k _ => k
  | .unsupported _ => "<unsupported>"

/-- the extractor class claiming a statement type, if any: first match in the generated table (order irrelevant by
    `Props.C01.supported_disjoint`) -/
def dispatch (ty : String) : Option String :=
  (Gen.Dispatch.supported.find? (fun e => e.2.contains ty)).map (·.1)

/-- `SqlFluffLineageAnalyzer.analyze` on an already parsed statement -/
def analyze (env : Env) (silent : Bool) (s : Stmt) : Except Err LGraph :=
  match dispatch (stmtType s) with
  | none => if silent then .ok Graph.empty else .error .unsupported
  | some _ =>
    match s with
    | .query q _ => exQuery env {} q
    | .insert _ _ tgt cols q _ => exWriteQuery env true tgt cols q
    | .ctas tgt _ _ q _ => exWriteQuery env false tgt none q
    | .createView tgt _ cols q => exWriteQuery env false tgt cols q
    | .insertValues tgt cols _ => .ok (writeTargetHolder env true tgt cols)
    | .createTable tgt _ cols =>
      let g := addWriteO Graph.empty (mkTable env tgt none)
      .ok (addWriteColumns g (cols.map (fun c => listColumn c.1)))
    | .createTableLike tgt src =>
      .ok (addReadO (addWriteO Graph.empty (mkTable env tgt none)) (mkTable env src none))
    | .drop _ _ tgt => .ok (exDrop env tgt)
    | .alterRename x y => .ok (exRename env [(x, y)])
    | .renameTable ps => .ok (exRename env ps)
    | .noop _ _ => .ok Graph.empty
    | .update tgt _ sets frm _ => exUpdate env {} tgt sets frm
    | .merge tgt _ src _ ups ins => exMerge env tgt src ups ins
    | .copy tgt path => .ok (exCopy env tgt path)
    | .unsupported _ => .error .unsupported

end SqlLineage.Walk
