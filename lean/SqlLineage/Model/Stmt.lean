/-
Statement level: which extractor handles a statement (`SqlFluffLineageAnalyzer.analyze`, analyzer.py:47‑78) and the
statement extractors that are not query extractors (create/insert, update, merge, copy, drop, rename, no‑op).
-/
import SqlLineage.Model.Walk
import SqlLineage.Gen.Dispatch

namespace SqlLineage.Walk
open SqlLineage Ast Holder Graph

/-- `SqlFluffColumn.of(column_reference | identifier)` for a column‑list entry: `Column(column.raw, …)` -/
def listColumn (raw : String) : Column := Column.mk1 (Ident.escapeS raw) none

/-- `CreateInsertExtractor.extract` for INSERT … query / CTAS / CREATE VIEW (extractors/create_insert.py:28‑126) -/
def exWriteQuery (env : Env) (isInsert : Bool) (tgt : List String) (cols : Option (List String)) (q : Query) :
    Except Err LGraph :=
  let t := mkTable env tgt none
  let g := addWriteO Graph.empty t
  -- target columns from the provider, INSERT only (create_insert.py:104‑116)
  let g := if isInsert && env.prov.truthy then addWriteColumns g (provColumns env.prov t.d t.printed) else g
  let g := match cols with | some cs => addWriteColumns g (cs.map listColumn) | none => g
  match exQuery env (ctxOf g) q with
  | .ok h => .ok (g.compose h)
  | .error e => .error e

def exDrop (env : Env) (tgt : List String) : LGraph := addDrop Graph.empty (mkTable env tgt none).d
def exRename (env : Env) (ps : List (List String × List String)) : LGraph :=
  ps.foldl (fun g p => addRename g (mkTable env p.1 none).d (mkTable env p.2 none).d) Graph.empty

/-- statement type (the sqlfluff segment type the dispatch looks at) -/
def stmtType : Stmt → String
  | .query (.select ..) false => "select_statement"
  | .query (.setop ..) false => "set_expression"
  | .query (.withq ..) false => "with_compound_statement"
  | .query _ true => "bracketed"
  | .insert .. => "insert_statement"
  | .insertValues .. => "insert_statement"
  | .ctas .. => "create_table_statement"
  | .createView .. => "create_view_statement"
  | .createTable .. => "create_table_statement"
  | .createTableLike .. => "create_table_statement"
  | .update .. => "update_statement"
  | .merge .. => "merge_statement"
  | .copy .. => "copy_statement"
  | .drop false _ _ => "drop_table_statement"
  | .drop true _ _ => "drop_view_statement"
  | .alterRename .. => "alter_table_statement"
  | .renameTable .. => "rename_table_statement"
  | .noop k _ => k
  | .unsupported _ => "<unsupported>"

/-- the extractor class claiming a statement type, if any: first match in the generated table (order irrelevant by
    `Props.C01.supported_disjoint`) -/
def dispatch (ty : String) : Option String :=
  (Gen.Dispatch.supported.find? (fun e => e.2.contains ty)).map (·.1)

/-- `SqlFluffLineageAnalyzer.analyze` on an already parsed statement -/
def analyze (env : Env) (silent : Bool) (s : Stmt) : Except Err LGraph :=
  match dispatch (stmtType s) with
  | none => if silent then .ok Graph.empty else .error .unsupported
  | some _ =>
    match s with
    | .query q _ => exQuery env {} q
    | .insert _ _ tgt cols q _ => exWriteQuery env true tgt cols q
    | .ctas tgt _ _ q _ => exWriteQuery env false tgt none q
    | .createView tgt _ cols q => exWriteQuery env false tgt cols q
    | .insertValues tgt cols _ =>
      let t := mkTable env tgt none
      let g := addWriteO Graph.empty t
      let g := if env.prov.truthy then addWriteColumns g (provColumns env.prov t.d t.printed) else g
      .ok (match cols with | some cs => addWriteColumns g (cs.map listColumn) | none => g)
    | .createTable tgt _ cols =>
      let g := addWriteO Graph.empty (mkTable env tgt none)
      .ok (addWriteColumns g (cols.map (fun c => listColumn c.1)))
    | .createTableLike tgt src =>
      .ok (addReadO (addWriteO Graph.empty (mkTable env tgt none)) (mkTable env src none))
    | .drop _ _ tgt => .ok (exDrop env tgt)
    | .alterRename x y => .ok (exRename env [(x, y)])
    | .renameTable ps => .ok (exRename env ps)
    | .noop _ _ => .ok Graph.empty
    | .update .. => .error (.internal "unmodelled:update")
    | .merge .. => .error (.internal "unmodelled:merge")
    | .copy .. => .error (.internal "unmodelled:copy")
    | .unsupported _ => .error .unsupported

end SqlLineage.Walk
