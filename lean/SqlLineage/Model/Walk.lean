/-
Model of the sqlfluff extractors (`core/parser/sqlfluff/extractors/*.py`, `sqlfluff/utils.py`, `sqlfluff/models.py`) on the
typed AST: one statement ↦ its statement holder graph.  Transliterates, construct by construct, what the extractors do
on the tree sqlfluff returns for the rendering of the AST (quirks included; see DESIGN §4 and §6).

Deliberately NOT modelled (the AST generator avoids these shapes; see DESIGN):
  * `recursive_crawl` from a function select item into subqueries nested inside subqueries;
  * `_get_column_from_subquery` (calls the sqlparse analyzer on the raw text): a scalar subquery in a select item
    contributes no source columns in the model (`itemHasSubq` flags such statements);
  * the lateral‑column‑alias branch (config flag off), SELECT INTO, the vertica handler.
-/
import SqlLineage.Model.Ast
import SqlLineage.Model.Render
import SqlLineage.Model.HolderOps

namespace SqlLineage.Walk
open SqlLineage Ast Holder Graph

structure Env where
  cfgDefault : String := ""                 -- SQLLineageConfig.DEFAULT_SCHEMA at call time ("" = unset)
  importDefault : String := Gen.Const.schemaUnknown   -- schema of the fallback `Table(qualifier)`: before the repair of D17 the import‑time `Schema()`, since then `defaultSchema` (the driver instantiates it so, `IO.Sql.configOf`)
  prov : ProvView := ProvView.none
  ro : Render.Opts := {}
  revStar : Nat := 0                   -- iterate `set(alias_mapping.values())` in the opposite order (C11)

/-- `Schema()` (models.py:16‑25) -/
def defaultSchema (env : Env) : String :=
  if env.cfgDefault != "" then Ident.escapeS env.cfgDefault else Ident.escapeS Gen.Const.schemaUnknown

/-- `SqlFluffTable.of(table_reference, alias)` (sqlfluff/models.py:43‑75) + `Table.__init__` (models.py:48‑65), for a
    name whose identifiers contain no dot themselves -/
def mkTable (env : Env) (parts : List String) (alias : Option String) : DObj :=
  let name := parts.getLast?.getD ""
  let quals := parts.dropLast
  let schema :=
    if quals.isEmpty then defaultSchema env
    else
      -- every part is normalised once and the joined name is kept (`schema.raw_name = parent_name`)
      let parent := ".".intercalate (quals.map Ident.escapeS)
      if parent != "" then parent else defaultSchema env
  let raw := Ident.escapeS name
  -- D50 repaired: the default alias is the normalised name itself, not normalised a second time (models.py:66)
  ⟨.table schema raw, some (match alias with | some a => Ident.escapeS a | none => raw)⟩

def anonAlias : String := "subquery_?"

/-- `SqlFluffSubQuery.of(segment, alias)` → `SubQuery(segment, segment.raw, alias)` (models.py:113‑124) -/
def mkSubq (raw : String) (alias : Option String) : DObj :=
  ⟨.subq raw, some (match alias with | some a => Ident.escapeS a | none => anonAlias)⟩

structure Ctx where
  cte : List DObj := []
  write : List DObj := []
  writeCols : List Column := []

/-- objects stored in the graph for the nodes carrying tag `t` (`holder.cte`, `holder.write`) -/
def objsOf (g : LGraph) (t : Tag) : List DObj :=
  (tagSet g t).map (fun d => ⟨d, match d with
    | .subq _ => (match g.payload (.ds d) with | some (.sub a) => some a | _ => some "")
    | .table _ n => some n
    | .path _ => none⟩)

def cteObjs (g : LGraph) : List DObj := objsOf g .cte
def writeObjs (g : LGraph) : List DObj := objsOf g .write
def writeColObjs (g : LGraph) : List Column := (writeColumns g).filterMap (colOf g)

/-- `_init_holder(context)` (extractors/base.py:233‑255) -/
def initHolder (ctx : Ctx) : LGraph :=
  let g := ctx.cte.foldl addCteO Graph.empty
  let g := ctx.write.foldl addWriteO g
  if ctx.writeCols.isEmpty then g else addWriteColumns g ctx.writeCols

/-- context handed to a delegated extractor: `AnalyzerContext(cte=holder.cte, write=holder.write,
    write_columns=holder.write_columns)` -/
def ctxOf (g : LGraph) : Ctx := ⟨cteObjs g, writeObjs g, writeColObjs g⟩

/-- `extract_subquery` for one subquery (extractors/base.py:210‑230): the WRITE tag of the subquery is set to False in
    the sub‑holder, then the holders are composed -/
def composeSub (g : LGraph) (obj : DObj) (h : LGraph) : LGraph :=
  g.compose (h.setTags [.ds obj.d] .write false)

/-! ### source column references of an expression (`SqlFluffColumn._extract_source_columns`) -/

mutual
def refs : Expr → List (String × Option String)
  | .col quals name => [(name, quals.getLast?)]
  | .star quals => [("*", quals.getLast?)]
  | .lit _ => []
  | .func _ _ args over => refsL args ++ (match over with | some ov => refsOver ov | none => [])
  | .cast e _ => refs e
  | .case ws els => refsWhens ws ++ (match els with | some e => refs e | none => [])
  | .bin _ a b => refs a ++ refs b
  | .paren e => refs e
  | .subq _ => []
  | .inSubq e _ _ => refs e
  | .exist _ _ => []
def refsL : List Expr → List (String × Option String)
  | [] => []
  | e :: r => refs e ++ refsL r
def refsOver : Over → List (String × Option String)
  | .mk p o => refsL p ++ refsL o
def refsWhens : List When → List (String × Option String)
  | [] => []
  | .mk c r :: rest => refs c ++ refs r ++ refsWhens rest
end

mutual
/-- does the expression contain a subquery (at any depth outside nested queries)? -/
def hasSubq : Expr → Bool
  | .col _ _ | .star _ | .lit _ => false
  | .func _ _ args over => hasSubqL args || (match over with | some (.mk p o) => hasSubqL p || hasSubqL o | none => false)
  | .cast e _ => hasSubq e
  | .case ws els => hasSubqW ws || (match els with | some e => hasSubq e | none => false)
  | .bin _ a b => hasSubq a || hasSubq b
  | .paren e => hasSubq e
  | .subq _ => true
  | .inSubq _ _ _ => true
  | .exist _ _ => true
def hasSubqL : List Expr → Bool
  | [] => false
  | e :: r => hasSubq e || hasSubqL r
def hasSubqW : List When → Bool
  | [] => false
  | .mk c r :: rest => hasSubq c || hasSubq r || hasSubqW rest
end

/-- `SqlFluffColumn.of(select_clause_element)` (sqlfluff/models.py:99‑146) -/
def colSpecOf (env : Env) : Item → ColSpec
  | .mk e alias asKw =>
    let srcs := refs e
    match alias with
    | some a => ColSpec.of a srcs true
    | none =>
      if !srcs.isEmpty then
        let name := match e with
          | .col _ n => n
          | .star _ => "*"
          | _ => Render.item env.ro (.mk e alias asKw)
        ColSpec.of name srcs
      else ColSpec.of (Render.item env.ro (.mk e alias asKw)) []

/-! ### datasets of a FROM clause (`_list_table_from_from_clause_or_join_clause`, `_add_dataset_from_expression_element`) -/

def subqRaw (env : Env) (q : Query) : String := "(" ++ Render.query env.ro q ++ ")"

def datasetOfElem (env : Env) (g : LGraph) : FromElem → List DObj
  | .table parts alias _ =>
    match parts with
    | [n] =>
      -- undotted identifier: CTE lookup by normalised name (base.py:159‑170)
      match (cteObjs g).reverse.find? (fun o => o.alias == some (Ident.escapeS n)) with
      | some c => (match c.d with
          | .subq raw => [mkSubq raw (some (alias.getD n))]
          | _ => [mkTable env parts alias])
      | none => [mkTable env parts alias]
    | _ => [mkTable env parts alias]
  | .derived q alias _ => [mkSubq (subqRaw env q) alias]

def joinElem : Join → FromElem
  | .mk _ e _ _ => e

/-! ### `list_join_clause`: every `join_clause` inside the from‑expression at ANY depth (DESIGN D9)

`segment.recursive_crawl("join_clause")` descends into derived tables, ON‑condition subqueries and everything nested in
them; each join found contributes the dataset of its own element to the *enclosing* level's tables.  Pre‑order. -/

mutual
def cdExpr (env : Env) (g : LGraph) : Expr → List DObj
  | .col _ _ | .star _ | .lit _ => []
  | .func _ _ args over => cdExprs env g args ++ (match over with | some (.mk p o) => cdExprs env g p ++ cdExprs env g o | none => [])
  | .cast e _ => cdExpr env g e
  | .case ws els => cdWhens env g ws ++ (match els with | some e => cdExpr env g e | none => [])
  | .bin _ a b => cdExpr env g a ++ cdExpr env g b
  | .paren e => cdExpr env g e
  | .subq q => cdQuery env g q
  | .inSubq e _ q => cdExpr env g e ++ cdQuery env g q
  | .exist _ q => cdQuery env g q
def cdExprs (env : Env) (g : LGraph) : List Expr → List DObj
  | [] => []
  | e :: r => cdExpr env g e ++ cdExprs env g r
def cdWhens (env : Env) (g : LGraph) : List When → List DObj
  | [] => []
  | .mk c r :: rest => cdExpr env g c ++ cdExpr env g r ++ cdWhens env g rest
def cdItems (env : Env) (g : LGraph) : List Item → List DObj
  | [] => []
  | .mk e _ _ :: r => cdExpr env g e ++ cdItems env g r
def cdQuery (env : Env) (g : LGraph) : Query → List DObj
  | .select _ its frm wh grp hav =>
    cdItems env g its ++ cdFromExprs env g frm ++ (match wh with | some e => cdExpr env g e | none => []) ++
      cdExprs env g grp ++ (match hav with | some e => cdExpr env g e | none => [])
  | .setop first rest => cdBranch env g first ++ cdOpBranches env g rest
  | .withq cs body => cdCtes env g cs ++ cdQuery env g body
def cdBranch (env : Env) (g : LGraph) : Branch → List DObj
  | .mk q _ => cdQuery env g q
def cdOpBranches (env : Env) (g : LGraph) : List OpBranch → List DObj
  | [] => []
  | .mk _ b :: r => cdBranch env g b ++ cdOpBranches env g r
def cdCtes (env : Env) (g : LGraph) : List Cte → List DObj
  | [] => []
  | .mk _ q :: r => cdQuery env g q ++ cdCtes env g r
def cdElem (env : Env) (g : LGraph) : FromElem → List DObj
  | .table _ _ _ => []
  | .derived q _ _ => cdQuery env g q
def cdJoins (env : Env) (g : LGraph) : List Join → List DObj
  | [] => []
  | .mk _ e on _ :: r =>
    datasetOfElem env g e ++ cdElem env g e ++ (match on with | some c => cdExpr env g c | none => []) ++ cdJoins env g r
def cdFromExpr (env : Env) (g : LGraph) : FromExpr → List DObj
  | .mk base js => cdElem env g base ++ cdJoins env g js
def cdFromExprs (env : Env) (g : LGraph) : List FromExpr → List DObj
  | [] => []
  | f :: r => cdFromExpr env g f ++ cdFromExprs env g r
end

def tablesOfFrom (env : Env) (g : LGraph) (frm : List FromExpr) : List DObj :=
  match frm with
  | [] => []
  | [.mk base js] =>
    -- no top‑level join and a select inside ⇒ `list_join_clause` returns [] (utils.py:91‑100); with no join and no select
    -- inside there is nothing to find either
    datasetOfElem env g base ++ (if js.isEmpty then [] else cdFromExpr env g (.mk base js))
  -- SQL‑89 comma list: every from‑expression is handled like a single one (its base element, then its join clauses)
  | many => many.flatMap (fun fe => match fe with
      | .mk base js => datasetOfElem env g base ++ (if js.isEmpty then [] else cdFromExpr env g (.mk base js)))

/-- tables, columns and union barriers of the branches, then `end_of_query_cleanup` and `expand_wildcard` -/
def finishBranches (env : Env) (g : LGraph) (branches : List (List Item × List FromExpr)) : Except Err LGraph :=
  let acc := (branches.zipIdx).foldl
    (fun (acc : List DObj × List ColSpec × List (Nat × Nat)) (b : (List Item × List FromExpr) × Nat) =>
      let bs := if b.2 != 0 then acc.2.2 ++ [(acc.2.1.length, acc.1.length)] else acc.2.2
      (acc.1 ++ tablesOfFrom env g b.1.2, acc.2.1 ++ b.1.1.map (colSpecOf env), bs)) ([], [], [])
  match endOfQueryCleanup env.importDefault g acc.1 acc.2.1 acc.2.2 env.revStar with
  | .ok g' => .ok (expandWildcard env.prov g')
  | .error e => .error e

def branchParts : Branch → List Item × List FromExpr
  | .mk (.select _ its frm _ _ _) _ => (its, frm)
  | .mk _ _ => ([], [])

def opBranchParts : OpBranch → List Item × List FromExpr
  | .mk _ b => branchParts b

/-! ### the extractors -/

mutual
/-- `SelectExtractor.extract` / `CteExtractor.extract` on a query (bracketed or not) -/
def exQuery (env : Env) (ctx : Ctx) : Query → Except Err LGraph
  | .select _ its frm wh _ _ =>
    match sqItems env its (initHolder ctx) with
    | .error e => .error e
    | .ok g1 =>
      match sqFrom env (decide (frm.length > 1)) frm g1 with
      | .error e => .error e
      | .ok g2 =>
        match sqWhere env wh g2 with
        | .error e => .error e
        | .ok g3 => finishBranches env g3 [(its, frm)]
  | .setop first rest =>
    match sqBranch env first (initHolder ctx) with
    | .error e => .error e
    | .ok g1 =>
      match sqOpBranches env rest g1 with
      | .error e => .error e
      | .ok g2 => finishBranches env g2 (branchParts first :: rest.map opBranchParts)
  | .withq cs body =>
    -- CteExtractor (extractors/cte.py): CTE nodes first, then the body with all of them visible, then the CTE bodies
    let g1 := addCtes env cs (initHolder ctx)
    match exQuery env (ctxOf g1) body with
    | .error e => .error e
    | .ok hb => sqCtes env cs (g1.compose hb)

/-- register every CTE of a WITH list (`holder.add_cte(SqlFluffSubQuery.of(bracketed, alias))`) -/
def addCtes (env : Env) : List Cte → LGraph → LGraph
  | [], g => g
  | .mk name q :: r, g => addCtes env r (addCteO g (mkSubq (subqRaw env q) (some name)))

/-- extract the CTE bodies (`extract_subquery` at the end of `CteExtractor.extract`) -/
def sqCtes (env : Env) : List Cte → LGraph → Except Err LGraph
  | [], g => .ok g
  | .mk name q :: r, g =>
    let obj := mkSubq (subqRaw env q) (some name)
    match exQuery env ⟨cteObjs g, [obj], []⟩ q with
    | .error e => .error e
    | .ok h => sqCtes env r (composeSub g obj h)

def sqBranch (env : Env) : Branch → LGraph → Except Err LGraph
  | .mk (.select _ its frm wh _ _) _, g =>
    match sqItems env its g with
    | .error e => .error e
    | .ok g1 =>
      match sqFrom env (decide (frm.length > 1)) frm g1 with
      | .error e => .error e
      | .ok g2 => sqWhere env wh g2
  | .mk _ _, g => .ok g

def sqOpBranches (env : Env) : List OpBranch → LGraph → Except Err LGraph
  | [], g => .ok g
  | .mk _ b :: r, g =>
    match sqBranch env b g with
    | .error e => .error e
    | .ok g' => sqOpBranches env r g'

/-- subqueries discovered in the select clause (`list_subqueries`, select_clause branch) -/
def sqItems (env : Env) : List Item → LGraph → Except Err LGraph
  | [], g => .ok g
  | .mk e alias _ :: r, g =>
    match (match e with
      | .func _ _ args over =>
        (match sqDeepL env args g with
          | .error x => Except.error x
          | .ok g' => (match over with | some (.mk p o) => (match sqDeepL env p g' with
              | .error x => .error x | .ok g'' => sqDeepL env o g'') | none => .ok g'))
      | .cast e' _ => sqDeep env e' g
      | .col _ _ => .ok g
      | .star _ => .ok g
      | .lit _ => .ok g
      | other => (match sqFirstCase env other alias g with | .error x => .error x | .ok p => .ok p.2)) with
    | .error x => .error x
    | .ok g' => sqItems env r g'

/-- every subquery bracket inside a function call, in pre‑order, not descending into the subqueries themselves -/
def sqDeep (env : Env) : Expr → LGraph → Except Err LGraph
  | .col _ _, g => .ok g
  | .star _, g => .ok g
  | .lit _, g => .ok g
  | .func _ _ args over, g =>
    (match sqDeepL env args g with
      | .error x => .error x
      | .ok g' => (match over with | some (.mk p o) => (match sqDeepL env p g' with
          | .error x => .error x | .ok g'' => sqDeepL env o g'') | none => .ok g'))
  | .cast e _, g => sqDeep env e g
  | .case ws els, g =>
    (match sqDeepW env ws g with
      | .error x => .error x
      | .ok g' => (match els with | some e => sqDeep env e g' | none => .ok g'))
  | .bin _ a b, g => (match sqDeep env a g with | .error x => .error x | .ok g' => sqDeep env b g')
  | .paren e, g => sqDeep env e g
  | .subq q, g =>
    let obj := mkSubq (subqRaw env q) none
    (match exQuery env ⟨cteObjs g, [obj], []⟩ q with | .error x => .error x | .ok h => .ok (composeSub g obj h))
  | .inSubq e _ q, g =>
    (match sqDeep env e g with
      | .error x => .error x
      | .ok g' =>
        let obj := mkSubq (subqRaw env q) none
        (match exQuery env ⟨cteObjs g', [obj], []⟩ q with | .error x => .error x | .ok h => .ok (composeSub g' obj h)))
  | .exist _ q, g =>
    let obj := mkSubq (subqRaw env q) none
    (match exQuery env ⟨cteObjs g, [obj], []⟩ q with | .error x => .error x | .ok h => .ok (composeSub g obj h))
def sqDeepL (env : Env) : List Expr → LGraph → Except Err LGraph
  | [], g => .ok g
  | e :: r, g => (match sqDeep env e g with | .error x => .error x | .ok g' => sqDeepL env r g')
def sqDeepW (env : Env) : List When → LGraph → Except Err LGraph
  | [], g => .ok g
  | .mk c r :: rest, g =>
    (match sqDeep env c g with
      | .error x => .error x
      | .ok g' => (match sqDeep env r g' with | .error x => .error x | .ok g'' => sqDeepW env rest g''))

/-- the first `case_expression` among the direct children of the item's `expression`: its WHEN / THEN operands are
    searched for directly bracketed subqueries; returns whether a case was found -/
def sqFirstCase (env : Env) : Expr → Option String → LGraph → Except Err (Bool × LGraph)
  | .bin _ a b, alias, g =>
    (match sqFirstCase env a alias g with
      | .error x => .error x
      | .ok (true, g') => .ok (true, g')
      | .ok (false, g') => sqFirstCase env b alias g')
  | .case ws _, alias, g => (match sqWhens env ws alias g with | .error x => .error x | .ok g' => .ok (true, g'))
  | _, _, g => .ok (false, g)
def sqWhens (env : Env) : List When → Option String → LGraph → Except Err LGraph
  | [], _, g => .ok g
  | .mk c r :: rest, alias, g =>
    (match sqDirect env false c none g with
      | .error x => .error x
      | .ok g' => (match sqDirect env false r alias g' with | .error x => .error x | .ok g'' => sqWhens env rest alias g''))

/-- subqueries that are *directly bracketed children* of an `expression` segment (WHERE, WHEN, THEN).  `inner`: the WHERE
    branch resolves a parenthesised operand to its innermost bracket (`extract_innermost_bracketed`), the CASE branch
    takes the bracket as it is (a parenthesised subquery is then not recognised). -/
def sqDirect (env : Env) (inner : Bool) : Expr → Option String → LGraph → Except Err LGraph
  | .bin _ a b, alias, g =>
    (match sqDirect env inner a alias g with | .error x => .error x | .ok g' => sqDirect env inner b alias g')
  | .subq q, alias, g =>
    let obj := mkSubq (subqRaw env q) alias
    (match exQuery env ⟨cteObjs g, [obj], []⟩ q with | .error x => .error x | .ok h => .ok (composeSub g obj h))
  | .inSubq _ _ q, alias, g =>
    let obj := mkSubq (subqRaw env q) alias
    (match exQuery env ⟨cteObjs g, [obj], []⟩ q with | .error x => .error x | .ok h => .ok (composeSub g obj h))
  | .exist _ q, alias, g =>
    let obj := mkSubq (subqRaw env q) alias
    (match exQuery env ⟨cteObjs g, [obj], []⟩ q with | .error x => .error x | .ok h => .ok (composeSub g obj h))
  | .paren e, alias, g =>
    if inner then (match sqParenChain env e alias g with | .error x => .error x | .ok p => .ok p.2) else .ok g
  | _, _, g => .ok g

/-- `extract_innermost_bracketed`: follow the FIRST bracketed child at each level; extract it if it is a subquery -/
def sqParenChain (env : Env) : Expr → Option String → LGraph → Except Err (Bool × LGraph)
  | .bin _ a b, alias, g =>
    (match sqParenChain env a alias g with
      | .error x => .error x
      | .ok (true, g') => .ok (true, g')
      | .ok (false, g') => sqParenChain env b alias g')
  | .subq q, alias, g =>
    let obj := mkSubq (subqRaw env q) alias
    (match exQuery env ⟨cteObjs g, [obj], []⟩ q with | .error x => .error x | .ok h => .ok (true, composeSub g obj h))
  | .inSubq _ _ q, alias, g =>
    let obj := mkSubq (subqRaw env q) alias
    (match exQuery env ⟨cteObjs g, [obj], []⟩ q with | .error x => .error x | .ok h => .ok (true, composeSub g obj h))
  | .exist _ q, alias, g =>
    let obj := mkSubq (subqRaw env q) alias
    (match exQuery env ⟨cteObjs g, [obj], []⟩ q with | .error x => .error x | .ok h => .ok (true, composeSub g obj h))
  | .paren e, alias, g =>
    (match sqParenChain env e alias g with | .error x => .error x | .ok p => .ok (true, p.2))
  | _, _, g => .ok (false, g)

/-- derived tables of the FROM clause (`list_subqueries`, from_clause / from_expression branches): for every
    from‑expression the base element and the element of every join clause found by the deep crawl (only performed when
    the from‑expression has a top‑level join).  `multi` (more than one from‑expression) no longer makes a difference
    since the D1 repair; the parameter is kept for the callers. -/
def sqFrom (env : Env) (multi : Bool) : List FromExpr → LGraph → Except Err LGraph
  | [], g => .ok g
  | .mk base js :: r, g =>
    (match sqElem env base g with
      | .error x => .error x
      | .ok g' =>
        (match (if js.isEmpty then Except.ok g' else
                  (match cjElem env base g' with | .error x => .error x | .ok g'' => cjJoins env js g'')) with
          | .error x => .error x
          | .ok g'' => sqFrom env multi r g''))
def sqElem (env : Env) : FromElem → LGraph → Except Err LGraph
  | .table _ _ _, g => .ok g
  | .derived q alias _, g =>
    let obj := mkSubq (subqRaw env q) alias
    (match exQuery env ⟨cteObjs g, [obj], []⟩ q with | .error x => .error x | .ok h => .ok (composeSub g obj h))
/- deep crawl (`recursive_crawl("join_clause")`): the derived element of every join found at any depth is extracted as a
    subquery of the CURRENT level -/
def cjExpr (env : Env) : Expr → LGraph → Except Err LGraph
  | .col _ _, g => .ok g
  | .star _, g => .ok g
  | .lit _, g => .ok g
  | .func _ _ args over, g =>
    (match cjExprs env args g with
      | .error x => .error x
      | .ok g' => (match over with | some (.mk p o) => (match cjExprs env p g' with
          | .error x => .error x | .ok g'' => cjExprs env o g'') | none => .ok g'))
  | .cast e _, g => cjExpr env e g
  | .case ws els, g =>
    (match cjWhens env ws g with
      | .error x => .error x
      | .ok g' => (match els with | some e => cjExpr env e g' | none => .ok g'))
  | .bin _ a b, g => (match cjExpr env a g with | .error x => .error x | .ok g' => cjExpr env b g')
  | .paren e, g => cjExpr env e g
  | .subq q, g => cjQuery env q g
  | .inSubq e _ q, g => (match cjExpr env e g with | .error x => .error x | .ok g' => cjQuery env q g')
  | .exist _ q, g => cjQuery env q g
def cjExprs (env : Env) : List Expr → LGraph → Except Err LGraph
  | [], g => .ok g
  | e :: r, g => (match cjExpr env e g with | .error x => .error x | .ok g' => cjExprs env r g')
def cjOptExpr (env : Env) : Option Expr → LGraph → Except Err LGraph
  | none, g => .ok g
  | some e, g => cjExpr env e g
def cjWhens (env : Env) : List When → LGraph → Except Err LGraph
  | [], g => .ok g
  | .mk c r :: rest, g =>
    (match cjExpr env c g with
      | .error x => .error x
      | .ok g' => (match cjExpr env r g' with | .error x => .error x | .ok g'' => cjWhens env rest g''))
def cjItems (env : Env) : List Item → LGraph → Except Err LGraph
  | [], g => .ok g
  | .mk e _ _ :: r, g => (match cjExpr env e g with | .error x => .error x | .ok g' => cjItems env r g')
def cjQuery (env : Env) : Query → LGraph → Except Err LGraph
  | .select _ its frm wh grp hav, g =>
    (match cjItems env its g with
      | .error x => .error x
      | .ok g1 => (match cjFromExprs env frm g1 with
        | .error x => .error x
        | .ok g2 => (match cjOptExpr env wh g2 with
          | .error x => .error x
          | .ok g3 => (match cjExprs env grp g3 with
            | .error x => .error x
            | .ok g4 => cjOptExpr env hav g4))))
  | .setop first rest, g =>
    (match cjBranch env first g with | .error x => .error x | .ok g' => cjOpBranches env rest g')
  | .withq cs body, g =>
    (match cjCtes env cs g with | .error x => .error x | .ok g' => cjQuery env body g')
def cjBranch (env : Env) : Branch → LGraph → Except Err LGraph
  | .mk q _, g => cjQuery env q g
def cjOpBranches (env : Env) : List OpBranch → LGraph → Except Err LGraph
  | [], g => .ok g
  | .mk _ b :: r, g => (match cjBranch env b g with | .error x => .error x | .ok g' => cjOpBranches env r g')
def cjCtes (env : Env) : List Cte → LGraph → Except Err LGraph
  | [], g => .ok g
  | .mk _ q :: r, g => (match cjQuery env q g with | .error x => .error x | .ok g' => cjCtes env r g')
def cjElem (env : Env) : FromElem → LGraph → Except Err LGraph
  | .table _ _ _, g => .ok g
  | .derived q _ _, g => cjQuery env q g
def cjJoins (env : Env) : List Join → LGraph → Except Err LGraph
  | [], g => .ok g
  | .mk _ e on _ :: r, g =>
    (match sqElem env e g with
      | .error x => .error x
      | .ok g1 => (match cjElem env e g1 with
        | .error x => .error x
        | .ok g2 => (match cjOptExpr env on g2 with
          | .error x => .error x
          | .ok g3 => cjJoins env r g3)))
def cjFromExpr (env : Env) : FromExpr → LGraph → Except Err LGraph
  | .mk base js, g => (match cjElem env base g with | .error x => .error x | .ok g' => cjJoins env js g')
def cjFromExprs (env : Env) : List FromExpr → LGraph → Except Err LGraph
  | [], g => .ok g
  | f :: r, g => (match cjFromExpr env f g with | .error x => .error x | .ok g' => cjFromExprs env r g')

def sqWhere (env : Env) : Option Expr → LGraph → Except Err LGraph
  | none, g => .ok g
  | some e, g => sqDirect env true e none g
end

end SqlLineage.Walk
