/-
Column-level operations of `SubQueryLineageHolder` (core/holders.py:105‑240), `Column.to_source_columns`
(core/models.py:208‑243) and `SourceHandlerMixin.end_of_query_cleanup` (core/parser/__init__.py:14‑81).

Python sets are modelled by duplicate‑free lists in insertion order; where the code takes "the first" of a set the model
takes the first in graph order (hash‑seed dependence is the subject of C11, not of this file).
-/
import SqlLineage.Model.Holder
import SqlLineage.Model.Ident
import SqlLineage.Model.Err
import SqlLineage.Gen.Const

namespace SqlLineage.Holder
open SqlLineage Graph

/-- a dataset *object* as the extractors hold it: identity + the alias attribute (`Table.alias` / `SubQuery.alias`) -/
structure DObj where
  d : DS
  alias : Option String
  deriving DecidableEq, Repr, Inhabited

def DObj.printed (o : DObj) : String :=
  match o.d with
  | .table s n => s ++ "." ++ n
  | .path u => u
  | .subq _ => o.alias.getD ""

def DObj.payload (o : DObj) : Option Payload :=
  match o.d with
  | .subq _ => some (.sub (o.alias.getD ""))
  | _ => none

/-- `add_read(obj)` — tables and subqueries have an `alias` attribute, paths do not -/
def addReadO (g : LGraph) (o : DObj) : LGraph :=
  addRead g o.d (match o.d with | .path _ => none | _ => o.alias) o.payload
def addWriteO (g : LGraph) (o : DObj) : LGraph := addWrite g o.d o.payload
def addCteO (g : LGraph) (o : DObj) : LGraph := addCte g o.d o.payload

def dsOf : Node → Option DS
  | .ds d => some d
  | _ => none

/-- dataset nodes carrying tag `t` with value True, in node order (`_property_getter`) -/
def tagSet (g : LGraph) (t : Tag) : List DS :=
  (g.nodes.filter (fun n => g.tag n t == some true)).filterMap dsOf

def readSet (g : LGraph) : List DS := tagSet g .read
def writeSet (g : LGraph) : List DS := tagSet g .write
def cteSet (g : LGraph) : List DS := tagSet g .cte

/-- printed name of a dataset node of the graph (a subquery prints as the alias of the stored key object) -/
def printedDS (g : LGraph) (d : DS) : String :=
  match d with
  | .table s n => s ++ "." ++ n
  | .path u => u
  | .subq _ => match g.payload (.ds d) with | some (.sub a) => a | _ => ""

/-- `_get_target_table` (holders.py:207): first of write ∖ read -/
def targetTable? (g : LGraph) : Option DS :=
  ((writeSet g).filter (fun d => !(readSet g).contains d)).head?

def insertByIdx (x : Node × Nat) : List (Node × Nat) → List (Node × Nat)
  | [] => [x]
  | y :: r => if x.2 < y.2 then x :: y :: r else y :: insertByIdx x r

/-- stable sort by index (`sorted(..., key=lambda x: x[1])`) -/
def sortByIdx (l : List (Node × Nat)) : List (Node × Nat) := l.foldl (fun acc x => insertByIdx x acc) []

/-- `write_columns` (holders.py:105‑123): HAS_COLUMN out‑edges of the target table, stably sorted by `index` (default 0) -/
def writeColumns (g : LGraph) : List Node :=
  match targetTable? g with
  | none => []
  | some t =>
    let es := (g.outEdges (.ds t)).filter (fun c => g.ety (.ds t) c == some .hasColumn)
    (sortByIdx (es.map (fun c => (c, (g.idx (.ds t) c).getD 0)))).map (·.1)

def colOf (g : LGraph) (n : Node) : Option Column :=
  match g.payload n with | some (.col c) => some c | _ => none

/-- `add_write_column(*cols)` (holders.py:125‑142): owner := first of the write set, HAS_COLUMN edges with index -/
def addWriteColumns (g : LGraph) (cols : List Column) : LGraph :=
  match (writeSet g).head? with
  | none => g
  | some t =>
    let tp := (t, printedDS g t)
    (cols.zipIdx).foldl (fun g ci =>
      let c := ci.1.addParent tp
      g.addEdge (.ds t) c.key .hasColumn (some ci.2) none (some (.col c))) g

/-- `add_column_lineage(src, tgt)` (holders.py:144‑152).  `tgt.parent` must be unique: otherwise networkx raises
    `ValueError: None cannot be a node` (an internal error). -/
def addColumnLineage (g : LGraph) (src tgt : Column) : Except Err LGraph :=
  match tgt.parent? with
  | none => .error (.internal "None node")
  | some tp =>
    let g := g.addEdge src.key tgt.key .lineage none (some (.col src)) (some (.col tgt))
    let g := g.addEdge (.ds tp.1) tgt.key .hasColumn none (some (.sub tp.2)) (some (.col tgt))
    match src.parent? with
    | some sp => .ok (g.addEdge (.ds sp.1) src.key .hasColumn none (some (.sub sp.2)) (some (.col src)))
    | none => .ok g

/-- `get_table_columns(table)` (holders.py:154‑161) as column objects -/
def getTableColumns (g : LGraph) (t : DS) : List Column :=
  ((g.outEdges (.ds t)).filter (fun c => g.ety (.ds t) c == some .hasColumn && c.isCol)).filterMap
    (fun c => match colOf g c with | some col => if col.raw != "*" then some col else none | none => none)

/-- `get_source_columns(node)` (holders.py:213‑218) -/
def getSourceColumns (g : LGraph) (n : Node) : List Column :=
  ((g.inEdges n).filter (fun s => g.ety s n == some .lineage && s.isCol)).filterMap (colOf g)

/-! ### alias map and source‑column resolution -/

abbrev AliasMap := List (String × (DS × String))     -- key ↦ (dataset, printed name); later entries win

def amGet (m : AliasMap) (k : String) : Option (DS × String) :=
  (m.reverse.find? (·.1 == k)).map (·.2)

/-- the distinct values of the map (`set(alias_mapping.values())`), in order of first appearance among the
    effective (winning) entries -/
def amValues (m : AliasMap) : List (DS × String) :=
  let keys := (m.map (·.1)).eraseDups
  let vals := keys.filterMap (amGet m)
  vals.foldl (fun acc v => if acc.any (·.1 == v.1) then acc else acc ++ [v]) []

/-- `get_alias_mapping_from_table_group` (holders.py:187‑224, with the D7 repair):
    `unqualified_map | qualified_map | default_alias_map | explicit_alias_map` (later wins) — bare / qualified table names <
    the name of a table WITHOUT alias (its default alias) < an alias written in the query (alias ≠ the table's own bare
    name; every subquery alias) -/
def aliasMapping (g : LGraph) (grp : List DObj) : AliasMap :=
  let inGrp := fun (d : DS) => grp.any (·.d == d)
  let aliasMap : AliasMap := g.edgesOrdered.filterMap (fun e =>
    match e.1, e.2 with
    | .ds d, .str a => if g.ety e.1 e.2 == some .hasAlias && inGrp d then some (a, (d, printedDS g d)) else none
    | _, _ => none)
  let tables := grp.filter (fun o => o.d.isTable)
  let unq : AliasMap := tables.filterMap (fun o => match o.d with | .table _ n => some (n, (o.d, o.printed)) | _ => none)
  let qual : AliasMap := tables.map (fun o => (o.printed, (o.d, o.printed)))
  let dflt : AliasMap := tables.filterMap (fun o =>
    match o.d with
    | .table _ n => if o.alias == some n then some (n, (o.d, o.printed)) else none
    | _ => none)
  let isExplicit := fun (e : String × (DS × String)) => match e.2.1 with | .table _ n => e.1 != n | _ => true
  unq ++ qual ++ dflt ++ aliasMap.filter isExplicit

/-- a select item / SET clause as the extractors leave it: target name (already normalised by `Column.__init__`),
    normalised source references, `from_alias` -/
structure ColSpec where
  raw : String
  srcs : List (String × Option String)
  fromAlias : Bool := false
  deriving DecidableEq, Repr, Inhabited

/-- `Column(name, source_columns=…)`: normalises the name and every (column, qualifier) pair -/
def ColSpec.of (name : String) (srcs : List (String × Option String)) (fromAlias : Bool := false) : ColSpec :=
  ⟨Ident.escapeS name, srcs.map (fun p => (Ident.escapeS p.1, p.2.map Ident.escapeS)), fromAlias⟩

def pushCol (acc : List Column) (c : Column) : List Column :=
  if acc.any (fun x => x.key == c.key) then acc else acc ++ [c]

/-- the `k`‑th permutation of a list (factorial number system); `k = 0` is the identity -/
def permK {α : Type} : Nat → List α → List α
  | _, [] => []
  | k, x :: r =>
    let n := r.length + 1
    let rest := permK (k / n) r
    let i := k % n
    rest.take i ++ [x] ++ rest.drop i

/-- `Column.to_source_columns(alias_mapping)` (models.py:208‑243).  `importDefault` is the schema of the `Table(qualifier)`
    fallback: the default argument `Schema()` evaluated when `core/models.py` was imported. -/
def toSourceColumns (importDefault : String) (m : AliasMap) (c : ColSpec) (revStar : Nat := 0) : List Column :=
  -- `set(alias_mapping.values())` is iterated in hash order; `revStar` selects which order (C11 / D16); 0 = model order
  let amValues := fun (m : AliasMap) => permK revStar (amValues m)
  c.srcs.foldl (fun acc sq =>
    let name := sq.1       -- `Column._from_raw_name(name)`: the already normalised name is kept as it is
    match sq.2 with
    | none =>
      if sq.1 == "*" then
        (amValues m).foldl (fun acc v => pushCol acc (Column.mk1 name (some v))) acc
      else
        pushCol acc ((amValues m).foldl (fun col v => col.addParent v) (Column.mk1 name none))
    | some q =>
      match amGet m q with
      | some v => pushCol acc (Column.mk1 name (some v))
      | none =>
        -- `Table(qualifier)`: the qualifier is normalised once more by the constructor
        let tn := Ident.escapeS q
        pushCol acc (Column.mk1 name (some (.table importDefault tn, importDefault ++ "." ++ tn)))) []

/-! ### end_of_query_cleanup -/

def slice {α : Type} (l : List α) (a b : Nat) : List α := (l.drop a).take (b - a)

/-- one select item of a union group (parser/__init__.py:29‑74, lateral‑alias branch off).  The inner loop over the
    source columns does not change the graph, so `holder.write_columns` is the same at each of its iterations: the item is
    wired to `write_columns[idx]` when their number equals the group's size (and the item has at least one source),
    else to its own name. -/
def cleanupItem (importDefault : String) (tp : DS × String) (grpLen : Nat) (tblGrp : List DObj)
    (g : LGraph) (ci : ColSpec × Nat) (revStar : Nat := 0) : Except Err LGraph :=
  let own : Column := Column.mk1 ci.1.raw (some tp)
  let srcs := toSourceColumns importDefault (aliasMapping g tblGrp) ci.1 revStar
  if srcs.isEmpty then .ok g
  else
    let wc := writeColumns g
    let tgt : Column :=
      if wc.length == grpLen then (match wc[ci.2]? with | some n => (colOf g n).getD own | none => own) else own
    srcs.foldlM (fun g s => addColumnLineage g s tgt) g

/-- the body of the loop over one union group (parser/__init__.py:24‑81) -/
def cleanupGroup (importDefault : String) (g : LGraph) (colGrp : List ColSpec) (tblGrp : List DObj)
    (revStar : Nat := 0) : Except Err LGraph :=
  match writeSet g with
  | [] => .ok g
  | [t] => (colGrp.zipIdx).foldlM (fun g ci => cleanupItem importDefault (t, printedDS g t) colGrp.length tblGrp g ci revStar) g
  | _ => .error .lineage

/-- `end_of_query_cleanup` (parser/__init__.py:14‑23): reads, then one group per union barrier -/
def endOfQueryCleanup (importDefault : String) (g : LGraph) (tables : List DObj) (columns : List ColSpec)
    (barriers : List (Nat × Nat)) (revStar : Nat := 0) : Except Err LGraph :=
  let g := tables.foldl addReadO g
  let bs := barriers ++ [(columns.length, tables.length)]
  let rec go (g : LGraph) (prev : Nat × Nat) : List (Nat × Nat) → Except Err LGraph
    | [] => .ok g
    | b :: r =>
      match cleanupGroup importDefault g (slice columns prev.1 b.1) (slice tables prev.2 b.2) revStar with
      | .ok g' => go g' b r
      | .error e => .error e
  go g (0, 0) bs

/-! ### wildcard expansion (holders.py:163‑185, 220‑240) -/

/-- what an extractor may ask a metadata provider: `bool(provider)` and `get_table_columns(table)` (raw names) -/
structure ProvView where
  truthy : Bool
  cols : String → List String

def ProvView.none : ProvView := ⟨false, fun _ => []⟩

/-- `provider.get_table_columns(table)`: `Column(col)` (normalising) with the table as owner -/
def provColumns (p : ProvView) (t : DS) (printed : String) : List Column :=
  (p.cols printed).map (fun c => Column.mk1 (Ident.escapeS c) (some (t, printed)))

/-- `_replace_wildcard` (holders.py).  Two repairs are mirrored: D47 — a target column that is merely LISTED (known from
    metadata) is still wired, only one that already has a source keeps it (`get_source_columns(new_column)` is evaluated on
    the graph as it is at that iteration); D48 — the target wildcard is removed only when no other (un‑expandable)
    wildcard feeds it any more, after the expanded source wildcard was removed. -/
def replaceWildcard (g : LGraph) (tgt : DS) (srcCols : List Column) (tgtWild srcWild : Node) : LGraph :=
  let tp := (tgt, printedDS g tgt)
  let existing := (getTableColumns g tgt).map (·.key)       -- computed once, before the loop
  let g := srcCols.foldl (fun g sc =>
    let nc := Column.mk1 sc.raw (some tp)        -- `Column._from_raw_name(src_col.raw_name)`
    if sc.raw == "*" || (existing.contains nc.key && !(getSourceColumns g nc.key).isEmpty) then g
    else
      let g := g.addEdge (.ds tgt) nc.key .hasColumn none none (some (.col nc))
      let g := match sc.parent? with
        | some sp => g.addEdge (.ds sp.1) sc.key .hasColumn none (some (.sub sp.2)) (some (.col sc))
        | none => g
      g.addEdge sc.key nc.key .lineage none (some (.col sc)) (some (.col nc))) g
  let g := if g.hasNode srcWild then g.removeNode srcWild else g
  if g.hasNode tgtWild && (getSourceColumns g tgtWild).isEmpty then g.removeNode tgtWild else g

def expandWildcard (p : ProvView) (g : LGraph) : LGraph :=
  match targetTable? g with
  | none => g
  | some tgt =>
    -- write columns are `Column` objects (column nodes)
    ((writeColumns g).filter Node.isCol).foldl (fun g wn =>
      match colOf g wn with
      | some wc =>
        if wc.raw == "*" then
          (getSourceColumns g wn).foldl (fun g sw =>
            match sw.parent? with
            | some sp =>
              let cols : List Column :=
                match sp.1 with
                | .subq _ => getTableColumns g sp.1
                | .table _ _ => if p.truthy then provColumns p sp.1 sp.2 else []
                | .path _ => []
              if cols.isEmpty then g else replaceWildcard g tgt cols wn sw.key
            | none => g) g
        else g
      | none => g) g

end SqlLineage.Holder
