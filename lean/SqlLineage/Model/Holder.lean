/-
Model of `SubQueryLineageHolder` / `StatementLineageHolder` primitives (core/holders.py:55‑295): the tag setters
and edge adders.  A holder is its graph.
-/
import SqlLineage.Model.Node

namespace SqlLineage.Holder
open SqlLineage Graph

/-- `add_read(value)` (holders.py:83‑87): READ tag, plus a HAS_ALIAS edge to the *string* `value.alias`
    (tables and subqueries have an alias attribute; paths do not) -/
def addRead (g : LGraph) (d : DS) (alias : Option String) (p : Option Payload := none) : LGraph :=
  let g := g.setTag (.ds d) .read true p
  match alias with
  | some a => g.addEdge (.ds d) (.str a) .hasAlias
  | none => g

/-- `add_write(value)` (holders.py:95) -/
def addWrite (g : LGraph) (d : DS) (p : Option Payload := none) : LGraph := g.setTag (.ds d) .write true p
/-- `add_cte(value)` (holders.py:102) -/
def addCte (g : LGraph) (d : DS) (p : Option Payload := none) : LGraph := g.setTag (.ds d) .cte true p
/-- `add_drop(value)` (holders.py:276) -/
def addDrop (g : LGraph) (d : DS) : LGraph := g.setTag (.ds d) .drop true
/-- `add_rename(src, tgt)` (holders.py:300): the RENAME edge carries `index = len(self.rename)`, the number of RENAME edges the holder
    already has — the position of the pair in a multi‑pair RENAME statement (D10 repaired) -/
def addRename (g : LGraph) (a b : DS) : LGraph :=
  g.addEdge (.ds a) (.ds b) .rename (some (g.edges.filter (fun e => g.ety e.1 e.2 == some .rename)).length)

end SqlLineage.Holder
