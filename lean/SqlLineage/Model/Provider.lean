/-
Model of the metadata provider, its session, and the runner's evaluation as a state machine over the provider.

Mirrors
  `sqllineage/core/metadata_provider.py`   `MetaDataProvider` (:24-61), `MetaDataSession` (:64-81)
  `sqllineage/core/metadata/dummy.py`      `DummyMetaDataProvider` (truthiness `len(metadata) > 0`, :21-22)
  `sqllineage/runner.py`                   `_eval` (:185-218), the shared default argument (:41)
and the three call sites at which an analysis consults the provider — all of them gated on `bool(provider)`:
  `core/holders.py:174` (wildcard expansion), `core/holders.py:426` (unresolved columns, final assembly) — line numbers of
  the pinned commit; one line further down since the `fix:` commit 8290e64 —,
  `core/parser/sqlfluff/extractors/create_insert.py:111` (target columns of INSERT), and
  `core/parser/__init__.py:46-53` (lateral alias check; `if metadata_provider := getattr(...)` is the same gate).

What is concrete here: the provider state (immutable base map + session map), `get_table_columns` (session entry
wins), `register` (dict store: overwrites the key), `deregister` (`clear()`), truthiness, the `with session` bracket,
the statement loop with "register the first write target if it is a Table with non‑wildcard columns", a provider that
raises on chosen base lookups, and every exit path of `_eval`.
What is abstract: the analysis of one statement and the final assembly are *arbitrary* decision trees (`Analysis`)
that may look the provider up (gated), see the answers, return a value or raise.  The theorems of `Props/C12.lean`
quantify over all of them.

Two semantics of the same program tree (`Tree`): big‑step `exec` (used by `runScript`) and one‑access‑per‑step
`Tree.step` (used for interleavings of threads).  No Mathlib imports here (the driver is compiled).
-/
namespace SqlLineage.Provider

abbrev Name := String            -- printed table name, `str(table)` = "schema.table" (core/models.py:67-68)
abbrev Cols := List String       -- column raw names
abbrev TableMap := List (Name × Cols)   -- a Python dict[str, list[str]] in insertion order

/-- `d.get(k)` -/
def mget (m : TableMap) (k : Name) : Option Cols :=
  match m with
  | [] => none
  | (k', v) :: r => if k' = k then some v else mget r k

/-- `d[k] = v` : replaces the value of an existing key (position kept), appends a new key -/
def mset (m : TableMap) (k : Name) (v : Cols) : TableMap :=
  match m with
  | [] => [(k, v)]
  | (k', v') :: r => if k' = k then (k, v) :: r else (k', v') :: mset r k v

/-- which `__bool__` the provider object has -/
inductive Kind
  | dict    -- `DummyMetaDataProvider`: `len(self.metadata) > 0` (dummy.py:21-22)
  | other   -- any other subclass: inherited `__bool__` returns True (metadata_provider.py:57-61)
  deriving DecidableEq, Repr, Inhabited

/-- A provider object.  `base` is what `_get_table_columns` answers from (the `metadata` dict of the dummy provider, the
    database of another provider) and is never written by the library; `session` is `_session_metadata` (:25). -/
structure Provider where
  kind : Kind
  base : TableMap
  session : TableMap
  deriving DecidableEq, Repr, Inhabited

/-- a newly constructed provider over the same metadata: `_session_metadata = {}` (:24-25) -/
def fresh (kind : Kind) (base : TableMap) : Provider := ⟨kind, base, []⟩

/-- the module‑level default `DummyMetaDataProvider()` evaluated once at import (runner.py:41): no metadata, falsy;
    every `LineageRunner(sql)` without an explicit provider shares this one value -/
def defaultProvider : Provider := fresh .dict []

/-- `bool(provider)` -/
def Provider.truthy (p : Provider) : Bool :=
  match p.kind with
  | .dict => !p.base.isEmpty
  | .other => true

/-- `_get_table_columns(schema, table)`; the dummy provider returns `metadata.get(key, [])` (dummy.py:18-19) -/
def Provider.baseColumns (p : Provider) (t : Name) : Cols := (mget p.base t).getD []

/-- `get_table_columns(table)` (:27-40): the session entry wins, otherwise the base answer -/
def Provider.getTableColumns (p : Provider) (t : Name) : Cols :=
  match mget p.session t with
  | some c => c
  | none => p.baseColumns t

/-- `register_session_metadata(table, columns)` (:46-48) -/
def Provider.register (p : Provider) (t : Name) (cols : Cols) : Provider :=
  { p with session := mset p.session t cols }

/-- `deregister_session_metadata()` (:50-52): `_session_metadata.clear()` -/
def Provider.deregister (p : Provider) : Provider := { p with session := [] }

/-! ### errors, provider accesses, events -/

inductive Err
  | invalidSyntax          -- `InvalidSyntaxException`
  | unsupported            -- `UnsupportedStatementException`
  | provider               -- whatever `_get_table_columns` raised (connection lost, …)
  | other (tag : String)   -- any other exception
  deriving DecidableEq, Repr, Inhabited

/-- what reaches the provider object, in order (this is what the harness' `TapProvider` logs) -/
inductive Event
  | analyze (i : Nat)                      -- statement tap: `analyzer.analyze` entered for statement `i` (not a provider access)
  | lookupSession (t : Name) (ans : Cols)  -- `get_table_columns` answered from `_session_metadata`
  | lookupBase (t : Name) (ans : Cols)     -- `get_table_columns` fell through to `_get_table_columns`, which answered
  | lookupRaised (t : Name)                -- … which raised
  | register (t : Name) (cols : Cols)
  | deregister
  deriving DecidableEq, Repr, Inhabited

/-- what the caller of a gated lookup `if provider: provider.get_table_columns(t)` gets back -/
inductive Reply
  | gated            -- provider is falsy: the lookup is not performed
  | cols (c : Cols)
  | raised           -- `_get_table_columns` raised; the exception is in flight
  deriving DecidableEq, Repr, Inhabited

/-- state of one run against a provider: the provider plus the number of `_get_table_columns` calls made so far in
    this run (the counter of the fault‑injecting provider) -/
structure PState where
  prov : Provider
  nBase : Nat
  deriving DecidableEq, Repr, Inhabited

/-- one gated lookup.  `fails j` says whether the provider raises on its `j`‑th base lookup of the run (0‑based). -/
def answer (fails : Nat → Bool) (st : PState) (t : Name) : PState × Reply × List Event :=
  if st.prov.truthy then
    match mget st.prov.session t with
    | some c => (st, .cols c, [.lookupSession t c])
    | none =>
      if fails st.nBase then ({ st with nBase := st.nBase + 1 }, .raised, [.lookupRaised t])
      else ({ st with nBase := st.nBase + 1 }, .cols (st.prov.baseColumns t), [.lookupBase t (st.prov.baseColumns t)])
  else (st, .gated, [])

/-! ### program trees: everything a run does to the provider -/

/-- A run (or a part of it) as a decision tree over provider accesses.  Exceptions are values here (`α` is an
    `Except Err _` where it matters), so that "what happens on the exceptional path" is explicit. -/
inductive Tree (α : Type) where
  | ret (a : α)
  | lookup (t : Name) (k : Reply → Tree α)            -- gated `get_table_columns`
  | register (t : Name) (cols : Cols) (k : Tree α)
  | deregister (k : Tree α)
  | mark (i : Nat) (k : Tree α)                       -- statement tap marker, no provider access

def Tree.bind : Tree α → (α → Tree β) → Tree β
  | .ret a, f => f a
  | .lookup t k, f => .lookup t (fun r => (k r).bind f)
  | .register t c k, f => .register t c (k.bind f)
  | .deregister k, f => .deregister (k.bind f)
  | .mark i k, f => .mark i (k.bind f)

/-- big‑step execution: final state, returned value, events in order -/
def exec (fails : Nat → Bool) : PState → Tree α → PState × α × List Event
  | st, .ret a => (st, a, [])
  | st, .lookup t k =>
    let r := answer fails st t
    let r2 := exec fails r.1 (k r.2.1)
    (r2.1, r2.2.1, r.2.2 ++ r2.2.2)
  | st, .register t c k =>
    let r2 := exec fails { st with prov := st.prov.register t c } k
    (r2.1, r2.2.1, .register t c :: r2.2.2)
  | st, .deregister k =>
    let r2 := exec fails { st with prov := st.prov.deregister } k
    (r2.1, r2.2.1, .deregister :: r2.2.2)
  | st, .mark i k =>
    let r2 := exec fails st k
    (r2.1, r2.2.1, .analyze i :: r2.2.2)

/-- one step: at most one provider access; a finished tree stays put -/
def Tree.step (fails : Nat → Bool) (st : PState) : Tree α → PState × Tree α × List Event
  | .ret a => (st, .ret a, [])
  | .lookup t k => let r := answer fails st t; (r.1, k r.2.1, r.2.2)
  | .register t c k => ({ st with prov := st.prov.register t c }, k, [.register t c])
  | .deregister k => ({ st with prov := st.prov.deregister }, k, [.deregister])
  | .mark i k => (st, k, [.analyze i])

def Tree.result? : Tree α → Option α
  | .ret a => some a
  | _ => none

/-! ### abstract analyses -/

/-- What the analysis of one statement (or the final assembly) may do: look tables up through the gate and see the
    answers (`none` = gate closed), return, or raise.  A provider exception during a lookup is not seen by the
    analysis — nothing in `sqllineage/core` catches it — it propagates (see `Analysis.toTree`). -/
inductive Analysis (β : Type) where
  | done (b : β)
  | raise (e : Err)
  | lookup (t : Name) (k : Option Cols → Analysis β)

/-- how the caller of a gated lookup continues: with the answer (`none` = gate closed), or with the exception -/
def onReply (onAns : Option Cols → Tree γ) (onRaise : Tree γ) : Reply → Tree γ
  | .gated => onAns none
  | .cols c => onAns (some c)
  | .raised => onRaise

def Analysis.toTree : Analysis β → Tree (Except Err β)
  | .done b => .ret (.ok b)
  | .raise e => .ret (.error e)
  | .lookup t k => .lookup t (onReply (fun a => (k a).toTree) (.ret (.error .provider)))

/-- an element of `StatementLineageHolder.write` -/
inductive WriteTarget
  | table (name : Name) (cols : Cols)   -- a `Table` with the `HAS_COLUMN` columns the holder knows for it (may contain "*")
  | nonTable (what : String)            -- a `Path` (or anything that is not a `Table`)
  deriving DecidableEq, Repr, Inhabited

/-- the statement holder as far as the runner looks at it: an opaque payload and the write set in iteration order -/
structure StmtOut (H : Type) where
  holder : H
  write : List WriteTarget

/-- runner.py:206-211: `if write := holder.write: tgt = next(iter(write)); if isinstance(tgt, Table) and
    (cols := holder.get_table_columns(tgt))` — `get_table_columns` of the *holder* drops `*` (holders.py:154-161) -/
def regOf (o : StmtOut H) : Option (Name × Cols) :=
  match o.write with
  | .table t cols :: _ =>
    let cs := cols.filter (· != "*")
    if cs.isEmpty then none else some (t, cs)
  | _ => none

/-- a script after `split`: its statements, and the final assembly `SQLLineageHolder.of(provider, *holders)` -/
structure Script (H R : Type) where
  stmts : List (Analysis (StmtOut H))
  assemble : List (StmtOut H) → Analysis R

/-- where a run is made to fail, in addition to whatever the statements do by themselves -/
structure Faults where
  split : Option Err := none               -- `split` / `split_tsql` raises (runner.py:193-200): before the session opens
  analyzeAt : Option (Nat × Err) := none   -- statement tap: `analyze` raises on entry at statement `k` (0‑based)
  lookupFails : List Nat := []             -- the provider raises on these base lookups of the run (0‑based)
  assemble : Option Err := none            -- `SQLLineageHolder.of` raises on entry
  deriving Repr, Inhabited

def Faults.fails (f : Faults) (j : Nat) : Bool := f.lookupFails.contains j

def Faults.none : Faults := {}

/-! ### the runner (`LineageRunner._eval`, runner.py:185-218) -/

/-- `analyzer.analyze(stmt, session.metadata_provider)` under the statement tap -/
def analyzeAt (f : Faults) (i : Nat) (a : Analysis β) : Tree (Except Err β) :=
  .mark i (match f.analyzeAt with
    | some (k, e) => if k = i then .ret (.error e) else a.toTree
    | none => a.toTree)

/-- the `for stmt in self._stmt` loop (:204-212); `acc` = `stmt_holders` so far -/
def stmtLoop (f : Faults) : Nat → List (Analysis (StmtOut H)) → List (StmtOut H) → Tree (Except Err (List (StmtOut H)))
  | _, [], acc => .ret (.ok acc)
  | i, a :: rest, acc =>
    (analyzeAt f i a).bind fun
      | .error e => .ret (.error e)                       -- exception leaves the loop
      | .ok o =>
        match regOf o with
        | some (t, cs) => .register t cs (stmtLoop f (i + 1) rest (acc ++ [o]))
        | none => stmtLoop f (i + 1) rest (acc ++ [o])

/-- the body of the `with` block (:203-216) -/
def body (s : Script H R) (f : Faults) : Tree (Except Err R) :=
  (stmtLoop f 0 s.stmts []).bind fun
    | .error e => .ret (.error e)
    | .ok holders =>
      match f.assemble with
      | some e => .ret (.error e)
      | none => (s.assemble holders).toTree

/-- `MetaDataSession.__exit__(exc_type, exc_val, exc_tb)` (:77-78): deregisters whatever the arguments are, and
    returns `None`, so an in‑flight exception keeps propagating -/
def sessionExit (_exc : Option Err) (k : Tree α) : Tree α := .deregister k

/-- `with provider.session() as session: body` — `session()` and `__enter__` (:54-55, :74-75) touch nothing; once
    entered, `__exit__` runs on every way out of `body`, with the in‑flight exception if there is one -/
def withSession (b : Tree (Except Err α)) : Tree (Except Err α) :=
  b.bind fun r =>
    sessionExit (match r with | .error e => some e | .ok _ => none) (.ret r)

/-- the whole of `_eval`: a fresh analyzer and fresh holders per call (:186-192) mean the tree depends on nothing but
    the script; `split` runs before the `with` statement, so a failure there never enters the session -/
def runTree (s : Script H R) (f : Faults) : Tree (Except Err R) :=
  match f.split with
  | some e => .ret (.error e)
  | none => withSession (body s f)

/-- what a run shows to the outside: its result (or the exception that escaped) and everything it did to / asked of
    the provider -/
structure Outcome (R : Type) where
  result : Except Err R
  events : List Event

def runScript (p : Provider) (s : Script H R) (f : Faults) : Provider × Outcome R :=
  let r := exec f.fails ⟨p, 0⟩ (runTree s f)
  (r.1.prov, ⟨r.2.1, r.2.2⟩)

/-- a history of runs on ONE provider value (a reused provider object, or the shared default) -/
def runHistory (p : Provider) : List (Script H R × Faults) → Provider × List (Outcome R)
  | [] => (p, [])
  | (s, f) :: rest =>
    let r := runScript p s f
    let r2 := runHistory r.1 rest
    (r2.1, r.2 :: r2.2)

/-! ### several provider objects; threads -/

/-- the provider objects of a process, by identity -/
abbrev World := Nat → Provider

def World.set (w : World) (i : Nat) (p : Provider) : World := fun j => if j = i then p else w j

/-- a complete run against provider object `i` -/
def runOn (w : World) (i : Nat) (s : Script H R) (f : Faults) : World × Outcome R :=
  let r := runScript (w i) s f
  (w.set i r.1, r.2)

/-- a thread in the middle of a run: which provider object it uses, its own fault plan and lookup counter, what is left
    of its program.  Everything except the provider object is private to the thread (fresh analyzer and holders per
    run, runner.py:186-192, :203). -/
structure Thread (α : Type) where
  pid : Nat
  fails : Nat → Bool
  nBase : Nat
  tree : Tree α

/-- one scheduling decision: thread `i` performs its next provider access -/
def wstep (w : World) (ths : Nat → Thread α) (i : Nat) : World × (Nat → Thread α) :=
  let th := ths i
  let r := th.tree.step th.fails ⟨w th.pid, th.nBase⟩
  (w.set th.pid r.1.prov, fun j => if j = i then { th with nBase := r.1.nBase, tree := r.2.1 } else ths j)

/-- any interleaving: a list of thread ids -/
def wrun (w : World) (ths : Nat → Thread α) : List Nat → World × (Nat → Thread α)
  | [] => (w, ths)
  | i :: sched => let r := wstep w ths i; wrun r.1 r.2 sched

/-- a thread running alone for `n` steps on a private copy of its provider -/
def stepN (fails : Nat → Bool) : Nat → PState → Tree α → PState × Tree α
  | 0, st, t => (st, t)
  | n + 1, st, t => let r := t.step fails st; stepN fails n r.1 r.2.1

/-! ### finite descriptions of statements (used by the driver, the correspondence check and the examples)

A description says which tables the statement looks up (in order), whether it raises, and how the column list of its
first write target is put together from literal columns and from the answers it saw. -/

inductive Part
  | lit (c : Cols)   -- columns named in the statement
  | ans (i : Nat)    -- the answer to the `i`‑th lookup of this statement (a `*` that the answer expands; stays `*` if unknown)
  deriving DecidableEq, Repr, Inhabited

inductive WriteDesc
  | table (t : Name) (parts : List Part)
  | nonTable (what : String)
  deriving DecidableEq, Repr, Inhabited

structure StmtDesc where
  lookups : List Name := []
  raises : Option Err := none
  write : Option WriteDesc := none
  deriving Repr, Inhabited

/-- the payload of a described statement's holder: the answers it saw -/
abbrev Seen := List (Option Cols)

def askAll : List Name → (Seen → Analysis β) → Analysis β
  | [], k => k []
  | t :: r, k => .lookup t (fun a => askAll r (fun as => k (a :: as)))

def partCols (seen : Seen) : Part → Cols
  | .lit c => c
  | .ans i =>
    match seen[i]? with
    | some (some (c :: cs)) => c :: cs
    | _ => ["*"]

def StmtDesc.toAnalysis (d : StmtDesc) : Analysis (StmtOut Seen) :=
  askAll d.lookups fun seen =>
    match d.raises with
    | some e => .raise e
    | none =>
      .done ⟨seen, match d.write with
        | none => []
        | some (.table t parts) => [.table t (parts.flatMap (partCols seen)).eraseDups]
        | some (.nonTable x) => [.nonTable x]⟩

structure ScriptDesc where
  stmts : List StmtDesc
  assembleLookups : List Name := []
  deriving Repr, Inhabited

/-- result of a described script: what each statement saw, and what the assembly saw -/
abbrev DescResult := List Seen × Seen

def ScriptDesc.toScript (d : ScriptDesc) : Script Seen DescResult where
  stmts := d.stmts.map StmtDesc.toAnalysis
  assemble := fun holders => askAll d.assembleLookups fun seen => .done (holders.map (·.holder), seen)

end SqlLineage.Provider
