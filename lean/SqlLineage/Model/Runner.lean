/-
Model of `LineageRunner._eval` (runner.py:185‑218) after splitting, and of the public accessors.
-/
import SqlLineage.Model.Stmt
import SqlLineage.Model.Assemble
import SqlLineage.Model.Paths

namespace SqlLineage.Runner
open SqlLineage Ast Holder Graph Walk

/-- a dict‑backed provider (`DummyMetaDataProvider`): base metadata + session metadata -/
structure Provider where
  base : List (String × List String)
  session : List (String × List String) := []

def lookup (m : List (String × List String)) (k : String) : Option (List String) :=
  (m.reverse.find? (·.1 == k)).map (·.2)

/-- `bool(provider)` is `len(metadata) > 0`; `get_table_columns`: session entry first, else the base dict -/
def Provider.view (p : Provider) : ProvView :=
  ⟨!p.base.isEmpty, fun k => match lookup p.session k with | some c => c | none => (lookup p.base k).getD []⟩

def Provider.asmView (p : Provider) : Assemble.Prov :=
  ⟨!p.base.isEmpty, fun k => match lookup p.session k with | some c => c | none => (lookup p.base k).getD []⟩

/-- runner.py:205‑211: after a statement, the first write target's non‑wildcard columns are registered -/
def register (p : Provider) (h : LGraph) : Provider :=
  match (Assemble.stmtWrite h).head? with
  | some (.ds (.table s n)) =>
    let cols := (getTableColumns h (.table s n)).map (·.raw)
    if cols.isEmpty then p else { p with session := p.session ++ [(s ++ "." ++ n, cols)] }
  | _ => p

structure Config where
  cfgDefault : String := ""
  importDefault : String := Gen.Const.schemaUnknown
  silent : Bool := false
  ro : Render.Opts := {}
  revStar : Nat := 0

def analyzeAll (c : Config) : Provider → List Stmt → Except Err (Provider × List LGraph)
  | p, [] => .ok (p, [])
  | p, s :: r =>
    match analyze ⟨c.cfgDefault, c.importDefault, p.view, c.ro, c.revStar⟩ c.silent s with
    | .error e => .error e
    | .ok h =>
      match analyzeAll c (register p h) r with
      | .error e => .error e
      | .ok (p', hs) => .ok (p', h :: hs)

/-- the combined graph of a script (the session is cleared afterwards by the `with` block — see `Props.C12`) -/
def eval (c : Config) (base : List (String × List String)) (stmts : List Stmt) : Except Err (LGraph × List LGraph) :=
  match analyzeAll c ⟨base, []⟩ stmts with
  | .error e => .error e
  | .ok (p, hs) =>
    match Assemble.build p.asmView hs with
    | .error e => .error e
    | .ok g => .ok (g, hs)

end SqlLineage.Runner
