/-
Generic model of the sqlfluff segment tree as far as the extractors' *filtering* layer looks at it
(`sqllineage/core/parser/sqlfluff/utils.py`): a segment has a type, its raw text, the three flags `is_whitespace`,
`is_comment`, `is_meta`, and children.  What the lexer/parser put where is NOT modelled (DESIGN §3); the model says what
the extractors see of a given tree, and `insertNoise` / `strip` say which trees differ only in layout and comments.

  isNegligible        utils.py:19-25
  isSetExpression     utils.py:28-31
  iter0/iter1/iter2   sqlfluff/core/parser/segments/base.py:1087-1097 `iter_segments(expanding, pass_through)`
  listChildSegments   utils.py:197-219 (both branches)
  extractIdentifier   utils.py:222-225
  nextSegment         extractors/merge.py:35-36,109 (`segments[i + 1]` over the FILTERED list)
  tableParts          sqlfluff/models.py:43-75 `SqlFluffTable.of` — with the repair D40 (noise dropped before the positional
                      logic); `tablePartsRaw` is the code before the repair
  splitKeep           utils/helpers.py:55-69 `split`: the filter that drops `;`-only and comment-only pieces
  cutPieces / splitModel   sqlparse's statement splitter at nesting level 0 (engine/statement_splitter.py) over a given token
                      stream, followed by that filter (sqlparse's lexer is not modelled: tokens are given)

Core Lean only.
-/
namespace SqlLineage.Segments

inductive Seg
  | mk (type : String) (raw : String) (isWhitespace isComment isMeta : Bool) (children : List Seg)
  deriving Repr, Inhabited

namespace Seg
def type : Seg → String | mk t _ _ _ _ _ => t
def raw : Seg → String | mk _ r _ _ _ _ => r
def isWhitespace : Seg → Bool | mk _ _ w _ _ _ => w
def isComment : Seg → Bool | mk _ _ _ c _ _ => c
def isMeta : Seg → Bool | mk _ _ _ _ m _ => m
def children : Seg → List Seg | mk _ _ _ _ _ k => k
/-- a code leaf (keyword, identifier, symbol, literal …) -/
def leaf (type raw : String) : Seg := mk type raw false false false []
/-- an inner node; its raw text is the concatenation of its children's -/
def node (type : String) (children : List Seg) : Seg :=
  mk type (String.join (children.map raw)) false false false children
end Seg

/-- `is_negligible` (utils.py:19-25) -/
def isNegligible (s : Seg) : Bool :=
  s.isWhitespace || s.isComment || s.isMeta || (s.type == "symbol" && s.raw != "*")

/-- `is_set_expression` (utils.py:28-31) -/
def isSetExpression (s : Seg) : Bool :=
  s.type == "set_expression" || s.children.any (fun c => c.type == "set_expression")

/-- `seg.is_type(*expanding)`; sqlfluff compares with the class's type set, the model with the segment's own type -/
def isType (ts : List String) (s : Seg) : Bool := ts.contains s.type

/-- `iter_segments(expanding=None)` -/
def iter0 (s : Seg) : List Seg := s.children
/-- `iter_segments(expanding=ts, pass_through=False)`: an expanded child is iterated with `expanding=None` -/
def iter1 (ts : List String) (s : Seg) : List Seg :=
  s.children.flatMap (fun c => if isType ts c then iter0 c else [c])
/-- `iter_segments(expanding=ts, pass_through=True)`: an expanded child is iterated with `expanding=ts` (and the default
    `pass_through=False`), so the expansion is two levels deep -/
def iter2 (ts : List String) (s : Seg) : List Seg :=
  s.children.flatMap (fun c => if isType ts c then iter1 ts c else [c])

def keepTypes : List String := ["column_reference", "column_definition"]

/-- what the bracketed branch appends for one iterated segment (utils.py:211-216) -/
def emit (g : Seg) : List Seg :=
  if keepTypes.contains g.type then [g] else g.children.filter (fun s => !isNegligible s)

/-- `list_child_segments(segment, check_bracketed)` (utils.py:197-219) -/
def listChildSegments (s : Seg) (checkBracketed : Bool := true) : List Seg :=
  if s.type == "bracketed" && checkBracketed then
    if isSetExpression s then s.children.filter (fun c => c.type == "set_expression")
    else (iter2 ["expression"] s).flatMap emit
  else s.children.filter (fun c => !isNegligible c)

/-- `extract_identifier` (utils.py:222-225): raw text of the LAST non-negligible child; `none` = IndexError -/
def extractIdentifier (s : Seg) : Option String := (listChildSegments s).getLast?.map Seg.raw

/-- `segments[i + 1]` of merge.py:109, where `segments = list_child_segments(statement)` -/
def nextSegment (s : Seg) (i : Nat) : Option Seg := (listChildSegments s)[i + 1]?

/-! ### layout and comments: the segments the lexer produces for them -/

inductive NoiseKind
  | whitespace | newline | inlineComment | blockComment | comment | indent | dedent | placeholder | templateLoop | endOfFile
  deriving DecidableEq, Repr

structure Noise where
  kind : NoiseKind
  raw : String
  deriving Repr

def NoiseKind.typeName : NoiseKind → String
  | .whitespace => "whitespace" | .newline => "newline" | .inlineComment => "inline_comment"
  | .blockComment => "block_comment" | .comment => "comment" | .indent => "indent" | .dedent => "dedent"
  | .placeholder => "placeholder" | .templateLoop => "template_loop" | .endOfFile => "end_of_file"

/-- the raw segment sqlfluff creates: whitespace/newline have `is_whitespace`, comments `is_comment`, the rest `is_meta`;
    all of them are leaves -/
def Noise.toSeg (n : Noise) : Seg :=
  match n.kind with
  | .whitespace | .newline => .mk n.kind.typeName n.raw true false false []
  | .inlineComment | .blockComment | .comment => .mk n.kind.typeName n.raw false true false []
  | .indent | .dedent | .placeholder | .templateLoop | .endOfFile => .mk n.kind.typeName n.raw false false true []

/-- `ns i` is put in front of the i-th element (counting from `i₀`), `ns (i₀ + length)` at the end -/
def interleave (ns : Nat → List Seg) : Nat → List Seg → List Seg
  | i, [] => ns i
  | i, c :: r => ns i ++ c :: interleave ns (i + 1) r

/-- insert arbitrary whitespace / comment / meta segments between the children of a segment, at any position.  The stored
    raw text of the segment itself is left alone: the filtering layer reads the raw text of leaves only (what the raw text of
    an inner node is used for — the identity of a subquery, the display name of an expression — is outside this model). -/
def insertNoise (ns : Nat → List Noise) : Seg → Seg
  | .mk t r w c m kids => .mk t r w c m (interleave (fun i => (ns i).map Noise.toSeg) 0 kids)

/-- the segment types the filtering layer tests for by name -/
def reservedTypes : List String := ["set_expression", "expression", "column_reference", "column_definition"]

/-- a layout / comment / meta LEAF (what `Noise.toSeg` produces, whatever its type name — except the names the filter
    itself looks for, which no lexer gives to such a leaf) -/
def isNoise (s : Seg) : Bool :=
  (s.isWhitespace || s.isComment || s.isMeta) && s.children.isEmpty && !reservedTypes.contains s.type

mutual
/-- remove layout, comments and meta leaves at EVERY depth.  The stored raw text of an inner node (which in sqlfluff is the
    concatenation of its leaves, noise included) is blanked — the filtering layer reads the raw text of leaves and of
    `symbol` segments only; flags and types are kept. -/
def strip : Seg → Seg
  | .mk t r w c m kids => .mk t (if (stripL kids).isEmpty || t == "symbol" then r else "") w c m (stripL kids)
def stripL : List Seg → List Seg
  | [] => []
  | s :: r => if isNoise s then stripL r else strip s :: stripL r
end

mutual
/-- pre-order listing `depth:type:raw` of a tree (a printable, comparable image; `Seg` itself has no derived equality test) -/
def flat (d : Nat) : Seg → List String
  | .mk t r _ _ _ kids => (toString d ++ ":" ++ t ++ ":" ++ r) :: flatL (d + 1) kids
def flatL (d : Nat) : List Seg → List String
  | [] => []
  | s :: r => flat d s ++ flatL d r
end

/-! ### `SqlFluffTable.of` (sqlfluff/models.py:43-75): schema parts and table name of a qualified name -/

def findDotFrom (segs : List Seg) : Nat → Option Nat
  | 0 => if (segs[0]?.map Seg.type) == some "symbol" then some 0 else none
  | i + 1 => if (segs[i + 1]?.map Seg.type) == some "symbol" then some (i + 1) else findDotFrom segs i

/-- `for idx in range(len(segments) - 2, -1, -1): if segments[idx].type == "symbol": dot_idx = idx; break` -/
def dotIdx (segs : List Seg) : Option Nat :=
  if segs.length < 2 then none else findDotFrom segs (segs.length - 2)

/-- (raw texts in front of the last dot, raw text after it) computed positionally over `segs`; `if dot_idx` treats
    index 0 like "no dot" (quirk kept) -/
def tablePartsOf (whole : Seg) (segs : List Seg) : List String × String :=
  match dotIdx segs with
  | some (i + 1) => (((segs.take (i + 1)).map Seg.raw), ((segs[i + 2]?.map Seg.raw).getD ""))
  | _ => ([], if whole.type == "identifier" then whole.raw else (segs.head?.map Seg.raw).getD "")

/-- the code BEFORE the repair D40: positions counted over the raw child list -/
def tablePartsRaw (t : Seg) : List String × String := tablePartsOf t t.children

/-- the repaired code: whitespace, comments and meta segments are dropped first -/
def tableParts (t : Seg) : List String × String :=
  tablePartsOf t (t.children.filter (fun s => !(s.isWhitespace || s.isComment || s.isMeta)))

/-! ### `helpers.split` (utils/helpers.py:55-69) over sqlparse's statement splitter (sqlparse/engine/statement_splitter.py)

Tokens are given (sqlparse's lexer is not modelled) and stay at nesting level 0 (no `BEGIN … END`, `CREATE … $$`): after a
`;` the splitter keeps consuming blanks and `--` comments (NOT newlines, NOT block comments) into the finished statement,
the next other token starts a new one; a pending statement is yielded at the end unless it is all whitespace.  `split` then
drops the pieces whose first non-blank, non-comment token is `;` or that have none. -/

inductive Tok
  | code (text : String)          -- anything that is neither blank, comment nor `;`
  | semi                          -- Punctuation `;`
  | blank (text : String)         -- T.Whitespace (spaces, tabs)
  | newline                       -- T.Newline
  | lineComment (text : String)   -- T.Comment.Single, including its line end
  | blockComment (text : String)  -- T.Comment.Multiline
  deriving Repr, DecidableEq

def Tok.text : Tok → String
  | .code t => t | .semi => ";" | .blank t => t | .newline => "\n" | .lineComment t => t | .blockComment t => t

def Tok.isCode : Tok → Bool | .code _ => true | _ => false
def Tok.isWs : Tok → Bool | .blank _ => true | .newline => true | _ => false
/-- `EOS_TTYPE = T.Whitespace, T.Comment.Single` (tuple membership: a newline is not in it) -/
def Tok.isEos : Tok → Bool | .blank _ => true | .lineComment _ => true | _ => false

/-- `token_first(skip_cm=True)`: first token that is neither whitespace nor comment -/
def firstToken : List Tok → Option Tok
  | [] => none
  | .blank _ :: r => firstToken r
  | .newline :: r => firstToken r
  | .lineComment _ :: r => firstToken r
  | .blockComment _ :: r => firstToken r
  | t :: _ => some t

/-- a piece is kept unless it has no first token or its first token is `;` (helpers.py:62-68) -/
def keepPiece (p : List Tok) : Bool :=
  match firstToken p with
  | none => false
  | some .semi => false
  | some _ => true

def splitKeep (pieces : List (List Tok)) : List (List Tok) := pieces.filter keepPiece

structure CutState where
  done : List (List Tok) := []
  cur : List Tok := []
  consume : Bool := false
  deriving Repr

def cutStep (st : CutState) (t : Tok) : CutState :=
  let st := if st.consume && !t.isEos then { done := st.done ++ [st.cur], cur := [], consume := false } else st
  { st with cur := st.cur ++ [t], consume := st.consume || t == .semi }

def cutFinish (st : CutState) : List (List Tok) :=
  if st.cur.isEmpty || st.cur.all Tok.isWs then st.done else st.done ++ [st.cur]

/-- `sqlparse.parse(sql)` as a list of statements (token lists) -/
def cutPieces (toks : List Tok) : List (List Tok) := cutFinish (toks.foldl cutStep {})

/-- `helpers.split` -/
def splitModel (toks : List Tok) : List (List Tok) := splitKeep (cutPieces toks)

def pieceText (p : List Tok) : String := String.join (p.map Tok.text)

end SqlLineage.Segments
