/-
Model of the statement splitter and of the runner's evaluation loop.

  `split`        ↦ `sqllineage/utils/helpers.py:55`  (`sqlparse.parse`, drop pieces whose first non‑comment token is `;`)
  `trimComment`  ↦ `sqllineage/utils/helpers.py:72`  (`sqlparse.format(strip_comments=True)`)
  `statements`   ↦ `sqllineage/runner.py:130`
  `stmtsOf`/`eval` ↦ `sqllineage/runner.py:185‑218`  (`_eval`: choose splitter → `with session` → per statement analyze,
                                                      register → `SQLLineageHolder.of`)

sqlparse (0.6.0) is third‑party code: its regex lexer (`sqlparse/keywords.py:118 SQL_REGEX`, `lexer.py:100`) and its
`StatementSplitter.process` (`engine/statement_splitter.py:155`) are MODELLED here, not verified.  The model is a
one‑character state machine (`lex = flush ∘ foldl step`) producing a token list, followed by the splitter on tokens.

What was observed of sqlparse 0.6.0 and is mirrored (each example below was run against the real `sqlparse` /
`helpers.split` with `/venv/bin/python` while this model was written; the mirrored part is re-checked on every run by
`harness/c05.py`, exact piece texts included):
  * a statement ends at a `;` token; after it, *non‑newline whitespace tokens and plain line comments* (`-- …\n`, `# …\n`,
    the comment token includes its newline) still belong to the ended piece (`consume_ws`, `EOS_TTYPE`); the first token
    of any other kind — a newline, a block comment, a hint comment, another `;`, code — starts the next piece:
        `select 1; -- c;⏎select 2`  →  [`select 1; -- c;⏎`, `select 2`]
        `select 1;⏎-- c;⏎select 2`  →  [`select 1;`, `⏎-- c;⏎select 2`]        `select 1; /*c;*/ select 2` → [`select 1; `, `/*c;*/ select 2`]
  * the piece pending at the end of input is emitted unless it is empty or all whitespace (a comment‑only tail IS emitted
    by sqlparse and then dropped by `helpers.split` because it has no first non‑comment token);
  * `helpers.split` keeps `s.value` (the raw text of the piece, attached whitespace and comments included) and drops a
    piece whose first non‑whitespace non‑comment token is `;` (`;;`, `; ;`, `/*c*/ ;`) or that has none;
  * line comments open with `--` or with `# ` (hash AND a space: `#c` is an operator and a name); a block comment is
    `/*` up to the FIRST `*/` behind it (not nested: in `/* a /* b */ c */` the comment ends after `b */`);
  * `'…'`, `"…"`, `` `…` `` literals with the doubled quote as escape;
  * `LineageRunner._eval` strips the script (`str.strip`) before splitting.

RESTRICTION `level0` (decidable; part of the hypotheses of `Props/C05.lean`, of the generator and of the corpus filter).
Outside of it sqlparse does things this model does not reproduce — observed:
  * characters: only printable ASCII, TAB and LF; none of `$` `\` `[`.
      `select $$a;b$$; select 2` → 2 pieces (dollar‑quoted literal);  `select 'a\';' ; select 2` → 2 pieces (the backslash
      escapes the quote, regex `'(''|\\'|[^'])*'`, with back‑tracking when no closing quote follows);
      `select [a;b] from t; select 2` → 2 pieces (bracketed name);  `´a;b´` is a quoted name;  CR ends a line comment and
      `\r\n` is one newline token;  Python's `\s` and `str.strip` know more blanks than the three modelled.
  * an unterminated literal or block comment (`junk` token here): sqlparse emits the opener as an error/operator token and
    goes on lexing the rest as code (`select 'x ; select 2` → 2 pieces).
  * a comment opener directly behind one of `+ / @ # % ^ & | -` is swallowed by the operator regex `[+/@#%^&|^-]+`
    (`select 1 +-- c ;⏎ 2; select 3` → 3 pieces: `+--` is ONE operator token and the rest of the line is code;
    `) / / - # ; 1` written without the blanks likewise), and `# ` directly behind a word character is part of the name (`a# c` lexes `a#`, ` `, `c`).
  * hint comments (`--+ …`, `# + …`, `/*+ … */`) have their own token types: they are kept by `strip_comments` and do not
    belong to `EOS_TTYPE`.
  * the splitter's nesting level: `(` +1, `)` −1, `END` −1, and a `;` only splits at level ≤ 0, so `select (1; select 2)`
    is ONE piece; `level0` therefore asks `#( ≤ #)` at every `;` (per semicolon‑delimited segment).  `CASE … END` only
    lowers the level and is harmless.  `BEGIN` (+1 and `BEGIN … END` block tracking: `begin; select 1; end; select 2` → 4),
    `DECLARE` (+1 inside `CREATE`), and an upper‑case keyword `GO` (splits without `;`: `select GO from t` → 2 pieces)
    are excluded as words.
Core Lean only (the driver is compiled).
-/
namespace SqlLineage.Split

/-! ### tokens -/

inductive Opener | dash | hash
  deriving DecidableEq, Repr, Inhabited

inductive Tok
  | ch (c : Char)                                      -- one character of code (anything that is not `;`/a quote), blanks included
  | semi                                               -- top‑level `;`
  | quoted (q : Char) (body : List Char)               -- q body q ; q ∈ {' " `}; q occurs in body only doubled
  | line (op : Opener) (body : List Char) (nl : Bool)  -- `--`/`# ` body, then LF iff `nl` (no LF: end of input)
  | block (body : List Char)                           -- `/*` body `*/`
  | junk (raw : List Char)                             -- unterminated literal / block comment at end of input (raw text)
  deriving DecidableEq, Repr, Inhabited

def isQuote (c : Char) : Bool := c = '\'' || c = '"' || c = '`'

def Opener.text : Opener → List Char
  | .dash => ['-', '-']
  | .hash => ['#', ' ']

def render1 : Tok → List Char
  | .ch c => [c]
  | .semi => [';']
  | .quoted q b => q :: (b ++ [q])
  | .line op b nl => op.text ++ (b ++ (if nl then ['\n'] else []))
  | .block b => '/' :: '*' :: (b ++ ['*', '/'])
  | .junk r => r

def render : List Tok → List Char
  | [] => []
  | t :: r => render1 t ++ render r

/-! ### the lexer: one character at a time, look‑ahead kept in the mode -/

inductive Mode
  | code | dash | slash | hash            -- `dash`/`slash`/`hash`: one `-` / `/` / `#` seen in code, not yet emitted
  | str (q : Char) | strQ (q : Char)      -- inside a literal / inside a literal just after a quote (end, or first of a pair)
  | line (op : Opener) | block | blockStar
  deriving DecidableEq, Repr, Inhabited

structure St where
  mode : Mode
  cur : List Char      -- body of the token in progress, reversed
  out : List Tok       -- emitted tokens, reversed
  deriving Repr

def St.init : St := ⟨.code, [], []⟩

/-- one character in code mode, `out` being everything emitted so far -/
def stepCode (out : List Tok) (c : Char) : St :=
  if c = ';' then ⟨.code, [], .semi :: out⟩
  else if isQuote c then ⟨.str c, [], out⟩
  else if c = '-' then ⟨.dash, [], out⟩
  else if c = '/' then ⟨.slash, [], out⟩
  else if c = '#' then ⟨.hash, [], out⟩
  else ⟨.code, [], .ch c :: out⟩

/-- the emitted tokens once the pending look‑ahead / the token in progress is closed as if the input ended here -/
def flush (s : St) : List Tok :=
  match s.mode with
  | .code => s.out
  | .dash => .ch '-' :: s.out
  | .slash => .ch '/' :: s.out
  | .hash => .ch '#' :: s.out
  | .strQ q => .quoted q s.cur.reverse :: s.out
  | .line op => .line op s.cur.reverse false :: s.out
  | .str q => .junk (q :: s.cur.reverse) :: s.out
  | .block => .junk ('/' :: '*' :: s.cur.reverse) :: s.out
  | .blockStar => .junk ('/' :: '*' :: s.cur.reverse) :: s.out

def step (s : St) (c : Char) : St :=
  match s.mode with
  | .code => stepCode s.out c
  | .dash => if c = '-' then ⟨.line .dash, [], s.out⟩ else stepCode (.ch '-' :: s.out) c
  | .slash => if c = '*' then ⟨.block, [], s.out⟩ else stepCode (.ch '/' :: s.out) c
  | .hash => if c = ' ' then ⟨.line .hash, [], s.out⟩ else stepCode (.ch '#' :: s.out) c
  | .str q => if c = q then ⟨.strQ q, s.cur, s.out⟩ else ⟨.str q, c :: s.cur, s.out⟩
  | .strQ q => if c = q then ⟨.str q, q :: q :: s.cur, s.out⟩ else stepCode (.quoted q s.cur.reverse :: s.out) c
  | .line op => if c = '\n' then ⟨.code, [], .line op s.cur.reverse true :: s.out⟩ else ⟨.line op, c :: s.cur, s.out⟩
  | .block => if c = '*' then ⟨.blockStar, '*' :: s.cur, s.out⟩ else ⟨.block, c :: s.cur, s.out⟩
  | .blockStar =>   -- `cur` holds the pending `*` as its head
    if c = '/' then ⟨.code, [], .block (s.cur.drop 1).reverse :: s.out⟩
    else if c = '*' then ⟨.blockStar, '*' :: s.cur, s.out⟩
    else ⟨.block, c :: s.cur, s.out⟩

def run (s : St) (cs : List Char) : St := cs.foldl step s

def lex (cs : List Char) : List Tok := (flush (run St.init cs)).reverse

/-! ### well‑formed (canonical) token lists: exactly those the lexer produces -/

/-- `q` occurs in the body only doubled -/
def qbody (q : Char) : List Char → Bool
  | [] => true
  | [c] => c != q
  | c :: c' :: r => if c = q then c' = q && qbody q r else qbody q (c' :: r)

/-- no `*/` in the body; `star` = the previous character was `*` -/
def noClose : Bool → List Char → Bool
  | _, [] => true
  | star, c :: r => if star && c = '/' then false else noClose (c = '*') r

def tokOk : Tok → Bool
  | .ch c => c != ';' && !isQuote c
  | .semi => true
  | .quoted q b => isQuote q && qbody q b
  | .line _ b _ => b.all (· != '\n')
  | .block b => noClose false b
  | .junk _ => false

def firstChar : Tok → Char
  | .ch c => c
  | .semi => ';'
  | .quoted q _ => q
  | .line .dash _ _ => '-'
  | .line .hash _ _ => '#'
  | .block _ => '/'
  | .junk r => r.headD ' '

/-- may a token starting with `c` follow `t` without the two being lexed differently? -/
def compat (t : Tok) (c : Char) : Bool :=
  match t with
  | .ch d => if d = '-' then c != '-' else if d = '/' then c != '*' else if d = '#' then c != ' ' else true
  | .quoted q _ => c != q
  | .line _ _ nl => nl          -- a line comment without its LF can only be the last token
  | _ => true

def wf : List Tok → Bool
  | [] => true
  | [t] => tokOk t
  | t :: t' :: r => tokOk t && compat t (firstChar t') && wf (t' :: r)

/-! ### the splitter on tokens (`StatementSplitter.process` at nesting level 0) -/

def isBlank (c : Char) : Bool := c = ' ' || c = '\t' || c = '\n'

/-- `Token.is_whitespace` (`T.Whitespace` and its subtype `T.Newline`) -/
def isWhite : Tok → Bool
  | .ch c => isBlank c
  | _ => false

/-- `EOS_TTYPE = T.Whitespace, T.Comment.Single` tested with `in` on the tuple: equality, so a newline does NOT qualify -/
def isEOS : Tok → Bool
  | .ch c => c = ' ' || c = '\t'
  | .line _ _ _ => true
  | _ => false

def isComment : Tok → Bool
  | .line _ _ _ => true
  | .block _ => true
  | _ => false

def isSemi : Tok → Bool
  | .semi => true
  | _ => false

/-- `cur` = tokens of the piece in progress (reversed), `cw` = `consume_ws` -/
def go (cur : List Tok) (cw : Bool) : List Tok → List (List Tok)
  | [] => if cur.all isWhite then [] else [cur.reverse]
  | t :: r =>
    if cw && !isEOS t then cur.reverse :: go [t] (isSemi t) r
    else go (t :: cur) (cw || isSemi t) r

/-- what `sqlparse.parse` yields, as token lists -/
def pieces (ts : List Tok) : List (List Tok) := go [] false ts

/-- `helpers.split`'s filter: `token_first(skip_cm=True)` exists and is not `;` -/
def keep (p : List Tok) : Bool :=
  match p.find? (fun t => !isWhite t && !isComment t) with
  | some t => !isSemi t
  | none => false

def splitT (ts : List Tok) : List (List Tok) := (pieces ts).filter keep

/-- `helpers.split` -/
def split (s : List Char) : List (List Char) := (splitT (lex s)).map render

/-- `str.strip()` on the modelled blanks -/
def strip (s : List Char) : List Char := ((s.dropWhile isBlank).reverse.dropWhile isBlank).reverse

/-- `helpers.trim_comment`: every (non‑hint) comment is replaced by a blank — a line comment that ended with LF by LF.
    sqlparse decides between blank / line break / nothing by the neighbouring tokens of the *grouped* statement and
    right‑strips every line; those whitespace details are not modelled (the correspondence compares modulo blanks). -/
def uncomment : Tok → Tok
  | .line _ _ nl => .ch (if nl then '\n' else ' ')
  | .block _ => .ch ' '
  | t => t

def trimComment (s : List Char) : List Char := render ((lex s).map uncomment)

/-- the statement list `_eval` works on when the sqlparse splitter is used (`runner.py:200`) -/
def runnerSplit (s : List Char) : List (List Char) := split (strip s)

/-- `LineageRunner.statements()` (`runner.py:130`) -/
def statements (s : List Char) : List (List Char) := (runnerSplit s).map trimComment

/-! ### the comparison the property makes: a piece up to comments, `;` and outer blanks -/

def isCodeTok (t : Tok) : Bool := !isComment t && !isSemi t

def trimWhite (ts : List Tok) : List Tok := ((ts.dropWhile isWhite).reverse.dropWhile isWhite).reverse

/-- comments and `;` removed, outer whitespace trimmed -/
def essence (ts : List Tok) : List Tok := trimWhite (ts.filter isCodeTok)

/-- a token that is neither blank, nor comment, nor `;` -/
def isSubst (t : Tok) : Bool := !isWhite t && !isComment t && !isSemi t

/-- blank, comment or `;`: what may stand between statements -/
def isNoise (t : Tok) : Bool := isWhite t || isComment t || isSemi t

/-! ### scripts assembled from statements and separator noise (the quantifier of the property) -/

/-- `[(statement, separator after it), …]` -/
def body : List (List Tok × List Tok) → List Tok
  | [] => []
  | p :: r => p.1 ++ p.2 ++ body r

def scriptToks (lead : List Tok) (items : List (List Tok × List Tok)) : List Tok := lead ++ body items

/-- a statement: no top‑level `;`, at least one token that is not blank / comment -/
def stmtOk (s : List Tok) : Bool := s.all (fun t => !isSemi t) && s.any isSubst

/-- every separator but the last contains a `;` -/
def sepsOk : List (List Tok × List Tok) → Bool
  | [] => true
  | [_] => true
  | p :: q :: r => p.2.any isSemi && sepsOk (q :: r)

/-! ### the restriction `level0` (see the header) -/

def charOk (c : Char) : Bool :=
  ((32 ≤ c.toNat && c.toNat ≤ 126) || c = '\t' || c = '\n') && c != '$' && c != '\\' && c != '['

def isOpChar (c : Char) : Bool :=
  c = '+' || c = '/' || c = '@' || c = '#' || c = '%' || c = '^' || c = '&' || c = '|' || c = '-'

def isWordChar (c : Char) : Bool := c.isAlphanum || c = '_'

/-- `a` directly before the comment `b` -/
def adjOk (a b : Tok) : Bool :=
  if isComment b then
    match a with
    | .ch c => !isOpChar c && !(match b with | .line .hash _ _ => isWordChar c | _ => false)
    | _ => true
  else true

def adjAll : List Tok → Bool
  | [] => true
  | [_] => true
  | a :: b :: r => adjOk a b && adjAll (b :: r)

def notHint : Tok → Bool
  | .line _ b _ => b.head? != some '+'
  | .block b => b.head? != some '+'
  | _ => true

/-- maximal runs of word characters in code -/
def wordsAux : List Char → List Tok → List (List Char)
  | cur, [] => if cur.isEmpty then [] else [cur.reverse]
  | cur, .ch c :: r => if isWordChar c then wordsAux (c :: cur) r else (if cur.isEmpty then wordsAux [] r else cur.reverse :: wordsAux [] r)
  | cur, _ :: r => if cur.isEmpty then wordsAux [] r else cur.reverse :: wordsAux [] r

def words (ts : List Tok) : List (List Char) := wordsAux [] ts

def badWord (w : List Char) : Bool :=
  let u := w.map Char.toUpper
  u = "BEGIN".toList || u = "DECLARE".toList || w = "GO".toList

/-- `#( ≤ #)` at every `;` (counters restart there) -/
def parenOk : Nat → Nat → List Tok → Bool
  | _, _, [] => true
  | o, c, .semi :: r => o ≤ c && parenOk 0 0 r
  | o, c, .ch d :: r => if d = '(' then parenOk (o + 1) c r else if d = ')' then parenOk o (c + 1) r else parenOk o c r
  | o, c, _ :: r => parenOk o c r

def level0 (ts : List Tok) : Bool :=
  (render ts).all charOk && ts.all (fun t => match t with | .junk _ => false | _ => true) && adjAll ts
    && ts.all notHint && (words ts).all (fun w => !badWord w) && parenOk 0 0 ts

/-- the hypotheses of `Props.C05.split_render`, as one decidable predicate (also evaluated by the driver for every
    generated script): canonical tokens, inside `level0`, noise only around the statements, `;` between them -/
def scriptHyp (lead : List Tok) (items : List (List Tok × List Tok)) : Bool :=
  wf (scriptToks lead items) && level0 (scriptToks lead items) && lead.all isNoise
    && items.all (fun p => stmtOk p.1 && p.2.all isNoise) && sepsOk items

/-! ### the runner's evaluation loop (`runner.py:185‑218`), over abstract analysis / assembly

`σ` = the provider's session metadata, `H` = statement holder, `R` = the assembled result, `ε` = exceptions.
`analyze σ stmt` ↦ `analyzer.analyze(stmt, session.metadata_provider)`;  `reg h σ` ↦ the conditional
`session.register_session_metadata(first write target, its columns)` (`:206‑211`);  `build σ hs` ↦
`SQLLineageHolder.of(session.metadata_provider, *hs)`;  `clear` ↦ `MetaDataSession.__exit__` (deregisters on every exit
path of the `with` block). -/

structure Runner (σ H R ε : Type) where
  analyze : σ → List Char → Except ε H
  reg : H → σ → σ
  build : σ → List H → Except ε R
  clear : σ → σ

/-- which statement list `_eval` uses (`runner.py:193‑200`): sqlfluff's batch splitting only for `tsql` with the flag -/
def stmtsOf (tsqlNoSemi : Bool) (dialect : String) (splitTsql : List Char → List (List Char)) (script : List Char) :
    List (List Char) :=
  if tsqlNoSemi && dialect = "tsql" then splitTsql (strip script) else split (strip script)

/-- the `for stmt in self._stmt` loop; stops at the first exception (state as of that moment) -/
def loop (r : Runner σ H R ε) : σ → List H → List (List Char) → Except ε (List H) × σ
  | s, acc, [] => (.ok acc.reverse, s)
  | s, acc, st :: rest =>
    match r.analyze s st with
    | .error e => (.error e, s)
    | .ok h => loop r (r.reg h s) (h :: acc) rest

/-- `_eval` from the statement list on: result (or the exception) and the session metadata after the `with` block -/
def eval (r : Runner σ H R ε) (s0 : σ) (stmts : List (List Char)) : Except ε R × σ :=
  let (hs, s1) := loop r s0 [] stmts
  let res := match hs with
    | .error e => .error e
    | .ok hs => r.build s1 hs
  (res, r.clear s1)

end SqlLineage.Split
