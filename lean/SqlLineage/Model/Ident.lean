/-
Model of `sqllineage/utils/helpers.py::escape_identifier_name` on ASCII input, over `List Char`.
The quote characters and the order in which they are stripped come from the regenerated `Gen.Const.quoteChars`.
`str.lower()` is modelled by ASCII lower-casing (non-ASCII case folding is outside the model, see DESIGN §3).
-/
import SqlLineage.Gen.Const

namespace SqlLineage.Ident

/-- `s.strip(chars)` -/
def stripSet (cs : List Char) (l : List Char) : List Char :=
  ((l.dropWhile (cs.contains ·)).reverse.dropWhile (cs.contains ·)).reverse

/-- `s.strip(c)` for a single character -/
def stripChar (c : Char) (l : List Char) : List Char := stripSet [c] l

def hasQuote (qs : List Char) (name : List Char) : Bool := qs.any (name.contains ·)

def bracketed (name : List Char) : Bool := name.head? == some '[' && name.getLast? == some ']'

/-- `escape_identifier_name` with the quote characters as a parameter -/
def escapeWith (qs : List Char) (name : List Char) : List Char :=
  if hasQuote qs name then qs.foldl (fun n q => stripChar q n) name
  else if bracketed name then stripSet ['[', ']'] name
  else name.map Char.toLower

/-- `escape_identifier_name` -/
def escape (name : List Char) : List Char := escapeWith Gen.Const.quoteChars name

def escapeS (s : String) : String := String.ofList (escape s.toList)

end SqlLineage.Ident
