/-
Model of the naming layer: `sqllineage/core/models.py` (Schema, Table, Path, SubQuery, Column and
`Column.to_source_columns`) and `sqllineage/core/parser/sqlfluff/models.py::SqlFluffTable.of`, over `List Char`.
Core Lean only.  Every definition cites what it mirrors; quirks are kept.

The model describes the code WITH the repairs `fixes/D20-*.patch` and `fixes/D21-*.patch`:
  * D20: a Column rebuilt from an already normalised name (`Column._from_raw_name`, used by `to_source_columns`,
    wildcard expansion and the unresolved-column repair) is NOT normalised a second time;
  * D21: `SqlFluffTable.of` / `SqlParseTable.of` keep the qualifier as normalised part by part, `Schema` does not
    normalise the joined text again.
Sites that still normalise twice are modelled as they are (marked "twice" below): the default alias of a `Table`,
the default `source_columns` of a `Column`, the fallback `Table(qualifier)` for an unknown qualifier, and the
round trip of a scalar subquery through the sqlparse analyzer.

Python `hash` is an arbitrary function `h : List Char → Nat` applied to the printed name.
Python `str.lower/strip/rsplit/split` are modelled on ASCII (DESIGN §3).
-/
import SqlLineage.Model.Ident
import SqlLineage.Gen.Const

namespace SqlLineage.Names
open SqlLineage.Ident

abbrev Name := List Char

/-- the only library exception of this layer: `SQLLineageException("Invalid format for table name")` (models.py:59) -/
inductive NameErr
  | lineage
  deriving DecidableEq, Repr

/-! ### string helpers -/

/-- `s.split(c)` — always at least one piece -/
def splitOn (c : Char) : List Char → List (List Char)
  | [] => [[]]
  | x :: xs =>
    if x = c then [] :: splitOn c xs
    else match splitOn c xs with
      | [] => [[x]]
      | p :: ps => (x :: p) :: ps

/-- `s.rsplit(c, 1)` when `c` occurs in `s`: (text before the LAST `c`, text after it); `none` when `c` does not occur
    (the `"." not in name` test of models.py:53) -/
def rsplitLast (c : Char) (l : List Char) : Option (List Char × List Char) :=
  match l.reverse.dropWhile (· != c) with
  | [] => none
  | _ :: pre => some (pre.reverse, (l.reverse.takeWhile (· != c)).reverse)

/-- `sep.join(parts)` -/
def joinWith (sep : List Char) : List (List Char) → List Char
  | [] => []
  | [p] => p
  | p :: ps => p ++ sep ++ joinWith sep ps

/-! ### Schema (models.py:9-40) -/

structure Schema where
  ctor ::
  rawName : Name
  deriving DecidableEq, Repr

/-- `Schema.unknown` -/
def unknownName : Name := Gen.Const.schemaUnknown.toList

/-- `Schema.__init__(name)`: fallback chain name → configured default (`SQLLineageConfig.DEFAULT_SCHEMA`, read at call
    time) → `<default>`; each alternative is normalised; `None` and `""` are both falsy (models.py:20-25) -/
def Schema.mk? (name : Option Name) (cfgDefault : Name) : Schema :=
  match name with
  | some (c :: cs) => ⟨escape (c :: cs)⟩
  | _ =>
    match cfgDefault with
    | c :: cs => ⟨escape (c :: cs)⟩
    | [] => ⟨escape unknownName⟩

/-- `Schema.__str__` -/
def Schema.str (s : Schema) : Name := s.rawName

/-- `Schema.__bool__`: `str(self) != self.unknown` -/
def Schema.isKnown (s : Schema) : Bool := s.str != unknownName

/-- `Schema.__eq__` (against another Schema) -/
def Schema.eq (a b : Schema) : Bool := a.str == b.str

/-- `Schema.__hash__` -/
def Schema.hash (h : Name → Nat) (s : Schema) : Nat := h s.str

/-! ### Table (models.py:43-80) -/

structure Table where
  ctor ::
  schema : Schema
  rawName : Name
  alias : Name
  deriving DecidableEq, Repr

/-- `Table.__init__(name, schema, alias=…)`.  `schema` is the argument as passed (the caller supplies the import-time
    `Schema()` when Python omits it); `cfgDefault` is what `Schema(schema_name)` reads at call time when the text before
    the last dot is empty.  Returns the table and whether the "schema param is ignored" warning was issued.
    The alias defaults to the (already normalised) raw name, taken as it is (D50 repaired: it used to be normalised a second
    time, which lower-cased a quoted mixed-case name); an explicit alias is normalised once. -/
def Table.mk (name : Name) (schema : Schema) (cfgDefault : Name) (alias : Option Name := none) :
    Except NameErr (Table × Bool) :=
  match rsplitLast '.' name with
  | none =>
    let raw := escape name
    .ok (⟨schema, raw, match alias with | some a => escape a | none => raw⟩, false)
  | some (schemaName, tableName) =>
    if (splitOn '.' schemaName).length > 2 then .error .lineage
    else
      let raw := escape tableName
      .ok (⟨Schema.mk? (some schemaName) cfgDefault, raw, match alias with | some a => escape a | none => raw⟩, schema.isKnown)

/-- `Table.__init__(name)` / `Table.__init__(name, schema)` after the repair of D17: an omitted schema is `None`, resolved to
    `Schema()` when the constructor runs (so it is the default configured at CALL time), and — being falsy — never
    triggers the "schema param is ignored" warning of a dotted name -/
def Table.mkOpt (name : Name) (schema : Option Schema) (cfgDefault : Name) (alias : Option Name := none) :
    Except NameErr (Table × Bool) :=
  match schema with
  | some s => Table.mk name s cfgDefault alias
  | none =>
    match Table.mk name (Schema.mk? none cfgDefault) cfgDefault alias with
    | .ok (t, _) => .ok (t, false)
    | .error e => .error e

/-- `Table.__str__` -/
def Table.str (t : Table) : Name := t.schema.str ++ '.' :: t.rawName

def Table.eq (a b : Table) : Bool := a.str == b.str

def Table.hash (h : Name → Nat) (t : Table) : Nat := h t.str

/-- `SqlFluffTable.of(table, alias)` (sqlfluff/models.py:50-74) on a reference whose identifier segments have the raw
    texts `parts` (the segments between them are `.` symbols, which normalise to themselves).  With one part the
    schema is `Schema()` evaluated at call time; otherwise each qualifier segment is normalised, the results are
    concatenated, `Schema(parent_name)` supplies the fallback for an empty text and — D21 repaired — a non-empty
    `parent_name` is kept as it is.  The real name goes through `Table.__init__`, so a quoted last part that contains
    a dot is split again there (quirk kept).  `alias` is passed on only when truthy. -/
def Table.ofParts (parts : List Name) (cfgDefault : Name) (alias : Option Name := none) :
    Except NameErr (Table × Bool) :=
  let alias' := match alias with | some (c :: cs) => some (c :: cs) | _ => none
  match parts.reverse with
  | [] => .error .lineage     -- not reachable from a parsed reference (at least one identifier)
  | [p] => Table.mk p (Schema.mk? none cfgDefault) cfgDefault alias'
  | p :: qualRev =>
    let segs := (qualRev.reverse.map escape)
    let parentName := joinWith (escape ['.']) segs
    let schema : Schema := match parentName with
      | [] => Schema.mk? (some []) cfgDefault
      | c :: cs => ⟨c :: cs⟩
    Table.mk p schema cfgDefault alias'

/-! ### Path (models.py:83-105) and SubQuery (models.py:108-141) -/

structure Path where
  ctor ::
  uri : Name
  deriving DecidableEq, Repr

def Path.mk (uri : Name) : Path := ⟨escape uri⟩
def Path.str (p : Path) : Name := p.uri
def Path.eq (a b : Path) : Bool := a.uri == b.uri
def Path.hash (h : Name → Nat) (p : Path) : Nat := h p.uri

structure SubQuery where
  ctor ::
  queryRaw : Name
  alias : Name
  deriving DecidableEq, Repr

/-- `SubQuery.__init__`: an absent alias becomes `subquery_<hash>` -/
def SubQuery.mk (h : Name → Nat) (queryRaw : Name) (alias : Option Name) : SubQuery :=
  ⟨queryRaw, match alias with
    | some a => escape a
    | none => "subquery_".toList ++ (toString (h queryRaw)).toList⟩

def SubQuery.str (s : SubQuery) : Name := s.alias
/-- equality and hash look at `query_raw` only -/
def SubQuery.eq (a b : SubQuery) : Bool := a.queryRaw == b.queryRaw
def SubQuery.hash (h : Name → Nat) (s : SubQuery) : Nat := h s.queryRaw

/-! ### Column (models.py:143-243) -/

inductive Parent
  | path (p : Path)
  | table (t : Table)
  | subquery (s : SubQuery)
  deriving DecidableEq, Repr

def Parent.str : Parent → Name
  | .path p => p.str
  | .table t => t.str
  | .subquery s => s.str

/-- Python `==` between two parent objects (`isinstance` test first) -/
def Parent.eq : Parent → Parent → Bool
  | .path a, .path b => a.eq b
  | .table a, .table b => a.eq b
  | .subquery a, .subquery b => a.eq b
  | _, _ => false

def Parent.hash (h : Name → Nat) : Parent → Nat
  | .path p => p.hash h
  | .table t => t.hash h
  | .subquery s => s.hash h

structure Column where
  ctor ::
  rawName : Name
  /-- normalised (name, qualifier) tuples -/
  sourceColumns : List (Name × Option Name)
  /-- the `_parent` set: pairwise different under `Parent.eq`, in insertion order -/
  parents : List Parent
  deriving DecidableEq, Repr

/-- normalisation of one `(raw_name, qualifier)` source tuple (models.py:156-163) -/
def normSourceTuple (t : Name × Option Name) : Name × Option Name := (escape t.1, t.2.map escape)

/-- `Column.__init__(name, source_columns=…)`; the default source tuple is the already normalised raw name, normalised
    again — twice (models.py:161) -/
def Column.mk (name : Name) (sourceColumns : Option (List (Name × Option Name)) := none) : Column :=
  let raw := escape name
  ⟨raw, ((sourceColumns.getD [(raw, none)]).map normSourceTuple), []⟩

/-- `Column._from_raw_name` (D20 repair): no second normalisation -/
def Column.fromRawName (raw : Name) : Column := ⟨raw, [(raw, none)], []⟩

/-- `col.parent = value`  (`self._parent.add(value)`) -/
def Column.addParent (c : Column) (p : Parent) : Column :=
  if c.parents.any (Parent.eq p) then c else { c with parents := c.parents ++ [p] }

/-- `Column.parent`: the owner when it is unique -/
def Column.parent (c : Column) : Option Parent :=
  match c.parents with
  | [p] => some p
  | _ => none

/-- `Column.__str__` -/
def Column.str (c : Column) : Name :=
  match c.parent with
  | some (.path _) => c.rawName
  | some p => p.str ++ '.' :: c.rawName
  | none => c.rawName

def optParentEq : Option Parent → Option Parent → Bool
  | none, none => true
  | some a, some b => a.eq b
  | _, _ => false

/-- `Column.__eq__`: same printed name and equal `parent` -/
def Column.eq (a b : Column) : Bool := a.str == b.str && optParentEq a.parent b.parent

def Column.hash (h : Name → Nat) (c : Column) : Nat := h c.str

/-- `dict.get` on a dict built by `a | b | c` / a comprehension: the LAST binding of a key wins -/
def dictGet (m : List (Name × Parent)) (k : Name) : Option Parent :=
  (m.reverse.find? (·.1 == k)).map (·.2)

/-- `set(alias_mapping.values())` as a duplicate-free list (first occurrence kept) -/
def dedupParents : List Parent → List Parent
  | [] => []
  | p :: ps => p :: (dedupParents ps).filter (fun q => !(Parent.eq p q))

/-- `set.add` on a list of columns -/
def addColumn (acc : List Column) (c : Column) : List Column :=
  if acc.any (Column.eq c) then acc else acc ++ [c]

/-- `_to_src_col(name, parent)` (models.py:213-221, D20 repaired) -/
def toSrcCol (name : Name) (parent : Option Parent) : Column :=
  match parent with
  | some p => (Column.fromRawName name).addParent p
  | none => Column.fromRawName name

/-- `Column.to_source_columns(alias_mapping)` (models.py:207-243).  `importDefault` is the import-time `Schema()` that
    `Table(qualifier)` gets for an unknown qualifier; that fallback normalises the qualifier again — twice — and can
    raise for a qualifier with more than three parts. -/
def Column.toSourceColumns (c : Column) (aliasMap : List (Name × Parent)) (importDefault : Schema) (cfgDefault : Name) :
    Except NameErr (List Column) :=
  let tables := dedupParents (aliasMap.map (·.2))
  c.sourceColumns.foldlM (init := []) fun acc (src, qualifier) =>
    match qualifier with
    | none =>
      if src = ['*'] then
        pure (tables.foldl (fun a t => addColumn a (toSrcCol src (some t))) acc)
      else
        pure (addColumn acc (tables.foldl Column.addParent (toSrcCol src none)))
    | some q =>
      match dictGet aliasMap q with
      | some p => pure (addColumn acc (toSrcCol src (some p)))
      | none => do
        let (t, _) ← Table.mk q importDefault cfgDefault
        pure (addColumn acc (toSrcCol src (some (.table t))))

/-- `get_alias_mapping_from_table_group` restricted to tables (holders.py:187-205):
    `alias_map | unqualified_map | qualified_map` -/
def aliasMapOf (tables : List Table) : List (Name × Parent) :=
  tables.map (fun t => (t.alias, Parent.table t)) ++
  tables.map (fun t => (t.rawName, Parent.table t)) ++
  tables.map (fun t => (t.str, Parent.table t))

/-! ### creation sites: the name an identifier spelled `σ` gets at each syntactic position -/

/-- a column name in target position: select item, alias, INSERT/CREATE column list — `Column(raw, …)` -/
def colTargetName (σ : Name) : Name := (Column.mk σ).rawName

/-- the same spelling read as a source: the source tuple `(σ, None)` is normalised by `Column.__init__`, then
    `to_source_columns` rebuilds a column from it -/
def colSourceName (σ : Name) : Name :=
  match (Column.mk ['x'] (some [(σ, none)])).sourceColumns with
  | [(n, _)] => (toSrcCol n none).rawName
  | _ => []

/-- the qualifier of a column reference as the key that is looked up in the alias mapping -/
def qualifierKey (σ : Name) : Option Name :=
  match (Column.mk ['x'] (some [(['c'], some σ)])).sourceColumns with
  | [(_, q)] => q
  | _ => none

/-- sqlparse's `remove_quotes` (third party, modelled as observed): one pair of equal surrounding quote characters -/
def sqlparseRemoveQuotes (σ : Name) : Name :=
  match σ with
  | c :: rest =>
    if (c = '"' ∨ c = '\'' ∨ c = '`') ∧ σ.getLast? = some c then rest.dropLast else σ
  | [] => []

/-- a column read inside a scalar subquery of the select list: `_get_column_from_subquery` (sqlfluff/models.py:187-208)
    re-analyses the subquery text with the sqlparse analyzer (which drops the quotes before normalising) and feeds the
    resulting raw names through `Column.__init__` once more -/
def colScalarSubqueryName (σ : Name) : Name :=
  colSourceName (colSourceName (sqlparseRemoveQuotes σ))

/-- positions at which a column name is written or read -/
inductive ColPos
  | selectItem        -- un-aliased select item: target column `Column(column_name, …)`   (sqlfluff/models.py:138)
  | aliasDef          -- `… AS σ`: target column `Column(alias, …)`                        (sqlfluff/models.py:108)
  | columnList        -- INSERT / CREATE column list: `SqlFluffColumn.of(column_reference)` (create_insert.py:84, models.py:145)
  | source            -- column reference read in the same statement (`to_source_columns`)  (core/models.py:213)
  | sourceLater       -- the same, in a later statement reading the table written before
  deriving DecidableEq, Repr

/-- the column name an identifier spelled `σ` denotes at a position -/
def colNameAt : ColPos → Name → Name
  | .selectItem, σ => colTargetName σ
  | .aliasDef, σ => colTargetName σ
  | .columnList, σ => colTargetName σ
  | .source, σ => colSourceName σ
  | .sourceLater, σ => colSourceName σ

/-- positions at which a table reference occurs -/
inductive TablePos
  | fromClause | joinClause | insertTarget | ctasTarget | laterStatement   -- all built by `SqlFluffTable.of`
  | qualifier   -- last part used as the qualifier of a column reference, resolved through the alias mapping of a FROM
                -- list that contains the reference (falling back to `Table(qualifier)`)
  deriving DecidableEq, Repr

/-- the table a reference spelled `parts` denotes at a position (`cfgDefault` in force, `importDefault` for the
    fallback) -/
def tableAt (pos : TablePos) (parts : List Name) (cfgDefault : Name) (importDefault : Schema) : Except NameErr Table :=
  match pos with
  | .qualifier => do
    let (t, _) ← Table.ofParts parts cfgDefault
    match parts.getLast? with
    | none => .error .lineage
    | some last =>
      match qualifierKey last with
      | none => .error .lineage
      | some q =>
        match dictGet (aliasMapOf [t]) q with
        | some (.table t') => pure t'
        | _ => do
          let (t', _) ← Table.mk q importDefault cfgDefault
          pure t'
  | _ => do
    let (t, _) ← Table.ofParts parts cfgDefault
    pure t

end SqlLineage.Names
