/-
Canonical rendering of the typed AST to SQL text.  The text is what the real parsers are given, and it is also what the
model uses wherever the code looks at `segment.raw` (subquery identity, display name of an un‑aliased expression), so a
sub‑tree's rendering is by construction a substring of the statement's rendering.
Conventions: single spaces between tokens; no space after `(` or before `)` and `,`; dotted names are one token.
-/
import SqlLineage.Model.Ast

namespace SqlLineage.Render
open SqlLineage.Ast

structure Opts where
  upper : Bool := false          -- keyword case
  deriving Repr, Inhabited

def kw (o : Opts) (s : String) : String := if o.upper then s.toUpper else s

def dotted (parts : List String) : String := ".".intercalate parts

def commaSep (l : List String) : String := ", ".intercalate l

def aliasSuffix (o : Opts) (alias : Option String) (asKw : Bool) : String :=
  match alias with
  | none => ""
  | some a => if asKw then " " ++ kw o "as" ++ " " ++ a else " " ++ a

mutual
def expr (o : Opts) : Expr → String
  | .col quals name => dotted (quals ++ [name])
  | .star quals => dotted (quals ++ ["*"])
  | .lit t => t
  | .func name distinct args over =>
    name ++ "(" ++ (if distinct then kw o "distinct" ++ " " else "") ++ commaSep (exprs o args) ++ ")" ++
      (match over with | some ov => " " ++ kw o "over" ++ " (" ++ overS o ov ++ ")" | none => "")
  | .cast e ty => kw o "cast" ++ "(" ++ expr o e ++ " " ++ kw o "as" ++ " " ++ ty ++ ")"
  | .case ws els =>
    kw o "case" ++ whens o ws ++ (match els with | some e => " " ++ kw o "else" ++ " " ++ expr o e | none => "") ++
      " " ++ kw o "end"
  | .bin op a b => expr o a ++ " " ++ op ++ " " ++ expr o b
  | .paren e => "(" ++ expr o e ++ ")"
  | .subq q => "(" ++ query o q ++ ")"
  | .inSubq e neg q => expr o e ++ (if neg then " " ++ kw o "not" else "") ++ " " ++ kw o "in" ++ " (" ++ query o q ++ ")"
  | .exist neg q => (if neg then kw o "not" ++ " " else "") ++ kw o "exists" ++ " (" ++ query o q ++ ")"
def exprs (o : Opts) : List Expr → List String
  | [] => []
  | e :: r => expr o e :: exprs o r
def overS (o : Opts) : Over → String
  | .mk part ord =>
    let p := exprs o part
    let r := exprs o ord
    (if p.isEmpty then "" else kw o "partition by" ++ " " ++ commaSep p) ++
    (if !p.isEmpty && !r.isEmpty then " " else "") ++
    (if r.isEmpty then "" else kw o "order by" ++ " " ++ commaSep r)
def whens (o : Opts) : List When → String
  | [] => ""
  | .mk c r :: rest => " " ++ kw o "when" ++ " " ++ expr o c ++ " " ++ kw o "then" ++ " " ++ expr o r ++ whens o rest
def item (o : Opts) : Item → String
  | .mk e alias asKw => expr o e ++ aliasSuffix o alias asKw
def items (o : Opts) : List Item → List String
  | [] => []
  | i :: r => item o i :: items o r
def query (o : Opts) : Query → String
  | .select distinct its frm wh grp hav =>
    kw o "select" ++ (if distinct then " " ++ kw o "distinct" else "") ++ " " ++ commaSep (items o its) ++
    (let f := fromExprs o frm; if f.isEmpty then "" else " " ++ kw o "from" ++ " " ++ commaSep f) ++
    (match wh with | some e => " " ++ kw o "where" ++ " " ++ expr o e | none => "") ++
    (let g := exprs o grp; if g.isEmpty then "" else " " ++ kw o "group by" ++ " " ++ commaSep g) ++
    (match hav with | some e => " " ++ kw o "having" ++ " " ++ expr o e | none => "")
  | .setop first rest => branch o first ++ opBranches o rest
  | .withq cs body => kw o "with" ++ " " ++ commaSep (ctes o cs) ++ " " ++ query o body
def branch (o : Opts) : Branch → String
  | .mk q br => if br then "(" ++ query o q ++ ")" else query o q
def opBranches (o : Opts) : List OpBranch → String
  | [] => ""
  | .mk op b :: r => " " ++ kw o op ++ " " ++ branch o b ++ opBranches o r
def cte (o : Opts) : Cte → String
  | .mk name q => name ++ " " ++ kw o "as" ++ " (" ++ query o q ++ ")"
def ctes (o : Opts) : List Cte → List String
  | [] => []
  | c :: r => cte o c :: ctes o r
def fromElem (o : Opts) : FromElem → String
  | .table parts alias asKw => dotted parts ++ aliasSuffix o alias asKw
  | .derived q alias asKw => "(" ++ query o q ++ ")" ++ aliasSuffix o alias asKw
def join (o : Opts) : Join → String
  | .mk kind e on ucols =>
    kw o kind ++ " " ++ fromElem o e ++
    (match on with | some c => " " ++ kw o "on" ++ " " ++ expr o c | none => "") ++
    (if ucols.isEmpty then "" else " " ++ kw o "using" ++ " (" ++ commaSep ucols ++ ")")
def joins (o : Opts) : List Join → String
  | [] => ""
  | j :: r => " " ++ join o j ++ joins o r
def fromExpr (o : Opts) : FromExpr → String
  | .mk base js => fromElem o base ++ joins o js
def fromExprs (o : Opts) : List FromExpr → List String
  | [] => []
  | f :: r => fromExpr o f :: fromExprs o r
end

def bracketIf (b : Bool) (s : String) : String := if b then "(" ++ s ++ ")" else s

def setClause (o : Opts) (s : SetClause) : String := dotted s.tgt ++ " = " ++ expr o s.src

def colList (cols : Option (List String)) : String :=
  match cols with | some cs => " (" ++ commaSep cs ++ ")" | none => ""

def stmt (o : Opts) : Stmt → String
  | .query q br => bracketIf br (query o q)
  | .insert kind tableKw tgt cols q br =>
    kw o "insert" ++ " " ++ (match kind with | .insertInto => kw o "into" | .insertOverwrite => kw o "overwrite") ++
      (if tableKw then " " ++ kw o "table" else "") ++ " " ++ dotted tgt ++ colList cols ++ " " ++ bracketIf br (query o q)
  | .insertValues tgt cols rows =>
    kw o "insert into" ++ " " ++ dotted tgt ++ colList cols ++ " " ++ kw o "values" ++ " " ++
      commaSep (rows.map (fun r => "(" ++ commaSep (r.map (expr o)) ++ ")"))
  | .ctas tgt orReplace ine q br =>
    kw o "create" ++ (if orReplace then " " ++ kw o "or replace" else "") ++ " " ++ kw o "table" ++
      (if ine then " " ++ kw o "if not exists" else "") ++ " " ++ dotted tgt ++ " " ++ kw o "as" ++ " " ++
      bracketIf br (query o q)
  | .createView tgt orReplace cols q =>
    kw o "create" ++ (if orReplace then " " ++ kw o "or replace" else "") ++ " " ++ kw o "view" ++ " " ++ dotted tgt ++
      colList cols ++ " " ++ kw o "as" ++ " " ++ query o q
  | .createTable tgt ine cols =>
    kw o "create table" ++ (if ine then " " ++ kw o "if not exists" else "") ++ " " ++ dotted tgt ++ " (" ++
      commaSep (cols.map (fun c => c.1 ++ " " ++ c.2)) ++ ")"
  | .createTableLike tgt src => kw o "create table" ++ " " ++ dotted tgt ++ " " ++ kw o "like" ++ " " ++ dotted src
  | .update tgt alias sets frm wh =>
    kw o "update" ++ " " ++ dotted tgt ++ (match alias with | some a => " " ++ a | none => "") ++ " " ++ kw o "set" ++ " " ++
      commaSep (sets.map (setClause o)) ++
      (let f := fromExprs o frm; if f.isEmpty then "" else " " ++ kw o "from" ++ " " ++ commaSep f) ++
      (match wh with | some e => " " ++ kw o "where" ++ " " ++ expr o e | none => "")
  | .merge tgt ta src on ups ins =>
    kw o "merge into" ++ " " ++ dotted tgt ++ (match ta with | some a => " " ++ a | none => "") ++ " " ++ kw o "using" ++ " " ++
      (match src with
        | .table parts a => dotted parts ++ (match a with | some a => " " ++ a | none => "")
        | .derived q a => "(" ++ query o q ++ ")" ++ (match a with | some a => " " ++ a | none => "")) ++
      " " ++ kw o "on" ++ " " ++ expr o on ++
      String.join (ups.map (fun sets => " " ++ kw o "when matched then update set" ++ " " ++ commaSep (sets.map (setClause o)))) ++
      String.join (ins.map (fun i => " " ++ kw o "when not matched then insert" ++ " (" ++ commaSep (i.cols.map dotted) ++ ") " ++
        kw o "values" ++ " (" ++ commaSep (i.vals.map (expr o)) ++ ")"))
  | .copy tgt path => kw o "copy" ++ " " ++ dotted tgt ++ " " ++ kw o "from" ++ " " ++ path
  | .drop view ie tgt =>
    kw o "drop" ++ " " ++ (if view then kw o "view" else kw o "table") ++ (if ie then " " ++ kw o "if exists" else "") ++
      " " ++ dotted tgt
  | .alterRename x y => kw o "alter table" ++ " " ++ dotted x ++ " " ++ kw o "rename to" ++ " " ++ dotted y
  | .renameTable ps =>
    kw o "rename table" ++ " " ++ commaSep (ps.map (fun p => dotted p.1 ++ " " ++ kw o "to" ++ " " ++ dotted p.2))
  | .noop _ sql => sql
  | .unsupported sql => sql

end SqlLineage.Render
