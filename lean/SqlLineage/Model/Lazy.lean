/-
Model of the lazy evaluation of `LineageRunner` (runner.py):

  :22‑33    `lazy_method(func)`: `if not self._evaluated: self._eval()` and then `func(*args, **kwargs)`;
            `lazy_property = property(lazy_method(func))`
  :68       `self._evaluated = False` in `__init__`
  :185‑217  `_eval`: split, analyse every statement inside the provider session, assemble, and ONLY THEN
            `self._evaluated = True` — when anything raises, the flag stays False and the next accessor call evaluates again
  :74‑170   the accessors (`__str__`, `to_cytoscape(level)`, `statements()`, `source_tables`, `target_tables`,
            `intermediate_tables`, `get_column_lineage(flag, flag)`): each reads `_stmt` / `_stmt_holders` / `_sql_holder`
            and its own arguments, nothing else, and writes nothing

A tiny state machine: the state is the flag, the stored result, and a ghost counter of how often `_eval` was entered.
The evaluation itself is a parameter `ev : Nat → Except ε ρ` — the outcome of the n‑th time `_eval` runs (n counted from 0).
For fixed script, dialect, configuration and a provider that answers the same every time, `ev` is constant (in the SQL‑level
model: `Runner.eval c base stmts`); letting it depend on `n` models a provider whose answers change over time, which is what
makes the single evaluation observable.  No Mathlib.
-/
import SqlLineage.Model.Runner

namespace SqlLineage.Lazy

/-- why an accessor call can fail: `_eval` raised `e`, or (never, see `Props.C11.stored_when_evaluated`) the result
    attributes are read before `_eval` stored them (`AttributeError`) -/
inductive Err (ε : Type)
  | eval (e : ε)
  | notStored
  deriving DecidableEq, Repr

structure St (ρ : Type) where
  evaluated : Bool := false        -- `self._evaluated`
  stored : Option ρ := none        -- `_stmt`, `_stmt_holders`, `_sql_holder` as one value
  evals : Nat := 0                 -- ghost: number of times `_eval` was entered

/-- the state `__init__` leaves -/
def St.init {ρ : Type} : St ρ := {}

variable {ε ρ α κ : Type}

/-- `self._eval()` -/
def evalStep (ev : Nat → Except ε ρ) (s : St ρ) : Except ε Unit × St ρ :=
  match ev s.evals with
  | .ok r => (.ok (), { evaluated := true, stored := some r, evals := s.evals + 1 })
  | .error e => (.error e, { s with evals := s.evals + 1 })

/-- one call of a `lazy_method`‑wrapped accessor whose body is the pure function `f` of the stored result -/
def call (ev : Nat → Except ε ρ) (f : ρ → α) (s : St ρ) : Except (Err ε) α × St ρ :=
  let rs := if s.evaluated then (Except.ok (), s) else evalStep ev s
  match rs.1 with
  | .error e => (.error (.eval e), rs.2)
  | .ok () =>
    match rs.2.stored with
    | some x => (.ok (f x), rs.2)
    | none => (.error .notStored, rs.2)

/-- a sequence of accessor calls on one runner: the answers in call order, and the final state -/
def run (ev : Nat → Except ε ρ) (f : κ → ρ → α) : St ρ → List κ → List (Except (Err ε) α) × St ρ
  | s, [] => ([], s)
  | s, k :: ks =>
    let a := call ev (f k) s
    let r := run ev f a.2 ks
    (a.1 :: r.1, r.2)

/-- the answer accessor `k` gives on a FRESH runner (first call after `__init__`) -/
def fresh (ev : Nat → Except ε ρ) (f : κ → ρ → α) (k : κ) : Except (Err ε) α := (call ev (f k) St.init).1

/-! ### the concrete accessors over the SQL‑level model -/

/-- what `_eval` stores -/
structure Result where
  graph : LGraph                   -- `_sql_holder.graph`
  holders : List LGraph            -- `_stmt_holders`
  count : Nat                      -- `len(self._stmt)`

/-- the public accessors with their arguments -/
inductive Accessor
  | sourceTables | targetTables | intermediateTables
  | columnLineage (excludePathEndingInSubquery excludeSubqueryColumns : Bool)
  | statementCount
  deriving DecidableEq, Repr

def printNode (g : LGraph) : Node → String
  | .ds d => Holder.printedDS g d
  | .col p _ => p
  | .str s => s

/-- insert into a list kept in increasing order -/
def ins (x : String) : List String → List String
  | [] => [x]
  | y :: r => if x < y then x :: y :: r else y :: ins x r

/-- `sorted(names)` -/
def isortS (l : List String) : List String := l.foldl (fun acc x => ins x acc) []

/-- the accessor bodies (runner.py:129‑170): sorted views of the role sets, the column paths, the statement count -/
def answer : Accessor → Result → List (List String)
  | .sourceTables, r => [isortS ((Assemble.sourceTables r.graph).map (printNode r.graph))]
  | .targetTables, r => [isortS ((Assemble.targetTables r.graph).map (printNode r.graph))]
  | .intermediateTables, r => [isortS ((Assemble.intermediateTables r.graph).map (printNode r.graph))]
  | .columnLineage a b, r => (Paths.columnLineage r.graph a b).map (fun p => p.map (printNode r.graph))
  | .statementCount, r => [[toString r.count]]

/-- `_eval` of the SQL‑level model for a fixed script, configuration and dict provider -/
def evalScript (c : Runner.Config) (base : List (String × List String)) (stmts : List Ast.Stmt) : Nat → Except SqlLineage.Err Result :=
  fun _ => match Runner.eval c base stmts with
    | .ok (g, hs) => .ok ⟨g, hs, stmts.length⟩
    | .error e => .error e

end SqlLineage.Lazy
