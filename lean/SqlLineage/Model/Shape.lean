/-
The NORMALISED TREE SHAPE a typed AST stands for (DESIGN §2.2 "shape correspondence", Appendix A).

`Shape` is a tree of sqlfluff segment TYPE names.  It is what remains of the tree
`Linter(dialect).parse_string(Render.stmt o s).tree` after the normalisation the harness applies to the real tree
(`harness/c09.py: real_shape`):

  * dropped: meta segments (indent/dedent/end_of_file), whitespace, newline, comments, and every terminal whose type is
    `keyword` or `symbol` (so `+ - *`, commas, dots, brackets, `AS`, `IN`, `NOT`, `EXISTS`, `DISTINCT` inside a function … are
    not in the shape; `AND`/`OR`/`||` are `binary_operator`, comparisons are `comparison_operator` segments and stay);
  * opaque: the children of `function_name` and `data_type` (the AST keeps both as plain strings);
  * everything else is kept, with its children in order.

The definitions follow the tree sqlfluff's ANSI grammar (sqlfluff 4.3) produces, learnt from dumped trees; per construct:

  * an `expression` segment is FLAT: operators chain their operands as siblings (`bin`), a parenthesis is
    `bracketed(expression(…))`;
  * a select item / GROUP BY / ORDER BY entry that is a bare column, literal, function call or wildcard is NOT wrapped in
    `expression`; function arguments, WHEN/THEN/ELSE operands and PARTITION BY entries always are;
  * WHERE / HAVING / ON are `OptionallyBracketed(Expression)`: a condition that is one parenthesis is
    `clause(bracketed(expression(…)))` with no outer `expression` (this is the second branch of `list_subqueries` for
    `where_clause`, sqlfluff/utils.py:170‑173);
  * a scalar subquery in an expression is `bracketed(expression(select_statement))` but `bracketed(set_expression …)` /
    `bracketed(with_compound_statement …)` for the other query kinds; IN/EXISTS subqueries are `bracketed(<query>)` (the two
    branches of `is_subquery`, sqlfluff/utils.py:36‑49);
  * `CAST(e AS ty)` is a `function` whose contents are `expression, data_type`.

Only the core constructs (query / INSERT…query / CTAS / CREATE VIEW) have a shape; the other statements give `none`.
-/
import SqlLineage.Model.Ast
import SqlLineage.Model.Render

namespace SqlLineage.Shape
open SqlLineage Ast

inductive Shape
  | node (ty : String) (kids : List Shape)
  deriving Repr, Inhabited

namespace Shape
mutual
def beq : Shape → Shape → Bool
  | .node a ks, .node b ls => a == b && beqL ks ls
def beqL : List Shape → List Shape → Bool
  | [], [] => true
  | x :: r, y :: s => beq x y && beqL r s
  | _, _ => false
end
instance : BEq Shape := ⟨beq⟩

mutual
/-- number of nodes -/
def size : Shape → Nat
  | .node _ ks => 1 + sizeL ks
def sizeL : List Shape → Nat
  | [] => 0
  | k :: r => size k + sizeL r
end

mutual
/-- all segment types occurring in the shape, in pre‑order -/
def types : Shape → List String
  | .node t ks => t :: typesL ks
def typesL : List Shape → List String
  | [] => []
  | k :: r => types k ++ typesL r
end
end Shape

open Shape

def leaf (t : String) : Shape := .node t []
/-- `n` identifier parts (`a.b.c` = 3 `identifier` segments; the dots are symbols) -/
def ids (n : Nat) : List Shape := List.replicate n (leaf "identifier")

/-- the operator segment an infix operator leaves in the shape: comparisons are `comparison_operator` nodes, the word
    operators and `||` are `binary_operator`, arithmetic signs are plain symbols (dropped) -/
def opLeaf (op : String) : List Shape :=
  if ["=", ">", "<", ">=", "<=", "<>", "!="].contains op then [leaf "comparison_operator"]
  else if ["and", "or", "||"].contains op.toLower then [leaf "binary_operator"]
  else []

def colRef (quals : List String) : Shape := .node "column_reference" (ids (quals.length + 1))

def aliasShape (alias : Option String) (asKw : Bool) : List Shape :=
  match alias with
  | none => []
  | some _ => [.node "alias_expression" ((if asKw then [leaf "alias_operator"] else []) ++ [leaf "identifier"])]

/-- an entry at a position where a bare column / literal / function / wildcard stands unwrapped (select item, GROUP BY,
    ORDER BY): `l` is the flat content `elems e` -/
def wrapOpt (e : Expr) (l : List Shape) : Shape :=
  match e, l with
  | .star quals, _ => .node "wildcard_expression" [.node "wildcard_identifier" (ids quals.length)]
  | .col .., [s] => s
  | .lit .., [s] => s
  | .func .., [s] => s
  | .cast .., [s] => s
  | _, l => .node "expression" l

/-- a clause / wrapper that is absent when it has no content -/
def optNode (name : String) (l : List Shape) : List Shape := if l.isEmpty then [] else [.node name l]

/-- WHERE / HAVING / ON: `OptionallyBracketed(Expression)` -/
def clauseShape (name : String) (e : Expr) (l : List Shape) : Shape :=
  match e with
  | .paren _ => .node name l
  | _ => .node name [.node "expression" l]

mutual
/-- the flat content an expression contributes to the enclosing `expression` segment -/
def elems : Expr → List Shape
  | .col quals _ => [colRef quals]
  | .star quals => if quals.isEmpty then [] else [.node "wildcard_identifier" (ids quals.length)]
  | .lit _ => [leaf "literal"]
  | .func _ _ args over =>
    [.node "function" ([leaf "function_name", .node "function_contents" [.node "bracketed" (argShapes args)]] ++
      (match over with | some ov => [overShape ov] | none => []))]
  | .cast e _ =>
    [.node "function" [leaf "function_name",
      .node "function_contents" [.node "bracketed" [.node "expression" (elems e), leaf "data_type"]]]]
  | .case ws els =>
    [.node "case_expression" (whenShapes ws ++
      (match els with | some e => [.node "else_clause" [.node "expression" (elems e)]] | none => []))]
  | .bin op a b => elems a ++ opLeaf op ++ elems b
  | .paren e => [.node "bracketed" [.node "expression" (elems e)]]
  | .subq q =>
    [.node "bracketed" [match q with
      | .select .. => .node "expression" [queryShape q]
      | _ => queryShape q]]
  | .inSubq e _ q => elems e ++ [.node "bracketed" [queryShape q]]
  | .exist _ q => [.node "bracketed" [queryShape q]]
/-- function arguments / PARTITION BY entries: each wrapped in `expression`; a bare `*` argument is a symbol -/
def argShapes : List Expr → List Shape
  | [] => []
  | e :: r =>
    optNode "expression" (elems e) ++ argShapes r
/-- GROUP BY / ORDER BY entries -/
def optShapes : List Expr → List Shape
  | [] => []
  | e :: r => wrapOpt e (elems e) :: optShapes r
def overShape : Over → Shape
  | .mk part ord =>
    .node "over_clause" [.node "bracketed" (optNode "window_specification"
      (optNode "partitionby_clause" (argShapes part) ++ optNode "orderby_clause" (optShapes ord)))]
def whenShapes : List When → List Shape
  | [] => []
  | .mk c r :: rest =>
    .node "when_clause" [.node "expression" (elems c), .node "expression" (elems r)] :: whenShapes rest
def itemShapes : List Item → List Shape
  | [] => []
  | .mk e alias asKw :: r =>
    .node "select_clause_element" (wrapOpt e (elems e) :: aliasShape alias asKw) :: itemShapes r
def queryShape : Query → Shape
  | .select distinct its frm wh grp hav =>
    .node "select_statement" (
      [.node "select_clause" ((if distinct then [leaf "select_clause_modifier"] else []) ++ itemShapes its)] ++
      optNode "from_clause" (fromExprShapes frm) ++
      (match wh with | some e => [clauseShape "where_clause" e (elems e)] | none => []) ++
      optNode "groupby_clause" (optShapes grp) ++
      (match hav with | some e => [clauseShape "having_clause" e (elems e)] | none => []))
  | .setop first rest => .node "set_expression" (branchShape first :: opBranchShapes rest)
  | .withq cs body => .node "with_compound_statement" (cteShapes cs ++ [queryShape body])
def branchShape : Branch → Shape
  | .mk q br => if br then .node "bracketed" [queryShape q] else queryShape q
def opBranchShapes : List OpBranch → List Shape
  | [] => []
  | .mk _ b :: r => leaf "set_operator" :: branchShape b :: opBranchShapes r
def cteShapes : List Cte → List Shape
  | [] => []
  | .mk _ q :: r => .node "common_table_expression" [leaf "identifier", .node "bracketed" [queryShape q]] :: cteShapes r
def fromElemShape : FromElem → Shape
  | .table parts alias asKw =>
    .node "from_expression_element"
      (.node "table_expression" [.node "table_reference" (ids parts.length)] :: aliasShape alias asKw)
  | .derived q alias asKw =>
    .node "from_expression_element"
      (.node "table_expression" [.node "bracketed" [queryShape q]] :: aliasShape alias asKw)
def joinShape : Join → Shape
  | .mk _ e on ucols =>
    .node "join_clause" ([fromElemShape e] ++
      (match on with | some c => [clauseShape "join_on_condition" c (elems c)] | none => []) ++
      (if ucols.isEmpty then [] else [.node "bracketed" (ids ucols.length)]))
def joinShapes : List Join → List Shape
  | [] => []
  | j :: r => joinShape j :: joinShapes r
def fromExprShape : FromExpr → Shape
  | .mk base js => .node "from_expression" (fromElemShape base :: joinShapes js)
def fromExprShapes : List FromExpr → List Shape
  | [] => []
  | f :: r => fromExprShape f :: fromExprShapes r
end

def bracketIf (b : Bool) (s : Shape) : Shape := if b then .node "bracketed" [s] else s

/-- explicit column list of INSERT / CREATE VIEW: `bracketed(column_reference(identifier)…)` -/
def colListShape (cols : Option (List String)) : List Shape :=
  match cols with
  | none => []
  | some cs => [.node "bracketed" (cs.map (fun _ => colRef []))]

/-- the shape of the statement segment (the node below `statement`), for the core constructs -/
def shapeStmt : Stmt → Option Shape
  | .query q br => some (bracketIf br (queryShape q))
  | .insert _ _ tgt cols q br =>
    some (.node "insert_statement" ([.node "table_reference" (ids tgt.length)] ++ colListShape cols ++ [bracketIf br (queryShape q)]))
  | .ctas tgt _ _ q br =>
    some (.node "create_table_statement" [.node "table_reference" (ids tgt.length), bracketIf br (queryShape q)])
  | .createView tgt _ cols q =>
    some (.node "create_view_statement" ([.node "table_reference" (ids tgt.length)] ++ colListShape cols ++ [queryShape q]))
  | _ => none

/-- the whole file: `file(statement(<statement segment>))` -/
def shapeFile (s : Stmt) : Option Shape :=
  (shapeStmt s).map (fun sh => .node "file" [.node "statement" [sh]])

/-- dialect statement types that stand for a core statement type and are claimed by the SAME extractor (proved over the
    regenerated dispatch table in `Props.C09.alias_same_extractor`): postgres / greenplum / redshift / vertica CTAS, impala CTAS -/
def stmtTypeAliases : List (String × String) :=
  [("create_table_as_statement", "create_table_statement"),
   ("create_table_as_select_statement", "create_table_statement")]   -- impala (K3 repaired: the type is claimed now)

/-- dialect statement types that stand for a core statement type but are claimed by NO extractor: none since the repair of K3
    (impala's `create_table_as_select_statement` is now in `CreateInsertExtractor.SUPPORTED_STMT_TYPES`) -/
def stmtTypeUnclaimed : List (String × String) := []

/-- the segment type the shape has at the statement node -/
def rootType : Shape → String
  | .node t _ => t

end SqlLineage.Shape
