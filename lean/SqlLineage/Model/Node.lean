/-
Node values of the lineage property graph (`core/models.py`), as *keys* (what `__eq__`/`__hash__` see) plus, for
columns, the payload that is not part of equality.

  Table     eq/hash by printed name "schema.name"                      (models.py:67‑77)
  Path      eq/hash by uri                                             (models.py:101‑105)
  SubQuery  eq/hash by `query_raw` ONLY — the alias is not part of it  (models.py:132‑136)
  Column    eq by (printed name, parent) where parent = the unique owner or None; hash by printed name
                                                                        (models.py:167‑185)
  str       bare Python strings used as HAS_ALIAS targets              (holders.py:87)
-/
import SqlLineage.Model.Graph

namespace SqlLineage

/-- dataset‑like nodes (things that can own columns) -/
inductive DS
  | table (schema name : String)
  | path (uri : String)
  | subq (raw : String)
  deriving DecidableEq, Repr, Inhabited

/-- `isinstance(n, DATASET_CLASSES)` with `DATASET_CLASSES = (Path, Table)` (holders.py:11) -/
def DS.isDataset : DS → Bool
  | .table _ _ => true
  | .path _ => true
  | .subq _ => false

def DS.isTable : DS → Bool
  | .table _ _ => true
  | _ => false

def DS.isSubq : DS → Bool
  | .subq _ => true
  | _ => false

inductive Node
  | ds (d : DS)
  | col (printed : String) (parent : Option DS)
  | str (s : String)
  deriving DecidableEq, Repr, Inhabited

def Node.isDataset : Node → Bool
  | .ds d => d.isDataset
  | _ => false

def Node.isCol : Node → Bool
  | .col _ _ => true
  | _ => false

/-- A `Column` object: raw name + owner candidates, each with the name it prints as (a SubQuery prints as its alias,
    which is not part of its identity).  `parents` is kept sorted by printed name and duplicate‑free by identity, like
    `parent_candidates` over the `_parent` set. -/
structure Column where
  raw : String
  parents : List (DS × String)
  deriving DecidableEq, Repr, Inhabited

def Column.parent? (c : Column) : Option (DS × String) :=
  match c.parents with
  | [p] => some p
  | _ => none

/-- `Column.__str__` (models.py:167‑172): `parent.raw` unless the parent is absent/ambiguous or a `Path` -/
def Column.printed (c : Column) : String :=
  match c.parent? with
  | some (.path _, _) => c.raw
  | some (_, pn) => pn ++ "." ++ c.raw
  | none => c.raw

def Column.key (c : Column) : Node := .col c.printed (c.parent?.map (·.1))

/-- insert a parent candidate keeping the list sorted by printed name, no duplicate identity (`_parent.add`) -/
def insertParent (p : DS × String) : List (DS × String) → List (DS × String)
  | [] => [p]
  | q :: r =>
    if q.1 = p.1 then q :: r
    else if p.2 < q.2 then p :: q :: (r.filter (·.1 ≠ p.1))
    else q :: insertParent p r

def Column.addParent (c : Column) (p : DS × String) : Column := { c with parents := insertParent p c.parents }

def Column.mk1 (raw : String) (p : Option (DS × String)) : Column :=
  ⟨raw, match p with | some x => [x] | none => []⟩

/-- printed name of a dataset node given its alias when it is a subquery -/
def DS.printed (d : DS) (subqAlias : String := "") : String :=
  match d with
  | .table s n => s ++ "." ++ n
  | .path u => u
  | .subq _ => subqAlias

/-- what a graph key object carries beyond its identity: a `Column`'s raw name and owner candidates, a `SubQuery`'s
    alias (the first inserted object stays the dict key, so e.g. a CTE referenced under an alias keeps printing as the
    CTE name) -/
inductive Payload
  | col (c : Column)
  | sub (alias : String)
  deriving DecidableEq, Repr, Inhabited

abbrev LGraph := Graph Node Payload

end SqlLineage
