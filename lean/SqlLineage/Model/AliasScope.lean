/-
The qualifier → relation map of a SELECT block (`SubQueryLineageHolder.get_alias_mapping_from_table_group`,
core/holders.py:187‑205) in its two versions:

  * `aliasMappingOrig`  — the code as found: `alias_map | unqualified_map | qualified_map`; the later operand wins, and a
    table without alias carries its own bare name as default alias, so an alias written in the query is overridden by the
    bare name of another table of the same scope (DESIGN §6 D7);
  * `aliasMappingFixed` — with `fixes/D7-explicit-alias-hides-bare-table-name.patch`: explicit precedence, later wins:
    bare / qualified table names < default alias (the bare name of a table WITHOUT alias) < alias written in the query
    (alias ≠ the table's own bare name; every subquery alias).

`Props/C08.lean` states which of the two `Holder.aliasMapping` (the model in force, `Model/HolderOps.lean`) is.
-/
import SqlLineage.Model.HolderOps

namespace SqlLineage.Holder
open SqlLineage Graph

/-- HAS_ALIAS edges of the group's relations, in edge order: (alias, (relation, printed name)) -/
def aliasEdges (g : LGraph) (grp : List DObj) : AliasMap :=
  let inGrp := fun (d : DS) => grp.any (·.d == d)
  g.edgesOrdered.filterMap (fun e =>
    match e.1, e.2 with
    | .ds d, .str a => if g.ety e.1 e.2 == some .hasAlias && inGrp d then some (a, (d, printedDS g d)) else none
    | _, _ => none)

def unqualifiedMap (grp : List DObj) : AliasMap :=
  (grp.filter (fun o => o.d.isTable)).filterMap (fun o => match o.d with | .table _ n => some (n, (o.d, o.printed)) | _ => none)

def qualifiedMap (grp : List DObj) : AliasMap :=
  (grp.filter (fun o => o.d.isTable)).map (fun o => (o.printed, (o.d, o.printed)))

/-- `not (isinstance(src, Table) and tgt == src.raw_name)` -/
def isExplicit (e : String × (DS × String)) : Bool :=
  match e.2.1 with
  | .table _ n => e.1 != n
  | _ => true

/-- holders.py:187‑205 as found -/
def aliasMappingOrig (g : LGraph) (grp : List DObj) : AliasMap :=
  aliasEdges g grp ++ unqualifiedMap grp ++ qualifiedMap grp

/-- `{table.raw_name: table for table in table_group if isinstance(table, Table) and table.alias == table.raw_name}`:
    the tables of the group that carry no alias answer to their own bare name -/
def defaultAliasMap (grp : List DObj) : AliasMap :=
  (grp.filter (fun o => o.d.isTable)).filterMap (fun o =>
    match o.d with
    | .table _ n => if o.alias == some n then some (n, (o.d, o.printed)) else none
    | _ => none)

/-- holders.py:187‑205 with the D7 repair: `unqualified_map | qualified_map | default_alias_map | explicit_alias_map`
    (later wins): bare / qualified table names < the name of a table without alias < an alias written in the query -/
def aliasMappingFixed (g : LGraph) (grp : List DObj) : AliasMap :=
  unqualifiedMap grp ++ qualifiedMap grp ++ defaultAliasMap grp ++ (aliasEdges g grp).filter isExplicit

end SqlLineage.Holder
