/-
Model of `ColumnLineageMixin.get_column_lineage` (core/holders.py:14‑52): roots and leaves of the column subgraph and
`networkx.all_simple_paths` between them (networkx 3.6: the trivial path `[s]` is reported when source = target).
-/
import SqlLineage.Model.Node

namespace SqlLineage.Paths
open SqlLineage Graph

/-- all simple paths from `cur` to `tgt` avoiding `visited` (which contains the nodes strictly before `cur`), in
    successor order; `fuel` bounds the depth (the number of nodes is enough) -/
def pathsFrom (g : LGraph) : Nat → List Node → Node → Node → List (List Node)
  | 0, _, cur, tgt => if cur = tgt then [[cur]] else []
  | fuel + 1, visited, cur, tgt =>
    if cur = tgt then [[cur]]
    else
      ((g.outEdges cur).filter (fun n => !(visited.contains n) && n != cur)).flatMap
        (fun n => (pathsFrom g fuel (cur :: visited) n tgt).map (fun p => cur :: p))

def simplePaths (g : LGraph) (s t : Node) : List (List Node) := pathsFrom g g.nodes.length [] s t

def colParent : Node → Option DS
  | .col _ p => p
  | _ => none

/-- `get_column_lineage(exclude_path_ending_in_subquery, exclude_subquery_columns)` as a list of paths -/
def columnLineage (g : LGraph) (exclEnd : Bool := true) (exclSub : Bool := false) : List (List Node) :=
  let cg := g.subgraph Node.isCol
  let sources := cg.nodes.filter (fun n => cg.inDeg n == 0)
  let targets0 := cg.nodes.filter (fun n => cg.outDeg n == 0)
  let targets := if exclEnd then targets0.filter (fun n => match colParent n with | some d => d.isTable | none => false)
                 else targets0
  let raw := sources.flatMap (fun s => targets.flatMap (fun t => simplePaths g s t))
  let paths := if exclSub then
      (raw.map (fun p => p.filter (fun n => match colParent n with | some d => !d.isSubq | none => true))).filter
        (fun p => p.length > 1)
    else raw.filter (fun p => p.length > 1)      -- a path has at least one hop (holders.py: `elif len(path) > 1`)
  paths.eraseDups

end SqlLineage.Paths
