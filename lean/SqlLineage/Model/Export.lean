/-
Model of the graph export: `sqllineage/io.py::to_cytoscape(graph, compound)` (io.py:6‑47), the level selection of
`LineageRunner.to_cytoscape` (runner.py:107‑115) over the views `table_lineage_graph` / `column_lineage_graph`
(holders.py:310‑323), and the text summary `LineageRunner.__str__` in non‑verbose mode (runner.py:74‑105).

The export is a function of a graph *view* `g : LGraph` and nothing else: `g.nodes` is the order in which
`graph.nodes` iterates, `g.edgesOrdered` the order in which `graph.edges` iterates (node‑major).  For a networkx
subgraph view these orders are those of the underlying graph or — when the view keeps fewer than half of the nodes
(`FilterAtlas.__iter__`) — the iteration order of a Python *set*; the model therefore makes no assumption on them: every
theorem of `Props/C18.lean` is for an arbitrary node list, and the correspondence check re‑orders the model's view to the
order the implementation iterated in (`IO/Export.lean`).  Core Lean only.
-/
import SqlLineage.Model.Assemble
import SqlLineage.Model.HolderOps
import SqlLineage.Model.Paths

namespace SqlLineage.Export
open SqlLineage Graph

/-! ### printing -/

/-- `str(node)`: `Table.__str__` / `Path.__str__` / `SubQuery.__str__` (the alias of the stored key object) /
    `Column.__str__` (part of the key) / a bare string (models.py:30,69,98,128,167) -/
def printedNode (g : LGraph) : Node → String
  | .ds d => Holder.printedDS g d
  | .col p _ => p
  | .str s => s

/-- `type(p).__name__` of a dataset object -/
def dsTypeName : DS → String
  | .table _ _ => "Table"
  | .path _ => "Path"
  | .subq _ => "SubQuery"

/-- `type(node).__name__` -/
def typeName : Node → String
  | .ds d => dsTypeName d
  | .col _ _ => "Column"
  | .str _ => "str"

/-! ### the elements of the exported list (each is `{"data": {...}}`) -/

inductive Elem
  /-- `{"id": str(node)}` — non‑compound node entry (io.py:42) -/
  | node (id : String)
  /-- `{"id", "parent", "parent_candidates": [{"name","type"}], "type"}` — compound node entry (io.py:23‑36) -/
  | cnode (id parent : String) (cands : List (String × String)) (type : String)
  /-- `{"id": name, "type": type}` — one per entry of `parents_dict` (io.py:37‑40) -/
  | parent (id type : String)
  /-- `{"id": f"e{i}", "source", "target"}` (io.py:43‑46) -/
  | edge (id source target : String)
  deriving DecidableEq, Repr, Inhabited

namespace Elem
/-- id of an entry that stands for a graph node (not a parent, not an edge) -/
def nodeId? : Elem → Option String
  | .node i => some i
  | .cnode i _ _ _ => some i
  | _ => none
/-- the `parent` reference of a compound node entry -/
def parentRef? : Elem → Option String
  | .cnode _ p _ _ => some p
  | _ => none
/-- `(id, type)` of a parent entry -/
def parent? : Elem → Option (String × String)
  | .parent i t => some (i, t)
  | _ => none
/-- `(id, source, target)` of an edge entry -/
def edge? : Elem → Option (String × String × String)
  | .edge i s t => some (i, s, t)
  | _ => none
/-- id of any cytoscape *node* element (graph node or compound parent) -/
def anyNodeId? : Elem → Option String
  | .node i => some i
  | .cnode i _ _ _ => some i
  | .parent i _ => some i
  | .edge _ _ _ => none
def id : Elem → String
  | .node i => i
  | .cnode i _ _ _ => i
  | .parent i _ => i
  | .edge i _ _ => i
end Elem

/-! ### a Python dict as an association list in insertion order -/

/-- `d[k] = v`: a present key keeps its position (and its original key object), only the value is replaced -/
def dictSet {κ β : Type} [DecidableEq κ] : List (κ × β) → κ → β → List (κ × β)
  | [], k, v => [(k, v)]
  | (k', v') :: r, k, v => if k' = k then (k', v) :: r else (k', v') :: dictSet r k v

/-- `d[k]` (`none` = KeyError) -/
def dictGet? {κ β : Type} [DecidableEq κ] : List (κ × β) → κ → Option β
  | [], _ => none
  | (k', v') :: r, k => if k' = k then some v' else dictGet? r k

/-! ### `to_cytoscape` -/

/-- `node.parent` as a dict key: the unique owner's identity (eq/hash), `None` when absent or ambiguous -/
def parentKey : Node → Option DS := Paths.colParent

/-- the value stored for `node` in `parents_dict` (io.py:13‑19): name = `str(node.parent)` or `"<unknown>"`, type =
    class name or `"Table or SubQuery"` — read from the node's key object -/
def parentVal (g : LGraph) (n : Node) : String × String :=
  match Holder.colOf g n with
  | some c =>
    (match c.parent? with
     | some (d, pn) => (pn, dsTypeName d)
     | none => ("<unknown>", "Table or SubQuery"))
  | none => ("<unknown>", "Table or SubQuery")

/-- `parents_dict = {node.parent: {...} for node in graph.nodes}` (io.py:11‑21): keyed by the parent OBJECT, later
    nodes overwrite the value of an equal key -/
def parentsDict (g : LGraph) : List (Option DS × (String × String)) :=
  g.nodes.foldl (fun d n => dictSet d (parentKey n) (parentVal g n)) []

/-- `parents_dict[node.parent]["name"]` -/
def parentNameOf (g : LGraph) (k : Option DS) : String :=
  match dictGet? (parentsDict g) k with
  | some v => v.1
  | none => ""        -- unreachable for the key of a node of `g` (`parentRef_resolves`)

/-- `[{"name": str(p), "type": type(p).__name__} for p in node.parent_candidates]` (sorted by name in the key object) -/
def candsOf (g : LGraph) (n : Node) : List (String × String) :=
  (Assemble.cands g n).map (fun p => (p.2, dsTypeName p.1))

def colEntry (g : LGraph) (n : Node) : Elem :=
  .cnode (printedNode g n) (parentNameOf g (parentKey n)) (candsOf g n) (typeName n)

def nodeEntries (g : LGraph) (compound : Bool) : List Elem :=
  if compound then g.nodes.map (colEntry g) else g.nodes.map (fun n => .node (printedNode g n))

def parentEntries (g : LGraph) (compound : Bool) : List Elem :=
  if compound then (parentsDict g).map (fun kv => .parent kv.2.1 kv.2.2) else []

def edgeId (i : Nat) : String := "e" ++ toString i

/-- io.py:43‑46: `enumerate(graph.edges)` -/
def edgeEntries (g : LGraph) : List Elem :=
  g.edgesOrdered.zipIdx.map (fun ei => .edge (edgeId ei.2) (printedNode g ei.1.1) (printedNode g ei.1.2))

/-- `to_cytoscape(graph, compound)`: node entries, then (compound) parent entries, then edges -/
def toCytoscape (g : LGraph) (compound : Bool) : List Elem :=
  nodeEntries g compound ++ parentEntries g compound ++ edgeEntries g

inductive Level | table | column
  deriving DecidableEq, Repr, Inhabited

/-- the view a level exports (holders.py:310‑323) -/
def view (G : LGraph) : Level → LGraph
  | .table => Assemble.tableGraph G
  | .column => Assemble.columnGraph G

/-- `LineageRunner.to_cytoscape(level)` (runner.py:107‑115) -/
def runnerCytoscape (G : LGraph) (l : Level) : List Elem :=
  toCytoscape (view G l) (l == .column)

/-! ### the items whose printed names become cytoscape node ids -/

/-- the view's nodes and, at column level, the distinct owners (`parents_dict` keys: an owner object or `None`) -/
inductive Item
  | node (n : Node)
  | parent (k : Option DS)
  deriving DecidableEq, Repr

def items (g : LGraph) (compound : Bool) : List Item :=
  g.nodes.map Item.node ++ (if compound then (parentsDict g).map (fun kv => Item.parent kv.1) else [])

/-- the name an item is exported under -/
def printItem (g : LGraph) : Item → String
  | .node n => printedNode g n
  | .parent k => parentNameOf g k

/-! ### text summary (runner.py:74‑90, `verbose=False`) -/

def insertSorted (x : String) : List String → List String
  | [] => [x]
  | y :: r => if x < y then x :: y :: r else y :: insertSorted x r

/-- `sorted(names)`: the key is the printed name itself, so equal keys are equal strings and stability is moot -/
def isort : List String → List String
  | [] => []
  | x :: r => insertSorted x (isort r)

structure Summary where
  nStmts : Nat
  source : List String
  target : List String
  intermediate : List String
  deriving DecidableEq, Repr, Inhabited

/-- `runner.source_tables` etc. printed: `sorted(holder.<role>_tables, key=str)` then `str(t)` (runner.py:136‑155) -/
def summaryOf (nStmts : Nat) (G : LGraph) : Summary :=
  { nStmts := nStmts,
    source := isort ((Assemble.sourceTables G).map (printedNode G)),
    target := isort ((Assemble.targetTables G).map (printedNode G)),
    intermediate := isort ((Assemble.intermediateTables G).map (printedNode G)) }

def joinLines (l : List String) : String := "\n    ".intercalate l

/-- the f‑string of `__str__`; the intermediate section only when the list is non‑empty, and without a final newline -/
def Summary.text (s : Summary) : String :=
  "Statements(#): " ++ toString s.nStmts ++ "\nSource Tables:\n    " ++ joinLines s.source ++
  "\nTarget Tables:\n    " ++ joinLines s.target ++ "\n" ++
  (if s.intermediate.isEmpty then "" else "Intermediate Tables:\n    " ++ joinLines s.intermediate)

/-! ### runtime‑checkable graph invariants (used as hypotheses in `Props/C18.lean`; the driver reports them per case) -/

/-- every edge joins two nodes of the graph -/
def edgesWFb (g : LGraph) : Bool := g.edges.all (fun e => g.nodes.contains e.1 && g.nodes.contains e.2)

def nodupb {α : Type} [DecidableEq α] : List α → Bool
  | [] => true
  | x :: r => !r.contains x && nodupb r

end SqlLineage.Export
