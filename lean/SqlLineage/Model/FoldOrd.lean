/-
`SQLLineageHolder._build_digraph` (holders.py:379‑405) with EVERY set iteration made explicit: the loops over `holder.drop`,
`holder.rename` and `itertools.product(holder.read, holder.write)` iterate Python sets of hash‑by‑name objects, so their order
is a function of the process hash seed.  `Model/Assemble.lean` fixes the graph's own orders (and exposes only the rename
order); here all four are parameters, so that C11 can quantify over them.  `foldStepOrd id id id ord = foldStep ord`
(`Props.C11.foldAllOrd_model`).  No Mathlib.
-/
import SqlLineage.Model.Assemble

namespace SqlLineage.Assemble
open SqlLineage Graph

/-- `foldStep` with every set iteration made explicit: `holder.drop`, `holder.read`, `holder.write`, `holder.rename` -/
def foldStepOrd (dropOrd readOrd writeOrd : List Node → List Node) (renameOrd : List (Node × Node) → List (Node × Node))
    (g : LGraph) (h : LGraph) : Except Err LGraph :=
  let g := g.compose h
  let drop := stmtDrop h
  let ren := stmtRename h
  if !drop.isEmpty then .ok (dropStep g (dropOrd drop))
  else if !ren.isEmpty then .ok (renameStep g (renamesInOrder h (renameOrd ren)))
  else .ok (rwStep g (readOrd (stmtRead h)) (writeOrd (stmtWrite h)))

/-- the four set‑iteration orders of one run -/
structure Orders where
  drop : List Node → List Node
  read : List Node → List Node
  write : List Node → List Node
  rename : List (Node × Node) → List (Node × Node)

/-- every order is a permutation of the iterated collection (all a hash seed can do) -/
def Orders.IsPerm (o : Orders) : Prop :=
  (∀ l, (o.drop l).Perm l) ∧ (∀ l, (o.read l).Perm l) ∧ (∀ l, (o.write l).Perm l) ∧ (∀ l, (o.rename l).Perm l)

def Orders.model : Orders := ⟨id, id, id, id⟩

/-- the loop over statement holders (holders.py:379‑405) under given orders -/
def foldAllOrd (o : Orders) : LGraph → List LGraph → Except Err LGraph
  | g, [] => .ok g
  | g, h :: r =>
    match foldStepOrd o.drop o.read o.write o.rename g h with
    | .ok g' => foldAllOrd o g' r
    | .error e => .error e

end SqlLineage.Assemble
