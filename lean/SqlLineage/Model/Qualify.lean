/-
Explicit qualification of a statement (property C14): `qualifyStmt S s` writes every single‑part table name of `s` that
denotes a BASE table as `S.name`.

  * targets (INSERT / CTAS / CREATE VIEW / CREATE TABLE [LIKE] / UPDATE / MERGE / COPY / DROP / RENAME), FROM elements and
    join elements, the source of CREATE TABLE … LIKE, the source of MERGE;
  * NOT the reference to a CTE that standard (non‑recursive) WITH scoping makes visible at that place — the same scoping as
    `Spec.rdCtes`: the i‑th CTE body sees the enclosing names and the CTEs before it, the main query sees all of them;
  * NOT aliases, column references or their qualifiers (a qualifier names a relation of the scope, not a table of a schema);
  * names that already have a (non‑empty) qualifier are left as they are.

Pure syntax: nothing here looks at the configuration.  What the rewriting *means* is the subject of `Props/C14.lean`.
One auxiliary function per nested list type (mutual structural recursion, as in `Spec/Tables.lean`).
-/
import SqlLineage.Model.Ast
import SqlLineage.Model.Ident

namespace SqlLineage.Qualify
open SqlLineage Ast

/-- the name has no effective qualifier: no qualifier parts at all, or qualifier parts whose normalised text is empty
    (`""`.t) — exactly the names for which `SqlFluffTable.of` / `Schema(name)` fall back to the default schema -/
def isBare (parts : List String) : Bool := ".".intercalate (parts.dropLast.map Ident.escapeS) == ""

/-- a table name at a place where no CTE can be meant (targets, LIKE sources, DROP / RENAME operands): a bare name gets
    the qualifier `S`, anything else stays as written -/
def qName (S : String) (parts : List String) : List String :=
  if isBare parts then [S, parts.getLast?.getD ""] else parts

/-- a table reference at a place where the CTE names `cte` (normalised) are visible: a single identifier naming a visible
    CTE stays -/
def qRef (S : String) (cte : List String) (parts : List String) : List String :=
  match parts with
  | [n] => if cte.contains (Ident.escapeS n) then [n] else [S, n]
  | _ => qName S parts

/-- the names visible after the CTE list `cs` (what `Spec.rdCtes … |>.2` computes) -/
def scopeAfter (cte : List String) : List Cte → List String
  | [] => cte
  | .mk name _ :: r => scopeAfter (cte ++ [Ident.escapeS name]) r

mutual
def qExpr (S : String) (cte : List String) : Expr → Expr
  | .col q n => .col q n
  | .star q => .star q
  | .lit t => .lit t
  | .func n d args over => .func n d (qExprs S cte args) (qOver S cte over)
  | .cast e ty => .cast (qExpr S cte e) ty
  | .case ws els => .case (qWhens S cte ws) (qOpt S cte els)
  | .bin op a b => .bin op (qExpr S cte a) (qExpr S cte b)
  | .paren e => .paren (qExpr S cte e)
  | .subq q => .subq (qQuery S cte q)
  | .inSubq e neg q => .inSubq (qExpr S cte e) neg (qQuery S cte q)
  | .exist neg q => .exist neg (qQuery S cte q)
def qExprs (S : String) (cte : List String) : List Expr → List Expr
  | [] => []
  | e :: r => qExpr S cte e :: qExprs S cte r
def qOpt (S : String) (cte : List String) : Option Expr → Option Expr
  | none => none
  | some e => some (qExpr S cte e)
def qOver (S : String) (cte : List String) : Option Over → Option Over
  | none => none
  | some (.mk p o) => some (.mk (qExprs S cte p) (qExprs S cte o))
def qWhens (S : String) (cte : List String) : List When → List When
  | [] => []
  | .mk c r :: rest => .mk (qExpr S cte c) (qExpr S cte r) :: qWhens S cte rest
def qItems (S : String) (cte : List String) : List Item → List Item
  | [] => []
  | .mk e a k :: r => .mk (qExpr S cte e) a k :: qItems S cte r
def qQuery (S : String) (cte : List String) : Query → Query
  | .select d its frm wh grp hav =>
    .select d (qItems S cte its) (qFromExprs S cte frm) (qOpt S cte wh) (qExprs S cte grp) (qOpt S cte hav)
  | .setop first rest => .setop (qBranch S cte first) (qOpBranches S cte rest)
  | .withq cs body => .withq (qCtes S cte cs) (qQuery S (scopeAfter cte cs) body)
def qBranch (S : String) (cte : List String) : Branch → Branch
  | .mk q b => .mk (qQuery S cte q) b
def qOpBranches (S : String) (cte : List String) : List OpBranch → List OpBranch
  | [] => []
  | .mk op b :: r => .mk op (qBranch S cte b) :: qOpBranches S cte r
/-- WITH c₁ … cₙ: cᵢ is rewritten with the enclosing names and c₁ … cᵢ₋₁ visible -/
def qCtes (S : String) (cte : List String) : List Cte → List Cte
  | [] => []
  | .mk name q :: r => .mk name (qQuery S cte q) :: qCtes S (cte ++ [Ident.escapeS name]) r
def qElem (S : String) (cte : List String) : FromElem → FromElem
  | .table parts a k => .table (qRef S cte parts) a k
  | .derived q a k => .derived (qQuery S cte q) a k
def qJoins (S : String) (cte : List String) : List Join → List Join
  | [] => []
  | .mk kind e on us :: r => .mk kind (qElem S cte e) (qOpt S cte on) us :: qJoins S cte r
def qFromExpr (S : String) (cte : List String) : FromExpr → FromExpr
  | .mk base js => .mk (qElem S cte base) (qJoins S cte js)
def qFromExprs (S : String) (cte : List String) : List FromExpr → List FromExpr
  | [] => []
  | f :: r => qFromExpr S cte f :: qFromExprs S cte r
end

def qSet (S : String) : SetClause → SetClause
  | ⟨tgt, src⟩ => ⟨tgt, qExpr S [] src⟩

def qMergeInsert (S : String) : MergeInsert → MergeInsert
  | ⟨cols, vals⟩ => ⟨cols, qExprs S [] vals⟩

def qMergeSource (S : String) : MergeSource → MergeSource
  | .table parts a => .table (qName S parts) a
  | .derived q a => .derived (qQuery S [] q) a

/-- every single‑part base‑table name of the statement written as `S.name` -/
def qualifyStmt (S : String) : Stmt → Stmt
  | .query q b => .query (qQuery S [] q) b
  | .insert k tk tgt cols q b => .insert k tk (qName S tgt) cols (qQuery S [] q) b
  | .insertValues tgt cols rows => .insertValues (qName S tgt) cols (rows.map (qExprs S []))
  | .ctas tgt orr ine q b => .ctas (qName S tgt) orr ine (qQuery S [] q) b
  | .createView tgt orr cols q => .createView (qName S tgt) orr cols (qQuery S [] q)
  | .createTable tgt ine cols => .createTable (qName S tgt) ine cols
  | .createTableLike tgt src => .createTableLike (qName S tgt) (qName S src)
  | .update tgt a sets frm wh => .update (qName S tgt) a (sets.map (qSet S)) (qFromExprs S [] frm) (qOpt S [] wh)
  | .merge tgt a src on ups ins =>
    .merge (qName S tgt) a (qMergeSource S src) (qExpr S [] on) (ups.map (fun l => l.map (qSet S))) (ins.map (qMergeInsert S))
  | .copy tgt p => .copy (qName S tgt) p
  | .drop v ie tgt => .drop v ie (qName S tgt)
  | .alterRename x y => .alterRename (qName S x) (qName S y)
  | .renameTable ps => .renameTable (ps.map (fun p => (qName S p.1, qName S p.2)))
  | .noop k sql => .noop k sql
  | .unsupported sql => .unsupported sql

end SqlLineage.Qualify
