/-
Model of the path handling of the bundled web application (`sqllineage/drawing.py`, `SQLLineageApp.__call__`
lines 44‑106 and the handlers `/lineage`, `/script`, `/directory` lines 163‑206; `utils/helpers.py:27‑45`
`extract_sql_from_args`; `config.py` `DIRECTORY`).

Strings are `List Char` (POSIX paths; the driver converts from/to `String`).  Layers, bottom up:

  * `splitSlash`, `hasSub`, `stripSlash`        – `str.split("/")`, `".." in s`, `str.strip("/")`
  * `PurePath`, `parse`, `str`, `join`, `parent`  – `pathlib.PurePosixPath` as far as the code uses it (CPython 3.9‑3.13):
        parsing drops empty and `.` segments, keeps `..`; the root is `""`, `"/"` or – for exactly two leading
        slashes – `"//"`; `absolute()` = join below the working directory **without** normalisation
  * `resolve`, `Inside`                         – lexical elimination of `..` (what `Path.resolve()` computes when no
        symlink is involved, see "trusted base" in `Props/C17.lean`); containment = prefix on resolved segment lists
  * `Node`, `walk`, `osResolve`, `osRead`, `osListdir` – a symlink‑free directory tree and POSIX path resolution on it
        (what `open()` / `os.listdir()` / `os.stat()` do with the string they are given)
  * `allowedFixed` / `allowedOrig`              – the POST containment check as repaired / as in the original code
  * `accessed`, `respondWith`, `respond`, `respondOrig` – the decision per request

Quirks reproduced on purpose: `/script` and `/lineage` open the *raw* string `f` (so `file.sql/.` and
`file.sql/` fail with ENOTDIR although pathlib would have dropped the `.`), whereas `/directory` and GET access
`str(Path(...))`; `NotADirectoryError` is not in the app's `except` lists, so it propagates out of the WSGI callable
(`crash`); `Path(x).parent` is the *pathlib* parent (drops the last segment, even if that is `..`); a payload key
that is present but empty (`""`) is still checked (it denotes the working directory) but not used by the handlers.

Outside the model (assumptions, see `harness/c17.py`): the request body is a JSON object whose `f`, `d`, `e` values
are strings (anything else makes `Path(...)`/`Namespace(**payload)` raise `TypeError` before any file access); no
symlinks; permissions (`PermissionError` → 404); text decoding errors of `open(...).read()`.
No Mathlib imports here (the driver is compiled).
-/
namespace SqlLineage.PathSec

abbrev Str := List Char
abbrev Seg := List Char

def dotdot : Seg := ['.', '.']
def dot : Seg := ['.']

/-! ### string primitives -/

/-- `s.split("/")` (always at least one piece) -/
def splitSlash : Str → List Seg
  | [] => [[]]
  | c :: r =>
    if c = '/' then [] :: splitSlash r
    else match splitSlash r with
      | [] => [[c]]
      | h :: t => (c :: h) :: t

/-- `pat in s` (substring test, `drawing.py:54` with `pat = ".."`) -/
def hasSub (pat : Str) : Str → Bool
  | [] => pat.isPrefixOf []
  | c :: r => pat.isPrefixOf (c :: r) || hasSub pat r

/-- `s.strip("/")` (`drawing.py:57`) -/
def stripSlash (s : Str) : Str :=
  ((s.dropWhile (· = '/')).reverse.dropWhile (· = '/')).reverse

def leadingSlashes : Str → Nat
  | [] => 0
  | c :: r => if c = '/' then leadingSlashes r + 1 else 0

/-! ### `pathlib.PurePosixPath` -/

/-- parsed path: `root` = number of slashes of the pathlib root (0 relative, 1 `/`, 2 `//`), `tail` = the parts -/
structure PurePath where
  root : Nat
  tail : List Seg
  deriving DecidableEq, Repr, Inhabited

def keepSeg (x : Seg) : Bool := x != [] && x != dot

/-- `Path(s)`: `posixpath.splitroot` + `[x for x in rel.split("/") if x and x != "."]` (`pathlib.py` `_parse_path`) -/
def parse (s : Str) : PurePath :=
  let n := leadingSlashes s
  { root := if n = 0 then 0 else if n = 2 then 2 else 1,
    tail := (splitSlash s).filter keepSeg }

/-- `"/".join(parts)` -/
def joinSlash : List Seg → Str
  | [] => []
  | [s] => s
  | s :: r => s ++ '/' :: joinSlash r

/-- `str(p)`; the empty relative path prints as `.` -/
def PurePath.str (p : PurePath) : Str :=
  if p.root = 0 ∧ p.tail = [] then ['.']
  else List.replicate p.root '/' ++ joinSlash p.tail

/-- `Path(a, b)` / `a.joinpath(b)`: an anchored `b` replaces `a` (`posixpath.join`) -/
def PurePath.join (a b : PurePath) : PurePath :=
  if b.root = 0 then { root := a.root, tail := a.tail ++ b.tail } else b

/-- `p.parent`: drops the last part whatever it is (also `..`); a path without parts is its own parent -/
def PurePath.parent (p : PurePath) : PurePath := { p with tail := p.tail.dropLast }

/-! ### lexical resolution and containment -/

def resolveStep (acc : List Seg) (s : Seg) : List Seg :=
  if s = dotdot then acc.dropLast
  else if s = [] ∨ s = dot then acc
  else acc ++ [s]

/-- lexical resolution of an **absolute** path's segments: `..` removes the previous segment, `/..` is `/` -/
def resolve (segs : List Seg) : List Seg := segs.foldl resolveStep []

/-- `a` (resolved segments) lies in or equals `root` (resolved segments) -/
def Inside (a root : List Seg) : Prop := root <+: a

instance (a root : List Seg) : Decidable (Inside a root) := by unfold Inside; infer_instance

/-! ### a symlink‑free file system and POSIX path resolution -/

inductive Node
  | file (id : Nat) (sql : Bool)            -- `id` identifies the content; `sql`: the analyzer accepts the content
  | dir (children : List (Seg × Node))

def Node.isDir : Node → Bool
  | .dir _ => true
  | .file .. => false

inductive Errno | ENOENT | ENOTDIR | EISDIR
  deriving DecidableEq, Repr

/-- directories entered from `/` down to the current position, each with the name it was entered by -/
abbrev Stack := List (Seg × Node)

def cur (fs : Node) (st : Stack) : Node :=
  match st.getLast? with
  | some (_, n) => n
  | none => fs

def lookup (ch : List (Seg × Node)) (s : Seg) : Option Node :=
  match ch with
  | [] => none
  | (k, n) :: r => if k = s then some n else lookup r s

/-- one path component.  Every component – also `.`, `..` and the empty one a doubled or trailing slash stands
    for – requires the current position to be a directory. -/
def walkStep (fs : Node) (st : Stack) (s : Seg) : Except Errno Stack :=
  match cur fs st with
  | .file .. => .error .ENOTDIR
  | .dir ch =>
    if s = dotdot then .ok st.dropLast
    else if s = [] ∨ s = dot then .ok st
    else match lookup ch s with
      | some n => .ok (st ++ [(s, n)])
      | none => .error .ENOENT

def walk (fs : Node) : Stack → List Seg → Except Errno Stack
  | st, [] => .ok st
  | st, s :: r =>
    match walkStep fs st s with
    | .ok st' => walk fs st' r
    | .error e => .error e

/-- the server process as far as path handling sees it -/
structure World where
  fs : Node
  cwd : Str           -- `os.getcwd()`: absolute, normalised
  rootPath : Str      -- `app.root_path` as configured (`drawing.py:34, 215`), possibly relative / un‑normalised
  defaultDir : Str    -- `SQLLineageConfig.DIRECTORY`
  pkgDir : Str        -- `os.path.dirname(__file__)` of `drawing.py`
  staticName : Str    -- `STATIC_FOLDER`

/-- resolution of the string handed to a system call; relative strings start at the working directory -/
def osResolve (w : World) (raw : Str) : Except Errno Stack :=
  match raw with
  | [] => .error .ENOENT
  | c :: _ =>
    if c = '/' then walk w.fs [] (splitSlash raw)
    else match walk w.fs [] (splitSlash w.cwd) with
      | .ok st => walk w.fs st (splitSlash raw)
      | .error e => .error e

/-- `open(raw).read()` → (content id, analyzer accepts it) -/
def osRead (w : World) (raw : Str) : Except Errno (Nat × Bool) :=
  match osResolve w raw with
  | .error e => .error e
  | .ok st =>
    match cur w.fs st with
    | .file id sql => .ok (id, sql)
    | .dir _ => .error .EISDIR

/-- `os.listdir(raw)` with `is_dir()` of each entry -/
def osListdir (w : World) (raw : Str) : Except Errno (List (Seg × Bool)) :=
  match osResolve w raw with
  | .error e => .error e
  | .ok st =>
    match cur w.fs st with
    | .file .. => .error .ENOTDIR
    | .dir ch => .ok (ch.map (fun kn => (kn.1, kn.2.isDir)))

/-! ### requests and responses -/

inductive Method | GET | POST | OPTIONS | other
  deriving DecidableEq, Repr

/-- the JSON body of a POST as far as the code looks at it: optional string members `f`, `d`, `e` -/
structure Payload where
  f : Option Str := none
  d : Option Str := none
  e : Option Str := none
  deriving DecidableEq, Repr

structure Request where
  method : Method
  pathInfo : Str
  payload : Payload := {}
  deriving DecidableEq, Repr

inductive Resp
  | fileContent (id : Nat)      -- 200: the bytes / text of file `id` (GET, `/script`)
  | analysis (id : Nat)         -- 200: lineage computed from the content of file `id` (`/lineage`)
  | analysisError (id : Nat)    -- 400: the analyzer rejected the content of file `id`; the message quotes the content
  | listing (shown : Str) (entries : List (Seg × Bool))   -- 200: `/directory`: `id` member + (name, is_dir) of each entry
  | fromPayload                 -- 200: computed from the request alone (`e`, or the empty script); no file access
  | options                     -- 200 with an empty body (CORS pre‑flight)
  | forbidden403                -- {"message": "File Not Allowed For Accessing"}
  | notFound404                 -- {"message": "File Not Found"}
  | notAllowed405               -- {"message": "Method Not Allowed"}
  | crash (exc : String)        -- an exception leaves the WSGI callable (the server answers 500 without our data)
  deriving DecidableEq, Repr

/-- the response carries file content or directory entries -/
def served : Resp → Bool
  | .fileContent _ | .analysis _ | .analysisError _ | .listing .. => true
  | _ => false

def Resp.status : Resp → Nat
  | .fileContent _ | .analysis _ | .listing .. | .fromPayload | .options => 200
  | .analysisError _ => 400
  | .forbidden403 => 403
  | .notFound404 => 404
  | .notAllowed405 => 405
  | .crash _ => 500

/-- the literal body of the responses that carry no file system data (`none`: no body produced by the app) -/
def Resp.fixedBody : Resp → Option String
  | .forbidden403 => some "{\"message\": \"File Not Allowed For Accessing\"}"
  | .notFound404 => some "{\"message\": \"File Not Found\"}"
  | .notAllowed405 => some "{\"message\": \"Method Not Allowed\"}"
  | .options => some ""
  | _ => none

/-- exceptions the app maps (`drawing.py:103`; `helpers.py:33‑42` turn them into `exit(1)` = `SystemExit`) and the
    one it does not: `NotADirectoryError` -/
def errResp : Errno → Resp
  | .ENOENT => .notFound404
  | .EISDIR => .notFound404
  | .ENOTDIR => .crash "NotADirectoryError"

def routeLineage : Str := "/lineage".toList
def routeScript : Str := "/script".toList
def routeDirectory : Str := "/directory".toList

/-- `app.routes` (`drawing.py:163, 182, 189`) -/
def routes : List Str := [routeLineage, routeScript, routeDirectory]

/-- `Path("index.html")` (`drawing.py:52`) -/
def indexHtml : PurePath := { root := 0, tail := ["index.html".toList] }

/-- Python truthiness of `payload.get(k)` for string values -/
def truthy : Option Str → Option Str
  | some (c :: r) => some (c :: r)
  | _ => none

def World.cwdPath (w : World) : PurePath := parse w.cwd
def World.root (w : World) : PurePath := parse w.rootPath
/-- `Path(os.path.dirname(__file__)).joinpath(Path(STATIC_FOLDER))` (`drawing.py:45`) -/
def World.static (w : World) : PurePath := (parse w.pkgDir).join (parse w.staticName)

/-- `p.absolute()`: below the working directory when relative, **not** normalised -/
def World.absolute (w : World) (p : PurePath) : PurePath := w.cwdPath.join p

/-- segments of `p.resolve()` in a symlink‑free tree: absolute, `.`/`..` eliminated, root `/` -/
def World.resolved (w : World) (p : PurePath) : List Seg := resolve (w.absolute p).tail

/-- the repaired test: `Path(x).resolve().is_relative_to(Path(self.root_path).resolve())` -/
def World.inRoot (w : World) (p : PurePath) : Bool := (w.resolved w.root).isPrefixOf (w.resolved p)

/-- the original test (`drawing.py:77‑79`): string prefix on un‑normalised absolute spellings -/
def World.inRootOrig (w : World) (p : PurePath) : Bool :=
  (w.absolute w.root).str.isPrefixOf (w.absolute p).str

/-- paths the repaired code validates: `d`, `f` when present, and – because `/directory` lists the folder
    *containing* `f` – the pathlib parent of a non‑empty `f` -/
def checkedPaths (pl : Payload) : List PurePath :=
  pl.d.toList.map parse ++ pl.f.toList.map parse ++ (truthy pl.f).toList.map (fun f => (parse f).parent)

/-- paths the original code validates: `d` and `f` when present -/
def checkedPathsOrig (pl : Payload) : List PurePath :=
  pl.d.toList.map parse ++ pl.f.toList.map parse

def allowedFixed (w : World) (pl : Payload) : Bool := (checkedPaths pl).all w.inRoot
def allowedOrig (w : World) (pl : Payload) : Bool := (checkedPathsOrig pl).all w.inRootOrig

/-- the directory `/directory` lists (`drawing.py:191‑196`) -/
def dirTarget (w : World) (pl : Payload) : PurePath :=
  match truthy pl.f with
  | some f => (parse f).parent
  | none =>
    match truthy pl.d with
    | some d => parse d
    | none => parse w.defaultDir

/-- the static file a GET asks for (`drawing.py:51‑57`) -/
def getTarget (w : World) (pathInfo : Str) : PurePath :=
  if pathInfo = ['/'] then w.static.join indexHtml
  else w.static.join (parse (stripSlash pathInfo))

/-- The path (as pathlib sees it) that the handler for this request hands to the operating system, if it hands any;
    independent of whether the containment check lets the request through. -/
def accessed (w : World) (rq : Request) : Option PurePath :=
  match rq.method with
  | .GET => some (getTarget w rq.pathInfo)
  | .POST =>
    if rq.pathInfo = routeDirectory then some (dirTarget w rq.payload)
    else if rq.pathInfo ∈ routes then (truthy rq.payload.f).map parse
    else none
  | _ => none

/-- The string the handler passes to `open` / `os.listdir` / `os.stat`: the raw `f` for `/script` and `/lineage`
    (`helpers.py:31`), `str(...)` of the pathlib path otherwise. -/
def accessedRaw (w : World) (rq : Request) : Option Str :=
  match rq.method with
  | .GET => some (getTarget w rq.pathInfo).str
  | .POST =>
    if rq.pathInfo = routeDirectory then some (dirTarget w rq.payload).str
    else if rq.pathInfo ∈ routes then truthy rq.payload.f
    else none
  | _ => none

/-- response `r` carries exactly the data of node `n` -/
def discloses : Resp → Node → Prop
  | .fileContent id, .file id' _ => id = id'
  | .analysis id, .file id' sql => id = id' ∧ sql = true
  | .analysisError id, .file id' sql => id = id' ∧ sql = false
  | .listing _ es, .dir ch => es = ch.map (fun kn => (kn.1, kn.2.isDir))
  | _, _ => False

def respondGet (w : World) (pathInfo : Str) : Resp :=
  let t := (getTarget w pathInfo).str
  if pathInfo = ['/'] then
    match osRead w t with
    | .ok (id, _) => .fileContent id
    | .error e => errResp e
  else if hasSub dotdot pathInfo then .notFound404
  else
    match osResolve w t with            -- `static_file.exists()`
    | .error _ => .notFound404
    | .ok _ =>
      match osRead w t with
      | .ok (id, _) => .fileContent id
      | .error e => errResp e

/-- `extract_sql_from_args` on a non‑empty `f`: opens the raw string -/
def readScript (w : World) (f : Str) (k : Nat × Bool → Resp) : Resp :=
  match osRead w f with
  | .ok r => k r
  | .error e => errResp e

def respondPost (allowed : World → Payload → Bool) (w : World) (route : Str) (pl : Payload) : Resp :=
  if route ∉ routes then .notFound404
  else if !allowed w pl then .forbidden403
  else if route = routeDirectory then
    let t := (dirTarget w pl).str
    match osListdir w t with
    | .ok es => .listing t es
    | .error e => errResp e
  else
    match truthy pl.f with
    | none => .fromPayload
    | some f =>
      if route = routeScript then readScript w f (fun r => .fileContent r.1)
      else readScript w f (fun r => if r.2 then .analysis r.1 else .analysisError r.1)

def respondWith (allowed : World → Payload → Bool) (w : World) (rq : Request) : Resp :=
  match rq.method with
  | .GET => respondGet w rq.pathInfo
  | .POST => respondPost allowed w rq.pathInfo rq.payload
  | .OPTIONS => if rq.pathInfo ∈ routes then .options else .notFound404
  | .other => .notAllowed405

/-- the application with the repaired containment check -/
def respond : World → Request → Resp := respondWith allowedFixed

/-- the application as it was (D22, D23) -/
def respondOrig : World → Request → Resp := respondWith allowedOrig

end SqlLineage.PathSec
