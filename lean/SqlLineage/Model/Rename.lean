/-
Renaming of statement‑LOCAL names over the typed AST (property C08): table aliases, derived‑table aliases and CTE names;
adding / dropping a table alias; toggling the optional AS keyword.  One engine (`renStmt`) parameterised by a `Cfg`, so
there is a single definition of "consistent renaming with correct scoping" that both the theorems (`Props/C08.lean`) and
the correspondence check (`harness/c08.py`, through `IO/Rename.lean`) use.

Scoping rules implemented (the standard ones; the CODE's rules are the subject of the check, anchors in brackets):
  * CTE names (`extractors/cte.py`, `base.py:159‑170`): `vis` = normalised CTE names visible by standard non‑recursive
    scoping, exactly the environment of `Spec.rdQuery`.  A CTE definition is renamed at its definition; a table
    reference is renamed iff it is single‑part and its normalised name is visible (otherwise it is a base table and is
    left alone).
  * aliases (`holders.py:83‑88, 187‑205`): every SELECT block contributes the bindings of its own FROM elements (base
    element and join elements, not descending into derived tables): an element answers to its alias, an un‑aliased table
    to its bare name.  `σ` = the qualifier substitution in force: innermost binding first; a binding that is not renamed
    SHADOWS an outer renamed binding of the same name.  Single‑part qualifiers of column references and of `q.*` are
    rewritten through `σ`.  Select items, WHERE, GROUP BY, HAVING and ON conditions (and the subqueries inside them, which
    may be correlated) see the block's bindings; derived tables of the FROM clause and CTE bodies see only the enclosing ones.
Names are compared after normalisation (`Ident.escapeS`, the code's `escape_identifier_name`); the keys of a substitution
are normalised names, its values are spellings.
-/
import SqlLineage.Model.Ast
import SqlLineage.Model.Ident

namespace SqlLineage.Rename
open SqlLineage Ast

/-- old local name (normalised) ↦ new spelling; the first entry for a key counts -/
abbrev Subst := List (String × String)

def norm (s : String) : String := Ident.escapeS s

/-- rename a spelling -/
def app (ρ : Subst) (n : String) : String := (ρ.lookup (norm n)).getD n

/-- the same on normalised names -/
def appN (ρ : Subst) (k : String) : String :=
  match ρ.lookup k with
  | some v => norm v
  | none => k

/-- qualifier substitution in force: key ↦ `some new` (rewritten) or `none` (answers to its own name: shadows) -/
abbrev QEnv := List (String × Option String)

def qapp (σ : QEnv) (q : String) : String :=
  match σ.lookup (norm q) with
  | some (some v) => v
  | _ => q

/-- only a single‑part qualifier can name an alias -/
def renQuals (σ : QEnv) : List String → List String
  | [q] => [qapp σ q]
  | quals => quals

structure Cfg where
  ρ : Subst := []                -- rename: normalised CTE name / alias ↦ new spelling
  add : Subst := []              -- add an alias: normalised bare name of an un‑aliased FROM table ↦ the alias it gets
  drop : List String := []       -- drop aliases (normalised) of FROM tables; their qualifiers become the bare name
  toggle : Bool := false         -- flip the optional AS keyword of every FROM alias
  toggleItems : Bool := false    -- … and of every select‑item alias
  deriving Repr, Inhabited

/-- a table reference after renaming the CTE it resolves to (if any) -/
def renParts (c : Cfg) (vis : List String) : List String → List String
  | [n] => if vis.contains (norm n) then [app c.ρ n] else [n]
  | parts => parts

def lastOf (parts : List String) : String := parts.getLast?.getD ""

/-- the alias of a FROM table after the operation; `bare'` = its (possibly renamed) bare name -/
def newAlias (c : Cfg) (bare : String) : Option String → Option String
  | some a => if c.drop.contains (norm a) then none else some (app c.ρ a)
  | none => c.add.lookup (norm bare)

def newAs (toggle : Bool) (alias' : Option String) (asKw : Bool) : Bool :=
  match alias' with
  | none => false
  | some _ => if toggle then !asKw else asKw

/-- the binding a FROM table contributes to its block -/
def bindTable (c : Cfg) (vis : List String) (parts : List String) (alias : Option String) : String × Option String :=
  let bare := lastOf parts
  let bare' := lastOf (renParts c vis parts)
  match alias with
  | some a => (norm a, if c.drop.contains (norm a) then some bare' else c.ρ.lookup (norm a))
  | none =>
    (norm bare, match c.add.lookup (norm bare) with
      | some new => some new
      | none => if bare' == bare then none else some bare')

def bindElem (c : Cfg) (vis : List String) : FromElem → QEnv
  | .table parts alias _ => [bindTable c vis parts alias]
  | .derived _ alias _ => match alias with | some a => [(norm a, c.ρ.lookup (norm a))] | none => []

def bindJoins (c : Cfg) (vis : List String) : List Join → QEnv
  | [] => []
  | .mk _ e _ _ :: r => bindElem c vis e ++ bindJoins c vis r

/-- bindings of a SELECT block's own FROM clause -/
def bindFromExprs (c : Cfg) (vis : List String) : List FromExpr → QEnv
  | [] => []
  | .mk b js :: r => bindElem c vis b ++ bindJoins c vis js ++ bindFromExprs c vis r

mutual
def renExpr (c : Cfg) (vis : List String) (σ : QEnv) : Expr → Expr
  | .col quals name => .col (renQuals σ quals) name
  | .star quals => .star (renQuals σ quals)
  | .lit t => .lit t
  | .func n d args over =>
    .func n d (renExprs c vis σ args)
      (match over with | some (.mk p o) => some (.mk (renExprs c vis σ p) (renExprs c vis σ o)) | none => none)
  | .cast e ty => .cast (renExpr c vis σ e) ty
  | .case ws els => .case (renWhens c vis σ ws) (match els with | some e => some (renExpr c vis σ e) | none => none)
  | .bin op a b => .bin op (renExpr c vis σ a) (renExpr c vis σ b)
  | .paren e => .paren (renExpr c vis σ e)
  | .subq q => .subq (renQuery c vis σ q)
  | .inSubq e neg q => .inSubq (renExpr c vis σ e) neg (renQuery c vis σ q)
  | .exist neg q => .exist neg (renQuery c vis σ q)
def renExprs (c : Cfg) (vis : List String) (σ : QEnv) : List Expr → List Expr
  | [] => []
  | e :: r => renExpr c vis σ e :: renExprs c vis σ r
def renOpt (c : Cfg) (vis : List String) (σ : QEnv) : Option Expr → Option Expr
  | none => none
  | some e => some (renExpr c vis σ e)
def renWhens (c : Cfg) (vis : List String) (σ : QEnv) : List When → List When
  | [] => []
  | .mk cnd r :: rest => .mk (renExpr c vis σ cnd) (renExpr c vis σ r) :: renWhens c vis σ rest
def renItems (c : Cfg) (vis : List String) (σ : QEnv) : List Item → List Item
  | [] => []
  | .mk e alias asKw :: r => .mk (renExpr c vis σ e) alias (newAs c.toggleItems alias asKw) :: renItems c vis σ r
/-- `vis`: CTE names visible here; `σ`: qualifier substitution of the enclosing scopes -/
def renQuery (c : Cfg) (vis : List String) (σ : QEnv) : Query → Query
  | .select d its frm wh grp hav =>
    .select d (renItems c vis (bindFromExprs c vis frm ++ σ) its) (renFromExprs c vis σ (bindFromExprs c vis frm ++ σ) frm)
      (renOpt c vis (bindFromExprs c vis frm ++ σ) wh) (renExprs c vis (bindFromExprs c vis frm ++ σ) grp)
      (renOpt c vis (bindFromExprs c vis frm ++ σ) hav)
  | .setop first rest => .setop (renBranch c vis σ first) (renOpBranches c vis σ rest)
  | .withq cs body => .withq (renCtes c vis σ cs).1 (renQuery c (renCtes c vis σ cs).2 σ body)
def renBranch (c : Cfg) (vis : List String) (σ : QEnv) : Branch → Branch
  | .mk q b => .mk (renQuery c vis σ q) b
def renOpBranches (c : Cfg) (vis : List String) (σ : QEnv) : List OpBranch → List OpBranch
  | [] => []
  | .mk op b :: r => .mk op (renBranch c vis σ b) :: renOpBranches c vis σ r
/-- WITH c₁ … cₙ: cᵢ is renamed in the scope of the enclosing names and c₁ … cᵢ₋₁.  Returns the renamed list and the
    (ORIGINAL, normalised) names visible to the body. -/
def renCtes (c : Cfg) (vis : List String) (σ : QEnv) : List Cte → List Cte × List String
  | [] => ([], vis)
  | .mk name q :: r =>
    (.mk (app c.ρ name) (renQuery c vis σ q) :: (renCtes c (vis ++ [norm name]) σ r).1,
     (renCtes c (vis ++ [norm name]) σ r).2)
/-- `σ`: scope of a derived table's body (the enclosing one) -/
def renElem (c : Cfg) (vis : List String) (σ : QEnv) : FromElem → FromElem
  | .table parts alias asKw =>
    .table (renParts c vis parts) (newAlias c (lastOf (renParts c vis parts)) alias)
      (newAs c.toggle (newAlias c (lastOf (renParts c vis parts)) alias) asKw)
  | .derived q alias asKw =>
    .derived (renQuery c vis σ q) (alias.map (app c.ρ)) (newAs c.toggle (alias.map (app c.ρ)) asKw)
/-- `σb`: the block's scope, for ON conditions -/
def renJoins (c : Cfg) (vis : List String) (σ σb : QEnv) : List Join → List Join
  | [] => []
  | .mk kind e on us :: r => .mk kind (renElem c vis σ e) (renOpt c vis σb on) us :: renJoins c vis σ σb r
def renFromExpr (c : Cfg) (vis : List String) (σ σb : QEnv) : FromExpr → FromExpr
  | .mk base js => .mk (renElem c vis σ base) (renJoins c vis σ σb js)
def renFromExprs (c : Cfg) (vis : List String) (σ σb : QEnv) : List FromExpr → List FromExpr
  | [] => []
  | f :: r => renFromExpr c vis σ σb f :: renFromExprs c vis σ σb r
end

/-- the operation applied to a statement (statement kinds without a query are left alone; UPDATE / MERGE are not
    modelled by the walk and are left alone too) -/
def renStmt (c : Cfg) : Stmt → Stmt
  | .query q b => .query (renQuery c [] [] q) b
  | .insert k tk tgt cols q b => .insert k tk tgt cols (renQuery c [] [] q) b
  | .ctas tgt o i q b => .ctas tgt o i (renQuery c [] [] q) b
  | .createView tgt o cols q => .createView tgt o cols (renQuery c [] [] q)
  | s => s

/-- consistent renaming of CTE names, table aliases and derived‑table aliases -/
def renameStmt (ρ : Subst) (s : Stmt) : Stmt := renStmt { ρ := ρ } s
/-- give un‑aliased FROM tables an alias (`a` : normalised bare name ↦ alias) and rewrite their qualifiers -/
def addAlias (a : Subst) (s : Stmt) : Stmt := renStmt { add := a } s
/-- remove the listed aliases from FROM tables; qualifiers using them are rewritten to the table's bare name -/
def dropAlias (d : List String) (s : Stmt) : Stmt := renStmt { drop := d } s
/-- flip the optional AS keyword of every FROM alias and select‑item alias -/
def toggleAs (s : Stmt) : Stmt := renStmt { toggle := true, toggleItems := true } s

/-! ### the names of a statement -/

inductive Kind
  | cte        -- name of a CTE at its definition
  | alias      -- alias of a FROM element
  | single     -- a single‑part table reference (CTE reference or base table of the default schema)
  | bare       -- last part of any table reference
  | qual       -- single‑part qualifier of a column reference or of `q.*`
  | unaliased  -- bare name of a FROM table without alias
  | aliased (alias : String)   -- bare name of a FROM table carrying `alias` (normalised)
  deriving DecidableEq, Repr

abbrev Names := List (Kind × String)

def nmQuals : List String → Names
  | [q] => [(.qual, norm q)]
  | _ => []

mutual
def nmExpr : Expr → Names
  | .col quals _ => nmQuals quals
  | .star quals => nmQuals quals
  | .lit _ => []
  | .func _ _ args over => nmExprs args ++ (match over with | some (.mk p o) => nmExprs p ++ nmExprs o | none => [])
  | .cast e _ => nmExpr e
  | .case ws els => nmWhens ws ++ (match els with | some e => nmExpr e | none => [])
  | .bin _ a b => nmExpr a ++ nmExpr b
  | .paren e => nmExpr e
  | .subq q => nmQuery q
  | .inSubq e _ q => nmExpr e ++ nmQuery q
  | .exist _ q => nmQuery q
def nmExprs : List Expr → Names
  | [] => []
  | e :: r => nmExpr e ++ nmExprs r
def nmOpt : Option Expr → Names
  | none => []
  | some e => nmExpr e
def nmWhens : List When → Names
  | [] => []
  | .mk c r :: rest => nmExpr c ++ nmExpr r ++ nmWhens rest
def nmItems : List Item → Names
  | [] => []
  | .mk e _ _ :: r => nmExpr e ++ nmItems r
def nmQuery : Query → Names
  | .select _ its frm wh grp hav => nmFromExprs frm ++ nmItems its ++ nmOpt wh ++ nmExprs grp ++ nmOpt hav
  | .setop first rest => nmBranch first ++ nmOpBranches rest
  | .withq cs body => nmCtes cs ++ nmQuery body
def nmBranch : Branch → Names
  | .mk q _ => nmQuery q
def nmOpBranches : List OpBranch → Names
  | [] => []
  | .mk _ b :: r => nmBranch b ++ nmOpBranches r
def nmCtes : List Cte → Names
  | [] => []
  | .mk name q :: r => (.cte, norm name) :: nmQuery q ++ nmCtes r
def nmElem : FromElem → Names
  | .table parts alias _ =>
    (match parts with | [n] => [(.single, norm n)] | _ => []) ++ [(.bare, norm (lastOf parts))] ++
      (match alias with
        | some a => [(.alias, norm a), (.aliased (norm a), norm (lastOf parts))]
        | none => [(.unaliased, norm (lastOf parts))])
  | .derived q alias _ => (match alias with | some a => [(.alias, norm a)] | none => []) ++ nmQuery q
def nmJoins : List Join → Names
  | [] => []
  | .mk _ e on _ :: r => nmElem e ++ nmOpt on ++ nmJoins r
def nmFromExpr : FromExpr → Names
  | .mk base js => nmElem base ++ nmJoins js
def nmFromExprs : List FromExpr → Names
  | [] => []
  | f :: r => nmFromExpr f ++ nmFromExprs r
end

def stmtQuery? : Stmt → Option Query
  | .query q _ => some q
  | .insert _ _ _ _ q _ => some q
  | .ctas _ _ _ q _ => some q
  | .createView _ _ _ q => some q
  | _ => none

def names (s : Stmt) : Names :=
  match stmtQuery? s with
  | some q => nmQuery q
  | none => []

def ofKind (k : Kind) (l : Names) : List String := (l.filter (fun x => x.1 == k)).map (·.2)

/-- statement‑local names: CTE names and FROM aliases (normalised) -/
def localNames (s : Stmt) : List String := ofKind .cte (names s) ++ ofKind .alias (names s)
/-- bare names of the tables the statement's FROM clauses mention (normalised) -/
def baseNames (s : Stmt) : List String := ofKind .bare (names s)
/-- names used as single‑part qualifiers -/
def qualNames (s : Stmt) : List String := ofKind .qual (names s)

/-- the new names of a substitution, normalised -/
def news (ρ : Subst) : List String := ρ.map (fun p => norm p.2)

def nodupB : List String → Bool
  | [] => true
  | x :: r => !r.contains x && nodupB r

/-- `ρ` is injective and its new names clash with nothing: not with a local name, not with the bare name of a table,
    not with a qualifier in use -/
def freshInj (ρ : Subst) (s : Stmt) : Bool :=
  nodupB (news ρ) && nodupB (ρ.map (·.1)) &&
  (news ρ).all (fun n => !(localNames s).contains n && !(baseNames s).contains n && !(qualNames s).contains n)

def FreshInj (ρ : Subst) (s : Stmt) : Prop := freshInj ρ s = true
instance (ρ : Subst) (s : Stmt) : Decidable (FreshInj ρ s) := by unfold FreshInj; infer_instance

/-- as `freshInj`, but a new ALIAS may equal the bare name of a table of the statement as long as nothing refers to that
    table by this name (D7 territory: standard scoping lets the alias shadow the bare name); a new CTE name may still
    not equal a single‑part table reference (it would capture it) -/
def freshInjLoose (ρ : Subst) (s : Stmt) : Bool :=
  nodupB (news ρ) && nodupB (ρ.map (·.1)) &&
  (news ρ).all (fun n => !(localNames s).contains n && !(qualNames s).contains n) &&
  ρ.all (fun p => !(ofKind .cte (names s)).contains p.1 ||
    (!(ofKind .single (names s)).contains (norm p.2) && !(baseNames s).contains (norm p.2)))

/-- the renaming gives some alias the bare name of a table of the statement -/
def d7Class (ρ : Subst) (s : Stmt) : Bool :=
  ρ.any (fun p => (ofKind .alias (names s)).contains p.1 && (baseNames s).contains (norm p.2))

/-- the statement itself has the D7 shape: some FROM alias — written, or the default alias (= bare name) of an un‑aliased
    table — equals the bare name of (another) table reference of the statement.  Statement‑wide over‑approximation of "in
    the same FROM scope"; the check pairs it with `implementation = model` -/
def d7Shape (s : Stmt) : Bool :=
  let n := names s
  let bs := ofKind .bare n
  (ofKind .alias n).any (fun a => bs.contains a) || (ofKind .unaliased n).any (fun u => bs.count u ≥ 2)

/-- aliases may be added: the new aliases are fresh (keys that are not the bare name of an un‑aliased FROM table do nothing) -/
def addOk (a : Subst) (s : Stmt) : Bool := freshInj a s

/-- bare names (normalised) of the FROM tables carrying one of the aliases `d` -/
def droppedBares (d : List String) (s : Stmt) : List String :=
  (names s).filterMap (fun x => match x.1 with | .aliased a => if d.contains a then some x.2 else none | _ => none)

/-- the listed aliases may be dropped from the FROM tables carrying them (derived tables keep theirs): the bare name each
    such table falls back to is borne by no other table reference of the statement and is neither an alias nor a qualifier
    in use, so rewriting `alias.c` to `bare.c` captures nothing and is captured by nothing -/
def dropOk (d : List String) (s : Stmt) : Bool :=
  let bs := droppedBares d s
  nodupB bs &&
  bs.all (fun b => (baseNames s).count b == 1 && !(ofKind .alias (names s)).contains b && !(qualNames s).contains b)

end SqlLineage.Rename
