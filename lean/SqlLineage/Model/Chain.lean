/-
Script level view of `LineageRunner._eval` (runner.py:201‑213) for property C04: what each statement registers in the
metadata session, the statement loop generalised over the per‑statement analysis function, and a trace variant that
records the provider after every statement (driver command `chain`, compared with the harness' session tap).
No Mathlib.
-/
import SqlLineage.Model.Runner

namespace SqlLineage.Chain
open SqlLineage Ast Holder Graph Walk Runner

/-- the session entry a statement holder causes (runner.py:205‑211): key = printed name of the FIRST write target when it
    is a `Table`, value = raw names of its non‑wildcard columns (`get_table_columns`, holders.py:154‑161); nothing is
    registered when that list is empty -/
def regEntry (h : LGraph) : Option (String × List String) :=
  match (Assemble.stmtWrite h).head? with
  | some (.ds (.table s n)) =>
    let cols := (getTableColumns h (.table s n)).map (·.raw)
    if cols.isEmpty then none else some (s ++ "." ++ n, cols)
  | _ => none

/-- the statement loop over an abstract per‑statement analysis `f provider stmt` -/
def analyzeAllG (f : Provider → Stmt → Except Err LGraph) : Provider → List Stmt → Except Err (Provider × List LGraph)
  | p, [] => .ok (p, [])
  | p, s :: r =>
    match f p s with
    | .error e => .error e
    | .ok h =>
      match analyzeAllG f (register p h) r with
      | .error e => .error e
      | .ok (p', hs) => .ok (p', h :: hs)

/-- the analysis function `Runner.analyzeAll` uses -/
def stmtFun (c : Config) : Provider → Stmt → Except Err LGraph :=
  fun p s => analyze ⟨c.cfgDefault, c.importDefault, p.view, c.ro, c.revStar⟩ c.silent s

structure Step where
  holder : LGraph
  registered : Option (String × List String)
  after : Provider

/-- like `analyzeAll`, recording per statement what was registered and the provider afterwards; stops at the first error -/
def trace (c : Config) : Provider → List Stmt → List Step × Option Err
  | _, [] => ([], none)
  | p, s :: r =>
    match stmtFun c p s with
    | .error e => ([], some e)
    | .ok h =>
      let p' := register p h
      let (steps, err) := trace c p' r
      (⟨h, regEntry h, p'⟩ :: steps, err)

/-- the session dict (`_session_metadata`): one entry per key, the LAST registration wins, keys in first‑insertion order -/
def sessionDict (s : List (String × List String)) : List (String × List String) :=
  ((s.map (·.1)).eraseDups).filterMap (fun k => (lookup s k).map (fun v => (k, v)))

end SqlLineage.Chain
