/-
Model of `sqllineage/config.py` (`_SQLLineageConfigLoader`).

State: the two dicts keyed by thread identifier
  `_thread_config : dict[int, dict[str, Any]]`   ↦ `cfg : Nat → Option Overrides`
  `_thread_in_context_manager : set[int]`        ↦ `ctx : Nat → Bool`
A Python dict keyed by thread id is modelled by a function with point update; the inner
overrides dict by an association list (`oset` replaces an existing key).  The environment
(`os.environ`) and the key table are parameters (`Env`); the key table used by the driver and the
theorems is the one the translator regenerates from the source (`Gen.Config.table`).

Two granularities:
  * `step`   – one *operation* (`__call__`, `__enter__`, `__exit__`, `__getattr__`, `__setattr__`)
  * `mstep`  – one *micro‑operation* (a single dict/set access of the source); `expand` gives the micro
               program of an operation as a function of the thread's own local state.
No Mathlib imports here (the driver is compiled).
-/
namespace SqlLineage.Config

inductive Ty | str | bool
  deriving DecidableEq, Repr, Inhabited

inductive Val
  | b (v : Bool)
  | i (v : Int)
  | s (v : String)
  deriving DecidableEq, Repr, Inhabited

/-- what the read / operation returns to the caller -/
inductive Out
  | unit                    -- returned normally, no value of interest
  | val (v : Val)           -- `__getattr__` result
  | cfgErr (what : String)  -- `ConfigException`; `what` ∈ {"readonly","invalid-key","reentrant"}
  | attrErr                 -- `AttributeError` (unknown attribute read)
  deriving DecidableEq, Repr, Inhabited

abbrev Overrides := List (String × Val)

def oget (o : Overrides) (k : String) : Option Val :=
  match o with
  | [] => none
  | (k', v) :: r => if k' = k then some v else oget r k

def oset (o : Overrides) (k : String) (v : Val) : Overrides :=
  match o with
  | [] => [(k, v)]
  | (k', v') :: r => if k' = k then (k, v) :: r else (k', v') :: oset r k v

structure Env where
  table  : List (String × Ty × Val)       -- `config` class attribute: key ↦ (type, default)
  truthy : List String                    -- the tuple in `parse_value`
  env    : String → Option String         -- os.environ.get("SQLLINEAGE_" + key)

def Env.ty? (e : Env) (k : String) : Option Ty :=
  (e.table.find? (·.1 = k)).map (·.2.1)

def Env.default? (e : Env) (k : String) : Option Val :=
  (e.table.find? (·.1 = k)).map (·.2.2)

def Env.isKey (e : Env) (k : String) : Bool := (e.ty? k).isSome

/-! ### `parse_value` -/

def isPySpace (c : Char) : Bool :=
  c = ' ' || c = '\t' || c = '\n' || c = '\r' || c = '\x0b' || c = '\x0c'

def stripL (l : List Char) : List Char := l.dropWhile isPySpace
def strip (l : List Char) : List Char := (stripL (stripL l).reverse).reverse

/-- digits with single underscores strictly between digits (PEP 515), ASCII only.
    `prevDigit` says whether the previous character was a digit. -/
def digitsVal : List Char → Bool → Nat → Option Nat
  | [], prevDigit, acc => if prevDigit then some acc else none
  | c :: r, prevDigit, acc =>
    if c.isDigit then digitsVal r true (acc * 10 + (c.toNat - '0'.toNat))
    else if c = '_' && prevDigit then
      match r with
      | d :: _ => if d.isDigit then digitsVal r false acc else none
      | [] => none
    else none

/-- Python `int(str)` on ASCII input: `none` stands for `ValueError`. -/
def pyInt? (s : String) : Option Int :=
  match strip s.toList with
  | '-' :: r => (digitsVal r false 0).map (fun n => - (n : Int))
  | '+' :: r => (digitsVal r false 0).map (fun n => (n : Int))
  | r => (digitsVal r false 0).map (fun n => (n : Int))

def lowerStrip (s : String) : String := String.ofList (strip (s.toList.map Char.toLower))

def pyStr : Val → String
  | .b true => "True"
  | .b false => "False"
  | .i n => toString n
  | .s x => x

def parseValue (truthy : List String) (v : Val) (t : Ty) : Val :=
  match t with
  | .str => .s (pyStr v)
  | .bool =>
    match v with
    | .b x => .b x                       -- int(True) = 1, int(False) = 0
    | .i n => .b (n != 0)
    | .s x =>
      match pyInt? x with
      | some n => .b (n != 0)
      | none => .b (truthy.contains (lowerStrip x))

/-! ### Operation‑level machine -/

structure State where
  cfg : Nat → Option Overrides
  ctx : Nat → Bool

def State.init : State := ⟨fun _ => none, fun _ => false⟩

def State.setCfg (s : State) (t : Nat) (o : Option Overrides) : State :=
  { s with cfg := fun t' => if t' = t then o else s.cfg t' }

def State.setCtx (s : State) (t : Nat) (b : Bool) : State :=
  { s with ctx := fun t' => if t' = t then b else s.ctx t' }

inductive Op
  | call (kvs : List (String × Val))   -- `SQLLineageConfig(**kvs)`
  | enter                              -- `__enter__`
  | exit                               -- `__exit__` (normal or exceptional)
  | read (k : String)                  -- `SQLLineageConfig.<k>`
  | assign (k : String)                -- `SQLLineageConfig.<k> = …`
  deriving DecidableEq, Repr, Inhabited

/-- the thread‑local part of the state -/
structure Local where
  cfg : Option Overrides
  ctx : Bool
  deriving DecidableEq, Repr, Inhabited

def Local.init : Local := ⟨none, false⟩

def State.loc (s : State) (t : Nat) : Local := ⟨s.cfg t, s.ctx t⟩

def State.setLoc (s : State) (t : Nat) (l : Local) : State :=
  ⟨fun t' => if t' = t then l.cfg else s.cfg t', fun t' => if t' = t then l.ctx else s.ctx t'⟩

/-- store the (already validated) key/value pairs one by one, coercing each to the key's type -/
def storeAll (e : Env) (o : Overrides) : List (String × Val) → Overrides
  | [] => o
  | (k, v) :: r =>
    match e.ty? k with
    | some t => storeAll e (oset o k (parseValue e.truthy v t)) r
    | none => storeAll e o r         -- unreachable after validation

def lookup (e : Env) (l : Local) (k : String) : Out :=
  match e.ty? k, e.default? k with
  | some t, some d =>
    match (l.cfg.getD []) |> (oget · k) with
    | some v => .val v
    | none =>
      match e.env k with
      | some x => .val (parseValue e.truthy (.s x) t)
      | none => .val (parseValue e.truthy d t)
  | _, _ => .attrErr

/-- one operation executed by a thread on *its own* local state -/
def lstep (e : Env) (l : Local) : Op → Local × Out
  | .call kvs =>
    if l.ctx then (l, .cfgErr "reentrant")
    else if kvs.any (fun kv => !e.isKey kv.1) then (l, .cfgErr "invalid-key")
    else ({ l with cfg := some (storeAll e (l.cfg.getD []) kvs) }, .unit)
  | .enter =>
    if l.ctx then (l, .cfgErr "reentrant") else ({ l with ctx := true }, .unit)
  | .exit => (⟨none, false⟩, .unit)
  | .read k => (l, lookup e l k)
  | .assign k => if e.isKey k then (l, .cfgErr "readonly") else (l, .unit)

def step (e : Env) (s : State) (t : Nat) (op : Op) : State × Out :=
  let r := lstep e (s.loc t) op
  (s.setLoc t r.1, r.2)

/-- run a global trace (any interleaving): list of (thread, op) -/
def run (e : Env) : State → List (Nat × Op) → State × List (Nat × Out)
  | s, [] => (s, [])
  | s, (t, op) :: r =>
    let (s', o) := step e s t op
    let (s'', os) := run e s' r
    (s'', (t, o) :: os)

/-- run one thread alone on a local state -/
def lrun (e : Env) : Local → List Op → Local × List Out
  | l, [] => (l, [])
  | l, op :: r =>
    let (l', o) := lstep e l op
    let (l'', os) := lrun e l' r
    (l'', o :: os)

/-! ### Micro‑operation machine (one shared‑state access per step)

Each micro‑op is what a single source line of `config.py` does to the two dicts, keyed by the
identifier of the *calling* thread.  Pure (non‑mutating) checks are micro‑ops too so that a
pre‑emption between a check and the act that depends on it is representable. -/

inductive MOp
  | ensure                         -- `if ident not in _thread_config: _thread_config[ident] = {}`
  | store (k : String) (v : Val)   -- `_thread_config[ident][k] = parse_value(v, type)`
  | ctxAdd                         -- `_thread_in_context_manager.add(ident)`
  | popCfg                         -- `if ident in _thread_config: _thread_config.pop(ident)`
  | ctxRemove                      -- `if ident in …: ….remove(ident)`
  | nop                            -- a line that only reads this thread's own entries
  deriving DecidableEq, Repr, Inhabited

def lmstep (e : Env) (l : Local) : MOp → Local
  | .ensure => match l.cfg with | none => { l with cfg := some [] } | some _ => l
  | .store k v =>
    match e.ty? k with
    | some t => { l with cfg := some (oset (l.cfg.getD []) k (parseValue e.truthy v t)) }
    | none => l
  | .ctxAdd => { l with ctx := true }
  | .popCfg => { l with cfg := none }
  | .ctxRemove => { l with ctx := false }
  | .nop => l

def mstep (e : Env) (s : State) (t : Nat) (m : MOp) : State :=
  s.setLoc t (lmstep e (s.loc t) m)

def mrun (e : Env) : State → List (Nat × MOp) → State
  | s, [] => s
  | s, (t, m) :: r => mrun e (mstep e s t m) r

def lmrun (e : Env) : Local → List MOp → Local
  | l, [] => l
  | l, m :: r => lmrun e (lmstep e l m) r

/-- micro program of an operation, given the caller's local state at the time the op starts
    (the checks only look at the caller's own entries, which no other thread can change). -/
def expand (e : Env) (l : Local) : Op → List MOp
  | .call kvs =>
    if l.ctx then [.nop]
    else if kvs.any (fun kv => !e.isKey kv.1) then [.nop, .nop]
    else [.nop, .nop, .ensure] ++ kvs.map (fun kv => .store kv.1 kv.2)
  | .enter => if l.ctx then [.nop] else [.nop, .ctxAdd]
  | .exit => [.popCfg, .ctxRemove]
  | .read _ => [.nop]
  | .assign _ => [.nop]

end SqlLineage.Config
