/-
Abstract statements for property C03: what a statement does at table level, and the statement holder the public
holder API builds for it (`add_read` per read table in order, then `add_write`; `add_drop`; `add_rename` per pair).
Tables live in the placeholder schema.
-/
import SqlLineage.Model.Holder
import SqlLineage.Model.Assemble

namespace SqlLineage.AStmt
open SqlLineage

inductive AStmt
  | rw (reads : List String) (write : Option String)
  | drop (t : String)
  | rename (pairs : List (String × String))
  deriving DecidableEq, Repr, Inhabited

def tbl (t : String) : DS := .table Gen.Const.schemaUnknown t
def tn (t : String) : Node := .ds (tbl t)

def holderOf : AStmt → LGraph
  | .rw rs w =>
    let g := rs.foldl (fun g r => Holder.addRead g (tbl r) (some r)) Graph.empty
    match w with
    | some w => Holder.addWrite g (tbl w)
    | none => g
  | .drop t => Holder.addDrop Graph.empty (tbl t)
  | .rename ps => ps.foldl (fun g p => Holder.addRename g (tbl p.1) (tbl p.2)) Graph.empty

def build (ss : List AStmt) : Except Err LGraph := Assemble.build Assemble.Prov.none (ss.map holderOf)

end SqlLineage.AStmt
