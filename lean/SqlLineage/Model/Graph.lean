/-
Model of the subset of `networkx.DiGraph` that sqllineage uses (networkx 3.6.1):
`add_node`, `add_edge`, `compose`, `remove_node`, `remove_edge`, `relabel_nodes(copy=True)` with a single pair,
`set_node_attributes`, `degree`, `in_degree`, `out_degree`, `subgraph`, `selfloop_edges`, iteration orders.

Representation (see DESIGN §2.1): node list in insertion order, edge list in insertion order (per‑node successor
order = the filtered list, as in `_succ[u]`), attributes as *functions* read only through the masking accessors
`tag` / `ety` / `idx` (an attribute of an absent node or edge reads as absent, and (re)adding a node or edge
starts from an empty attribute dict).  `π` is a payload attached to a node when it is first inserted — it models
the *key object* a dict keeps (first inserted wins), which matters for `Column` objects whose `parent_candidates`
are not part of their equality.  No Mathlib.
-/
namespace SqlLineage

/-- node attribute keys (`utils/constant.py::NodeTag`) -/
inductive Tag | read | write | cte | drop | sourceOnly | targetOnly | selfloop
  deriving DecidableEq, Repr, Inhabited

/-- edge `type` attribute (`utils/constant.py::EdgeType`) -/
inductive EType | lineage | rename | hasColumn | hasAlias
  deriving DecidableEq, Repr, Inhabited

structure Graph (ν : Type) (π : Type) where
  nodes : List ν
  edges : List (ν × ν)
  ntag  : ν → Tag → Option Bool
  etype : ν → ν → EType
  eidx  : ν → ν → Option Nat
  pay   : ν → Option π

namespace Graph
variable {ν π : Type} [DecidableEq ν]

def empty : Graph ν π := ⟨[], [], fun _ _ => none, fun _ _ => .lineage, fun _ _ => none, fun _ => none⟩

def hasNode (g : Graph ν π) (n : ν) : Bool := g.nodes.contains n
def hasEdge (g : Graph ν π) (u v : ν) : Bool := g.edges.contains (u, v)

/-- `g.nodes[n].get(t)` -/
def tag (g : Graph ν π) (n : ν) (t : Tag) : Option Bool := if g.hasNode n then g.ntag n t else none
/-- `g.edges[u, v]["type"]` -/
def ety (g : Graph ν π) (u v : ν) : Option EType := if g.hasEdge u v then some (g.etype u v) else none
/-- `g.edges[u, v].get("index")` -/
def idx (g : Graph ν π) (u v : ν) : Option Nat := if g.hasEdge u v then g.eidx u v else none
/-- the key object stored for node `n` -/
def payload (g : Graph ν π) (n : ν) : Option π := if g.hasNode n then g.pay n else none

/-- `add_node(n)` without attributes; `p` is the object used as key if the node is new -/
def addNode (g : Graph ν π) (n : ν) (p : Option π := none) : Graph ν π :=
  if g.hasNode n then g
  else { g with nodes := g.nodes ++ [n],
                ntag := fun m t => if m = n then none else g.ntag m t,
                pay := fun m => if m = n then p else g.pay m }

/-- `add_node(n, **{t: b})` / `g.nodes[n][t] = b` on a present node -/
def setTag (g : Graph ν π) (n : ν) (t : Tag) (b : Bool) (p : Option π := none) : Graph ν π :=
  let g' := g.addNode n p
  { g' with ntag := fun m t' => if m = n ∧ t' = t then some b else g'.ntag m t' }

/-- `nx.set_node_attributes(g, {n: b for n in ns}, t)` — silently skips absent nodes -/
def setTags (g : Graph ν π) (ns : List ν) (t : Tag) (b : Bool) : Graph ν π :=
  { g with ntag := fun m t' => if ns.contains m ∧ g.hasNode m ∧ t' = t then some b else g.ntag m t' }

/-- `add_edge(u, v, type=ty[, index=i])` -/
def addEdge (g : Graph ν π) (u v : ν) (ty : EType) (i : Option Nat := none)
    (pu : Option π := none) (pv : Option π := none) : Graph ν π :=
  let g1 := (g.addNode u pu).addNode v pv
  if g1.hasEdge u v then
    { g1 with etype := fun a b => if a = u ∧ b = v then ty else g1.etype a b,
              eidx := fun a b => if a = u ∧ b = v then (match i with | some k => some k | none => g1.eidx a b)
                                 else g1.eidx a b }
  else
    { g1 with edges := g1.edges ++ [(u, v)],
              etype := fun a b => if a = u ∧ b = v then ty else g1.etype a b,
              eidx := fun a b => if a = u ∧ b = v then i else g1.eidx a b }

/-- `nx.compose(g, h)`: nodes and edges of `g` first, then the new ones of `h`; attribute dicts are updated key by
    key, `h` winning; the key object of a node present in both is `g`'s. -/
def compose (g h : Graph ν π) : Graph ν π :=
  { nodes := g.nodes ++ h.nodes.filter (fun n => !g.hasNode n),
    edges := g.edges ++ h.edges.filter (fun e => !g.hasEdge e.1 e.2),
    ntag := fun n t => match h.tag n t with | some b => some b | none => g.tag n t,
    etype := fun u v => if h.hasEdge u v then h.etype u v else g.etype u v,
    eidx := fun u v => match h.idx u v with | some k => some k | none => g.idx u v,
    pay := fun n => if g.hasNode n then g.pay n else h.pay n }

/-- `remove_node(n)` (the caller checks presence) -/
def removeNode (g : Graph ν π) (n : ν) : Graph ν π :=
  { g with nodes := g.nodes.filter (· ≠ n), edges := g.edges.filter (fun e => e.1 ≠ n ∧ e.2 ≠ n) }

/-- `remove_edge(u, v)`; `none` stands for `NetworkXError` (edge absent) -/
def removeEdge? (g : Graph ν π) (u v : ν) : Option (Graph ν π) :=
  if g.hasEdge u v then some { g with edges := g.edges.filter (· ≠ (u, v)) } else none

def outEdges (g : Graph ν π) (u : ν) : List ν := (g.edges.filter (·.1 = u)).map (·.2)
def inEdges (g : Graph ν π) (v : ν) : List ν := (g.edges.filter (·.2 = v)).map (·.1)
def outDeg (g : Graph ν π) (u : ν) : Nat := (g.outEdges u).length
def inDeg (g : Graph ν π) (v : ν) : Nat := (g.inEdges v).length
/-- `g.degree[n]` (a self‑loop counts twice) -/
def degree (g : Graph ν π) (n : ν) : Nat := g.inDeg n + g.outDeg n

/-- `g.edges` iteration order: node‑major, then successor insertion order -/
def edgesOrdered (g : Graph ν π) : List (ν × ν) := g.nodes.flatMap (fun u => (g.outEdges u).map (fun v => (u, v)))

/-- `g.subgraph(ns)` as a filter (a view: attributes are those of `g`) -/
def subgraph (g : Graph ν π) (keep : ν → Bool) : Graph ν π :=
  { g with nodes := g.nodes.filter keep, edges := g.edges.filter (fun e => keep e.1 && keep e.2) }

/-- `{e[0] for e in nx.selfloop_edges(g)}` -/
def selfloopNodes (g : Graph ν π) : List ν := g.nodes.filter (fun n => g.hasEdge n n)

/-- `nx.relabel_nodes(g, {old: new})` (copy=True; `_relabel_copy`).  `pnew` is the key object supplied in the mapping.
    Nodes: image of the node list, first occurrence kept; a node's attribute dict is that of the LAST original node
    mapped onto it (`H._node.update` replaces the whole dict).  Edges: image of `g.edges` in iteration order, first
    occurrence kept; attribute dicts are updated key by key in that order (later wins). -/
def relabel (g : Graph ν π) (old new : ν) (pnew : Option π := none) : Graph ν π :=
  let m : ν → ν := fun n => if n = old then new else n
  let nodes' := (g.nodes.map m).eraseDups
  let eo := g.edgesOrdered
  let edges' := (eo.map (fun e => (m e.1, m e.2))).eraseDups
  -- last original node mapped onto x
  let lastSrc : ν → Option ν := fun x => (g.nodes.filter (fun n => m n = x)).getLast?
  let srcEdges : ν → ν → List (ν × ν) := fun a b => eo.filter (fun e => m e.1 = a ∧ m e.2 = b)
  { nodes := nodes',
    edges := edges',
    ntag := fun x t => match lastSrc x with | some n => g.ntag n t | none => none,
    etype := fun a b => match (srcEdges a b).getLast? with | some e => g.etype e.1 e.2 | none => .lineage,
    eidx := fun a b => ((srcEdges a b).filterMap (fun e => g.eidx e.1 e.2)).getLast?,
    pay := fun x =>
      -- key object: first node of `g` (in order) mapped onto x; if that node is `old`, the mapping's object
      match (g.nodes.filter (fun n => m n = x)).head? with
      | some n => if n = old then pnew else g.pay n
      | none => none }

end Graph
end SqlLineage
