/-
C09 — dialects and both parsers agree on core SQL.

WHAT IS PROVED HERE, AND WHAT IS NOT.  The model of the analyzer (`Walk.analyze`, `Runner.eval`) has no dialect
parameter: the only thing a dialect does in `sqllineage` is select the sqlfluff grammar that turns text into a tree
(runner.py:185‑192, analyzer.py:30‑33), and the model starts from the tree (the typed AST).  So

  * `analyze_dialect_free` / `run_dialect_free` are DEFINITIONAL (`rfl`): they record that fact, nothing more;
  * `agreement_reduction` (+ `_accepting`, `_modulo`, `_masked`) is the honest shape of the argument: IF every accepting
    dialect's result equals the one dialect‑free reference THEN all accepting dialects agree pairwise.  Trivial, but it is
    exactly the reduction the check relies on;
  * `agreement_from_reference` is the form the harness evaluates literally (implementation vs implementation: every
    accepting dialect against the first accepting one).

The hypothesis of the reduction — "dialect d's grammar turns the rendered text into the tree the AST stands for, and the
extractors then behave like the model" — is about ~30 third‑party grammars and CANNOT be proved; it is validated per
generated program by `harness/c09.py` (shape correspondence + agreement), which is why the check claims
`translation_validation`, not `proof`.

Shape side (`Model/Shape.lean`): structural facts about the normalised tree shape the AST stands for, and the tie of the
statement‑type renamings the harness allow‑lists to the REGENERATED dispatch table (`Gen.Dispatch`, tie #1): a renamed
statement type is lineage‑neutral only if the same extractor claims both names.
-/
import SqlLineage.Model.Runner
import SqlLineage.Model.Shape
import SqlLineage.Spec.Tables
import SqlLineage.Spec.Agreement
import SqlLineage.Props.C01
import SqlLineage.Proofs.ShapeLemmas

namespace SqlLineage.Props.C09
open SqlLineage Ast Walk

/-! ### the model takes no dialect -/

/-- the model's statement analysis "under dialect `d`": `d` is ignored because `Walk.analyze` has no such parameter -/
def analyzeUnder {δ : Type} (_d : δ) (env : Env) (silent : Bool) (s : Stmt) : Except Err LGraph :=
  Walk.analyze env silent s

/-- DEFINITIONAL: for any two dialect tags the model's result for a statement is the same -/
theorem analyze_dialect_free {δ : Type} (d₁ d₂ : δ) (env : Env) (silent : Bool) (s : Stmt) :
    analyzeUnder d₁ env silent s = analyzeUnder d₂ env silent s := rfl

/-- the whole run (script → combined graph and statement holders), "under dialect `d`" -/
def runUnder {δ : Type} (_d : δ) (c : Runner.Config) (md : List (String × List String)) (ss : List Stmt) :=
  Runner.eval c md ss

/-- DEFINITIONAL: table lineage, column lineage and everything else `Runner.eval` returns are dialect‑free in the model -/
theorem run_dialect_free {δ : Type} (d₁ d₂ : δ) (c : Runner.Config) (md : List (String × List String)) (ss : List Stmt) :
    runUnder d₁ c md ss = runUnder d₂ c md ss := rfl

/-! ### the reduction: agreement with one reference ⇒ pairwise agreement -/

/-- if every dialect in `D` gives the reference result on `x`, any two dialects in `D` give the same result on `x` -/
theorem agreement_reduction {δ ι ρ : Type} (impl : δ → ι → ρ) (model : ι → ρ) (D : δ → Prop) (x : ι)
    (h : ∀ d, D d → impl d x = model x) :
    ∀ d₁ d₂, D d₁ → D d₂ → impl d₁ x = impl d₂ x :=
  fun d₁ d₂ h₁ h₂ => (h d₁ h₁).trans (h d₂ h₂).symm

/-- the same with acceptance made explicit: `impl d x = none` means dialect `d` rejects the text.  Whatever is accepted
    means the same thing: "choosing a dialect changes which statements are accepted, never what an accepted one means" -/
theorem agreement_reduction_accepting {δ ι ρ : Type} (impl : δ → ι → Option ρ) (model : ι → ρ) (x : ι)
    (h : ∀ d r, impl d x = some r → r = model x) :
    ∀ d₁ d₂ r₁ r₂, impl d₁ x = some r₁ → impl d₂ x = some r₂ → r₁ = r₂ :=
  fun d₁ d₂ _ _ h₁ h₂ => (h d₁ _ h₁).trans (h d₂ _ h₂).symm

/-- modulo an equivalence on results (masking of anonymous subquery names, the dialect‑independent star order): only
    symmetry and transitivity are needed -/
theorem agreement_reduction_modulo {δ ι ρ : Type} (impl : δ → ι → ρ) (model : ι → ρ) (D : δ → Prop) (x : ι)
    (E : ρ → ρ → Prop) (symm : ∀ a b, E a b → E b a) (trans : ∀ a b c, E a b → E b c → E a c)
    (h : ∀ d, D d → E (impl d x) (model x)) :
    ∀ d₁ d₂, D d₁ → D d₂ → E (impl d₁ x) (impl d₂ x) :=
  fun d₁ d₂ h₁ h₂ => trans _ _ _ (h d₁ h₁) (symm _ _ (h d₂ h₂))

/-- the instance used for the legacy analyzer (`mask` = table lineage only) and for `subquery_<hash>` masking: agreement of
    the masked results -/
theorem agreement_reduction_masked {δ ι ρ μ : Type} (impl : δ → ι → ρ) (model : ι → ρ) (D : δ → Prop) (x : ι)
    (mask : ρ → μ) (h : ∀ d, D d → mask (impl d x) = mask (model x)) :
    ∀ d₁ d₂, D d₁ → D d₂ → mask (impl d₁ x) = mask (impl d₂ x) :=
  agreement_reduction_modulo impl model D x (fun a b => mask a = mask b) (fun _ _ e => e.symm)
    (fun _ _ _ e₁ e₂ => e₁.trans e₂) h

/-- what the harness evaluates literally (no model involved): every accepting dialect against ONE accepting reference
    dialect `d₀`; pairwise agreement follows -/
theorem agreement_from_reference {δ ι ρ : Type} (impl : δ → ι → ρ) (D : δ → Prop) (x : ι) (d₀ : δ)
    (h : ∀ d, D d → impl d x = impl d₀ x) :
    ∀ d₁ d₂, D d₁ → D d₂ → impl d₁ x = impl d₂ x :=
  agreement_reduction impl (impl d₀) D x h

/-- and modulo a masking -/
theorem agreement_from_reference_masked {δ ι ρ μ : Type} (impl : δ → ι → ρ) (D : δ → Prop) (x : ι) (d₀ : δ)
    (mask : ρ → μ) (h : ∀ d, D d → mask (impl d x) = mask (impl d₀ x)) :
    ∀ d₁ d₂, D d₁ → D d₂ → mask (impl d₁ x) = mask (impl d₂ x) :=
  agreement_reduction_masked impl (impl d₀) D x mask h

/-- the hypotheses are satisfiable by a non‑trivial instance: three "dialects", two of which accept and agree with the
    reference, the third rejects -/
example :
    let impl : Nat → Unit → Option Nat := fun d _ => if d = 2 then none else some 7
    ∀ d₁ d₂ r₁ r₂, impl d₁ () = some r₁ → impl d₂ () = some r₂ → r₁ = r₂ := by
  intro impl
  refine agreement_reduction_accepting impl (fun _ => 7) () ?_
  intro d r h
  by_cases hd : d = 2 <;> simp [impl, hd] at h
  exact h.symm

/-! ### the shape the typed AST stands for -/

open SqlLineage.Shape

/-- what the `shape` driver command returns for a statement: the text (depends on the rendering options) and the shape -/
def rendered (o : Render.Opts) (s : Stmt) : String × Option Shape := (Render.stmt o s, shapeFile s)

/-- DEFINITIONAL: the shape is a function of the AST alone — keyword case (`Opts.upper`) changes the text, and keywords
    are not part of the normalised shape -/
theorem shape_render_independent (o₁ o₂ : Render.Opts) (s : Stmt) : (rendered o₁ s).2 = (rendered o₂ s).2 := rfl

/-- exactly the core constructs have a shape -/
theorem shape_defined_iff_core (s : Stmt) :
    (shapeStmt s).isSome = true ↔
      (∃ q b, s = .query q b) ∨ (∃ k tk t c q b, s = .insert k tk t c q b) ∨ (∃ t o i q b, s = .ctas t o i q b) ∨
      (∃ t o c q, s = .createView t o c q) := by
  cases s <;> simp [shapeStmt]

/-- the segment type a query's shape has at its root -/
theorem root_query (q : Query) :
    rootType (queryShape q) =
      (match q with | .select .. => "select_statement" | .setop .. => "set_expression" | .withq .. => "with_compound_statement") := by
  cases q <;> rfl

/-- the segment type at the statement node of the shape is the type the model's dispatch looks at -/
theorem shape_root_is_stmtType (s : Stmt) (sh : Shape) (h : shapeStmt s = some sh) : rootType sh = stmtType s := by
  cases s with
  | query q br =>
    cases br
    · have : sh = queryShape q := by simpa [shapeStmt, Shape.bracketIf] using h.symm
      subst this; rw [root_query]; cases q <;> rfl
    · have : sh = .node "bracketed" [queryShape q] := by simpa [shapeStmt, Shape.bracketIf] using h.symm
      subst this; cases q <;> rfl
  | insert k tk t c q b => simp only [shapeStmt, Option.some.injEq] at h; subst h; rfl
  | ctas t o i q b => simp only [shapeStmt, Option.some.injEq] at h; subst h; rfl
  | createView t o c q => simp only [shapeStmt, Option.some.injEq] at h; subst h; rfl
  | _ => simp [shapeStmt] at h

/-- one `from_expression` per comma‑separated entry and one `join_clause` per join: the arities the SQL‑89 branch
    (`len(from_expressions) > 1`, select.py) and `list_join_clause` look at -/
theorem from_clause_arity (frm : List FromExpr) : (fromExprShapes frm).length = frm.length := by
  induction frm with
  | nil => simp [fromExprShapes]
  | cons f r ih => simp [fromExprShapes, ih]

theorem join_clause_arity (js : List Join) : (joinShapes js).length = js.length := by
  induction js with
  | nil => simp [joinShapes]
  | cons j r ih => simp [joinShapes, ih]

/-- one `select_clause_element` per select item -/
theorem select_clause_arity (its : List Item) : (itemShapes its).length = its.length := by
  induction its with
  | nil => simp [itemShapes]
  | cons i r ih => cases i; simp [itemShapes, ih]

section vocabulary
open SqlLineage.Proofs.ShapeLemmas SqlLineage.Shape.Shape

/-- **the shape only contains segment types of a fixed vocabulary** — for every core statement, at any size -/
theorem shape_vocabulary (s : Stmt) (sh : Shape) (h : shapeFile s = some sh) : ∀ t ∈ types sh, t ∈ vocab := by
  unfold shapeFile at h
  cases hs : shapeStmt s with
  | none => simp [hs] at h
  | some st =>
    simp only [hs, Option.map_some, Option.some.injEq] at h
    subst h
    exact ok_node (by decide) (okL_one (ok_node (by decide) (okL_one (ok_shapeStmt s st hs))))

/-- … and the vocabulary contains none of the segment types the normalisation drops or rewrites: the model shape is a fixed
    point of the filter the harness applies to the real tree (no keyword / symbol / whitespace / comment / meta segment, no
    child of the opaque `function_name` / `data_type`, none of the dialect wrappers the allow-list removes) -/
theorem vocab_excludes_dropped :
    ∀ t ∈ ["keyword", "symbol", "whitespace", "newline", "comment", "inline_comment", "block_comment", "indent", "dedent",
      "end_of_file", "raw", "word", "batch", "tuple", "object_reference", "view_reference", "create_table_as_statement",
      "create_table_as_select_statement", "identifier_list"], t ∉ vocab := by decide

end vocabulary

/-! ### statement‑type renamings the shape correspondence allow‑lists, checked against the REGENERATED dispatch table -/

/-- a renamed statement type is lineage‑neutral: the same extractor claims both names (over the generated tables, so
    dropping one of them from `SUPPORTED_STMT_TYPES` breaks this proof and sends the check searching) -/
theorem alias_same_extractor :
    ∀ p ∈ stmtTypeAliases, dispatch p.1 = dispatch p.2 ∧ (dispatch p.1).isSome = true := by decide

/-- K3 repaired: no dialect statement type that stands for a core statement type is left unclaimed … -/
theorem fixed_K3_none_unclaimed : stmtTypeUnclaimed = [] := rfl

/-- … impala's CTAS type is dispatched to the extractor that handles CREATE TABLE (over the REGENERATED table) -/
theorem fixed_K3 : dispatch "create_table_as_select_statement" = dispatch "create_table_statement" ∧
    (dispatch "create_table_as_select_statement").isSome = true := by decide

/-! ### the agreement classes: witnesses and non‑vacuity -/

open Spec.Agreement in
/-- a join, a derived table, a WHERE subquery, a CTE and a set operation: inside `Frag01` and outside every C09 class but the
    statement‑kind ones — the classes do not swallow the core language -/
example :
    let q : Query := .withq [.mk "c1" (.select false [.mk (.col [] "a") none false] [.mk (.table ["t1"] none false) []] none [] none)]
      (.setop (.mk (.select false [.mk (.col ["x"] "a") (some "k") true]
          [.mk (.table ["c1"] (some "x") false) [.mk "join" (.derived (.select false [.mk (.col [] "b") none false]
            [.mk (.table ["s1", "t2"] none false) []] none [] none) (some "d") false) (some (.bin "=" (.col ["x"] "a") (.col ["d"] "b"))) []]]
          (some (.inSubq (.col ["x"] "a") false (.select false [.mk (.col [] "c") none false] [.mk (.table ["t3"] none false) []] none [] none)))
          [] none) false)
        [.mk "union all" (.mk (.select false [.mk (.col [] "c") none false] [.mk (.table ["t4"] none false) [], .mk (.table ["t5"] none false) []] none [] none) false)])
    Spec.deviations (.insert .insertInto false ["tgt"] none q false) = [] ∧
    classes (.insert .insertInto false ["tgt"] none q false) = ["K1"] := by decide

open Spec.Agreement in
/-- witnesses of the classes (the ASTs of the statements recorded in known_findings.json) -/
theorem class_witnesses :
    let t1 : List FromExpr := [.mk (.table ["t1"] none false) []]
    let sel (its : List Item) (wh : Option Expr) : Query := .select false its t1 wh [] none
    let sub : Query := .select false [.mk (.col [] "c") none false] [.mk (.table ["t3"] none false) []] none [] none
    let a : Item := .mk (.col [] "a") none false
    -- K1  select a from t1 where a in (select c from t3)
    classes (.query (sel [a] (some (.inSubq (.col [] "a") false sub))) false) = ["K1"] ∧
    -- (K2 repaired)  create view tgt as select a from t1
    classes (.createView ["tgt"] false none (sel [a] none)) = [] ∧
    -- L4 (K3 repaired)  create table if not exists tgt as select a from t1
    classes (.ctas ["tgt"] false true (sel [a] none) false) = ["L4"] ∧
    -- K4  select case when a > 1 then b end e from t1
    classes (.query (sel [.mk (.case [.mk (.bin ">" (.col [] "a") (.lit "1")) (.col [] "b")] none) (some "e") false] none) false) = ["K4"] ∧
    -- L1  select a from t1 join t2 on t1.a = t2.a, t3
    classes (.query (.select false [a] [.mk (.table ["t1"] none false) [.mk "join" (.table ["t2"] none false)
        (some (.bin "=" (.col ["t1"] "a") (.col ["t2"] "a"))) []], .mk (.table ["t3"] none false) []] none [] none) false) = ["L1"] ∧
    -- L2  select a from t1 where (a in (select c from t3))
    classes (.query (sel [a] (some (.paren (.inSubq (.col [] "a") false sub)))) false) = ["L2", "K1"] ∧
    -- L3  select cast((select c from t3) as int) as f from t1
    classes (.query (sel [.mk (.cast (.subq sub) "int") (some "f") true] none) false) = ["L3"] ∧
    -- L5  select max(a, b) over (partition by c) as f from t1
    classes (.query (sel [.mk (.func "max" false [.col [] "a", .col [] "b"] (some (.mk [.col [] "c"] []))) (some "f") true] none) false) = ["L5"] ∧
    -- L6  insert into s1.tgt (select a from t1)
    classes (.insert .insertInto false ["s1", "tgt"] none (sel [a] none) true) = ["L6"] ∧
    -- L8  select a from ((select a from t1) except select c from t3) q
    classes (.query (.select false [a] [.mk (.derived (.setop (.mk (sel [a] none) true) [.mk "except" (.mk sub false)]) (some "q") false) []]
        none [] none) false) = ["L8"] := by decide

end SqlLineage.Props.C09
