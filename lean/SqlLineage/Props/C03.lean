import SqlLineage.Model.AStmt
namespace SqlLineage.Props.C03
theorem placeholder : True := trivial
end SqlLineage.Props.C03
