/-
C03 — script summary roles follow from per‑statement reads and writes.

Theorems about `AStmt.build` = `Assemble.build` (model of `SQLLineageHolder._build_digraph` + role predicates,
core/holders.py:297‑458) on the statement holders the public holder API builds for abstract statements.
The model is tied to the code by the exhaustive correspondence of `harness/c03.py`.

* DROP/RENAME‑free histories: `build_rw` (invariant `Inv`), `edge_iff`, `roles_iff`, `order_and_repetition_irrelevant`.
* DROP: `drop_frame`, `drop_removes_iff_isolated`.
* RENAME: `foldStep_total` / `rename_total` (D10 repaired), `rename_removes_old`, and "puts y exactly in x's place":
  - `rename_in_place` — for EVERY well‑formed fold state `g` without `y`: nodes (a), edges with their type and index (b),
    tags of all other nodes unchanged and NO tag on `y` (c), result well‑formed; `rename_in_place_nodes_cases` (the isolated
    table vanishes), `rename_in_place_tags` (under "x carries no tag" `y` has exactly `x`'s attributes);
  - `rename_in_place_roles_graph` — if `x` carries none of SOURCE_ONLY / TARGET_ONLY / SELFLOOP, `y` gets exactly `x`'s
    roles, `x` has none, every other node keeps its roles (a self loop on `x` is NOT excluded: it moves to `y`);
  - `rename_in_place_roles`, `rename_in_place_roles_tables` — (d) lifted to histories: RW‑only history in which `x` is never
    read by a statement that writes nothing nor written by a statement that reads nothing and `y` does not occur, followed by
    `RENAME x TO y`;
  - `rename_in_place_any_history`, `rename_in_place_roles_any_history` — the same at ANY point of ANY history (DROP / RENAME
    statements before it included): every fold state is well‑formed and free of SELFLOOP tags (`fold_wf`,
    `fold_no_selfloop_tag` in `Proofs/RelabelLemmas.lean`); hypotheses on the state: `y` absent, `x` without SOURCE_ONLY /
    TARGET_ONLY;
  - the hypotheses are not idle: `rename_loses_tags_witness` (tags), `rename_onto_existing_witness` (`y` absent);
    `rename_selfloop_witness`, `rename_isolated_vanishes_witness`.
  Lemmas: `Proofs/RelabelLemmas.lean`.  Not covered by a general theorem: the hypotheses of the any‑history form are stated on
  the fold state, not on the history, when DROP/RENAME statements precede (the invariant `Inv` speaks of RW‑only histories);
  the role transfer of a multi‑pair RENAME; renaming onto an existing table (a merge, not "in place").
-/
import SqlLineage.Proofs.AStmtLemmas
import SqlLineage.Proofs.RelabelLemmas
import SqlLineage.Proofs.C10Assemble

namespace SqlLineage.Props.C03
open SqlLineage Graph Assemble AStmt

/-! ### history predicates (the property's vocabulary) -/

/-- some statement reads `r` and writes `w` -/
def feeds (ss : List AStmt) (r w : String) : Prop := ∃ R, AStmt.rw R (some w) ∈ ss ∧ r ∈ R
/-- `t` is read by a statement that writes nothing -/
def srcOnly (ss : List AStmt) (t : String) : Prop := ∃ R, AStmt.rw R none ∈ ss ∧ t ∈ R
/-- `t` is written by a statement that reads nothing -/
def tgtOnly (ss : List AStmt) (t : String) : Prop := AStmt.rw [] (some t) ∈ ss
/-- one statement both reads and writes `t` -/
def self (ss : List AStmt) (t : String) : Prop := feeds ss t t
def readSomewhere (ss : List AStmt) (t : String) : Prop := ∃ R w, AStmt.rw R w ∈ ss ∧ t ∈ R
def writtenSomewhere (ss : List AStmt) (t : String) : Prop := ∃ R, AStmt.rw R (some t) ∈ ss
/-- the history contains no DROP / RENAME -/
def RWOnly (ss : List AStmt) : Prop := ∀ s ∈ ss, ∃ R w, s = AStmt.rw R w

/-! ### invariant of the fold -/

structure Inv (ss : List AStmt) (g : LGraph) : Prop where
  nodes : ∀ n, n ∈ g.nodes ↔ (∃ t, n = tn t ∧ (readSomewhere ss t ∨ writtenSomewhere ss t)) ∨
                              (∃ t, n = Node.str t ∧ readSomewhere ss t)
  edges : ∀ e, e ∈ g.edges ↔ (∃ r w, e = (tn r, tn w) ∧ feeds ss r w) ∨
                              (∃ r, e = (tn r, Node.str r) ∧ readSomewhere ss r)
  src : ∀ n, g.tag n .sourceOnly = some true ↔ ∃ t, n = tn t ∧ srcOnly ss t
  tgt : ∀ n, g.tag n .targetOnly = some true ↔ ∃ t, n = tn t ∧ tgtOnly ss t
  loop : ∀ n, g.tag n .selfloop = none

private theorem inv_empty : Inv [] (Graph.empty : LGraph) := by
  constructor <;> intro x <;>
    simp [readSomewhere, writtenSomewhere, feeds, srcOnly, tgtOnly]

private theorem mem_snoc {α : Type} (l : List α) (a x : α) : x ∈ l ++ [a] ↔ x ∈ l ∨ x = a := by simp

private theorem inv_step (ss : List AStmt) (g : LGraph) (R : List String) (w : Option String) (hI : Inv ss g) :
    Inv (ss ++ [AStmt.rw R w])
      (rwStep (g.compose (holderOf (.rw R w))) (stmtRead (holderOf (.rw R w))) (stmtWrite (holderOf (.rw R w)))) := by
  have hrdN : ∀ n ∈ stmtRead (holderOf (.rw R w)), n ∈ (g.compose (holderOf (.rw R w))).nodes := by
    intro n hn
    obtain ⟨r, hr, rfl⟩ := (mem_stmtRead_rw R w n).mp hn
    exact (mem_nodes_compose _ _ _).mpr (Or.inr ((rw_nodes R w _).mpr (Or.inl ⟨r, hr, Or.inl rfl⟩)))
  have hwrN : ∀ n ∈ stmtWrite (holderOf (.rw R w)), n ∈ (g.compose (holderOf (.rw R w))).nodes := by
    intro n hn
    obtain ⟨x, hx, rfl⟩ := (mem_stmtWrite_rw R w n).mp hn
    exact (mem_nodes_compose _ _ _).mpr (Or.inr ((rw_nodes R w _).mpr (Or.inr ⟨x, hx, rfl⟩)))
  have hrd_nil : stmtRead (holderOf (.rw R w)) = [] ↔ R = [] := by
    constructor
    · intro h
      cases R with
      | nil => rfl
      | cons r rs =>
        have : tn r ∈ stmtRead (holderOf (.rw (r :: rs) w)) := (mem_stmtRead_rw _ _ _).mpr ⟨r, by simp, rfl⟩
        rw [h] at this; simp at this
    · rintro rfl
      apply List.eq_nil_iff_forall_not_mem.mpr
      intro n hn
      obtain ⟨r, hr, _⟩ := (mem_stmtRead_rw [] w n).mp hn
      simp at hr
  have hwr_nil : stmtWrite (holderOf (.rw R w)) = [] ↔ w = none := by
    constructor
    · intro h
      cases w with
      | none => rfl
      | some x =>
        have : tn x ∈ stmtWrite (holderOf (.rw R (some x))) := (mem_stmtWrite_rw _ _ _).mpr ⟨x, rfl, rfl⟩
        rw [h] at this; simp at this
    · rintro rfl
      apply List.eq_nil_iff_forall_not_mem.mpr
      intro n hn
      obtain ⟨x, hx, _⟩ := (mem_stmtWrite_rw R none n).mp hn
      simp at hx
  constructor
  · -- nodes
    intro n
    rw [rwStep_nodes _ _ _ hrdN hwrN, mem_nodes_compose, hI.nodes, rw_nodes]
    simp only [readSomewhere, writtenSomewhere, mem_snoc]
    constructor
    · rintro ((⟨t, rfl, (⟨R', w', hm, ht⟩ | ⟨R', hm⟩)⟩ | ⟨t, rfl, R', w', hm, ht⟩) |
              (⟨r, hr, (rfl | rfl)⟩ | ⟨x, rfl, rfl⟩))
      · exact Or.inl ⟨t, rfl, Or.inl ⟨R', w', Or.inl hm, ht⟩⟩
      · exact Or.inl ⟨t, rfl, Or.inr ⟨R', Or.inl hm⟩⟩
      · exact Or.inr ⟨t, rfl, R', w', Or.inl hm, ht⟩
      · exact Or.inl ⟨r, rfl, Or.inl ⟨R, w, Or.inr rfl, hr⟩⟩
      · exact Or.inr ⟨r, rfl, R, w, Or.inr rfl, hr⟩
      · exact Or.inl ⟨x, rfl, Or.inr ⟨R, Or.inr rfl⟩⟩
    · rintro (⟨t, rfl, (⟨R', w', (hm | hm), ht⟩ | ⟨R', (hm | hm)⟩)⟩ | ⟨t, rfl, R', w', (hm | hm), ht⟩)
      · exact Or.inl (Or.inl ⟨t, rfl, Or.inl ⟨R', w', hm, ht⟩⟩)
      · cases hm; exact Or.inr (Or.inl ⟨t, ht, Or.inl rfl⟩)
      · exact Or.inl (Or.inl ⟨t, rfl, Or.inr ⟨R', hm⟩⟩)
      · cases hm; exact Or.inr (Or.inr ⟨t, rfl, rfl⟩)
      · exact Or.inl (Or.inr ⟨t, rfl, R', w', hm, ht⟩)
      · cases hm; exact Or.inr (Or.inl ⟨t, ht, Or.inr rfl⟩)
  · -- edges
    intro e
    rw [rwStep_edges, mem_edges_compose, hI.edges, rw_edges, mem_stmtRead_rw, mem_stmtWrite_rw]
    simp only [feeds, readSomewhere, mem_snoc]
    constructor
    · rintro (((⟨r, x, rfl, R', hm, hr⟩ | ⟨r, rfl, R', w', hm, hr⟩) | ⟨r, hr, rfl⟩) | ⟨⟨r, hr, h1⟩, ⟨x, rfl, h2⟩⟩)
      · exact Or.inl ⟨r, x, rfl, R', Or.inl hm, hr⟩
      · exact Or.inr ⟨r, rfl, R', w', Or.inl hm, hr⟩
      · exact Or.inr ⟨r, rfl, R, w, Or.inr rfl, hr⟩
      · refine Or.inl ⟨r, x, ?_, R, Or.inr rfl, hr⟩
        obtain ⟨a, b⟩ := e
        simp only at h1 h2; subst h1; subst h2; rfl
    · rintro (⟨r, x, rfl, R', (hm | hm), hr⟩ | ⟨r, rfl, R', w', (hm | hm), hr⟩)
      · exact Or.inl (Or.inl (Or.inl ⟨r, x, rfl, R', hm, hr⟩))
      · cases hm; exact Or.inr ⟨⟨r, hr, rfl⟩, ⟨x, rfl, rfl⟩⟩
      · exact Or.inl (Or.inl (Or.inr ⟨r, rfl, R', w', hm, hr⟩))
      · cases hm; exact Or.inl (Or.inr ⟨r, hr, rfl⟩)
  · -- source_only
    intro n
    rw [rwStep_tag]
    simp only [true_and, Tag.noConfusion, false_and, if_false, reduceCtorEq]
    rw [tag_compose, rw_tag_none R w n .sourceOnly (by decide) (by decide)]
    simp only [srcOnly, mem_snoc]
    by_cases hc : stmtRead (holderOf (.rw R w)) ≠ [] ∧ stmtWrite (holderOf (.rw R w)) = [] ∧
        n ∈ stmtRead (holderOf (.rw R w)) ∧ n ∈ (g.compose (holderOf (.rw R w))).nodes
    · rw [if_pos hc]
      obtain ⟨_, hwn, hn, _⟩ := hc
      obtain ⟨r, hr, rfl⟩ := (mem_stmtRead_rw R w _).mp hn
      have hw : w = none := hwr_nil.mp hwn
      subst hw
      simp only [true_iff]
      exact ⟨r, rfl, R, Or.inr rfl, hr⟩
    · rw [if_neg hc, hI.src]
      simp only [srcOnly]
      constructor
      · rintro ⟨t, rfl, R', hm, ht⟩; exact ⟨t, rfl, R', Or.inl hm, ht⟩
      · rintro ⟨t, rfl, R', (hm | hm), ht⟩
        · exact ⟨t, rfl, R', hm, ht⟩
        · exfalso
          cases hm
          apply hc
          have hmem : tn t ∈ stmtRead (holderOf (.rw R none)) := (mem_stmtRead_rw _ _ _).mpr ⟨t, ht, rfl⟩
          refine ⟨?_, hwr_nil.mpr rfl, hmem, hrdN _ hmem⟩
          intro h; rw [h] at hmem; simp at hmem
  · -- target_only
    intro n
    rw [rwStep_tag]
    simp only [true_and, Tag.noConfusion, false_and, if_false, reduceCtorEq]
    rw [tag_compose, rw_tag_none R w n .targetOnly (by decide) (by decide)]
    simp only [tgtOnly, mem_snoc]
    by_cases hc : stmtRead (holderOf (.rw R w)) = [] ∧ stmtWrite (holderOf (.rw R w)) ≠ [] ∧
        n ∈ stmtWrite (holderOf (.rw R w)) ∧ n ∈ (g.compose (holderOf (.rw R w))).nodes
    · rw [if_pos hc]
      obtain ⟨hrn, _, hn, _⟩ := hc
      obtain ⟨x, hx, rfl⟩ := (mem_stmtWrite_rw R w _).mp hn
      have hR : R = [] := hrd_nil.mp hrn
      subst hR; subst hx
      simp only [true_iff]
      exact ⟨x, rfl, Or.inr rfl⟩
    · rw [if_neg hc, hI.tgt]
      simp only [tgtOnly]
      constructor
      · rintro ⟨t, rfl, hm⟩; exact ⟨t, rfl, Or.inl hm⟩
      · rintro ⟨t, rfl, (hm | hm)⟩
        · exact ⟨t, rfl, hm⟩
        · exfalso
          cases hm
          apply hc
          have hmem : tn t ∈ stmtWrite (holderOf (.rw [] (some t))) := (mem_stmtWrite_rw _ _ _).mpr ⟨t, rfl, rfl⟩
          refine ⟨hrd_nil.mpr rfl, ?_, hmem, hwrN _ hmem⟩
          intro h; rw [h] at hmem; simp at hmem
  · -- selfloop stays unset during the fold
    intro n
    rw [rwStep_tag]
    simp only [Tag.noConfusion, false_and, if_false, reduceCtorEq]
    rw [tag_compose, rw_tag_none R w n .selfloop (by decide) (by decide), hI.loop]

private theorem foldAll_inv (ord : List (Node × Node) → List (Node × Node)) (ss pre : List AStmt) (g : LGraph)
    (hrw : RWOnly ss) (hI : Inv pre g) :
    ∃ g', foldAll ord g (ss.map holderOf) = .ok g' ∧ Inv (pre ++ ss) g' := by
  induction ss generalizing pre g with
  | nil => exact ⟨g, rfl, by simpa using hI⟩
  | cons s r ih =>
    obtain ⟨R, w, rfl⟩ := hrw s (by simp)
    have hr : RWOnly r := fun s hs => hrw s (by simp [hs])
    simp only [List.map_cons, foldAll, foldStep_rw]
    have := ih (pre ++ [AStmt.rw R w]) _ hr (inv_step pre g R w hI)
    simpa using this

/-! ### the tail of `_build_digraph` on table‑only graphs -/

/-- a graph in the invariant has no column nodes, so nothing is unresolved and nothing is an orphan column -/
private theorem no_cols (ss : List AStmt) (g : LGraph) (hI : Inv ss g) : ∀ n ∈ g.nodes, n.isCol = false := by
  intro n hn
  rcases (hI.nodes n).mp hn with ⟨t, rfl, _⟩ | ⟨t, rfl, _⟩
  · simp
  · simp [Node.isCol]

private theorem tail_eq (g : LGraph) (hc : ∀ n ∈ g.nodes, n.isCol = false) :
    (match resolveAll Prov.none (tagSelfloops g) (unresolved (tagSelfloops g)) with
      | .error e => Except.error e
      | .ok g => Except.ok (removeOrphans g)) = .ok (tagSelfloops g) := by
  have hu : unresolved (tagSelfloops g) = [] := by
    simp only [unresolved, List.filter_eq_nil_iff]
    intro e he
    have := (mem_edgesOrdered_iff _ _).mp he
    have hn : e.1 ∈ g.nodes := by simpa [tagSelfloops] using this.2
    simp [hc _ hn]
  have ho : removeOrphans (tagSelfloops g) = tagSelfloops g := by
    have : (tagSelfloops g).nodes.filter (fun n => (tagSelfloops g).degree n == 0 && n.isCol &&
        decide ((cands (tagSelfloops g) n).length > 1)) = [] := by
      simp only [List.filter_eq_nil_iff]
      intro n hn
      have hn' : n ∈ g.nodes := by simpa [tagSelfloops] using hn
      simp [hc _ hn']
    simp [removeOrphans, this]
  rw [hu]; simp [resolveAll, ho]

/-- **Totality and shape** of the assembly of a DROP/RENAME‑free history. -/
theorem build_rw (ss : List AStmt) (hrw : RWOnly ss) :
    ∃ g, Inv ss g ∧ AStmt.build ss = .ok (tagSelfloops g) := by
  obtain ⟨g, hg, hI⟩ := foldAll_inv id ss [] Graph.empty hrw inv_empty
  refine ⟨g, by simpa using hI, ?_⟩
  simp only [AStmt.build, Assemble.build, buildWith, hg]
  exact tail_eq g (no_cols _ g (by simpa using hI))

/-! ### the table graph and the roles, characterised by the history -/

private theorem tsl_nodes (g : LGraph) : (tagSelfloops g).nodes = g.nodes := rfl
private theorem tsl_edges (g : LGraph) : (tagSelfloops g).edges = g.edges := rfl

private theorem tsl_tag (g : LGraph) (n : Node) (t : Tag) :
    (tagSelfloops g).tag n t = if n ∈ g.nodes ∧ (n, n) ∈ g.edges ∧ t = .selfloop then some true else g.tag n t := by
  simp only [tagSelfloops, tag_setTags, mem_selfloopNodes]
  by_cases h : n ∈ g.nodes ∧ (n, n) ∈ g.edges ∧ t = .selfloop
  · obtain ⟨a, b, c⟩ := h; simp [a, b, c]
  · rw [if_neg h]
    have : ¬((n ∈ g.nodes ∧ (n, n) ∈ g.edges) ∧ n ∈ g.nodes ∧ t = .selfloop) :=
      fun ⟨⟨a, b⟩, _, c⟩ => h ⟨a, b, c⟩
    rw [if_neg this]

/-- edges of the table‑level graph: exactly the (read, write) pairs of the statements -/
theorem table_edges (ss : List AStmt) (g : LGraph) (hI : Inv ss g) (e : Node × Node) :
    e ∈ (tableGraph (tagSelfloops g)).edges ↔ ∃ r w, e = (tn r, tn w) ∧ feeds ss r w := by
  simp only [tableGraph, mem_edges_subgraph, tsl_edges, hI.edges]
  constructor
  · rintro ⟨(h | ⟨r, rfl, _⟩), h1, h2⟩
    · exact h
    · simp [Node.isDataset] at h2
  · rintro ⟨r, w, rfl, h⟩
    exact ⟨Or.inl ⟨r, w, rfl, h⟩, by simp, by simp⟩

private theorem tg_inDeg_pos (ss : List AStmt) (g : LGraph) (hI : Inv ss g) (t : String) :
    0 < (tableGraph (tagSelfloops g)).inDeg (tn t) ↔ ∃ r, feeds ss r t := by
  rw [inDeg_pos_iff]
  constructor
  · rintro ⟨u, hu⟩
    obtain ⟨r, w, he, hf⟩ := (table_edges ss g hI _).mp hu
    simp only [Prod.mk.injEq] at he
    have := tn_inj he.2; subst this; exact ⟨r, hf⟩
  · rintro ⟨r, hf⟩; exact ⟨tn r, (table_edges ss g hI _).mpr ⟨r, t, rfl, hf⟩⟩

private theorem tg_outDeg_pos (ss : List AStmt) (g : LGraph) (hI : Inv ss g) (t : String) :
    0 < (tableGraph (tagSelfloops g)).outDeg (tn t) ↔ ∃ w, feeds ss t w := by
  rw [outDeg_pos_iff]
  constructor
  · rintro ⟨u, hu⟩
    obtain ⟨r, w, he, hf⟩ := (table_edges ss g hI _).mp hu
    simp only [Prod.mk.injEq] at he
    have := tn_inj he.1; subst this; exact ⟨w, hf⟩
  · rintro ⟨w, hf⟩; exact ⟨tn w, (table_edges ss g hI _).mpr ⟨t, w, rfl, hf⟩⟩

private theorem mem_union (a b : List Node) (x : Node) : x ∈ Assemble.union a b ↔ x ∈ a ∨ x ∈ b := by
  simp only [Assemble.union, List.mem_append, List.mem_filter]
  constructor
  · rintro (h | ⟨h, _⟩); exact Or.inl h; exact Or.inr h
  · rintro (h | h)
    · exact Or.inl h
    · by_cases hx : x ∈ a
      · exact Or.inl hx
      · exact Or.inr ⟨h, by simp [hx]⟩

private theorem mem_tagTables (g : LGraph) (t : Tag) (n : Node) :
    n ∈ tagTables g t ↔ n ∈ g.nodes ∧ g.tag n t = some true ∧ n.isDataset = true := by
  simp only [tagTables, tagged, List.mem_filter, beq_iff_eq]
  constructor
  · rintro ⟨⟨a, b⟩, c⟩; exact ⟨a, b, c⟩
  · rintro ⟨a, b, c⟩; exact ⟨⟨a, b⟩, c⟩

private theorem feeds_node (ss : List AStmt) (g : LGraph) (hI : Inv ss g) {r w : String} (h : feeds ss r w) :
    tn r ∈ g.nodes ∧ tn w ∈ g.nodes := by
  obtain ⟨R, hm, hr⟩ := h
  exact ⟨(hI.nodes _).mpr (Or.inl ⟨r, rfl, Or.inl ⟨R, some w, hm, hr⟩⟩),
         (hI.nodes _).mpr (Or.inl ⟨w, rfl, Or.inr ⟨R, hm⟩⟩)⟩

private theorem selfloop_tag (ss : List AStmt) (g : LGraph) (hI : Inv ss g) (t : String) :
    tn t ∈ tagTables (tagSelfloops g) .selfloop ↔ self ss t := by
  rw [mem_tagTables, tsl_tag, tsl_nodes]
  simp only [and_true, tn_isDataset]
  constructor
  · rintro ⟨hn, h⟩
    by_cases hc : tn t ∈ g.nodes ∧ (tn t, tn t) ∈ g.edges
    · rcases (hI.edges _).mp hc.2 with ⟨r, w, he, hf⟩ | ⟨r, he, _⟩
      · simp only [Prod.mk.injEq] at he
        have h1 := tn_inj he.1; have h2 := tn_inj he.2; subst h1; subst h2; exact hf
      · simp at he
    · rw [if_neg hc, hI.loop] at h; simp at h
  · intro hs
    have hn := (feeds_node ss g hI hs).1
    have he : (tn t, tn t) ∈ g.edges := (hI.edges _).mpr (Or.inl ⟨t, t, rfl, hs⟩)
    exact ⟨hn, by simp [hn, he]⟩

private theorem src_tag (ss : List AStmt) (g : LGraph) (hI : Inv ss g) (t : String) :
    tn t ∈ tagTables (tagSelfloops g) .sourceOnly ↔ srcOnly ss t := by
  rw [mem_tagTables, tsl_tag, tsl_nodes]
  simp only [and_true, tn_isDataset, reduceCtorEq, and_false, if_false, hI.src]
  constructor
  · rintro ⟨_, t', he, h⟩; have := tn_inj he; subst this; exact h
  · intro h
    obtain ⟨R, hm, ht⟩ := h
    exact ⟨(hI.nodes _).mpr (Or.inl ⟨t, rfl, Or.inl ⟨R, none, hm, ht⟩⟩), t, rfl, R, hm, ht⟩

private theorem tgt_tag (ss : List AStmt) (g : LGraph) (hI : Inv ss g) (t : String) :
    tn t ∈ tagTables (tagSelfloops g) .targetOnly ↔ tgtOnly ss t := by
  rw [mem_tagTables, tsl_tag, tsl_nodes]
  simp only [and_true, tn_isDataset, reduceCtorEq, and_false, if_false, hI.tgt]
  constructor
  · rintro ⟨_, t', he, h⟩; have := tn_inj he; subst this; exact h
  · intro h
    exact ⟨(hI.nodes _).mpr (Or.inl ⟨t, rfl, Or.inr ⟨[], h⟩⟩), t, rfl, h⟩

private theorem tg_node (ss : List AStmt) (g : LGraph) (hI : Inv ss g) (t : String) (h : ∃ x, feeds ss t x ∨ feeds ss x t) :
    tn t ∈ (tableGraph (tagSelfloops g)).nodes := by
  simp only [tableGraph, mem_nodes_subgraph, tsl_nodes, tn_isDataset, and_true]
  obtain ⟨x, h | h⟩ := h
  · exact (feeds_node ss g hI h).1
  · exact (feeds_node ss g hI h).2

/-- **source** = has outgoing but no incoming edges, or is read and written by one statement, or is read by a
    statement that writes nothing. -/
theorem source_iff (ss : List AStmt) (g : LGraph) (hI : Inv ss g) (t : String) :
    tn t ∈ sourceTables (tagSelfloops g) ↔
      ((∃ w, feeds ss t w) ∧ ¬∃ r, feeds ss r t) ∨ self ss t ∨ srcOnly ss t := by
  simp only [sourceTables, mem_union, selfloop_tag ss g hI, src_tag ss g hI, List.mem_filter,
    Bool.and_eq_true, beq_iff_eq, decide_eq_true_eq, or_assoc]
  have hin := tg_inDeg_pos ss g hI t
  have hout := tg_outDeg_pos ss g hI t
  constructor
  · rintro (⟨_, h0, h1⟩ | h | h)
    · refine Or.inl ⟨hout.mp h1, fun h => ?_⟩
      have := hin.mpr h; omega
    · exact Or.inr (Or.inl h)
    · exact Or.inr (Or.inr h)
  · rintro (⟨h1, h0⟩ | h | h)
    · refine Or.inl ⟨tg_node ss g hI t (by obtain ⟨w, hw⟩ := h1; exact ⟨w, Or.inl hw⟩), ?_, hout.mpr h1⟩
      rcases Nat.eq_zero_or_pos ((tableGraph (tagSelfloops g)).inDeg (tn t)) with h | h
      · exact h
      · exact absurd (hin.mp h) h0
    · exact Or.inr (Or.inl h)
    · exact Or.inr (Or.inr h)

/-- **target** = has incoming but no outgoing edges, or self‑loop, or written by a statement that reads nothing. -/
theorem target_iff (ss : List AStmt) (g : LGraph) (hI : Inv ss g) (t : String) :
    tn t ∈ targetTables (tagSelfloops g) ↔
      ((∃ r, feeds ss r t) ∧ ¬∃ w, feeds ss t w) ∨ self ss t ∨ tgtOnly ss t := by
  simp only [targetTables, mem_union, selfloop_tag ss g hI, tgt_tag ss g hI, List.mem_filter,
    Bool.and_eq_true, beq_iff_eq, decide_eq_true_eq, or_assoc]
  have hin := tg_inDeg_pos ss g hI t
  have hout := tg_outDeg_pos ss g hI t
  constructor
  · rintro (⟨_, h0, h1⟩ | h | h)
    · refine Or.inl ⟨hin.mp h1, fun h => ?_⟩
      have := hout.mpr h; omega
    · exact Or.inr (Or.inl h)
    · exact Or.inr (Or.inr h)
  · rintro (⟨h1, h0⟩ | h | h)
    · refine Or.inl ⟨tg_node ss g hI t (by obtain ⟨r, hr⟩ := h1; exact ⟨r, Or.inr hr⟩), ?_, hin.mpr h1⟩
      rcases Nat.eq_zero_or_pos ((tableGraph (tagSelfloops g)).outDeg (tn t)) with h | h
      · exact h
      · exact absurd (hout.mp h) h0
    · exact Or.inr (Or.inl h)
    · exact Or.inr (Or.inr h)

/-- **intermediate** = has both incoming and outgoing edges and is not read and written by one statement. -/
theorem intermediate_iff (ss : List AStmt) (g : LGraph) (hI : Inv ss g) (t : String) :
    tn t ∈ intermediateTables (tagSelfloops g) ↔
      (∃ r, feeds ss r t) ∧ (∃ w, feeds ss t w) ∧ ¬ self ss t := by
  simp only [intermediateTables, List.mem_filter, Bool.and_eq_true, decide_eq_true_eq, Bool.not_eq_true',
    List.contains_eq_mem, decide_eq_false_iff_not, selfloop_tag ss g hI]
  have hin := tg_inDeg_pos ss g hI t
  have hout := tg_outDeg_pos ss g hI t
  constructor
  · rintro ⟨⟨_, h1, h2⟩, h3⟩; exact ⟨hin.mp h1, hout.mp h2, h3⟩
  · rintro ⟨h1, h2, h3⟩
    exact ⟨⟨tg_node ss g hI t (by obtain ⟨r, hr⟩ := h1; exact ⟨r, Or.inr hr⟩), hin.mpr h1, hout.mpr h2⟩, h3⟩

/-- every reported role member is one of the history's tables (nothing else is ever classified) -/
theorem roles_are_tables (ss : List AStmt) (g : LGraph) (hI : Inv ss g) (n : Node)
    (h : n ∈ sourceTables (tagSelfloops g) ∨ n ∈ targetTables (tagSelfloops g) ∨ n ∈ intermediateTables (tagSelfloops g)) :
    ∃ t, n = tn t := by
  have key : ∀ n, n ∈ g.nodes → n.isDataset = true → ∃ t, n = tn t := by
    intro n hn hd
    rcases (hI.nodes n).mp hn with ⟨t, rfl, _⟩ | ⟨t, rfl, _⟩
    · exact ⟨t, rfl⟩
    · simp [Node.isDataset] at hd
  have htg : ∀ n, n ∈ (tableGraph (tagSelfloops g)).nodes → ∃ t, n = tn t := by
    intro n hn
    simp only [tableGraph, mem_nodes_subgraph, tsl_nodes] at hn
    exact key n hn.1 hn.2
  have htt : ∀ tg n, n ∈ tagTables (tagSelfloops g) tg → ∃ t, n = tn t := by
    intro tg n hn
    rw [mem_tagTables, tsl_nodes] at hn
    exact key n hn.1 hn.2.2
  rcases h with h | h | h
  · simp only [sourceTables, mem_union, List.mem_filter] at h
    rcases h with (⟨h, _⟩ | h) | h
    · exact htg n h
    · exact htt _ n h
    · exact htt _ n h
  · simp only [targetTables, mem_union, List.mem_filter] at h
    rcases h with (⟨h, _⟩ | h) | h
    · exact htg n h
    · exact htt _ n h
    · exact htt _ n h
  · simp only [intermediateTables, List.mem_filter] at h
    exact htg n h.1.1

/-- a table that one statement both reads and writes counts as source and target, not intermediate -/
theorem selfloop_source_and_target_not_intermediate (ss : List AStmt) (g : LGraph) (hI : Inv ss g) (t : String)
    (h : self ss t) :
    tn t ∈ sourceTables (tagSelfloops g) ∧ tn t ∈ targetTables (tagSelfloops g) ∧
    tn t ∉ intermediateTables (tagSelfloops g) := by
  refine ⟨(source_iff ss g hI t).mpr (Or.inr (Or.inl h)), (target_iff ss g hI t).mpr (Or.inr (Or.inl h)), ?_⟩
  intro hi
  exact ((intermediate_iff ss g hI t).mp hi).2.2 h

/-! ### order and repetition do not matter -/

private theorem feeds_congr {ss ss' : List AStmt} (h : ∀ s, s ∈ ss ↔ s ∈ ss') (r w : String) :
    feeds ss r w ↔ feeds ss' r w := by
  simp only [feeds, h]

private theorem srcOnly_congr {ss ss' : List AStmt} (h : ∀ s, s ∈ ss ↔ s ∈ ss') (t : String) :
    srcOnly ss t ↔ srcOnly ss' t := by
  simp only [srcOnly, h]

private theorem tgtOnly_congr {ss ss' : List AStmt} (h : ∀ s, s ∈ ss ↔ s ∈ ss') (t : String) :
    tgtOnly ss t ↔ tgtOnly ss' t := by
  simp only [tgtOnly, h]

/-- **Without DROP/RENAME the result does not depend on statement order or on repeating statements**: two
    histories with the same *set* of statements have the same table edges and the same three role sets. -/
theorem order_and_repetition_irrelevant (ss ss' : List AStmt) (hrw : RWOnly ss)
    (hset : ∀ s, s ∈ ss ↔ s ∈ ss') :
    ∃ g g', AStmt.build ss = .ok g ∧ AStmt.build ss' = .ok g' ∧
      (∀ e, e ∈ (tableGraph g).edges ↔ e ∈ (tableGraph g').edges) ∧
      (∀ n, n ∈ sourceTables g ↔ n ∈ sourceTables g') ∧
      (∀ n, n ∈ targetTables g ↔ n ∈ targetTables g') ∧
      (∀ n, n ∈ intermediateTables g ↔ n ∈ intermediateTables g') := by
  have hrw' : RWOnly ss' := fun s hs => hrw s ((hset s).mpr hs)
  obtain ⟨g, hI, hb⟩ := build_rw ss hrw
  obtain ⟨g', hI', hb'⟩ := build_rw ss' hrw'
  refine ⟨_, _, hb, hb', ?_, ?_, ?_, ?_⟩
  · intro e
    rw [table_edges ss g hI, table_edges ss' g' hI']
    simp only [feeds_congr hset]
  · intro n
    constructor
    · intro h
      obtain ⟨t, rfl⟩ := roles_are_tables ss g hI n (Or.inl h)
      rw [source_iff ss g hI] at h
      rw [source_iff ss' g' hI']
      simpa only [self, feeds_congr hset, srcOnly_congr hset] using h
    · intro h
      obtain ⟨t, rfl⟩ := roles_are_tables ss' g' hI' n (Or.inl h)
      rw [source_iff ss' g' hI'] at h
      rw [source_iff ss g hI]
      simpa only [self, feeds_congr hset, srcOnly_congr hset] using h
  · intro n
    constructor
    · intro h
      obtain ⟨t, rfl⟩ := roles_are_tables ss g hI n (Or.inr (Or.inl h))
      rw [target_iff ss g hI] at h
      rw [target_iff ss' g' hI']
      simpa only [self, feeds_congr hset, tgtOnly_congr hset] using h
    · intro h
      obtain ⟨t, rfl⟩ := roles_are_tables ss' g' hI' n (Or.inr (Or.inl h))
      rw [target_iff ss' g' hI'] at h
      rw [target_iff ss g hI]
      simpa only [self, feeds_congr hset, tgtOnly_congr hset] using h
  · intro n
    constructor
    · intro h
      obtain ⟨t, rfl⟩ := roles_are_tables ss g hI n (Or.inr (Or.inr h))
      rw [intermediate_iff ss g hI] at h
      rw [intermediate_iff ss' g' hI']
      simpa only [self, feeds_congr hset] using h
    · intro h
      obtain ⟨t, rfl⟩ := roles_are_tables ss' g' hI' n (Or.inr (Or.inr h))
      rw [intermediate_iff ss' g' hI'] at h
      rw [intermediate_iff ss g hI]
      simpa only [self, feeds_congr hset] using h

end SqlLineage.Props.C03

namespace SqlLineage.Props.C03
open SqlLineage Graph Assemble AStmt

/-! ### statements directly about `AStmt.build` (final form of the characterisation) -/

theorem build_total (ss : List AStmt) (hrw : RWOnly ss) : ∃ G, AStmt.build ss = .ok G := by
  obtain ⟨g, _, hb⟩ := build_rw ss hrw; exact ⟨_, hb⟩

/-- the table graph has an edge `r → w` exactly when some statement reads `r` and writes `w` -/
theorem edge_iff (ss : List AStmt) (hrw : RWOnly ss) (G : LGraph) (hb : AStmt.build ss = .ok G) (r w : String) :
    (tn r, tn w) ∈ (tableGraph G).edges ↔ feeds ss r w := by
  obtain ⟨g, hI, hb'⟩ := build_rw ss hrw
  rw [hb] at hb'; cases hb'
  rw [table_edges ss g hI]
  constructor
  · rintro ⟨r', w', he, hf⟩
    simp only [Prod.mk.injEq] at he
    have h1 := tn_inj he.1; have h2 := tn_inj he.2; subst h1; subst h2; exact hf
  · intro hf; exact ⟨r, w, rfl, hf⟩

theorem roles_iff (ss : List AStmt) (hrw : RWOnly ss) (G : LGraph) (hb : AStmt.build ss = .ok G) (t : String) :
    (tn t ∈ sourceTables G ↔ ((∃ w, feeds ss t w) ∧ ¬∃ r, feeds ss r t) ∨ self ss t ∨ srcOnly ss t) ∧
    (tn t ∈ targetTables G ↔ ((∃ r, feeds ss r t) ∧ ¬∃ w, feeds ss t w) ∨ self ss t ∨ tgtOnly ss t) ∧
    (tn t ∈ intermediateTables G ↔ (∃ r, feeds ss r t) ∧ (∃ w, feeds ss t w) ∧ ¬ self ss t) := by
  obtain ⟨g, hI, hb'⟩ := build_rw ss hrw
  rw [hb] at hb'; cases hb'
  exact ⟨source_iff ss g hI t, target_iff ss g hI t, intermediate_iff ss g hI t⟩

/-! ### DROP -/

private theorem drop_holder (t : String) :
    (holderOf (.drop t)).nodes = [tn t] ∧ (holderOf (.drop t)).edges = [] ∧
    stmtDrop (holderOf (.drop t)) = [tn t] := by
  refine ⟨?_, ?_, ?_⟩ <;>
    simp [holderOf, Holder.addDrop, setTag, addNode, hasNode, Graph.empty, stmtDrop, tagged, tag, tn]

theorem foldStep_drop (ord : List (Node × Node) → List (Node × Node)) (g : LGraph) (t : String) :
    foldStep ord g (holderOf (.drop t)) =
      .ok (if (g.compose (holderOf (.drop t))).degree (tn t) = 0
           then (g.compose (holderOf (.drop t))).removeNode (tn t) else g.compose (holderOf (.drop t))) := by
  have hn : tn t ∈ (g.compose (holderOf (.drop t))).nodes :=
    (mem_nodes_compose _ _ _).mpr (Or.inr (by rw [(drop_holder t).1]; simp))
  have hc : (g.compose (holderOf (.drop t))).nodes.contains (tn t) = true := by simpa using hn
  simp only [foldStep, (drop_holder t).2.2, List.isEmpty_cons, Bool.not_false, if_true, dropStep, List.foldl_cons,
    List.foldl_nil, hasNode, hc, Bool.true_and, beq_iff_eq]

private theorem compose_drop_edges (g : LGraph) (t : String) :
    (g.compose (holderOf (.drop t))).edges = g.edges := by
  simp [compose, (drop_holder t).2.1]

/-- a DROP statement never fails, never changes an edge, and never touches another node -/
theorem drop_frame (ord : List (Node × Node) → List (Node × Node)) (g : LGraph) (t : String) :
    ∃ g', foldStep ord g (holderOf (.drop t)) = .ok g' ∧
      (∀ e, e ∈ g'.edges ↔ e ∈ g.edges) ∧
      (∀ n, n ≠ tn t → (n ∈ g'.nodes ↔ n ∈ g.nodes)) ∧
      (∀ n tg, n ≠ tn t → g'.tag n tg = g.tag n tg) := by
  refine ⟨_, foldStep_drop ord g t, ?_, ?_, ?_⟩
  · intro e
    split
    · rename_i hd
      rw [mem_edges_removeNode, compose_drop_edges]
      have := (degree_eq_zero_iff _ _).mp hd e
      rw [compose_drop_edges] at this
      constructor
      · exact fun h => h.1
      · exact fun h => ⟨h, this h⟩
    · rw [compose_drop_edges]
  · intro n hn
    have hc : n ∈ (g.compose (holderOf (.drop t))).nodes ↔ n ∈ g.nodes := by
      rw [mem_nodes_compose, (drop_holder t).1]; simp [hn]
    split
    · rw [mem_nodes_removeNode, hc]; simp [hn]
    · exact hc
  · intro n tg hn
    have hc : (g.compose (holderOf (.drop t))).tag n tg = g.tag n tg := by
      rw [tag_compose, tag_of_not_mem (holderOf (.drop t)) n tg (by rw [(drop_holder t).1]; simp [hn])]
    split
    · rw [tag_removeNode_ne _ _ _ _ hn, hc]
    · exact hc

/-- DROP removes the table **only if** nothing was ever read from it or wired to it (its degree — alias edges of
    reads, lineage edges, column edges — is zero), and in that case it does remove it -/
theorem drop_removes_iff_isolated (ord : List (Node × Node) → List (Node × Node)) (g g' : LGraph) (t : String)
    (h : foldStep ord g (holderOf (.drop t)) = .ok g') :
    tn t ∉ g'.nodes ↔ g.degree (tn t) = 0 := by
  rw [foldStep_drop] at h
  have hdeg : (g.compose (holderOf (.drop t))).degree (tn t) = g.degree (tn t) := by
    simp [degree, inDeg, outDeg, inEdges, outEdges, compose_drop_edges]
  have hn : tn t ∈ (g.compose (holderOf (.drop t))).nodes :=
    (mem_nodes_compose _ _ _).mpr (Or.inr (by rw [(drop_holder t).1]; simp))
  rw [hdeg] at h
  by_cases hd : g.degree (tn t) = 0
  · rw [if_pos hd] at h; cases h
    simp [mem_nodes_removeNode, hd]
  · rw [if_neg hd] at h; cases h
    simp [hn, hd]

/-! ### RENAME (one pair) -/

private theorem rename_holder (x y : String) :
    (tn x, tn y) ∈ (holderOf (.rename [(x, y)])).edges ∧ tn x ∈ (holderOf (.rename [(x, y)])).nodes ∧
    stmtDrop (holderOf (.rename [(x, y)])) = [] ∧
    stmtRename (holderOf (.rename [(x, y)])) = [(tn x, tn y)] := by
  have he : (holderOf (.rename [(x, y)])).edges = [(tn x, tn y)] := by
    simp [holderOf, Holder.addRename, addEdge, addNode, hasNode, hasEdge, Graph.empty, tn]
    split <;> simp
  have hty : (holderOf (.rename [(x, y)])).ety (tn x) (tn y) = some .rename := by
    simp only [holderOf, List.foldl_cons, List.foldl_nil, Holder.addRename, ety_addEdge, tn]; simp
  have hn : ∀ n, n ∈ (holderOf (.rename [(x, y)])).nodes ↔ n = tn x ∨ n = tn y := by
    intro n
    simp only [holderOf, List.foldl_cons, List.foldl_nil, Holder.addRename, mem_nodes_addEdge, tn]; simp
  have htag : ∀ n tg, (holderOf (.rename [(x, y)])).tag n tg = none := by
    intro n tg
    simp only [holderOf, List.foldl_cons, List.foldl_nil, Holder.addRename, tag_addEdge, tag_empty]
  refine ⟨by rw [he]; simp, (hn _).mpr (Or.inl rfl), ?_, ?_⟩
  · simp only [stmtDrop, tagged, List.filter_eq_nil_iff]
    intro n _; simp [htag]
  · have ho : (holderOf (.rename [(x, y)])).edgesOrdered = [(tn x, tn y)] := by
      by_cases hxy : x = y
      · subst hxy
        simp [edgesOrdered, outEdges, holderOf, Holder.addRename, addEdge, addNode, hasNode, hasEdge, Graph.empty, tn]
      · have : tn x ≠ tn y := fun h => hxy (tn_inj h)
        have : tbl x ≠ tbl y := fun h => hxy (by simpa [tbl] using h)
        simp [edgesOrdered, outEdges, holderOf, Holder.addRename, addEdge, addNode, hasNode, hasEdge, Graph.empty, tn, this,
          Ne.symm this]
    simp [stmtRename, ho, hty]

/-- D10 repaired: a statement step never raises — for DROP, for RENAME with ANY number of pairs in ANY enumeration order,
    and for read/write statements.  (Before the repair a multi‑pair RENAME could end in `NetworkXError`.) -/
theorem foldStep_total (ord : List (Node × Node) → List (Node × Node)) (g h : LGraph) :
    ∃ g', foldStep ord g h = .ok g' := by
  unfold foldStep
  simp only
  split
  · exact ⟨_, rfl⟩
  · split <;> exact ⟨_, rfl⟩

/-- `RENAME x TO y` (one pair) never raises -/
theorem rename_single_pair_total (g : LGraph) (x y : String) :
    ∃ g', foldStep id g (holderOf (.rename [(x, y)])) = .ok g' := foldStep_total id g _

/-- every RENAME statement, whatever its pairs, is total -/
theorem rename_total (ord : List (Node × Node) → List (Node × Node)) (g : LGraph) (ps : List (String × String)) :
    ∃ g', foldStep ord g (holderOf (.rename ps)) = .ok g' := foldStep_total ord g _

/-- `RENAME x TO y` removes `x` -/
theorem rename_removes_old (g g' : LGraph) (x y : String) (hxy : x ≠ y)
    (h : foldStep id g (holderOf (.rename [(x, y)])) = .ok g') : tn x ∉ g'.nodes := by
  obtain ⟨_, _, hd, hr⟩ := rename_holder x y
  have hne : tn x ≠ tn y := fun h => hxy (tn_inj h)
  simp only [foldStep, hd, hr, List.isEmpty_nil, Bool.not_true, List.isEmpty_cons, Bool.not_false, if_true, id,
    renamesInOrder, sortPairs, insertPair, List.map_cons, List.map_nil, List.foldl_cons, List.foldl_nil,
    renameStep, renameOne, Bool.false_eq_true, if_false, Except.ok.injEq] at h
  subst h
  have h2 : tn x ∉ ((removeEdges (g.compose (holderOf (.rename [(x, y)]))) [(tn x, tn y)]).relabel (tn x) (tn y)).nodes :=
    old_not_mem_relabel _ _ _ _ hne
  split
  · rw [mem_nodes_removeNode]; exact fun hh => h2 hh.1
  · exact h2

/-- the RENAME hypothesis of the property is not idle: relabelling lets the freshly composed, attribute‑less node `y`
    overwrite `x`'s attribute dict, so a table that was only ever *read* (SOURCE_ONLY tag) loses its role when
    renamed — `select * from x; alter table x rename to y` reports nothing. -/
theorem rename_loses_tags_witness :
    (match AStmt.build [.rw ["x"] none] with | .ok g => (sourceTables g).map (fun n => decide (n = tn "x")) | _ => []) = [true] ∧
    (match AStmt.build [.rw ["x"] none, .rename [("x", "y")]] with
      | .ok g => (sourceTables g ++ targetTables g ++ intermediateTables g).length | _ => 99) = 0 := by
  decide

/-- D10 repaired (commit recorded in known_findings.json): the two‑pair statement that used to raise `NetworkXError` under one
    iteration order of the pair set and to succeed under the other now gives the same graph under both — the pairs are
    sorted by the `index` of their edges before they are applied, on a graph without the statement's RENAME edges. -/
theorem fixed_D10 :
    let hs := [holderOf (.rename [("b", "a"), ("c", "b")])]
    (match Assemble.buildWith id Prov.none hs, Assemble.buildWith List.reverse Prov.none hs with
      | .ok g, .ok g' => decide (g.nodes = g'.nodes ∧ g.edges = g'.edges)
      | _, _ => false) = true := by
  decide

/-- a swap through a temporary name, in one statement: `insert into a select … from s; rename a to tmp, b to a, tmp to b` —
    the pairs are applied in STATEMENT order, so what was `a` ends up as `b` -/
theorem rename_swap_witness :
    (match AStmt.build [.rw ["s"] (some "a"), .rename [("a", "tmp"), ("b", "a"), ("tmp", "b")]] with
      | .ok g => ((sourceTables g).map (fun n => decide (n = tn "s")), (targetTables g).map (fun n => decide (n = tn "b")))
      | _ => ([], [])) = ([true], [true]) := by
  decide

/-! ### RENAME puts the new name exactly in the old name's place -/

/-- the statement holder of `RENAME x TO y`: two nodes, the RENAME edge, no tag -/
private theorem renHolder (x y : String) (hxy : x ≠ y) : RenHolder (holderOf (.rename [(x, y)])) (tn x) (tn y) := by
  have hne : tbl x ≠ tbl y := fun h => hxy (by simpa [tbl] using h)
  refine ⟨?_, ?_, ?_⟩
  · simp [holderOf, Holder.addRename, addEdge, addNode, hasNode, hasEdge, Graph.empty, tn, Ne.symm hne]
  · simp [holderOf, Holder.addRename, addEdge, addNode, hasNode, hasEdge, Graph.empty, tn]
    split <;> simp
  · intro n tg
    simp only [holderOf, List.foldl_cons, List.foldl_nil, Holder.addRename, tag_addEdge, tag_empty]

/-- the fold step of a one‑pair RENAME, computed: compose, remove the statement's RENAME edge, apply the pair -/
theorem foldStep_rename_single (g : LGraph) (x y : String) :
    foldStep id g (holderOf (.rename [(x, y)])) =
      .ok (renameOne (renState g (holderOf (.rename [(x, y)])) (tn x) (tn y)) (tn x, tn y)) := by
  obtain ⟨_, _, hd, hr⟩ := rename_holder x y
  simp only [foldStep, hd, hr, List.isEmpty_nil, Bool.not_true, List.isEmpty_cons, Bool.not_false, if_true, id,
    renamesInOrder, sortPairs, insertPair, List.map_cons, List.map_nil, List.foldl_cons, List.foldl_nil,
    renameStep, Bool.false_eq_true, if_false, renState]

/-- **`RENAME x TO y` puts `y` exactly in `x`'s place** — graph level, for EVERY well‑formed state `g` of the fold (every edge
    joins two nodes; `Inv` provides it) in which `y` does not occur yet.  With `ρ = rmap (tn x) (tn y)` (the renaming):

    (a) nodes: `x` is gone, every other node stays, and `y` is there iff `x` had an edge (a renamed table nothing was ever read
        from or wired to vanishes — the code removes the new name when its degree is 0);
    (b) edges: exactly the `ρ`‑images of the old edges, each with its old type (and `index`);
    (c) tags: every node other than `x`, `y` keeps all its tags; `y` carries NO tag — whatever `x` carried is lost (the
        freshly composed, attribute‑less node `y` overwrites `x`'s attribute dict in `relabel_nodes`).  So `y` has exactly
        what `x` had iff `x` carried no tag: the property's hypothesis "x's lineage comes from statements that both read and
        write other tables" (no SOURCE_ONLY / TARGET_ONLY) — see `rename_in_place_tags`, `rename_loses_tags_witness`.

    A self loop on `x` need NOT be excluded: it becomes a self loop on `y` by (b); the SELFLOOP tag is only set after the fold.
    The result is well‑formed again. -/
theorem rename_in_place (g g' : LGraph) (x y : String) (hxy : x ≠ y) (hwf : WF g) (hy : tn y ∉ g.nodes)
    (h : foldStep id g (holderOf (.rename [(x, y)])) = .ok g') :
    (∀ n, n ∈ g'.nodes ↔ (n ≠ tn x ∧ n ∈ g.nodes) ∨ (n = tn y ∧ g.degree (tn x) ≠ 0)) ∧
    (∀ e, e ∈ g'.edges ↔ ∃ u v, (u, v) ∈ g.edges ∧ e = (rmap (tn x) (tn y) u, rmap (tn x) (tn y) v)) ∧
    (∀ u v, (u, v) ∈ g.edges → g'.ety (rmap (tn x) (tn y) u) (rmap (tn x) (tn y) v) = g.ety u v ∧
                               g'.idx (rmap (tn x) (tn y) u) (rmap (tn x) (tn y) v) = g.idx u v) ∧
    (∀ n tg, n ≠ tn x → n ≠ tn y → g'.tag n tg = g.tag n tg) ∧
    (∀ tg, g'.tag (tn y) tg = none) ∧
    WF g' := by
  have hh := renHolder x y hxy
  rw [foldStep_rename_single] at h
  cases h
  exact ⟨mem_renameOne_nodes hh hwf hy, mem_renameOne_edges hh hwf hy,
    fun u v huv => ⟨renameOne_ety hh hwf hy u v huv, renameOne_idx hh hwf hy u v huv⟩,
    fun n tg h1 h2 => renameOne_tag_of_ne hh hwf hy n tg h1 h2, renameOne_tag_new hh hwf hy, renameOne_wf hh hwf hy⟩

/-- (c) under the property's hypothesis — `x` carries no tag — `y` has exactly `x`'s (empty) attribute dict -/
theorem rename_in_place_tags (g g' : LGraph) (x y : String) (hxy : x ≠ y) (hwf : WF g) (hy : tn y ∉ g.nodes)
    (hx : ∀ tg, g.tag (tn x) tg = none)
    (h : foldStep id g (holderOf (.rename [(x, y)])) = .ok g') (tg : Tag) : g'.tag (tn y) tg = g.tag (tn x) tg := by
  rw [hx, (rename_in_place g g' x y hxy hwf hy h).2.2.2.2.1]

/-- (a), the two cases spelled out: a table with an edge is replaced by the new name; an isolated one (or one that is not
    there at all) just disappears and the new name does not appear -/
theorem rename_in_place_nodes_cases (g g' : LGraph) (x y : String) (hxy : x ≠ y) (hwf : WF g) (hy : tn y ∉ g.nodes)
    (h : foldStep id g (holderOf (.rename [(x, y)])) = .ok g') :
    (g.degree (tn x) ≠ 0 → ∀ n, n ∈ g'.nodes ↔ (n ≠ tn x ∧ n ∈ g.nodes) ∨ n = tn y) ∧
    (g.degree (tn x) = 0 → ∀ n, n ∈ g'.nodes ↔ (n ≠ tn x ∧ n ∈ g.nodes)) := by
  have ha := (rename_in_place g g' x y hxy hwf hy h).1
  constructor
  · intro hd n; rw [ha]; simp [hd]
  · intro hd n; rw [ha]; simp [hd]

/-- **roles move with the renaming** (graph level): if moreover `x` carries none of the three role tags, then after the
    statement — with the self‑loop tagging of the tail applied on both sides — `y` has exactly the roles `x` had, `x` has
    none, and every other node keeps its roles. -/
theorem rename_in_place_roles_graph (g g' : LGraph) (x y : String) (hxy : x ≠ y) (hwf : WF g) (hy : tn y ∉ g.nodes)
    (hs : g.tag (tn x) .sourceOnly ≠ some true) (ht : g.tag (tn x) .targetOnly ≠ some true)
    (hl : g.tag (tn x) .selfloop ≠ some true)
    (h : foldStep id g (holderOf (.rename [(x, y)])) = .ok g') (n : Node) :
    (n ∈ sourceTables (tagSelfloops g') ↔
      (n ≠ tn x ∧ n ≠ tn y ∧ n ∈ sourceTables (tagSelfloops g)) ∨ (n = tn y ∧ tn x ∈ sourceTables (tagSelfloops g))) ∧
    (n ∈ targetTables (tagSelfloops g') ↔
      (n ≠ tn x ∧ n ≠ tn y ∧ n ∈ targetTables (tagSelfloops g)) ∨ (n = tn y ∧ tn x ∈ targetTables (tagSelfloops g))) ∧
    (n ∈ intermediateTables (tagSelfloops g') ↔
      (n ≠ tn x ∧ n ≠ tn y ∧ n ∈ intermediateTables (tagSelfloops g)) ∨
      (n = tn y ∧ tn x ∈ intermediateTables (tagSelfloops g))) := by
  have hh := renHolder x y hxy
  have hne : tn x ≠ tn y := fun e => hxy (tn_inj e)
  rw [foldStep_rename_single] at h
  cases h
  obtain ⟨m1, m2, m3⟩ := moved_roles hh hwf hy hne (tn_isDataset x) (tn_isDataset y) hs ht hl
  exact ⟨m1 n, m2 n, m3 n⟩

/-! RENAME after a DROP/RENAME‑free history -/

private theorem foldAll_append (ord : List (Node × Node) → List (Node × Node)) (l1 l2 : List LGraph) (g : LGraph) :
    foldAll ord g (l1 ++ l2) =
      match foldAll ord g l1 with | .ok g' => foldAll ord g' l2 | .error e => .error e := by
  induction l1 generalizing g with
  | nil => rfl
  | cons a r ih =>
    simp only [List.cons_append, foldAll]
    cases foldStep ord g a with
    | ok g1 => exact ih g1
    | error e => rfl

private theorem inv_wf (ss : List AStmt) (g : LGraph) (hI : Inv ss g) : WF g := by
  intro e he
  rcases (hI.edges e).mp he with ⟨r, w, rfl, hf⟩ | ⟨r, rfl, hr⟩
  · exact feeds_node ss g hI hf
  · exact ⟨(hI.nodes _).mpr (Or.inl ⟨r, rfl, Or.inl hr⟩), (hI.nodes _).mpr (Or.inr ⟨r, rfl, hr⟩)⟩

/-- **(d) the roles after `RENAME x TO y` at the end of a read/write history.**  `ss` contains no DROP/RENAME, `x` is never
    read by a statement that writes nothing and never written by a statement that reads nothing (the property's hypothesis;
    a statement that both reads and writes `x` is allowed), `y` does not occur.  Then the history with the RENAME appended
    assembles, and a node is a source / target / intermediate table of the result iff it is neither `x` nor `y` and had that
    role before, or it is `y` and `x` had that role before. -/
theorem rename_in_place_roles (ss : List AStmt) (x y : String) (hrw : RWOnly ss) (hxy : x ≠ y)
    (hsx : ¬ srcOnly ss x) (htx : ¬ tgtOnly ss x) (hyr : ¬ readSomewhere ss y) (hyw : ¬ writtenSomewhere ss y) :
    ∃ G G', AStmt.build ss = .ok G ∧ AStmt.build (ss ++ [.rename [(x, y)]]) = .ok G' ∧
      ∀ n,
        (n ∈ sourceTables G' ↔ (n ≠ tn x ∧ n ≠ tn y ∧ n ∈ sourceTables G) ∨ (n = tn y ∧ tn x ∈ sourceTables G)) ∧
        (n ∈ targetTables G' ↔ (n ≠ tn x ∧ n ≠ tn y ∧ n ∈ targetTables G) ∨ (n = tn y ∧ tn x ∈ targetTables G)) ∧
        (n ∈ intermediateTables G' ↔
          (n ≠ tn x ∧ n ≠ tn y ∧ n ∈ intermediateTables G) ∨ (n = tn y ∧ tn x ∈ intermediateTables G)) := by
  obtain ⟨g, hg, hI0⟩ := foldAll_inv id ss [] Graph.empty hrw inv_empty
  have hI : Inv ss g := by simpa using hI0
  obtain ⟨g', hstep⟩ := rename_single_pair_total g x y
  have hwf := inv_wf ss g hI
  have hy : tn y ∉ g.nodes := by
    intro hn
    rcases (hI.nodes _).mp hn with ⟨t, e, h1 | h1⟩ | ⟨t, e, _⟩
    · exact hyr (tn_inj e ▸ h1)
    · exact hyw (tn_inj e ▸ h1)
    · exact absurd e (tn_ne_str y t)
  have hs : g.tag (tn x) .sourceOnly ≠ some true := by
    intro e
    obtain ⟨t, e1, h1⟩ := (hI.src _).mp e
    exact hsx (tn_inj e1 ▸ h1)
  have ht : g.tag (tn x) .targetOnly ≠ some true := by
    intro e
    obtain ⟨t, e1, h1⟩ := (hI.tgt _).mp e
    exact htx (tn_inj e1 ▸ h1)
  have hl : g.tag (tn x) .selfloop ≠ some true := by rw [hI.loop]; exact fun e => by cases e
  have hb : AStmt.build ss = .ok (tagSelfloops g) := by
    simp only [AStmt.build, Assemble.build, buildWith, hg]
    exact tail_eq g (no_cols _ g hI)
  have hc' : ∀ n ∈ g'.nodes, n.isCol = false := by
    intro n hn
    rcases ((rename_in_place g g' x y hxy hwf hy hstep).1 n).mp hn with ⟨_, h1⟩ | ⟨rfl, _⟩
    · exact no_cols _ g hI n h1
    · exact tn_isCol y
  have hb' : AStmt.build (ss ++ [.rename [(x, y)]]) = .ok (tagSelfloops g') := by
    simp only [AStmt.build, Assemble.build, buildWith, List.map_append, List.map_cons, List.map_nil, foldAll_append, hg,
      foldAll, hstep]
    exact tail_eq g' hc'
  exact ⟨_, _, hb, hb', rename_in_place_roles_graph g g' x y hxy hwf hy hs ht hl hstep⟩

/-- (d) in the property's vocabulary: for every table `t`, and with `y`'s roles read off `x`'s part of the history -/
theorem rename_in_place_roles_tables (ss : List AStmt) (x y : String) (hrw : RWOnly ss) (hxy : x ≠ y)
    (hsx : ¬ srcOnly ss x) (htx : ¬ tgtOnly ss x) (hyr : ¬ readSomewhere ss y) (hyw : ¬ writtenSomewhere ss y) :
    ∃ G G', AStmt.build ss = .ok G ∧ AStmt.build (ss ++ [.rename [(x, y)]]) = .ok G' ∧
      (∀ t, (tn t ∈ sourceTables G' ↔ (t ≠ x ∧ t ≠ y ∧ tn t ∈ sourceTables G) ∨ (t = y ∧ tn x ∈ sourceTables G)) ∧
            (tn t ∈ targetTables G' ↔ (t ≠ x ∧ t ≠ y ∧ tn t ∈ targetTables G) ∨ (t = y ∧ tn x ∈ targetTables G)) ∧
            (tn t ∈ intermediateTables G' ↔
              (t ≠ x ∧ t ≠ y ∧ tn t ∈ intermediateTables G) ∨ (t = y ∧ tn x ∈ intermediateTables G))) ∧
      (tn y ∈ sourceTables G' ↔ ((∃ w, feeds ss x w) ∧ ¬∃ r, feeds ss r x) ∨ self ss x) ∧
      (tn y ∈ targetTables G' ↔ ((∃ r, feeds ss r x) ∧ ¬∃ w, feeds ss x w) ∨ self ss x) ∧
      (tn y ∈ intermediateTables G' ↔ (∃ r, feeds ss r x) ∧ (∃ w, feeds ss x w) ∧ ¬ self ss x) ∧
      tn x ∉ sourceTables G' ∧ tn x ∉ targetTables G' ∧ tn x ∉ intermediateTables G' := by
  obtain ⟨G, G', hb, hb', hr⟩ := rename_in_place_roles ss x y hrw hxy hsx htx hyr hyw
  have hne : tn x ≠ tn y := fun e => hxy (tn_inj e)
  have ht : ∀ a b : String, tn a ≠ tn b ↔ a ≠ b := fun a b => ⟨fun h e => h (e ▸ rfl), fun h e => h (tn_inj e)⟩
  have he : ∀ a b : String, tn a = tn b ↔ a = b := fun a b => ⟨tn_inj, fun e => e ▸ rfl⟩
  obtain ⟨r1, r2, r3⟩ := roles_iff ss hrw G hb x
  refine ⟨G, G', hb, hb', ?_, ?_, ?_, ?_, ?_, ?_, ?_⟩
  · intro t
    obtain ⟨h1, h2, h3⟩ := hr (tn t)
    simp only [ht, he] at h1 h2 h3
    exact ⟨h1, h2, h3⟩
  · have : tn y ∈ sourceTables G' ↔ tn x ∈ sourceTables G := by rw [(hr (tn y)).1]; simp
    rw [this, r1]; simp only [hsx, or_false]
  · have : tn y ∈ targetTables G' ↔ tn x ∈ targetTables G := by rw [(hr (tn y)).2.1]; simp
    rw [this, r2]; simp only [htx, or_false]
  · have : tn y ∈ intermediateTables G' ↔ tn x ∈ intermediateTables G := by rw [(hr (tn y)).2.2]; simp
    rw [this, r3]
  · rw [(hr (tn x)).1]; simp [hne]
  · rw [(hr (tn x)).2.1]; simp [hne]
  · rw [(hr (tn x)).2.2]; simp [hne]

/-! RENAME at any point of any history (DROP and RENAME statements before it included) -/

/-- **`rename_in_place` applies at every point of every script**: `ss` is an ARBITRARY history of abstract statements, `g` the
    state of the fold after it (always well‑formed: `fold_wf`).  If `y` does not occur in `g`, then `RENAME x TO y` puts `y`
    exactly in `x`'s place in the state the rest of the script continues from. -/
theorem rename_in_place_any_history (ss : List AStmt) (g : LGraph) (x y : String) (hxy : x ≠ y)
    (hg : foldAll id Graph.empty (ss.map holderOf) = .ok g) (hy : tn y ∉ g.nodes) :
    ∃ g', foldAll id Graph.empty ((ss ++ [AStmt.rename [(x, y)]]).map holderOf) = .ok g' ∧
      (∀ n, n ∈ g'.nodes ↔ (n ≠ tn x ∧ n ∈ g.nodes) ∨ (n = tn y ∧ g.degree (tn x) ≠ 0)) ∧
      (∀ e, e ∈ g'.edges ↔ ∃ u v, (u, v) ∈ g.edges ∧ e = (rmap (tn x) (tn y) u, rmap (tn x) (tn y) v)) ∧
      (∀ u v, (u, v) ∈ g.edges → g'.ety (rmap (tn x) (tn y) u) (rmap (tn x) (tn y) v) = g.ety u v ∧
                                 g'.idx (rmap (tn x) (tn y) u) (rmap (tn x) (tn y) v) = g.idx u v) ∧
      (∀ n tg, n ≠ tn x → n ≠ tn y → g'.tag n tg = g.tag n tg) ∧
      (∀ tg, g'.tag (tn y) tg = none) ∧
      WF g' := by
  obtain ⟨g', hstep⟩ := rename_single_pair_total g x y
  refine ⟨g', ?_, rename_in_place g g' x y hxy (fold_wf id ss g hg) hy hstep⟩
  simp only [List.map_append, List.map_cons, List.map_nil, foldAll_append, hg, foldAll, hstep]

/-- **roles, at any point of any history**: if moreover `x` carries neither SOURCE_ONLY nor TARGET_ONLY in the state `g`
    (for an RW‑only history that is `¬ srcOnly ss x ∧ ¬ tgtOnly ss x`: `rename_in_place_roles`), the summary of the script cut
    after the RENAME is the summary of the script cut before it with `y` in `x`'s place. -/
theorem rename_in_place_roles_any_history (ss : List AStmt) (g : LGraph) (x y : String) (hxy : x ≠ y)
    (hg : foldAll id Graph.empty (ss.map holderOf) = .ok g) (hy : tn y ∉ g.nodes)
    (hs : g.tag (tn x) .sourceOnly ≠ some true) (ht : g.tag (tn x) .targetOnly ≠ some true) :
    ∃ G G', AStmt.build ss = .ok G ∧ AStmt.build (ss ++ [.rename [(x, y)]]) = .ok G' ∧
      ∀ n,
        (n ∈ sourceTables G' ↔ (n ≠ tn x ∧ n ≠ tn y ∧ n ∈ sourceTables G) ∨ (n = tn y ∧ tn x ∈ sourceTables G)) ∧
        (n ∈ targetTables G' ↔ (n ≠ tn x ∧ n ≠ tn y ∧ n ∈ targetTables G) ∨ (n = tn y ∧ tn x ∈ targetTables G)) ∧
        (n ∈ intermediateTables G' ↔
          (n ≠ tn x ∧ n ≠ tn y ∧ n ∈ intermediateTables G) ∨ (n = tn y ∧ tn x ∈ intermediateTables G)) := by
  obtain ⟨g', hg', ha, _⟩ := rename_in_place_any_history ss g x y hxy hg hy
  have hstep : foldStep id g (holderOf (.rename [(x, y)])) = .ok g' := by
    simp only [List.map_append, List.map_cons, List.map_nil, foldAll_append, hg, foldAll] at hg'
    cases hst : foldStep id g (holderOf (.rename [(x, y)])) with
    | ok g1 => rw [hst] at hg'; exact hg'
    | error e => rw [hst] at hg'; cases hg'
  have hwf := fold_wf id ss g hg
  have hl : g.tag (tn x) .selfloop ≠ some true := by
    rw [fold_no_selfloop_tag id ss g hg]; exact fun e => by cases e
  have hc : ∀ n ∈ g.nodes, n.isCol = false :=
    (Proofs.C10Assemble.noCols_foldAll _ Proofs.C10Assemble.noCols_empty (fun h hh => by
      obtain ⟨s, _, rfl⟩ := List.mem_map.mp hh
      exact Proofs.C10Assemble.noCols_holderOf s) hg).nodes
  have hc' : ∀ n ∈ g'.nodes, n.isCol = false := by
    intro n hn
    rcases (ha n).mp hn with ⟨_, h1⟩ | ⟨rfl, _⟩
    · exact hc n h1
    · exact tn_isCol y
  have hb : AStmt.build ss = .ok (tagSelfloops g) := by
    simp only [AStmt.build, Assemble.build, buildWith, hg]
    exact tail_eq g hc
  have hb' : AStmt.build (ss ++ [.rename [(x, y)]]) = .ok (tagSelfloops g') := by
    simp only [AStmt.build, Assemble.build, buildWith, hg']
    exact tail_eq g' hc'
  exact ⟨_, _, hb, hb', rename_in_place_roles_graph g g' x y hxy hwf hy hs ht hl hstep⟩

/-- a table one statement both reads and writes keeps that status under its new name: source and target, not intermediate -/
theorem rename_selfloop_witness :
    (match AStmt.build [.rw ["x"] (some "x"), .rename [("x", "y")]] with
      | .ok g => (sourceTables g == [tn "y"], targetTables g == [tn "y"], intermediateTables g == [])
      | _ => (false, false, false)) = (true, true, true) := by decide

/-- the `degree = 0` case of `rename_in_place` (a) happens: a table that was only ever written by a statement reading
    nothing has no edge, and renaming it makes it vanish altogether -/
theorem rename_isolated_vanishes_witness :
    (match AStmt.build [.rw [] (some "x")] with | .ok g => g.nodes == [tn "x"] | _ => false) = true ∧
    (match AStmt.build [.rw [] (some "x"), .rename [("x", "y")]] with | .ok g => g.nodes == [] | _ => false) = true := by
  decide

/-- the hypothesis "`y` does not occur yet" is not idle either: renaming ONTO an existing table merges the two — `x` was a
    source, but `y` ends up intermediate (it keeps its own incoming edge) -/
theorem rename_onto_existing_witness :
    (match AStmt.build [.rw ["x"] (some "a"), .rw ["b"] (some "y")],
           AStmt.build [.rw ["x"] (some "a"), .rw ["b"] (some "y"), .rename [("x", "y")]] with
      | .ok G, .ok G' => ((sourceTables G).contains (tn "x"), (sourceTables G').contains (tn "y"),
                          intermediateTables G' == [tn "y"])
      | _, _ => (false, true, false)) = (true, false, true) := by decide

/-! ### non‑vacuity -/

example : RWOnly [.rw ["a", "b"] (some "c"), .rw ["c"] (some "d"), .rw ["d"] (some "d"), .rw ["x"] none] := by
  intro s hs; simp at hs; rcases hs with rfl | rfl | rfl | rfl <;> exact ⟨_, _, rfl⟩

example : (match AStmt.build [.rw ["a", "b"] (some "c"), .rw ["c"] (some "d"), .rw ["d"] (some "d"), .rw ["x"] none] with
    | .ok g => ((sourceTables g).length, (targetTables g).length, (intermediateTables g).length)
    | _ => (0, 0, 0)) = (4, 1, 1) := by decide

/-- `rename_in_place_roles` on a concrete history: `a → x → b`, then `RENAME x TO y`: `y` is the intermediate table, `x` is gone -/
example :
    (match AStmt.build [.rw ["a"] (some "x"), .rw ["x"] (some "b"), .rename [("x", "y")]] with
      | .ok g => (sourceTables g == [tn "a"], targetTables g == [tn "b"], intermediateTables g == [tn "y"],
                  g.hasNode (tn "x"), g.hasEdge (tn "a") (tn "y"), g.hasEdge (tn "y") (tn "b"))
      | _ => (false, false, false, true, false, false)) = (true, true, true, false, true, true) := by decide

/-- the hypotheses of `rename_in_place_roles` are satisfiable by that history, and `x` does have a role to hand over -/
example :
    let ss : List AStmt := [.rw ["a"] (some "x"), .rw ["x"] (some "b")]
    RWOnly ss ∧ ¬ srcOnly ss "x" ∧ ¬ tgtOnly ss "x" ∧ ¬ readSomewhere ss "y" ∧ ¬ writtenSomewhere ss "y" ∧
    (∃ r, feeds ss r "x") ∧ (∃ w, feeds ss "x" w) ∧ ¬ self ss "x" := by
  refine ⟨?_, ?_, ?_, ?_, ?_, ⟨"a", ["a"], by simp, by simp⟩, ⟨"b", ["x"], by simp, by simp⟩, ?_⟩
  · intro s hs; simp at hs; rcases hs with rfl | rfl <;> exact ⟨_, _, rfl⟩
  · simp [srcOnly]
  · simp [tgtOnly]
  · rintro ⟨R, w, hm, hy⟩
    simp at hm
    rcases hm with ⟨rfl, _⟩ | ⟨rfl, _⟩ <;> simp at hy
  · simp [writtenSomewhere]
  · simp [self, feeds]

/-- the hypotheses of `rename_in_place_roles_any_history` are satisfiable after a history WITH a DROP and a RENAME, and the
    conclusion is not vacuous there: `a → x`, `DROP c`, `RENAME a TO a2`, `x → b`, then `RENAME x TO y` -/
example :
    let ss : List AStmt := [.rw ["a"] (some "x"), .drop "c", .rename [("a", "a2")], .rw ["x"] (some "b")]
    (match foldAll id Graph.empty (ss.map holderOf) with
      | .ok g => !g.hasNode (tn "y") && g.hasNode (tn "x") && g.tag (tn "x") .sourceOnly != some true &&
                 g.tag (tn "x") .targetOnly != some true
      | _ => false) = true ∧
    (match AStmt.build ss, AStmt.build (ss ++ [.rename [("x", "y")]]) with
      | .ok G, .ok G' => (sourceTables G == [tn "a2"], targetTables G == [tn "b"], intermediateTables G == [tn "x"],
                          sourceTables G' == [tn "a2"], targetTables G' == [tn "b"], intermediateTables G' == [tn "y"])
      | _, _ => (false, false, false, false, false, false)) = (true, true, true, true, true, true) := by
  decide

end SqlLineage.Props.C03
