/-
C02 — single‑statement column lineage is exact.

Theorems about the column layer of the model: the naming rule of target columns (`Walk.colSpecOf`, model of
`SqlFluffColumn.of`), scope resolution of source references (`Holder.toSourceColumns` over `Holder.aliasMapping`, models of
`Column.to_source_columns` and `get_alias_mapping_from_table_group`) and the positional rule of
`end_of_query_cleanup` (`Holder.cleanupItem`).  They hold for EVERY alias map / graph / expression.

The end‑to‑end statement `pairs_exact : Frag02 s → pairs (run [s]) = Spec.colflow s` is NOT proved; it is kept below as a
comment.  What ties the composition of these layers (and the path enumeration of C06) to the code is the SQL‑level
correspondence of `harness/c02.py`.
-/
import SqlLineage.Model.Runner

namespace SqlLineage.Props.C02
open SqlLineage Ast Holder Walk

/-! ### 1. the naming rule: explicit alias, else the column's own name, else the expression text -/

/-- an aliased item is named by its alias (normalised), whatever the expression -/
theorem target_named_by_alias (env : Env) (e : Expr) (a : String) (k : Bool) :
    (colSpecOf env (.mk e (some a) k)).raw = Ident.escapeS a := by
  simp [colSpecOf, ColSpec.of]

/-- an un‑aliased plain column reference is named by the column's own name (qualifiers dropped) -/
theorem target_named_by_own_name (env : Env) (qs : List String) (c : String) (k : Bool) :
    (colSpecOf env (.mk (.col qs c) none k)).raw = Ident.escapeS c := by
  simp [colSpecOf, refs, ColSpec.of]

/-- an un‑aliased wildcard keeps the name `*` -/
theorem target_star (env : Env) (qs : List String) (k : Bool) :
    (colSpecOf env (.mk (.star qs) none k)).raw = Ident.escapeS "*" := by
  simp [colSpecOf, refs, ColSpec.of]

/-- the display name of any other un‑aliased expression is its text — and nothing else of the item depends on the text:
    the source references are `refs e` in every case -/
theorem expr_display_name_only (env : Env) (e : Expr) (alias : Option String) (k : Bool) :
    (colSpecOf env (.mk e alias k)).srcs =
      (refs e).map (fun p => (Ident.escapeS p.1, p.2.map Ident.escapeS)) := by
  cases alias with
  | some a => simp [colSpecOf, ColSpec.of]
  | none =>
    by_cases h : (refs e).isEmpty = true
    · have : refs e = [] := List.isEmpty_iff.mp h
      simp [colSpecOf, ColSpec.of, this]
    · simp only [colSpecOf, h, Bool.not_false, if_true, Bool.false_eq_true, if_false, Bool.not_eq_true]
      cases e <;> simp [ColSpec.of]

/-- a qualified reference `q.c` keeps exactly the LAST qualifier part as its qualifier -/
theorem refs_col (qs : List String) (c : String) : refs (.col qs c) = [(c, qs.getLast?)] := by simp [refs]

/-- literals contribute no source column -/
theorem refs_lit (t : String) : refs (.lit t) = [] := by simp [refs]

/-! ### 2. scope resolution -/

/-- a qualified reference resolves to the relation that answers to the qualifier in the alias map -/
theorem qualified_resolution (imp : String) (m : AliasMap) (name c q : String) (v : DS × String) (k : Nat)
    (h : amGet m q = some v) :
    toSourceColumns imp m ⟨name, [(c, some q)], false⟩ k = [Column.mk1 c (some v)] := by
  simp [toSourceColumns, h, pushCol]

/-- an unknown qualifier is NOT guessed from the scope: it becomes a table of that name in the default schema -/
theorem unknown_qualifier_is_a_table (imp : String) (m : AliasMap) (name c q : String) (k : Nat)
    (h : amGet m q = none) :
    toSourceColumns imp m ⟨name, [(c, some q)], false⟩ k =
      [Column.mk1 c (some (.table imp (Ident.escapeS q), imp ++ "." ++ Ident.escapeS q))] := by
  simp [toSourceColumns, h, pushCol]

/-- an unqualified reference in a scope with exactly one relation resolves to it -/
theorem unqualified_single (imp : String) (m : AliasMap) (name c : String) (v : DS × String)
    (hc : (c == "*") = false) (h : amValues m = [v]) :
    toSourceColumns imp m ⟨name, [(c, none)], false⟩ 0 = [Column.mk1 c (some v)] := by
  simp [toSourceColumns, hc, h, permK, pushCol, Column.mk1, Column.addParent, insertParent]

/-- candidates of an unqualified reference: every relation of the scope, nothing else -/
private theorem mem_insertParent (p x : DS × String) (l : List (DS × String)) :
    x ∈ insertParent p l → x = p ∨ x ∈ l := by
  induction l with
  | nil => simp [insertParent]
  | cons q r ih =>
    simp only [insertParent]
    split
    · exact Or.inr
    · split
      · intro h
        simp only [List.mem_cons, List.mem_filter] at h
        rcases h with h | h | ⟨h, _⟩
        · exact Or.inl h
        · exact Or.inr (by simp [h])
        · exact Or.inr (by simp [h])
      · intro h
        simp only [List.mem_cons] at h
        rcases h with h | h
        · exact Or.inr (by simp [h])
        · rcases ih h with h' | h'
          · exact Or.inl h'
          · exact Or.inr (by simp [h'])

private theorem mem_foldl_addParent (vs : List (DS × String)) (c : Column) (x : DS × String) :
    x ∈ (vs.foldl (fun col v => col.addParent v) c).parents → x ∈ c.parents ∨ x ∈ vs := by
  induction vs generalizing c with
  | nil => exact Or.inl
  | cons v r ih =>
    intro h
    rcases ih (c.addParent v) h with h' | h'
    · rcases mem_insertParent v x c.parents h' with h'' | h''
      · exact Or.inr (by simp [h''])
      · exact Or.inl h''
    · exact Or.inr (by simp [h'])

private theorem mem_permK {α : Type} (k : Nat) (l : List α) (y : α) : y ∈ permK k l → y ∈ l := by
  induction l generalizing k with
  | nil => simp [permK]
  | cons z r ih =>
    simp only [permK, List.mem_append, List.mem_cons, List.mem_nil_iff, or_false]
    rintro ((h | h) | h)
    · exact Or.inr (ih _ (List.mem_of_mem_take h))
    · exact Or.inl h
    · exact Or.inr (ih _ (List.mem_of_mem_drop h))

/-- **never a guess**: whatever the scope and whatever the iteration order `k` of the relation set, an unqualified,
    non‑star reference yields ONE column whose owner candidates are relations of the scope (`amValues m`) and nothing
    else — with several candidates it is reported as unresolved (`Column.parent? = none`), never attributed to one -/
theorem unqualified_candidates_are_scope (imp : String) (m : AliasMap) (name c : String) (k : Nat)
    (hc : (c == "*") = false) :
    toSourceColumns imp m ⟨name, [(c, none)], false⟩ k =
      [(permK k (amValues m)).foldl (fun col v => col.addParent v) (Column.mk1 c none)] ∧
    ∀ x ∈ ((permK k (amValues m)).foldl (fun col v => col.addParent v) (Column.mk1 c none)).parents,
      x ∈ amValues m := by
  have hne : c ≠ "*" := by simpa using hc
  refine ⟨by simp [toSourceColumns, hne, pushCol], ?_⟩
  intro x hx
  rcases mem_foldl_addParent _ _ x hx with h | h
  · simp [Column.mk1] at h
  · exact mem_permK k _ x h

/-! ### 3. the alias map: which names a relation answers to -/

/- the general statement `explicit_alias_wins` (an alias written in the query wins over every table name, for every holder and
   group) is `Props.C08.explicit_alias_wins`. -/

/-- D7 repaired (commit fb575cb): `from sch1.foo tab join sch2.tab` — the alias `tab` denotes `sch1.foo`, not the other
    table whose bare name happens to be `tab`.  (Before the repair the union `alias_map | unqualified_map | qualified_map`
    let the bare name win and the answer was `sch2.tab`.) -/
theorem fixed_D7 :
    let foo : DObj := ⟨.table "sch1" "foo", some "tab"⟩
    let tab : DObj := ⟨.table "sch2" "tab", some "tab"⟩
    let g := addReadO (addReadO Graph.empty foo) tab
    (amGet (aliasMapping g [foo, tab]) "tab").map (·.2) = some "sch1.foo" := by decide

/-- a table without alias still answers to its bare name and to its qualified name -/
theorem unaliased_table_answers_to_names :
    let t : DObj := ⟨.table "s" "t", some "t"⟩
    let u : DObj := ⟨.table "s2" "u", some "x"⟩
    let g := addReadO (addReadO Graph.empty t) u
    (amGet (aliasMapping g [t, u]) "t").map (·.2) = some "s.t" ∧
    (amGet (aliasMapping g [t, u]) "s.t").map (·.2) = some "s.t" ∧
    (amGet (aliasMapping g [t, u]) "x").map (·.2) = some "s2.u" := by decide

/-! ### 4. positional wiring of set operations and column lists -/

/-- `end_of_query_cleanup` wires item `idx` of a group to `write_columns[idx]` exactly when the number of write columns
    equals the size of the group (explicit column list, or the columns the first branch of a set operation created),
    and to its own name otherwise; an item without source columns (a literal) adds nothing at all. -/
theorem item_without_sources_adds_nothing (imp : String) (tp : DS × String) (n : Nat) (grp : List DObj) (g : LGraph)
    (c : ColSpec) (idx k : Nat) (h : c.srcs = []) :
    cleanupItem imp tp n grp g (c, idx) k = .ok g := by
  simp [cleanupItem, toSourceColumns, h]

/-- D6 (recorded finding): because a source‑less item of the first branch creates no write column, a later branch no longer
    finds as many write columns as it has items and falls back to its own names — the literal shifts the wiring. -/
theorem dev_D6_mechanism (imp : String) (tp : DS × String) (grp : List DObj) (g : LGraph) (c : ColSpec) (idx k : Nat)
    (hs : (toSourceColumns imp (aliasMapping g grp) c k).isEmpty = false)
    (hlen : ((writeColumns g).length == 2) = false) :
    cleanupItem imp tp 2 grp g (c, idx) k =
      (toSourceColumns imp (aliasMapping g grp) c k).foldlM
        (fun g s => addColumnLineage g s (Column.mk1 c.raw (some tp))) g := by
  simp [cleanupItem, hs, hlen]

/-! ### non‑vacuity -/

example : amGet (aliasMapping (addReadO Graph.empty ⟨.table "s" "t", some "x"⟩) [⟨.table "s" "t", some "x"⟩]) "x"
    = some (.table "s" "t", "s.t") := by decide

example : (toSourceColumns "<default>" [("x", (.table "s" "t", "s.t")), ("y", (.table "s" "u", "s.u"))]
    ⟨"c", [("a", none)], false⟩ 0).map (fun c => (c.raw, c.parents.map (·.2))) = [("a", ["s.t", "s.u"])] := by decide

/-
  NOT PROVED (full statement, DESIGN §5 C02):
    theorem pairs_exact (s : Stmt) (h : Frag02 s) : pairs (Runner.eval c md [s]) = Spec.colflow env s
  where `Spec.colflow` is the denotational dataflow of Appendix B.  Missing: the specification `Spec.colflow` itself in Lean,
  the composition of the lemmas above through `cleanupGroup` / `expandWildcard`, and the path enumeration (C06).
-/

end SqlLineage.Props.C02
