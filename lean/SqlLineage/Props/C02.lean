/-
C02 — single‑statement column lineage is exact.

PROVED
  §1–§4  layer lemmas, for EVERY alias map / graph / expression: the naming rule of target columns (`Walk.colSpecOf`, model of
         `SqlFluffColumn.of`), scope resolution of source references (`Holder.toSourceColumns` over `Holder.aliasMapping`, models
         of `Column.to_source_columns` and `get_alias_mapping_from_table_group`), the positional rule of
         `end_of_query_cleanup` (`Holder.cleanupItem`).
  §5     END TO END on a fragment (`pairs_exact_flat_partial`, `owners_exact_flat_partial`, `edges_exact_flat_partial`,
         `analyze_total_flat_partial`; machinery in `Proofs/ColumnsExact.lean`): for `INSERT INTO T <q>` (no column list),
         `CREATE TABLE T AS <q>`, `CREATE VIEW T AS <q>` (no column list) without metadata provider, `<q>` ONE select block
         over base tables (comma list and joins, any aliases; it may read `T` itself), no subquery anywhere, column
         references qualified (by anything), unqualified over a single table reference (resolved to it), unqualified over
         several relations (left unresolved) or an unqualified `*` over several relations (one `<relation>.*` each):
         `analyze` succeeds and the LINEAGE edges of the statement holder are EXACTLY the
         pairs of the specification `ColumnsExact.specPairs` (a function of the AST alone), the HAS_COLUMN edges exactly the
         owner edges of these pairs, the HAS_ALIAS edges exactly those of the table references, and there is no other edge.
         The proof follows `analyze` → `exWriteQuery` → `exQuery` → `finishBranches` → `endOfQueryCleanup` → `cleanupGroup` →
         `cleanupItem` → `addColumnLineage` → `expandWildcard` → `compose` with an invariant (`ColumnsExact.Wired`).
         `dev_unknown_qualifier_positional`: the one shape excluded inside this syntax class, with its witness.
         The same for statements WITH a column list (`pairs_exact_collist_partial`, `owners_exact_collist_partial`,
         `edges_exact_collist_partial`, `analyze_total_collist_partial`; `INSERT INTO T (c1..cn) <q>`, `CREATE VIEW T (c1..cn)
         AS <q>`, n = number of select items, names pairwise different, `T` not read): item `i` is wired to `ci` BY POSITION
         (`ColumnsExact.specPairsPos`).  The same over a SET OPERATION (`pairs_exact_setop_partial`,
         `owners_exact_setop_partial`, `edges_exact_setop_partial`, `analyze_total_setop_partial`; any number of flat branches of
         equal arity, every item of the first branch with a source and the first branch's names pairwise different): the
         first branch by its own names, the others BY POSITION onto them (`ColumnsExact.specPairsUnion`).  And
         `select_moves_no_column_partial`: the holder of a plain SELECT over base tables is exactly the reads of its FROM
         clause.  And up to `get_column_lineage()` (`column_paths_exact_flat_partial` / `_collist_` / `_setop_`): when the
         written table is not read, `Paths.columnLineage` of the statement holder is exactly the list of two‑node paths
         `[source, target]` of the specified pairs.

NOT PROVED (kept as a comment at the end): `pairs_exact` for all of `Frag02` — see the list there.  What ties the rest to the
code is the SQL‑level correspondence of `harness/c02.py`.
-/
import SqlLineage.Model.Runner
import SqlLineage.Proofs.ColumnsExact

namespace SqlLineage.Props.C02
open SqlLineage Ast Holder Walk

/-! ### 1. the naming rule: explicit alias, else the column's own name, else the expression text -/

/-- an aliased item is named by its alias (normalised), whatever the expression -/
theorem target_named_by_alias (env : Env) (e : Expr) (a : String) (k : Bool) :
    (colSpecOf env (.mk e (some a) k)).raw = Ident.escapeS a := by
  simp [colSpecOf, ColSpec.of]

/-- an un‑aliased plain column reference is named by the column's own name (qualifiers dropped) -/
theorem target_named_by_own_name (env : Env) (qs : List String) (c : String) (k : Bool) :
    (colSpecOf env (.mk (.col qs c) none k)).raw = Ident.escapeS c := by
  simp [colSpecOf, refs, ColSpec.of]

/-- an un‑aliased wildcard keeps the name `*` -/
theorem target_star (env : Env) (qs : List String) (k : Bool) :
    (colSpecOf env (.mk (.star qs) none k)).raw = Ident.escapeS "*" := by
  simp [colSpecOf, refs, ColSpec.of]

/-- the display name of any other un‑aliased expression is its text — and nothing else of the item depends on the text:
    the source references are `refs e` in every case -/
theorem expr_display_name_only (env : Env) (e : Expr) (alias : Option String) (k : Bool) :
    (colSpecOf env (.mk e alias k)).srcs =
      (refs e).map (fun p => (Ident.escapeS p.1, p.2.map Ident.escapeS)) := by
  cases alias with
  | some a => simp [colSpecOf, ColSpec.of]
  | none =>
    by_cases h : (refs e).isEmpty = true
    · have : refs e = [] := List.isEmpty_iff.mp h
      simp [colSpecOf, ColSpec.of, this]
    · simp only [colSpecOf, h, Bool.not_false, if_true, Bool.false_eq_true, if_false, Bool.not_eq_true]
      cases e <;> simp [ColSpec.of]

/-- a qualified reference `q.c` keeps exactly the LAST qualifier part as its qualifier -/
theorem refs_col (qs : List String) (c : String) : refs (.col qs c) = [(c, qs.getLast?)] := by simp [refs]

/-- literals contribute no source column -/
theorem refs_lit (t : String) : refs (.lit t) = [] := by simp [refs]

/-! ### 2. scope resolution -/

/-- a qualified reference resolves to the relation that answers to the qualifier in the alias map -/
theorem qualified_resolution (imp : String) (m : AliasMap) (name c q : String) (v : DS × String) (k : Nat)
    (h : amGet m q = some v) :
    toSourceColumns imp m ⟨name, [(c, some q)], false⟩ k = [Column.mk1 c (some v)] := by
  simp [toSourceColumns, h, pushCol]

/-- an unknown qualifier is NOT guessed from the scope: it becomes a table of that name in the default schema -/
theorem unknown_qualifier_is_a_table (imp : String) (m : AliasMap) (name c q : String) (k : Nat)
    (h : amGet m q = none) :
    toSourceColumns imp m ⟨name, [(c, some q)], false⟩ k =
      [Column.mk1 c (some (.table imp (Ident.escapeS q), imp ++ "." ++ Ident.escapeS q))] := by
  simp [toSourceColumns, h, pushCol]

/-- an unqualified reference in a scope with exactly one relation resolves to it -/
theorem unqualified_single (imp : String) (m : AliasMap) (name c : String) (v : DS × String)
    (hc : (c == "*") = false) (h : amValues m = [v]) :
    toSourceColumns imp m ⟨name, [(c, none)], false⟩ 0 = [Column.mk1 c (some v)] := by
  simp [toSourceColumns, hc, h, permK, pushCol, Column.mk1, Column.addParent, insertParent]

/-- candidates of an unqualified reference: every relation of the scope, nothing else -/
private theorem mem_insertParent (p x : DS × String) (l : List (DS × String)) :
    x ∈ insertParent p l → x = p ∨ x ∈ l := by
  induction l with
  | nil => simp [insertParent]
  | cons q r ih =>
    simp only [insertParent]
    split
    · exact Or.inr
    · split
      · intro h
        simp only [List.mem_cons, List.mem_filter] at h
        rcases h with h | h | ⟨h, _⟩
        · exact Or.inl h
        · exact Or.inr (by simp [h])
        · exact Or.inr (by simp [h])
      · intro h
        simp only [List.mem_cons] at h
        rcases h with h | h
        · exact Or.inr (by simp [h])
        · rcases ih h with h' | h'
          · exact Or.inl h'
          · exact Or.inr (by simp [h'])

private theorem mem_foldl_addParent (vs : List (DS × String)) (c : Column) (x : DS × String) :
    x ∈ (vs.foldl (fun col v => col.addParent v) c).parents → x ∈ c.parents ∨ x ∈ vs := by
  induction vs generalizing c with
  | nil => exact Or.inl
  | cons v r ih =>
    intro h
    rcases ih (c.addParent v) h with h' | h'
    · rcases mem_insertParent v x c.parents h' with h'' | h''
      · exact Or.inr (by simp [h''])
      · exact Or.inl h''
    · exact Or.inr (by simp [h'])

private theorem mem_permK {α : Type} (k : Nat) (l : List α) (y : α) : y ∈ permK k l → y ∈ l := by
  induction l generalizing k with
  | nil => simp [permK]
  | cons z r ih =>
    simp only [permK, List.mem_append, List.mem_cons, List.mem_nil_iff, or_false]
    rintro ((h | h) | h)
    · exact Or.inr (ih _ (List.mem_of_mem_take h))
    · exact Or.inl h
    · exact Or.inr (ih _ (List.mem_of_mem_drop h))

/-- **never a guess**: whatever the scope and whatever the iteration order `k` of the relation set, an unqualified,
    non‑star reference yields ONE column whose owner candidates are relations of the scope (`amValues m`) and nothing
    else — with several candidates it is reported as unresolved (`Column.parent? = none`), never attributed to one -/
theorem unqualified_candidates_are_scope (imp : String) (m : AliasMap) (name c : String) (k : Nat)
    (hc : (c == "*") = false) :
    toSourceColumns imp m ⟨name, [(c, none)], false⟩ k =
      [(permK k (amValues m)).foldl (fun col v => col.addParent v) (Column.mk1 c none)] ∧
    ∀ x ∈ ((permK k (amValues m)).foldl (fun col v => col.addParent v) (Column.mk1 c none)).parents,
      x ∈ amValues m := by
  have hne : c ≠ "*" := by simpa using hc
  refine ⟨by simp [toSourceColumns, hne, pushCol], ?_⟩
  intro x hx
  rcases mem_foldl_addParent _ _ x hx with h | h
  · simp [Column.mk1] at h
  · exact mem_permK k _ x h

/-! ### 3. the alias map: which names a relation answers to -/

/- the general statement `explicit_alias_wins` (an alias written in the query wins over every table name, for every holder and
   group) is `Props.C08.explicit_alias_wins`. -/

/-- D7 repaired (commit fb575cb): `from sch1.foo tab join sch2.tab` — the alias `tab` denotes `sch1.foo`, not the other
    table whose bare name happens to be `tab`.  (Before the repair the union `alias_map | unqualified_map | qualified_map`
    let the bare name win and the answer was `sch2.tab`.) -/
theorem fixed_D7 :
    let foo : DObj := ⟨.table "sch1" "foo", some "tab"⟩
    let tab : DObj := ⟨.table "sch2" "tab", some "tab"⟩
    let g := addReadO (addReadO Graph.empty foo) tab
    (amGet (aliasMapping g [foo, tab]) "tab").map (·.2) = some "sch1.foo" := by decide

/-- a table without alias still answers to its bare name and to its qualified name -/
theorem unaliased_table_answers_to_names :
    let t : DObj := ⟨.table "s" "t", some "t"⟩
    let u : DObj := ⟨.table "s2" "u", some "x"⟩
    let g := addReadO (addReadO Graph.empty t) u
    (amGet (aliasMapping g [t, u]) "t").map (·.2) = some "s.t" ∧
    (amGet (aliasMapping g [t, u]) "s.t").map (·.2) = some "s.t" ∧
    (amGet (aliasMapping g [t, u]) "x").map (·.2) = some "s2.u" := by decide

/-! ### 4. positional wiring of set operations and column lists -/

/-- `end_of_query_cleanup` wires item `idx` of a group to `write_columns[idx]` exactly when the number of write columns
    equals the size of the group (explicit column list, or the columns the first branch of a set operation created),
    and to its own name otherwise; an item without source columns (a literal) adds nothing at all. -/
theorem item_without_sources_adds_nothing (imp : String) (tp : DS × String) (n : Nat) (grp : List DObj) (g : LGraph)
    (c : ColSpec) (idx k : Nat) (h : c.srcs = []) :
    cleanupItem imp tp n grp g (c, idx) k = .ok g := by
  simp [cleanupItem, toSourceColumns, h]

/-- D6 (recorded finding): because a source‑less item of the first branch creates no write column, a later branch no longer
    finds as many write columns as it has items and falls back to its own names — the literal shifts the wiring. -/
theorem dev_D6_mechanism (imp : String) (tp : DS × String) (grp : List DObj) (g : LGraph) (c : ColSpec) (idx k : Nat)
    (hs : (toSourceColumns imp (aliasMapping g grp) c k).isEmpty = false)
    (hlen : ((writeColumns g).length == 2) = false) :
    cleanupItem imp tp 2 grp g (c, idx) k =
      (toSourceColumns imp (aliasMapping g grp) c k).foldlM
        (fun g s => addColumnLineage g s (Column.mk1 c.raw (some tp))) g := by
  simp [cleanupItem, hs, hlen]

/-! ### non‑vacuity -/

example : amGet (aliasMapping (addReadO Graph.empty ⟨.table "s" "t", some "x"⟩) [⟨.table "s" "t", some "x"⟩]) "x"
    = some (.table "s" "t", "s.t") := by decide

example : (toSourceColumns "<default>" [("x", (.table "s" "t", "s.t")), ("y", (.table "s" "u", "s.u"))]
    ⟨"c", [("a", none)], false⟩ 0).map (fun c => (c.raw, c.parents.map (·.2))) = [("a", ["s.t", "s.u"])] := by decide

/-! ### 5. end to end: column lineage of a write statement over one flat SELECT block (`Proofs/ColumnsExact.lean`)

The fragment `ColumnsExact.fragStmt env s` (a decidable predicate on the AST):

  * `s` is `INSERT INTO T <q>` without column list, `CREATE TABLE T AS <q>` or `CREATE VIEW T AS <q>` without column list;
  * `<q>` is ONE select block; its FROM clause is any comma list / join chain of base tables (`feOK`: with or without alias,
    any qualification, ON conditions without subqueries); no subquery in a select item (`noSub`; CASE, functions, casts,
    wildcards are all inside) or in WHERE;
  * written aliases are unambiguous (`aliasesUnambiguous`: the same written alias twice means the same table);
  * every column reference of every select item (`refOK`) is
      – qualified, by ANY name: what the name denotes is `resolveQ` (written alias > name of a table without alias >
        qualified name > bare name, else a table of that name in the fallback schema).  Only when the block does not read
        the written table `T`, the name must not denote `T` (`avoidOf`; see `dev_unknown_qualifier_positional` below for what
        happens otherwise);
      – or unqualified over exactly one table reference: it is a column of that table;
      – or unqualified, not `*`, over names denoting at least two different relations (`twoRelations`): it is left
        UNRESOLVED — the source is the column without owner, `Node.col c none`, never a guess;
      – or an unqualified `*` over several table references: one source `<relation>.*` per relation the FROM clause
        denotes (`denoted`), all wired to the item's column (`T.*` when the item has no alias).
  * the block may read the table it writes.

No metadata provider (`env.prov.truthy = false`); every `env.revStar`, default schema, render option.

The specification `ColumnsExact.specPairs` only looks at the AST:
  { (key of column `c` of the relation the reference denotes — or of nobody —, key of the column of `T` named by the naming
     rule of §1) | item `e [AS a]` of the select list, `(c, q?) ∈ refs e` }.  -/

section endToEnd
open ColumnsExact Graph

/-- on the fragment the analysis always succeeds -/
theorem analyze_total_flat_partial (env : Env) (silent : Bool) (s : Stmt) (hp : env.prov.truthy = false)
    (hs : fragStmt env s = true) : ∃ g, analyze env silent s = .ok g := by
  obtain ⟨g, hg, _⟩ := analyze_exact env silent s hp hs
  exact ⟨g, hg⟩

/-- **`pairs_exact` on the flat write fragment**: the LINEAGE edges of the statement holder are exactly the specified
    (source column, target column) pairs -/
theorem pairs_exact_flat_partial (env : Env) (silent : Bool) (s : Stmt) (g : LGraph) (hp : env.prov.truthy = false)
    (hs : fragStmt env s = true) (h : analyze env silent s = .ok g) (u v : Node) :
    ((u, v) ∈ g.edges ∧ g.ety u v = some .lineage) ↔
      (u, v) ∈ specPairs env (stmtTarget s) (stmtItems s) (stmtFrom s) := by
  obtain ⟨g', hg', hx⟩ := analyze_exact env silent s hp hs
  rw [h] at hg'
  cases hg'
  exact hx.lineage u v

/-- the same with the specification written out: for each column reference of each select item, the source keys it denotes
    (`srcKeys`: the key of `srcCol` — the referenced column of the relation the reference denotes — and for an unqualified `*`
    over several relations one `<relation>.*` each), the target the item's column of the written table (`tgtCol`, named by
    `colSpecOf`: alias, else the column's own name, else the expression text) -/
theorem pairs_exact_flat_unfolded_partial (env : Env) (silent : Bool) (s : Stmt) (g : LGraph) (hp : env.prov.truthy = false)
    (hs : fragStmt env s = true) (h : analyze env silent s = .ok g) (u v : Node) :
    ((u, v) ∈ g.edges ∧ g.ety u v = some .lineage) ↔
      ∃ e a k, Item.mk e a k ∈ stmtItems s ∧ ∃ r ∈ refs e,
        u ∈ srcKeys env.importDefault (fromTabs env (stmtFrom s)) (normRef r) ∧
        v = (tgtCol env (stmtTarget s) (.mk e a k)).key := by
  rw [pairs_exact_flat_partial env silent s g hp hs h, mem_specPairs]

/-- HAS_COLUMN edges: every column of a pair hangs from the owner recorded in its key (the written table owns every target
    column, each source relation owns its source columns), and nothing else does -/
theorem owners_exact_flat_partial (env : Env) (silent : Bool) (s : Stmt) (g : LGraph) (hp : env.prov.truthy = false)
    (hs : fragStmt env s = true) (h : analyze env silent s = .ok g) (u v : Node) :
    ((u, v) ∈ g.edges ∧ g.ety u v = some .hasColumn) ↔
      (u, v) ∈ specOwners (specPairs env (stmtTarget s) (stmtItems s) (stmtFrom s)) := by
  obtain ⟨g', hg', hx⟩ := analyze_exact env silent s hp hs
  rw [h] at hg'
  cases hg'
  have := hx.hasColumn u v
  simpa using this

/-- every edge of the statement holder is one of: a specified pair (LINEAGE), an owner edge of a specified pair (HAS_COLUMN),
    the alias edge of a table reference (HAS_ALIAS) — there is nothing else in the graph -/
theorem edges_exact_flat_partial (env : Env) (silent : Bool) (s : Stmt) (g : LGraph) (hp : env.prov.truthy = false)
    (hs : fragStmt env s = true) (h : analyze env silent s = .ok g) (u v : Node) :
    (u, v) ∈ g.edges ↔
      (u, v) ∈ specPairs env (stmtTarget s) (stmtItems s) (stmtFrom s) ∨
      (u, v) ∈ specOwners (specPairs env (stmtTarget s) (stmtItems s) (stmtFrom s)) ∨
      aliasPair (fromTabs env (stmtFrom s)) u v := by
  obtain ⟨g', hg', hx⟩ := analyze_exact env silent s hp hs
  rw [h] at hg'
  cases hg'
  constructor
  · intro he
    have hy := Graph.ety_of_mem g u v he
    cases ht : g.etype u v with
    | lineage => exact Or.inl ((hx.lineage u v).mp ⟨he, by rw [hy, ht]⟩)
    | hasColumn =>
      have := (hx.hasColumn u v).mp ⟨he, by rw [hy, ht]⟩
      exact Or.inr (Or.inl (by simpa using this))
    | hasAlias => exact Or.inr (Or.inr ((hx.hasAlias u v).mp ⟨he, by rw [hy, ht]⟩))
    | rename => exact absurd (by rw [hy, ht]) (hx.noRename u v he)
  · rintro (h1 | h1 | h1)
    · exact ((hx.lineage u v).mpr h1).1
    · exact ((hx.hasColumn u v).mpr (Or.inr h1)).1
    · exact ((hx.hasAlias u v).mpr h1).1

/-- the written table owns every target column of a pair; a source column hangs from the owner recorded in its key (a
    resolved reference), an unresolved one from nobody -/
theorem target_owned_flat_partial (env : Env) (silent : Bool) (s : Stmt) (g : LGraph) (hp : env.prov.truthy = false)
    (hs : fragStmt env s = true) (h : analyze env silent s = .ok g) (u v : Node)
    (hl : (u, v) ∈ g.edges ∧ g.ety u v = some .lineage) :
    ((Node.ds (mkTable env (stmtTarget s) none).d, v) ∈ g.edges ∧
      g.ety (.ds (mkTable env (stmtTarget s) none).d) v = some .hasColumn) ∧
    (∀ d, colParent u = some d → (Node.ds d, u) ∈ g.edges ∧ g.ety (.ds d) u = some .hasColumn) ∧
    (colParent u = none → ∀ w, ¬((w, u) ∈ g.edges ∧ g.ety w u = some .hasColumn)) := by
  have hk := (pairs_exact_flat_partial env silent s g hp hs h u v).mp hl
  obtain ⟨e, a, k, _, r, _, hu, hv⟩ := (mem_specPairs _ _ _ _ u v).mp hk
  refine ⟨(owners_exact_flat_partial env silent s g hp hs h _ v).mpr ?_, ?_, ?_⟩
  · rw [mem_specOwners]
    exact ⟨(u, v), hk, Or.inr ⟨_, by rw [hv]; rfl, rfl⟩⟩
  · intro d hd
    refine (owners_exact_flat_partial env silent s g hp hs h _ u).mpr ?_
    rw [mem_specOwners]
    exact ⟨(u, v), hk, Or.inl ⟨d, hd, rfl⟩⟩
  · intro hnone w hw
    have := (owners_exact_flat_partial env silent s g hp hs h w u).mp hw
    rw [mem_specOwners] at this
    obtain ⟨p, _, ⟨d, hd, hx⟩ | ⟨d, hd, hx⟩⟩ := this
    · have : u = p.1 := congrArg Prod.snd hx
      rw [this, hd] at hnone; cases hnone
    · have : u = p.2 := congrArg Prod.snd hx
      rw [this, hd] at hnone; cases hnone

/-- a plain SELECT over base tables (no subquery) moves no column: its holder is exactly the reads of its FROM clause —
    every edge is the HAS_ALIAS edge of a table reference, there is no LINEAGE and no HAS_COLUMN edge (any references, any
    provider) -/
theorem select_moves_no_column_partial (env : Env) (silent : Bool) (s : Stmt) (hs : fragPlainSelect s = true) :
    ∃ g, analyze env silent s = .ok g ∧
      ∀ u v, (u, v) ∈ g.edges → g.ety u v = some .hasAlias ∧ aliasPair (fromTabs env (match s with
        | .query (.select _ _ frm _ _ _) _ => frm | _ => [])) u v := by
  obtain ⟨d, its, frm, wh, grp, hav, br, rfl, hg⟩ := analyze_plain env silent s hs
  refine ⟨_, hg, fun u v he => ?_⟩
  have := reads_edges (fromTabs env frm) (fromTabs_isTabRef env frm) u v
  exact ⟨this.2 he, this.1.mp he⟩

/-! #### an explicit column list: wiring BY POSITION

`INSERT INTO T (c1, …, cn) <q>` / `CREATE VIEW T (c1, …, cn) AS <q>` (`fragStmtCols`): `<q>` as above, not reading `T`, no
qualifier denoting `T`, exactly as many listed columns as select items, the listed names pairwise different after
normalisation.  Item `i` is wired to the `i`‑th listed column whatever the item is called (`specPairsPos`); an item
without source column (a literal) wires nothing, but `T` owns every listed column all the same (`listedOwners`). -/

theorem analyze_total_collist_partial (env : Env) (silent : Bool) (s : Stmt) (hp : env.prov.truthy = false)
    (hs : fragStmtCols env s = true) : ∃ g, analyze env silent s = .ok g := by
  obtain ⟨g, hg, _⟩ := analyze_exact_cols env silent s hp hs
  exact ⟨g, hg⟩

/-- **`pairs_exact` with an explicit column list**: the LINEAGE edges are exactly the pairs (source column of a reference of
    item `i`, `i`‑th listed column of the written table) -/
theorem pairs_exact_collist_partial (env : Env) (silent : Bool) (s : Stmt) (g : LGraph) (hp : env.prov.truthy = false)
    (hs : fragStmtCols env s = true) (h : analyze env silent s = .ok g) (u v : Node) :
    ((u, v) ∈ g.edges ∧ g.ety u v = some .lineage) ↔
      (u, v) ∈ specPairsPos env (stmtTarget s) (stmtCols s) (stmtItems s) (stmtFrom s) := by
  obtain ⟨g', hg', hx⟩ := analyze_exact_cols env silent s hp hs
  rw [h] at hg'
  cases hg'
  exact hx.lineage u v

/-- the same, written out -/
theorem pairs_exact_collist_unfolded_partial (env : Env) (silent : Bool) (s : Stmt) (g : LGraph)
    (hp : env.prov.truthy = false) (hs : fragStmtCols env s = true) (h : analyze env silent s = .ok g) (u v : Node) :
    ((u, v) ∈ g.edges ∧ g.ety u v = some .lineage) ↔
      ∃ e a k c, (Item.mk e a k, c) ∈ (stmtItems s).zip (stmtCols s) ∧ ∃ r ∈ refs e,
        u ∈ srcKeys env.importDefault (fromTabs env (stmtFrom s)) (normRef r) ∧
        v = .col ((mkTable env (stmtTarget s) none).printed ++ "." ++ Ident.escapeS c)
              (some (mkTable env (stmtTarget s) none).d) := by
  rw [pairs_exact_collist_partial env silent s g hp hs h, mem_specPairsPos]

/-- HAS_COLUMN edges with a column list: the written table owns every LISTED column (wired or not), every source column
    hangs from its owner, nothing else -/
theorem owners_exact_collist_partial (env : Env) (silent : Bool) (s : Stmt) (g : LGraph) (hp : env.prov.truthy = false)
    (hs : fragStmtCols env s = true) (h : analyze env silent s = .ok g) (u v : Node) :
    ((u, v) ∈ g.edges ∧ g.ety u v = some .hasColumn) ↔
      (u, v) ∈ listedOwners env (stmtTarget s) (stmtCols s) ∨
      (u, v) ∈ specOwners (specPairsPos env (stmtTarget s) (stmtCols s) (stmtItems s) (stmtFrom s)) := by
  obtain ⟨g', hg', hx⟩ := analyze_exact_cols env silent s hp hs
  rw [h] at hg'
  cases hg'
  exact hx.hasColumn u v

/-- … and there is no other edge than these and the alias edges of the table references -/
theorem edges_exact_collist_partial (env : Env) (silent : Bool) (s : Stmt) (g : LGraph) (hp : env.prov.truthy = false)
    (hs : fragStmtCols env s = true) (h : analyze env silent s = .ok g) (u v : Node) :
    (u, v) ∈ g.edges ↔
      (u, v) ∈ specPairsPos env (stmtTarget s) (stmtCols s) (stmtItems s) (stmtFrom s) ∨
      ((u, v) ∈ listedOwners env (stmtTarget s) (stmtCols s) ∨
        (u, v) ∈ specOwners (specPairsPos env (stmtTarget s) (stmtCols s) (stmtItems s) (stmtFrom s))) ∨
      aliasPair (fromTabs env (stmtFrom s)) u v := by
  obtain ⟨g', hg', hx⟩ := analyze_exact_cols env silent s hp hs
  rw [h] at hg'
  cases hg'
  constructor
  · intro he
    have hy := Graph.ety_of_mem g u v he
    cases ht : g.etype u v with
    | lineage => exact Or.inl ((hx.lineage u v).mp ⟨he, by rw [hy, ht]⟩)
    | hasColumn => exact Or.inr (Or.inl ((hx.hasColumn u v).mp ⟨he, by rw [hy, ht]⟩))
    | hasAlias => exact Or.inr (Or.inr ((hx.hasAlias u v).mp ⟨he, by rw [hy, ht]⟩))
    | rename => exact absurd (by rw [hy, ht]) (hx.noRename u v he)
  · rintro (h1 | h1 | h1)
    · exact ((hx.lineage u v).mpr h1).1
    · exact ((hx.hasColumn u v).mpr h1).1
    · exact ((hx.hasAlias u v).mpr h1).1

/-! #### set operations: the first branch names the columns, the other branches are wired BY POSITION

`INSERT INTO T <b1> UNION [ALL] <b2> …` (also CTAS / CREATE VIEW; `fragStmtSetop`): every branch one flat SELECT block as above,
`T` read by none of them and denoted by no qualifier, the same number of items in every branch, every item of the FIRST
branch has at least one source column and the first branch's item names are pairwise different (so that it creates exactly
as many write columns as the other branches have items — the literal case is finding D6), written aliases unambiguous per
branch and a table carrying the same alias wherever it occurs in the statement (`aliasConsistent`: the alias edges of ALL
branches are in the holder while one branch is resolved).  Then (`specPairsUnion`): the first branch is wired by its own
item names, item `i` of every other branch to the column named by item `i` of the first branch. -/

theorem analyze_total_setop_partial (env : Env) (silent : Bool) (s : Stmt) (hp : env.prov.truthy = false)
    (hs : fragStmtSetop env s = true) : ∃ g, analyze env silent s = .ok g := by
  obtain ⟨g, hg, _⟩ := analyze_exact_setop env silent s hp hs
  exact ⟨g, hg⟩

/-- **`pairs_exact` over a set operation** -/
theorem pairs_exact_setop_partial (env : Env) (silent : Bool) (s : Stmt) (g : LGraph) (hp : env.prov.truthy = false)
    (hs : fragStmtSetop env s = true) (h : analyze env silent s = .ok g) (u v : Node) :
    ((u, v) ∈ g.edges ∧ g.ety u v = some .lineage) ↔ (u, v) ∈ specPairsUnion env (stmtTarget s) (stmtParts s) := by
  obtain ⟨g', hg', hx⟩ := analyze_exact_setop env silent s hp hs
  rw [h] at hg'
  cases hg'
  exact hx.lineage u v

/-- the same, written out: the pairs of the first branch `b1` as in `pairs_exact_flat_unfolded_partial`; for every other
    branch `b`, item `i` of `b` with item `i` of `b1` -/
theorem pairs_exact_setop_unfolded_partial (env : Env) (silent : Bool) (s : Stmt) (g : LGraph) (hp : env.prov.truthy = false)
    (hs : fragStmtSetop env s = true) (h : analyze env silent s = .ok g) (b1 : List Item × List FromExpr)
    (rest : List (List Item × List FromExpr)) (hparts : stmtParts s = b1 :: rest) (u v : Node) :
    ((u, v) ∈ g.edges ∧ g.ety u v = some .lineage) ↔
      (∃ e a k, Item.mk e a k ∈ b1.1 ∧ ∃ r ∈ refs e,
        u ∈ srcKeys env.importDefault (fromTabs env b1.2) (normRef r) ∧
        v = (tgtCol env (stmtTarget s) (.mk e a k)).key) ∨
      (∃ b ∈ rest, ∃ e a k it1, (Item.mk e a k, it1) ∈ b.1.zip b1.1 ∧ ∃ r ∈ refs e,
        u ∈ srcKeys env.importDefault (fromTabs env b.2) (normRef r) ∧ v = (tgtCol env (stmtTarget s) it1).key) := by
  rw [pairs_exact_setop_partial env silent s g hp hs h, hparts]
  simp only [specPairsUnion, List.mem_append, List.mem_flatMap, mem_specPairs, mem_unionBranchPairs]

/-- HAS_COLUMN edges over a set operation: the owners of the pairs, nothing else -/
theorem owners_exact_setop_partial (env : Env) (silent : Bool) (s : Stmt) (g : LGraph) (hp : env.prov.truthy = false)
    (hs : fragStmtSetop env s = true) (h : analyze env silent s = .ok g) (u v : Node) :
    ((u, v) ∈ g.edges ∧ g.ety u v = some .hasColumn) ↔
      (u, v) ∈ specOwners (specPairsUnion env (stmtTarget s) (stmtParts s)) := by
  obtain ⟨g', hg', hx⟩ := analyze_exact_setop env silent s hp hs
  rw [h] at hg'
  cases hg'
  have := hx.hasColumn u v
  simpa using this

/-- … and there is no other edge than these and the alias edges of the table references of all branches -/
theorem edges_exact_setop_partial (env : Env) (silent : Bool) (s : Stmt) (g : LGraph) (hp : env.prov.truthy = false)
    (hs : fragStmtSetop env s = true) (h : analyze env silent s = .ok g) (u v : Node) :
    (u, v) ∈ g.edges ↔
      (u, v) ∈ specPairsUnion env (stmtTarget s) (stmtParts s) ∨
      (u, v) ∈ specOwners (specPairsUnion env (stmtTarget s) (stmtParts s)) ∨
      aliasPair ((stmtParts s).flatMap (fun b => fromTabs env b.2)) u v := by
  obtain ⟨g', hg', hx⟩ := analyze_exact_setop env silent s hp hs
  rw [h] at hg'
  cases hg'
  constructor
  · intro he
    have hy := Graph.ety_of_mem g u v he
    cases ht : g.etype u v with
    | lineage => exact Or.inl ((hx.lineage u v).mp ⟨he, by rw [hy, ht]⟩)
    | hasColumn =>
      have := (hx.hasColumn u v).mp ⟨he, by rw [hy, ht]⟩
      exact Or.inr (Or.inl (by simpa using this))
    | hasAlias => exact Or.inr (Or.inr ((hx.hasAlias u v).mp ⟨he, by rw [hy, ht]⟩))
    | rename => exact absurd (by rw [hy, ht]) (hx.noRename u v he)
  · rintro (h1 | h1 | h1)
    · exact ((hx.lineage u v).mpr h1).1
    · exact ((hx.hasColumn u v).mpr (Or.inr h1)).1
    · exact ((hx.hasAlias u v).mpr h1).1

/-! #### from the edges to `get_column_lineage()`

`Paths.columnLineage` is the model of `get_column_lineage()` (C06: `column_lineage_exact` — the simple paths of the column graph
from roots to leaves).  On the fragments above, when the statement does not read the table it writes, no target column is a
source column, so the reported paths are exactly the two‑node paths `[source, target]` of the specified pairs: the
`pairs` of the property text = the specification. -/

theorem column_paths_exact_flat_partial (env : Env) (silent : Bool) (s : Stmt) (g : LGraph) (hp : env.prov.truthy = false)
    (hs : fragStmt env s = true) (h : analyze env silent s = .ok g)
    (hnr : ∀ o ∈ fromTabs env (stmtFrom s), o.d ≠ (mkTable env (stmtTarget s) none).d) (p : List Node) :
    p ∈ Paths.columnLineage g ↔
      ∃ u v, (u, v) ∈ specPairs env (stmtTarget s) (stmtItems s) (stmtFrom s) ∧ p = [u, v] := by
  obtain ⟨g', hg', hx⟩ := analyze_exact env silent s hp hs
  rw [h] at hg'
  cases hg'
  exact columnLineage_of_exact hx _ (mkTable_isTable env _ none)
    (specPairs_bipartite env _ _ _ hnr (fragStmt_items env s hs hnr)) (by intro q hq; cases hq) p

theorem column_paths_exact_collist_partial (env : Env) (silent : Bool) (s : Stmt) (g : LGraph) (hp : env.prov.truthy = false)
    (hs : fragStmtCols env s = true) (h : analyze env silent s = .ok g) (p : List Node) :
    p ∈ Paths.columnLineage g ↔
      ∃ u v, (u, v) ∈ specPairsPos env (stmtTarget s) (stmtCols s) (stmtItems s) (stmtFrom s) ∧ p = [u, v] := by
  obtain ⟨g', hg', hx⟩ := analyze_exact_cols env silent s hp hs
  rw [h] at hg'
  cases hg'
  obtain ⟨hself, hits⟩ := fragStmtCols_items env s hs
  refine columnLineage_of_exact hx _ (mkTable_isTable env _ none)
    (specPairsPos_bipartite env _ _ _ _ hself hits) ?_ p
  intro q hq
  unfold listedOwners at hq
  obtain ⟨c, _, rfl⟩ := List.mem_map.mp hq
  rfl

theorem column_paths_exact_setop_partial (env : Env) (silent : Bool) (s : Stmt) (g : LGraph) (hp : env.prov.truthy = false)
    (hs : fragStmtSetop env s = true) (h : analyze env silent s = .ok g) (p : List Node) :
    p ∈ Paths.columnLineage g ↔
      ∃ u v, (u, v) ∈ specPairsUnion env (stmtTarget s) (stmtParts s) ∧ p = [u, v] := by
  obtain ⟨g', hg', hx⟩ := analyze_exact_setop env silent s hp hs
  rw [h] at hg'
  cases hg'
  obtain ⟨hself, hits⟩ := fragStmtSetop_items env s hs
  exact columnLineage_of_exact hx _ (mkTable_isTable env _ none)
    (specPairsUnion_bipartite env _ _ hself hits) (by intro q hq; cases hq) p

/-! #### reading the specification (all by `ColumnsExact`): keys of target and source columns, what a qualifier denotes -/

/-- target column key: `<written table>.<item name>` owned by the written table -/
theorem spec_target_key (env : Env) (tgt : List String) (it : Item) :
    (tgtCol env tgt it).key =
      .col ((mkTable env tgt none).printed ++ "." ++ (colSpecOf env it).raw) (some (mkTable env tgt none).d) :=
  tgtCol_key env tgt it

/-- source column key of a qualified reference `q.c` -/
theorem spec_source_key_qualified (imp : String) (tabs : List DObj) (c q : String) :
    (srcCol imp tabs (c, some q)).key = .col ((resolveQ imp tabs q).2 ++ "." ++ c) (some (resolveQ imp tabs q).1) :=
  srcCol_key_qualified imp tabs c q

/-- source column key of an unqualified reference over a single table reference -/
theorem spec_source_key_unqualified (imp : String) (t : DObj) (ht : t.d.isTable = true) (c : String) :
    (srcCol imp [t] (c, none)).key = .col (t.printed ++ "." ++ c) (some t.d) :=
  srcCol_key_unqualified imp t ht c

/-- the source keys of a qualified reference / of an unqualified reference over one table reference: the key of `srcCol` -/
theorem spec_source_keys_qualified (imp : String) (tabs : List DObj) (c q : String) :
    srcKeys imp tabs (c, some q) = [(srcCol imp tabs (c, some q)).key] := srcKeys_qualified imp tabs c q

theorem spec_source_keys_single (imp : String) (t : DObj) (c : String) :
    srcKeys imp [t] (c, none) = [(srcCol imp [t] (c, none)).key] := srcKeys_single imp t c

/-- an unqualified non‑star reference over several table references: ONE source, the column without owner -/
theorem spec_source_keys_unresolved (imp : String) (tabs : List DObj) (h : tabs.length ≠ 1) (c : String) (hc : c ≠ "*") :
    srcKeys imp tabs (c, none) = [.col c none] := srcKeys_unresolved imp tabs h c hc

/-- an unqualified `*` over several table references: `<relation>.*` of every relation the FROM clause denotes -/
theorem spec_source_keys_star (imp : String) (tabs : List DObj) (h : tabs.length ≠ 1) :
    srcKeys imp tabs ("*", none) = (denoted tabs).map starKey := srcKeys_star imp tabs h

/-- source column key of an unqualified reference over SEVERAL table references: the column without owner — the reference is
    left unresolved, never attributed to one of the tables -/
theorem spec_source_key_unresolved (imp : String) (tabs : List DObj) (h : tabs.length ≠ 1) (c : String) :
    (srcCol imp tabs (c, none)).key = .col c none :=
  srcCol_key_unresolved imp tabs h c

/-- a written alias denotes its table, whatever other tables of the FROM clause are called (cf. `fixed_D7`) -/
theorem spec_alias_denotes (imp : String) (tabs : List DObj) (hU : aliasesUnambiguous tabs = true) (o : DObj) (ho : o ∈ tabs)
    (a : String) (v : DS × String) (he : explEntry o = some (a, v)) : resolveQ imp tabs a = v :=
  resolveQ_alias imp tabs hU o ho a v he

/-! #### non‑vacuity: two concrete statements inside the fragment, the model evaluated on them, the predicted pairs -/

/-- `insert into tgt select x.a, b + 1 as f, coalesce(x.c, 2) from s1.t1 x` -/
def exInsert : Stmt :=
  .insert .insertInto false ["tgt"] none
    (.select false
      [.mk (.col ["x"] "a") none false,
       .mk (.bin "+" (.col [] "b") (.lit "1")) (some "f") true,
       .mk (.func "coalesce" false [.col ["x"] "c", .lit "2"] none) none false]
      [.mk (.table ["s1", "t1"] (some "x") false) []] none [] none) false

/-- `create table s.t2 as select a.x, tb.y as z, a.k + tb.k, case when a.x > 1 then tb.y else a.k end w
     from s.ta a join s.tb on a.k = tb.k where a.x > 1` (alias, bare table name as qualifier, a join, a CASE) -/
def exCtas : Stmt :=
  .ctas ["s", "t2"] false false
    (.select false
      [.mk (.col ["a"] "x") none false,
       .mk (.col ["tb"] "y") (some "z") true,
       .mk (.bin "+" (.col ["a"] "k") (.col ["tb"] "k")) none false,
       .mk (.case [.mk (.bin ">" (.col ["a"] "x") (.lit "1")) (.col ["tb"] "y")] (some (.col ["a"] "k"))) (some "w") false]
      [.mk (.table ["s", "ta"] (some "a") false)
        [.mk "join" (.table ["s", "tb"] none false) (some (.bin "=" (.col ["a"] "k") (.col ["tb"] "k"))) []]]
      (some (.bin ">" (.col ["a"] "x") (.lit "1"))) [] none) false

/-- `create table t3 as select a.x, y, k + b.k as kk from s.ta a join s.tb as b on a.k = b.k`: `y` and `k` are unqualified over
    two relations — the model leaves them unresolved (a column without owner) -/
def exJoinUnq : Stmt :=
  .ctas ["t3"] false false
    (.select false
      [.mk (.col ["a"] "x") none false,
       .mk (.col [] "y") none false,
       .mk (.bin "+" (.col [] "k") (.col ["b"] "k")) (some "kk") true]
      [.mk (.table ["s", "ta"] (some "a") false)
        [.mk "join" (.table ["s", "tb"] (some "b") true) (some (.bin "=" (.col ["a"] "k") (.col ["b"] "k"))) []]]
      none [] none) false

/-- `insert into s.t select t.a, u.b as c from s.t, s.u`: the statement reads the table it writes (`s.t.a → s.t.a`) -/
def exSelf : Stmt :=
  .insert .insertInto false ["s", "t"] none
    (.select false
      [.mk (.col ["t"] "a") none false,
       .mk (.col ["u"] "b") (some "c") true]
      [.mk (.table ["s", "t"] none false) [], .mk (.table ["s", "u"] none false) []]
      none [] none) false

/-- `insert into s.tgt (p, q, r) select x.a, 1 as one, b + c as f from s1.t1 x`: by position — `a → p`, nothing to `q`,
    `b, c → r`; the item names `a`, `one`, `f` play no role -/
def exCols : Stmt :=
  .insert .insertInto false ["s", "tgt"] (some ["p", "q", "r"])
    (.select false
      [.mk (.col ["x"] "a") none false,
       .mk (.lit "1") (some "one") true,
       .mk (.bin "+" (.col [] "b") (.col [] "c")) (some "f") true]
      [.mk (.table ["s1", "t1"] (some "x") false) []] none [] none) false

/-- `create view v as select *, a.k as k2 from s.ta a join s.tb b on a.k = b.k`: the `*` stands for `s.ta.*` and `s.tb.*` -/
def exStarJoin : Stmt :=
  .createView ["v"] false none
    (.select false
      [.mk (.star []) none false,
       .mk (.col ["a"] "k") (some "k2") true]
      [.mk (.table ["s", "ta"] (some "a") false)
        [.mk "join" (.table ["s", "tb"] (some "b") false) (some (.bin "=" (.col ["a"] "k") (.col ["b"] "k"))) []]]
      none [] none)

/-- `insert into s.tgt select x.a, b + 1 as f from s1.t1 x union all select p, 0 as z from s1.t2 union select u.q as qq, u.r
    from s1.t3 as u`: the first branch names the columns `a`, `f`; `p → a`, nothing from the literal, `q → a`, `r → f` -/
def exUnion : Stmt :=
  .insert .insertInto false ["s", "tgt"] none
    (.setop
      (.mk (.select false [.mk (.col ["x"] "a") none false, .mk (.bin "+" (.col [] "b") (.lit "1")) (some "f") true]
        [.mk (.table ["s1", "t1"] (some "x") false) []] none [] none) false)
      [.mk "union all" (.mk (.select false [.mk (.col [] "p") none false, .mk (.lit "0") (some "z") true]
        [.mk (.table ["s1", "t2"] none false) []] none [] none) false),
       .mk "union" (.mk (.select false [.mk (.col ["u"] "q") (some "qq") true, .mk (.col ["u"] "r") none false]
        [.mk (.table ["s1", "t3"] (some "u") true) []] none [] none) false)]) false

/-- the LINEAGE edges of an analysis result, in graph order -/
def lineageEdges (r : Except Err LGraph) : List (Node × Node) :=
  match r with
  | .ok g => g.edges.filter (fun e => g.ety e.1 e.2 == some .lineage)
  | .error _ => []

example : fragStmt {} exInsert = true := by decide +kernel
example : fragStmt {} exCtas = true := by decide +kernel

/-- the model evaluated on `exInsert`: three pairs, named by own name / alias / expression text -/
example : lineageEdges (analyze {} false exInsert) =
    [(.col "s1.t1.a" (some (.table "s1" "t1")), .col "<default>.tgt.a" (some (.table "<default>" "tgt"))),
     (.col "s1.t1.b" (some (.table "s1" "t1")), .col "<default>.tgt.f" (some (.table "<default>" "tgt"))),
     (.col "s1.t1.c" (some (.table "s1" "t1")), .col "<default>.tgt.coalesce(x.c, 2)" (some (.table "<default>" "tgt")))] := by
  decide +kernel

/-- … and the specification predicts exactly these -/
example : specPairs {} (stmtTarget exInsert) (stmtItems exInsert) (stmtFrom exInsert) =
    lineageEdges (analyze {} false exInsert) := by decide +kernel

example : lineageEdges (analyze {} false exCtas) =
    [(.col "s.ta.x" (some (.table "s" "ta")), .col "s.t2.x" (some (.table "s" "t2"))),
     (.col "s.tb.y" (some (.table "s" "tb")), .col "s.t2.z" (some (.table "s" "t2"))),
     (.col "s.ta.k" (some (.table "s" "ta")), .col "s.t2.a.k + tb.k" (some (.table "s" "t2"))),
     (.col "s.tb.k" (some (.table "s" "tb")), .col "s.t2.a.k + tb.k" (some (.table "s" "t2"))),
     (.col "s.ta.x" (some (.table "s" "ta")), .col "s.t2.w" (some (.table "s" "t2"))),
     (.col "s.tb.y" (some (.table "s" "tb")), .col "s.t2.w" (some (.table "s" "t2"))),
     (.col "s.ta.k" (some (.table "s" "ta")), .col "s.t2.w" (some (.table "s" "t2")))] := by
  decide +kernel

example : specPairs {} (stmtTarget exCtas) (stmtItems exCtas) (stmtFrom exCtas) =
    lineageEdges (analyze {} false exCtas) := by decide +kernel

example : fragStmt {} exJoinUnq = true := by decide +kernel
example : fragStmt {} exSelf = true := by decide +kernel

example : lineageEdges (analyze {} false exJoinUnq) =
    [(.col "s.ta.x" (some (.table "s" "ta")), .col "<default>.t3.x" (some (.table "<default>" "t3"))),
     (.col "y" none, .col "<default>.t3.y" (some (.table "<default>" "t3"))),
     (.col "k" none, .col "<default>.t3.kk" (some (.table "<default>" "t3"))),
     (.col "s.tb.k" (some (.table "s" "tb")), .col "<default>.t3.kk" (some (.table "<default>" "t3")))] := by
  decide +kernel

example : specPairs {} (stmtTarget exJoinUnq) (stmtItems exJoinUnq) (stmtFrom exJoinUnq) =
    lineageEdges (analyze {} false exJoinUnq) := by decide +kernel

example : lineageEdges (analyze {} false exSelf) =
    [(.col "s.t.a" (some (.table "s" "t")), .col "s.t.a" (some (.table "s" "t"))),
     (.col "s.u.b" (some (.table "s" "u")), .col "s.t.c" (some (.table "s" "t")))] := by
  decide +kernel

example : specPairs {} (stmtTarget exSelf) (stmtItems exSelf) (stmtFrom exSelf) =
    lineageEdges (analyze {} false exSelf) := by decide +kernel

example : fragStmt {} exStarJoin = true := by decide +kernel

example : lineageEdges (analyze {} false exStarJoin) =
    [(.col "s.ta.*" (some (.table "s" "ta")), .col "<default>.v.*" (some (.table "<default>" "v"))),
     (.col "s.tb.*" (some (.table "s" "tb")), .col "<default>.v.*" (some (.table "<default>" "v"))),
     (.col "s.ta.k" (some (.table "s" "ta")), .col "<default>.v.k2" (some (.table "<default>" "v")))] := by
  decide +kernel

example : specPairs {} (stmtTarget exStarJoin) (stmtItems exStarJoin) (stmtFrom exStarJoin) =
    lineageEdges (analyze {} false exStarJoin) := by decide +kernel

example : fragStmtSetop {} exUnion = true := by decide +kernel

example : lineageEdges (analyze {} false exUnion) =
    [(.col "s1.t1.a" (some (.table "s1" "t1")), .col "s.tgt.a" (some (.table "s" "tgt"))),
     (.col "s1.t1.b" (some (.table "s1" "t1")), .col "s.tgt.f" (some (.table "s" "tgt"))),
     (.col "s1.t2.p" (some (.table "s1" "t2")), .col "s.tgt.a" (some (.table "s" "tgt"))),
     (.col "s1.t3.q" (some (.table "s1" "t3")), .col "s.tgt.a" (some (.table "s" "tgt"))),
     (.col "s1.t3.r" (some (.table "s1" "t3")), .col "s.tgt.f" (some (.table "s" "tgt")))] := by
  decide +kernel

example : specPairsUnion {} (stmtTarget exUnion) (stmtParts exUnion) = lineageEdges (analyze {} false exUnion) := by
  decide +kernel

example : fragStmtCols {} exCols = true := by decide +kernel

example : lineageEdges (analyze {} false exCols) =
    [(.col "s1.t1.a" (some (.table "s1" "t1")), .col "s.tgt.p" (some (.table "s" "tgt"))),
     (.col "s1.t1.b" (some (.table "s1" "t1")), .col "s.tgt.r" (some (.table "s" "tgt"))),
     (.col "s1.t1.c" (some (.table "s1" "t1")), .col "s.tgt.r" (some (.table "s" "tgt")))] := by
  decide +kernel

example : specPairsPos {} (stmtTarget exCols) (stmtCols exCols) (stmtItems exCols) (stmtFrom exCols) =
    lineageEdges (analyze {} false exCols) := by decide +kernel

/-- Why a qualifier may not denote a written table that is not read (`avoidOf`): such a reference makes the written table
    own SOURCE columns, so `write_columns` can reach the number of select items in the middle of the loop and the rest of
    the items is wired by POSITION.  `insert into foo select foo.x as a, foo.y as b, 1 as l1, foo.z as c from bar`: after two
    items `foo` owns `a, x, b, y` — four columns, as many as there are items — and `foo.z` goes to `write_columns[3] = foo.y`
    instead of `foo.c`.  Reproduced on the implementation (`get_column_lineage`: `foo.z -> foo.y -> foo.b`); the statement
    is outside `fragStmt`. -/
def exOwnSources : Stmt :=
  .insert .insertInto false ["foo"] none
    (.select false
      [.mk (.col ["foo"] "x") (some "a") true,
       .mk (.col ["foo"] "y") (some "b") true,
       .mk (.lit "1") (some "l1") true,
       .mk (.col ["foo"] "z") (some "c") true]
      [.mk (.table ["bar"] none false) []]
      none [] none) false

theorem dev_unknown_qualifier_positional :
    fragStmt {} exOwnSources = false ∧
    lineageEdges (analyze {} false exOwnSources) =
      [(.col "<default>.foo.x" (some (.table "<default>" "foo")), .col "<default>.foo.a" (some (.table "<default>" "foo"))),
       (.col "<default>.foo.y" (some (.table "<default>" "foo")), .col "<default>.foo.b" (some (.table "<default>" "foo"))),
       (.col "<default>.foo.z" (some (.table "<default>" "foo")), .col "<default>.foo.y" (some (.table "<default>" "foo")))] ∧
    (.col "<default>.foo.z" (some (.table "<default>" "foo")), .col "<default>.foo.c" (some (.table "<default>" "foo"))) ∈
      specPairs {} (stmtTarget exOwnSources) (stmtItems exOwnSources) (stmtFrom exOwnSources) := by
  decide +kernel

/-- Why the column list must be as long as the select list (`fragStmtCols`): with fewer listed columns than items the
    items are wired by their own names at first, every such item adds a write column, and as soon as their NUMBER reaches
    the number of items the rest is wired by position into that mixed list.  `insert into t (c1) select a, b, c from s`:
    `write_columns` is `[c1, a, b]` after two items, so `s.c` goes to `write_columns[2] = t.b`, not to `t.c`.  Reproduced on
    the implementation (`s.c -> t.b`).  (The statement is not executable SQL: the counts differ.) -/
def exShortList : Stmt :=
  .insert .insertInto false ["t"] (some ["c1"])
    (.select false
      [.mk (.col [] "a") none false, .mk (.col [] "b") none false, .mk (.col [] "c") none false]
      [.mk (.table ["s"] none false) []] none [] none) false

theorem dev_collist_length_mismatch :
    fragStmtCols {} exShortList = false ∧
    lineageEdges (analyze {} false exShortList) =
      [(.col "<default>.s.a" (some (.table "<default>" "s")), .col "<default>.t.a" (some (.table "<default>" "t"))),
       (.col "<default>.s.b" (some (.table "<default>" "s")), .col "<default>.t.b" (some (.table "<default>" "t"))),
       (.col "<default>.s.c" (some (.table "<default>" "s")), .col "<default>.t.b" (some (.table "<default>" "t")))] := by
  decide +kernel

/-- D6 (recorded finding) end to end — why every item of the FIRST branch must have a source (`fragStmtSetop`):
    `insert into t select 1 as a, x as b from s union all select p, q from u`.  The literal creates no write column, the
    second branch finds ONE write column for its TWO items, wires `p` by its own name — which makes two write columns —
    and then `q` by position to `write_columns[1] = t.p`.  The specification (position onto the first branch's names) says
    `p → a`, `q → b`. -/
def exD6 : Stmt :=
  .insert .insertInto false ["t"] none
    (.setop
      (.mk (.select false [.mk (.lit "1") (some "a") true, .mk (.col [] "x") (some "b") true]
        [.mk (.table ["s"] none false) []] none [] none) false)
      [.mk "union all" (.mk (.select false [.mk (.col [] "p") none false, .mk (.col [] "q") none false]
        [.mk (.table ["u"] none false) []] none [] none) false)]) false

theorem dev_D6_end_to_end :
    fragStmtSetop {} exD6 = false ∧
    lineageEdges (analyze {} false exD6) =
      [(.col "<default>.s.x" (some (.table "<default>" "s")), .col "<default>.t.b" (some (.table "<default>" "t"))),
       (.col "<default>.u.p" (some (.table "<default>" "u")), .col "<default>.t.p" (some (.table "<default>" "t"))),
       (.col "<default>.u.q" (some (.table "<default>" "u")), .col "<default>.t.p" (some (.table "<default>" "t")))] ∧
    specPairsUnion {} (stmtTarget exD6) (stmtParts exD6) =
      [(.col "<default>.s.x" (some (.table "<default>" "s")), .col "<default>.t.b" (some (.table "<default>" "t"))),
       (.col "<default>.u.p" (some (.table "<default>" "u")), .col "<default>.t.a" (some (.table "<default>" "t"))),
       (.col "<default>.u.q" (some (.table "<default>" "u")), .col "<default>.t.b" (some (.table "<default>" "t")))] := by
  decide +kernel

/-- the model's `get_column_lineage()` evaluated on `exInsert`: the three predicted two‑node paths -/
example : Paths.columnLineage (match analyze {} false exInsert with | .ok g => g | .error _ => Graph.empty) =
    [[.col "s1.t1.a" (some (.table "s1" "t1")), .col "<default>.tgt.a" (some (.table "<default>" "tgt"))],
     [.col "s1.t1.b" (some (.table "s1" "t1")), .col "<default>.tgt.f" (some (.table "<default>" "tgt"))],
     [.col "s1.t1.c" (some (.table "s1" "t1")), .col "<default>.tgt.coalesce(x.c, 2)" (some (.table "<default>" "tgt"))]] := by
  decide +kernel

/-- the theorem instantiated: whatever graph the analysis of `exInsert` returns, its LINEAGE edges are these three pairs -/
example (g : LGraph) (h : analyze {} false exInsert = .ok g) (u v : Node) :
    ((u, v) ∈ g.edges ∧ g.ety u v = some .lineage) ↔
      (u, v) ∈ [((.col "s1.t1.a" (some (.table "s1" "t1")) : Node), (.col "<default>.tgt.a" (some (.table "<default>" "tgt")) : Node)),
        (.col "s1.t1.b" (some (.table "s1" "t1")), .col "<default>.tgt.f" (some (.table "<default>" "tgt"))),
        (.col "s1.t1.c" (some (.table "s1" "t1")), .col "<default>.tgt.coalesce(x.c, 2)" (some (.table "<default>" "tgt")))] := by
  have hs : specPairs {} (stmtTarget exInsert) (stmtItems exInsert) (stmtFrom exInsert) =
      [((.col "s1.t1.a" (some (.table "s1" "t1")) : Node), (.col "<default>.tgt.a" (some (.table "<default>" "tgt")) : Node)),
        (.col "s1.t1.b" (some (.table "s1" "t1")), .col "<default>.tgt.f" (some (.table "<default>" "tgt"))),
        (.col "s1.t1.c" (some (.table "s1" "t1")), .col "<default>.tgt.coalesce(x.c, 2)" (some (.table "<default>" "tgt")))] := by
    decide +kernel
  rw [← hs]
  exact pairs_exact_flat_partial {} false exInsert g rfl (by decide +kernel) h u v

end endToEnd

/-
  NOT PROVED (full statement, DESIGN §5 C02):
    theorem pairs_exact (s : Stmt) (h : Frag02 s) : pairs (Runner.eval c md [s]) = Spec.colflow env s
  where `Spec.colflow` is the denotational dataflow of Appendix B.

  Proved: the restrictions `pairs_exact_flat_partial` (§5) to `ColumnsExact.fragStmt`, `pairs_exact_collist_partial` to
  `ColumnsExact.fragStmtCols` and `pairs_exact_setop_partial` to `ColumnsExact.fragStmtSetop`, stated on the LINEAGE edges of
  the statement holder `analyze env silent s` against `ColumnsExact.specPairs` / `specPairsPos` / `specPairsUnion`.  Missing for the full statement:
    * inside one flat block: unqualified references over several table references that all denote the SAME relation, ambiguous written aliases,
      a qualifier denoting a written table that is not read (`dev_unknown_qualifier_positional`: the model and the code
      wire by position there);
    * a column list whose length differs from the number of select items (`dev_collist_length_mismatch`) or that goes with
      a self‑reading statement or a set operation, a metadata provider (target columns of an INSERT by POSITION from the
      provider; wildcard expansion), set operations whose first branch has a source‑less item (D6), repeated names or
      another arity than the other branches, or that read the written table;
    * nested queries (derived tables, CTEs, subqueries in expressions): the same invariant through the 30‑function mutual
      recursion of `Model/Walk.lean`, with sub‑holders composed by `composeSub`; a select‑item subquery is not modelled at
      all (`_get_column_from_subquery`);
    * the step from the statement holder to `Runner.eval` (the assembler over a one‑statement script); the step to
      `Paths.columnLineage` IS proved on the fragments (`column_paths_exact_*_partial`) for statements that do not read the
      table they write;
    * `Spec.colflow` (`Spec/Columns.lean`) is an executable oracle returning `none` outside its shapes; `specPairs` is not
      proved equal to it (both are evaluated by the differential on every generated case).
-/

end SqlLineage.Props.C02
