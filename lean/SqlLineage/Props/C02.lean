import SqlLineage.Model.Runner
namespace SqlLineage.Props.C02
theorem placeholder : True := trivial
end SqlLineage.Props.C02
