/-
C04 — column lineage chains across statements.

(1) Session: `Runner.analyzeAll` (model of runner.py:201‑213) is the generic statement loop over the analysis function; after
    statements 1..k the session list is the initial one followed by what each statement registered, so a lookup of table `t`
    returns the non‑wildcard columns of the LAST statement j ≤ k whose first write target is `t` and that has such columns
    (`session_invariant`, `session_lookup_last`), and statement k+1 is analysed with exactly that knowledge
    (`kth_statement_sees`, `later_sees_earlier`).
(2) Paths: the end points of the reported column paths of ANY well‑formed graph — cycles included — are exactly the
    (root, leaf) pairs, root ≠ leaf, related by the transitive closure of the edge relation (`endpoints_eq_reach`; from
    soundness/completeness of the enumeration + cycle removal).
(3) Composition: for two statement graphs whose only shared columns are columns that the first only produces and the second
    only consumes (the intermediate table), the end‑to‑end pairs of the composed graph are  R₁;R₂ ∪ dangling₁ ∪ fresh₂
    (`chain_composition`), with Rᵢ the per‑statement end‑to‑end pairs; `script_chain_composition` states it for the graph
    `Assemble.build` returns for two `Resolved` (no multi‑candidate column), DROP/RENAME‑free statement holders.
(4) D11 (finding): unresolved same‑named columns of different statements are ONE node (`dev_D11`), so `Resolved` is needed.
-/
import SqlLineage.Model.Chain
import SqlLineage.Proofs.PathLemmas
import SqlLineage.Proofs.ChainLemmas

namespace SqlLineage.Props.C04
open SqlLineage Graph Paths Holder Runner Chain Ast

/-! ### (1) the metadata session -/

/-- `register` appends the statement's entry (if any) to the session and touches nothing else -/
theorem register_eq (p : Provider) (h : LGraph) :
    register p h = { p with session := p.session ++ (regEntry h).toList } := by
  unfold register regEntry
  cases (Assemble.stmtWrite h).head? with
  | none => simp
  | some n =>
    cases n with
    | ds d =>
      cases d with
      | table s n =>
        simp only
        by_cases hc : (List.map (fun x => x.raw) (getTableColumns h (DS.table s n))).isEmpty = true
        · simp [hc]
        · simp [hc]
      | path u => simp
      | subq r => simp
    | col a b => simp
    | str a => simp

/-- `Runner.analyzeAll` is the generic loop instantiated with the walk -/
theorem analyzeAll_eq (c : Config) : ∀ (ss : List Stmt) (p : Provider),
    analyzeAll c p ss = analyzeAllG (stmtFun c) p ss
  | [], p => rfl
  | s :: r, p => by
    simp only [analyzeAll, analyzeAllG, stmtFun]
    cases Walk.analyze ⟨c.cfgDefault, c.importDefault, p.view, c.ro, c.revStar⟩ c.silent s with
    | error e => rfl
    | ok h =>
      simp only
      rw [analyzeAll_eq c r (register p h)]
      rfl

/-- what the statements registered, in order -/
def registered (hs : List LGraph) : List (String × List String) := hs.filterMap regEntry

/-- SESSION INVARIANT (generic in the per‑statement analysis `f`): the loop never touches the base metadata, yields one
    holder per statement, the final session is the initial one followed by the registrations in statement order, and the
    statement after any prefix `pre` was analysed by `f` with exactly the session built from that prefix. -/
theorem session_invariant_generic (f : Provider → Stmt → Except Err LGraph) :
    ∀ (ss : List Stmt) (p p' : Provider) (hs : List LGraph), analyzeAllG f p ss = .ok (p', hs) →
      p'.base = p.base ∧ p'.session = p.session ++ registered hs ∧ hs.length = ss.length ∧
      ∀ (pre : List Stmt) (s : Stmt) (post : List Stmt), ss = pre ++ s :: post →
        ∃ hpre h hpost, hs = hpre ++ h :: hpost ∧ hpre.length = pre.length ∧
          f ⟨p.base, p.session ++ registered hpre⟩ s = .ok h
  | [], p, p', hs, h => by
    simp only [analyzeAllG, Except.ok.injEq, Prod.mk.injEq] at h
    obtain ⟨rfl, rfl⟩ := h
    refine ⟨rfl, by simp [registered], rfl, ?_⟩
    intro pre s post hss
    cases pre <;> cases hss
  | s :: r, p, p', hs, h => by
    simp only [analyzeAllG] at h
    cases hf : f p s with
    | error e => rw [hf] at h; cases h
    | ok h0 =>
      rw [hf] at h
      simp only at h
      cases hrec : analyzeAllG f (register p h0) r with
      | error e => rw [hrec] at h; cases h
      | ok res =>
        obtain ⟨p'', hs'⟩ := res
        rw [hrec] at h
        simp only [Except.ok.injEq, Prod.mk.injEq] at h
        obtain ⟨rfl, rfl⟩ := h
        obtain ⟨hb, hsess, hlen, hk⟩ := session_invariant_generic f r (register p h0) p'' hs' hrec
        have hregb : (register p h0).base = p.base := by rw [register_eq]
        have hregs : (register p h0).session = p.session ++ (regEntry h0).toList := by rw [register_eq]
        have hcons : registered (h0 :: hs') = (regEntry h0).toList ++ registered hs' := by
          simp only [registered, List.filterMap_cons]
          cases regEntry h0 <;> simp
        refine ⟨by rw [hb, hregb], by rw [hsess, hregs, hcons, List.append_assoc], by simp [hlen], ?_⟩
        intro pre s' post hss
        cases pre with
        | nil =>
          simp only [List.nil_append, List.cons.injEq] at hss
          obtain ⟨rfl, rfl⟩ := hss
          exact ⟨[], h0, hs', rfl, rfl, by simpa [registered] using hf⟩
        | cons s0 pre' =>
          simp only [List.cons_append, List.cons.injEq] at hss
          obtain ⟨rfl, rfl⟩ := hss
          obtain ⟨hpre, h1, hpost, rfl, hl, hfk⟩ := hk pre' s' post rfl
          refine ⟨h0 :: hpre, h1, hpost, rfl, by simp [hl], ?_⟩
          have hcons' : registered (h0 :: hpre) = (regEntry h0).toList ++ registered hpre := by
            simp only [registered, List.filterMap_cons]
            cases regEntry h0 <;> simp
          rw [hcons', ← List.append_assoc, ← hregs, ← hregb]
          exact hfk

/-- SESSION INVARIANT for `Runner.analyzeAll` -/
theorem session_invariant (c : Config) (ss : List Stmt) (p p' : Provider) (hs : List LGraph)
    (h : analyzeAll c p ss = .ok (p', hs)) :
    p'.base = p.base ∧ p'.session = p.session ++ registered hs ∧ hs.length = ss.length := by
  rw [analyzeAll_eq] at h
  obtain ⟨h1, h2, h3, _⟩ := session_invariant_generic (stmtFun c) ss p p' hs h
  exact ⟨h1, h2, h3⟩

/-- the statement after the prefix `pre` is analysed with the session built from exactly the holders of `pre` -/
theorem kth_statement_sees (c : Config) (pre : List Stmt) (s : Stmt) (post : List Stmt) (p p' : Provider)
    (hs : List LGraph) (h : analyzeAll c p (pre ++ s :: post) = .ok (p', hs)) :
    ∃ hpre h0 hpost, hs = hpre ++ h0 :: hpost ∧ hpre.length = pre.length ∧
      stmtFun c ⟨p.base, p.session ++ registered hpre⟩ s = .ok h0 := by
  rw [analyzeAll_eq] at h
  exact (session_invariant_generic (stmtFun c) _ p p' hs h).2.2.2 pre s post rfl

/-- a lookup in a session list returns the LAST entry for the key -/
theorem lookup_append_hit (s : List (String × List String)) (t : String) (cols : List String)
    (rest : List (String × List String)) (hrest : ∀ e ∈ rest, e.1 ≠ t) :
    lookup (s ++ (t, cols) :: rest) t = some cols := by
  unfold lookup
  have hnone : rest.reverse.find? (fun e => e.1 == t) = none := by
    rw [List.find?_eq_none]
    intro e he
    have := hrest e (List.mem_reverse.mp he)
    simpa using this
  simp [List.reverse_append, List.find?_append, hnone]

theorem lookup_append_miss (s rest : List (String × List String)) (t : String) (hrest : ∀ e ∈ rest, e.1 ≠ t) :
    lookup (s ++ rest) t = lookup s t := by
  unfold lookup
  have hnone : rest.reverse.find? (fun e => e.1 == t) = none := by
    rw [List.find?_eq_none]
    intro e he
    have := hrest e (List.mem_reverse.mp he)
    simpa using this
  simp [List.reverse_append, List.find?_append, hnone]

/-- LAST WRITER WINS: if statement holder `hj` registered `(t, cols)` and no later holder in `mid` registered `t`, the
    session built from `pre ++ hj :: mid` maps `t` to `cols` — whatever was known about `t` before. -/
theorem session_lookup_last (s0 : List (String × List String)) (pre : List LGraph) (hj : LGraph) (mid : List LGraph)
    (t : String) (cols : List String) (hreg : regEntry hj = some (t, cols))
    (hmid : ∀ h ∈ mid, ∀ e, regEntry h = some e → e.1 ≠ t) :
    lookup (s0 ++ registered (pre ++ hj :: mid)) t = some cols := by
  have : registered (pre ++ hj :: mid) = registered pre ++ (t, cols) :: registered mid := by
    simp [registered, List.filterMap_append, hreg]
  rw [this, ← List.append_assoc]
  apply lookup_append_hit
  intro e he
  simp only [registered, List.mem_filterMap] at he
  obtain ⟨h, hh, hhe⟩ := he
  exact hmid h hh e hhe

/-- … and if NO statement so far registered `t`, the session does not answer for `t` beyond the initial session -/
theorem session_lookup_none (s0 : List (String × List String)) (hs : List LGraph) (t : String)
    (hno : ∀ h ∈ hs, ∀ e, regEntry h = some e → e.1 ≠ t) : lookup (s0 ++ registered hs) t = lookup s0 t := by
  apply lookup_append_miss
  intro e he
  simp only [registered, List.mem_filterMap] at he
  obtain ⟨h, hh, hhe⟩ := he
  exact hno h hh e hhe

/-- LATER SEES EARLIER: in a script `pre ++ sj :: mid ++ sk :: post` whose analysis succeeds, if statement `sj`'s holder
    registers `(t, cols)` and no statement of `mid` registers `t`, then statement `sk` is analysed by a provider whose
    `get_table_columns(t)` answers `cols` (the session entry shadows the base metadata). -/
theorem later_sees_earlier (c : Config) (pre : List Stmt) (sj : Stmt) (mid : List Stmt) (sk : Stmt) (post : List Stmt)
    (base : List (String × List String)) (p' : Provider) (hs : List LGraph)
    (h : analyzeAll c ⟨base, []⟩ (pre ++ sj :: (mid ++ sk :: post)) = .ok (p', hs)) :
    ∃ hpre hj hmid hk hpost, hs = hpre ++ hj :: (hmid ++ hk :: hpost) ∧ hpre.length = pre.length ∧ hmid.length = mid.length ∧
      ∀ t cols, regEntry hj = some (t, cols) → (∀ h ∈ hmid, ∀ e, regEntry h = some e → e.1 ≠ t) →
        ∃ pk : Provider, stmtFun c pk sk = .ok hk ∧ pk.base = base ∧ pk.view.cols t = cols ∧ pk.asmView.cols t = cols := by
  have h' := h
  rw [analyzeAll_eq] at h'
  obtain ⟨_, _, _, hk⟩ := session_invariant_generic (stmtFun c) _ _ p' hs h'
  -- position of sj
  obtain ⟨hpre, hj, hrest, rfl, hlpre, _⟩ := hk pre sj (mid ++ sk :: post) rfl
  -- position of sk
  have hsplit : pre ++ sj :: (mid ++ sk :: post) = (pre ++ sj :: mid) ++ sk :: post := by simp
  obtain ⟨hfront, hk0, hpost, hseq, hlfront, hfk⟩ := hk (pre ++ sj :: mid) sk post hsplit
  -- hfront = hpre ++ hj :: hmid
  have hlen : hfront.length = hpre.length + 1 + mid.length := by
    rw [hlfront]; simp [hlpre]; omega
  have htake : hfront = (hpre ++ hj :: hrest).take (hpre.length + 1 + mid.length) := by
    rw [hseq, ← hlen]; simp
  have hfront_eq : hfront = hpre ++ hj :: hrest.take mid.length := by
    rw [htake, List.take_append]
    have : hpre.length + 1 + mid.length - hpre.length = mid.length + 1 := by omega
    rw [this, List.take_succ_cons]
    have : List.take (hpre.length + 1 + mid.length) hpre = hpre := List.take_of_length_le (by omega)
    rw [this]
  have hrest_eq : hrest = hrest.take mid.length ++ hk0 :: hpost := by
    have h1 : hpre ++ hj :: hrest = hpre ++ hj :: (hrest.take mid.length ++ hk0 :: hpost) := by
      rw [hseq, hfront_eq]; simp
    have h2 := List.append_cancel_left h1
    simpa using h2
  have hmidlen : (hrest.take mid.length).length = mid.length := by
    have : hfront.length = hpre.length + 1 + (hrest.take mid.length).length := by rw [hfront_eq]; simp; omega
    omega
  refine ⟨hpre, hj, hrest.take mid.length, hk0, hpost, by rw [← hrest_eq], hlpre, hmidlen, ?_⟩
  intro t cols hreg hno
  refine ⟨⟨base, [] ++ registered hfront⟩, hfk, rfl, ?_, ?_⟩
  · have := session_lookup_last [] hpre hj (hrest.take mid.length) t cols hreg hno
    simp only [Provider.view, hfront_eq, this]
  · have := session_lookup_last [] hpre hj (hrest.take mid.length) t cols hreg hno
    simp only [Provider.asmView, hfront_eq, this]

/-! ### (2) end points of the reported paths = reachability between roots and leaves -/

/-- `(first, last)` of every path -/
def endpoints (ps : List (List Node)) : List (Node × Node) :=
  ps.filterMap (fun p => match p.head?, p.getLast? with | some a, some b => some (a, b) | _, _ => none)

theorem mem_endpoints (ps : List (List Node)) (a b : Node) :
    (a, b) ∈ endpoints ps ↔ ∃ p ∈ ps, p.head? = some a ∧ p.getLast? = some b := by
  simp only [endpoints, List.mem_filterMap]
  constructor
  · rintro ⟨p, hp, h⟩
    refine ⟨p, hp, ?_⟩
    cases hh : p.head? <;> cases hl : p.getLast? <;> simp_all
  · rintro ⟨p, hp, hh, hl⟩
    exact ⟨p, hp, by simp [hh, hl]⟩

/-- ENDPOINTS = REACHABILITY, for every well‑formed graph (no acyclicity needed: a walk always contains a simple path). -/
theorem endpoints_eq_reach (g : LGraph) (hwf : WF g) (a b : Node) :
    (a, b) ∈ endpoints (columnLineage g) ↔
      a ∈ roots g ∧ b ∈ leaves g ∧ a ≠ b ∧ Relation.TransGen (Edge g) a b := by
  rw [mem_endpoints]
  constructor
  · rintro ⟨p, hp, hh, hl⟩
    obtain ⟨s, hs, t, ht, hsp, hlen⟩ := (mem_columnLineage g p).mp hp
    obtain ⟨h1, h2, h3, h4⟩ := simplePaths_sound g s t p hsp
    rw [hh] at h1; rw [hl] at h2
    cases h1; cases h2
    cases p with
    | nil => cases hh
    | cons x q =>
      simp only [List.head?_cons, Option.some.injEq] at hh
      subst hh
      have hq : q ≠ [] := by intro hq; subst hq; simp at hlen
      refine ⟨hs, ht, ?_, transGen_of_chain g q x b h3 hq hl⟩
      intro hab
      subst hab
      cases q with
      | nil => exact hq rfl
      | cons y r =>
        rw [List.getLast?_cons_cons] at hl
        exact (List.nodup_cons.mp h4).1 (List.mem_of_getLast? hl)
  · rintro ⟨ha, hb, hne, hreach⟩
    obtain ⟨p, h1, h2, h3, h4⟩ := simple_of_transGen g a b hreach
    refine ⟨p, (mem_columnLineage g p).mpr ⟨a, ha, b, hb,
      simplePaths_complete g hwf a b p ((mem_roots g a).mp ha).1 h1 h2 h3 h4, ?_⟩, h1, h2⟩
    cases p with
    | nil => cases h1
    | cons x q =>
      cases q with
      | nil =>
        simp only [List.head?_cons, List.getLast?_singleton, Option.some.injEq] at h1 h2
        exact absurd (h1.symm.trans h2) hne
      | cons y r => simp

/-! ### (3) composition of two statements -/

section relations
variable {α : Type} (R₁ R₂ : α → α → Prop)

private theorem transGen_mono {R S : α → α → Prop} (h : ∀ x y, R x y → S x y) {a b : α}
    (hab : Relation.TransGen R a b) : Relation.TransGen S a b := by
  induction hab with
  | single h1 => exact .single (h _ _ h1)
  | tail _ h2 ih => exact .tail ih (h _ _ h2)

private theorem transGen_last {R : α → α → Prop} {a b : α} (h : Relation.TransGen R a b) : ∃ x, R x b := by
  cases h with
  | single h => exact ⟨_, h⟩
  | tail _ h => exact ⟨_, h⟩

/-- If no `R₂` step is ever followed by an `R₁` step, a walk in `R₁ ∪ R₂` is an `R₁` walk, an `R₂` walk, or an `R₁` walk
    followed by an `R₂` walk. -/
theorem transGen_union_seq (hseq : ∀ x y z, R₂ x y → R₁ y z → False) (a b : α) :
    Relation.TransGen (fun x y => R₁ x y ∨ R₂ x y) a b ↔
      Relation.TransGen R₁ a b ∨ Relation.TransGen R₂ a b ∨
        ∃ m, Relation.TransGen R₁ a m ∧ Relation.TransGen R₂ m b := by
  constructor
  · intro h
    induction h with
    | single h =>
      rcases h with h | h
      · exact Or.inl (.single h)
      · exact Or.inr (Or.inl (.single h))
    | @tail b c _ hbc ih =>
      rcases ih with ih | ih | ⟨m, h1, h2⟩
      · rcases hbc with h | h
        · exact Or.inl (.tail ih h)
        · exact Or.inr (Or.inr ⟨b, ih, .single h⟩)
      · rcases hbc with h | h
        · obtain ⟨x, hx⟩ := transGen_last ih
          exact absurd (hseq x b c hx h) id
        · exact Or.inr (Or.inl (.tail ih h))
      · rcases hbc with h | h
        · obtain ⟨x, hx⟩ := transGen_last h2
          exact absurd (hseq x b c hx h) id
        · exact Or.inr (Or.inr ⟨m, h1, .tail h2 h⟩)
  · rintro (h | h | ⟨m, h1, h2⟩)
    · exact transGen_mono (fun _ _ => Or.inl) h
    · exact transGen_mono (fun _ _ => Or.inr) h
    · exact Relation.TransGen.trans (transGen_mono (fun _ _ => Or.inl) h1) (transGen_mono (fun _ _ => Or.inr) h2)

end relations

/-- per‑statement end‑to‑end dataflow: the end points of the statement graph's own column paths -/
def flow (g : LGraph) : List (Node × Node) := endpoints (columnLineage g)

/-- the hypothesis of the composition theorem: a column node that occurs in both statement graphs is a leaf of the first
    (the first statement only produces it) and a root of the second (the second only consumes it) — i.e. it is a column of
    the intermediate table, and no statement both reads and writes that table. -/
def SharedOnlyIntermediate (g₁ g₂ : LGraph) : Prop :=
  ∀ n, n ∈ g₁.nodes → n ∈ g₂.nodes → n.isCol = true → n ∈ leaves g₁ ∧ n ∈ roots g₂

private theorem edge_compose (g₁ g₂ : LGraph) (u v : Node) :
    Edge (g₁.compose g₂) u v ↔ Edge g₁ u v ∨ Edge g₂ u v := mem_edges_compose g₁ g₂ (u, v)

private theorem transGen_first {R : Node → Node → Prop} {a b : Node} (h : Relation.TransGen R a b) : ∃ x, R a x := by
  induction h with
  | single h => exact ⟨_, h⟩
  | tail _ _ ih => exact ih

/-- all nodes on a walk from a column node in a `ColOut` graph are column nodes -/
private theorem transGen_isCol {g : LGraph} (hco : ColOut g) {a b : Node} (ha : a.isCol = true)
    (h : Relation.TransGen (Edge g) a b) : b.isCol = true := by
  induction h with
  | single h => exact (hco _ _ h ha).1
  | tail _ h2 ih => exact (hco _ _ h2 ih).1

private theorem transGen_last_col {g : LGraph} (hco : ColOut g) {a b : Node} (ha : a.isCol = true)
    (h : Relation.TransGen (Edge g) a b) : ∃ x, Edge g x b ∧ x.isCol = true := by
  cases h with
  | single h => exact ⟨a, h, ha⟩
  | tail h' h => exact ⟨_, h, transGen_isCol hco ha h'⟩

/-- CHAIN COMPOSITION (two statements): the end‑to‑end pairs of the composed graph are the relational composition of the
    per‑statement pairs, plus the pairs of statement 1 whose target is not consumed downstream (they end at the intermediate
    table), plus the pairs of statement 2 whose source statement 1 does not produce. -/
theorem chain_composition (g₁ g₂ : LGraph) (hwf₁ : WF g₁) (hwf₂ : WF g₂) (hco₁ : ColOut g₁) (hco₂ : ColOut g₂)
    (hsh : SharedOnlyIntermediate g₁ g₂) (a b : Node) :
    (a, b) ∈ flow (g₁.compose g₂) ↔
      (∃ m, (a, m) ∈ flow g₁ ∧ (m, b) ∈ flow g₂) ∨
      ((a, b) ∈ flow g₁ ∧ ∀ c, c.isCol = true → ¬ Edge g₂ b c) ∨
      ((a, b) ∈ flow g₂ ∧ ∀ c, c.isCol = true → ¬ Edge g₁ c a) := by
  have hwf : WF (g₁.compose g₂) := wf_compose g₁ g₂ hwf₁ hwf₂
  -- roots / leaves of the composed graph
  have hroot : ∀ n, n ∈ roots (g₁.compose g₂) ↔ (n ∈ g₁.nodes ∨ n ∈ g₂.nodes) ∧ n.isCol = true ∧
      (∀ u, Edge g₁ u n → u.isCol = false) ∧ (∀ u, Edge g₂ u n → u.isCol = false) := by
    intro n
    rw [mem_roots, mem_nodes_compose]
    constructor
    · rintro ⟨h1, h2, h3⟩
      exact ⟨h1, h2, fun u hu => h3 u ((edge_compose ..).mpr (Or.inl hu)), fun u hu => h3 u ((edge_compose ..).mpr (Or.inr hu))⟩
    · rintro ⟨h1, h2, h3, h4⟩
      refine ⟨h1, h2, fun u hu => ?_⟩
      rcases (edge_compose ..).mp hu with h | h
      · exact h3 u h
      · exact h4 u h
  have hleaf : ∀ n, n ∈ leaves (g₁.compose g₂) ↔ (n ∈ g₁.nodes ∨ n ∈ g₂.nodes) ∧ n.isCol = true ∧
      (∀ v, Edge g₁ n v → v.isCol = false) ∧ (∀ v, Edge g₂ n v → v.isCol = false) ∧
      ∃ d, colParent n = some d ∧ d.isTable = true := by
    intro n
    rw [mem_leaves, mem_nodes_compose]
    constructor
    · rintro ⟨h1, h2, h3, h4⟩
      exact ⟨h1, h2, fun v hv => h3 v ((edge_compose ..).mpr (Or.inl hv)), fun v hv => h3 v ((edge_compose ..).mpr (Or.inr hv)), h4⟩
    · rintro ⟨h1, h2, h3, h4, h5⟩
      refine ⟨h1, h2, fun v hv => ?_, h5⟩
      rcases (edge_compose ..).mp hv with h | h
      · exact h3 v h
      · exact h4 v h
  -- an E₂ step is never followed by an E₁ step when the walk is inside the columns
  have hseq : ∀ x y z, (Edge g₂ x y ∧ x.isCol = true) → (Edge g₁ y z ∧ y.isCol = true) → False := by
    rintro x y z ⟨h2, _⟩ ⟨h1, hy⟩
    have hy1 := (hwf₁ _ h1).1
    have hy2 := (hwf₂ _ h2).2
    have hl := (hsh y hy1 hy2 hy).1
    have := ((mem_leaves g₁ y).mp hl).2.2.1 z h1
    rw [(hco₁ y z h1 hy).1] at this; cases this
  -- walks from a column node: the plain edge relation and the column‑sourced one agree
  have hcolwalk : ∀ (g : LGraph), ColOut g → ∀ x y, x.isCol = true →
      (Relation.TransGen (Edge g) x y ↔ Relation.TransGen (fun u v => Edge g u v ∧ u.isCol = true) x y) := by
    intro g hco x y hx
    constructor
    · intro h
      induction h with
      | single h => exact .single ⟨h, hx⟩
      | @tail b c hab hbc ih => exact .tail ih ⟨hbc, transGen_isCol hco hx hab⟩
    · intro h
      exact transGen_mono (fun _ _ h => h.1) h
  have hco : ColOut (g₁.compose g₂) := colOut_compose g₁ g₂ hco₁ hco₂
  have hunion : ∀ x y, x.isCol = true → (Relation.TransGen (Edge (g₁.compose g₂)) x y ↔
      Relation.TransGen (Edge g₁) x y ∨ Relation.TransGen (Edge g₂) x y ∨
        ∃ m, Relation.TransGen (Edge g₁) x m ∧ Relation.TransGen (Edge g₂) m y) := by
    intro x y hx
    rw [hcolwalk _ hco x y hx]
    have : ∀ u v, (Edge (g₁.compose g₂) u v ∧ u.isCol = true) ↔
        ((Edge g₁ u v ∧ u.isCol = true) ∨ (Edge g₂ u v ∧ u.isCol = true)) := by
      intro u v; rw [edge_compose]
      constructor
      · rintro ⟨h | h, hu⟩
        · exact Or.inl ⟨h, hu⟩
        · exact Or.inr ⟨h, hu⟩
      · rintro (⟨h, hu⟩ | ⟨h, hu⟩)
        · exact ⟨Or.inl h, hu⟩
        · exact ⟨Or.inr h, hu⟩
    have hcongr : Relation.TransGen (fun u v => Edge (g₁.compose g₂) u v ∧ u.isCol = true) x y ↔
        Relation.TransGen (fun u v => (Edge g₁ u v ∧ u.isCol = true) ∨ (Edge g₂ u v ∧ u.isCol = true)) x y :=
      ⟨transGen_mono (fun u v h => (this u v).mp h), transGen_mono (fun u v h => (this u v).mpr h)⟩
    rw [hcongr, transGen_union_seq _ _ hseq, ← hcolwalk g₁ hco₁ x y hx, ← hcolwalk g₂ hco₂ x y hx]
    constructor
    · rintro (h | h | ⟨m, h1, h2⟩)
      · exact Or.inl h
      · exact Or.inr (Or.inl h)
      · have h1' := (hcolwalk g₁ hco₁ x m hx).mpr h1
        exact Or.inr (Or.inr ⟨m, h1', (hcolwalk g₂ hco₂ m y (transGen_isCol hco₁ hx h1')).mpr h2⟩)
    · rintro (h | h | ⟨m, h1, h2⟩)
      · exact Or.inl h
      · exact Or.inr (Or.inl h)
      · exact Or.inr (Or.inr ⟨m, (hcolwalk g₁ hco₁ x m hx).mp h1,
          (hcolwalk g₂ hco₂ m y (transGen_isCol hco₁ hx h1)).mp h2⟩)
  -- membership of walk end points in the statement graphs
  have hsrc : ∀ (g : LGraph), WF g → ∀ x y, Relation.TransGen (Edge g) x y → x ∈ g.nodes := by
    intro g hw x y h
    obtain ⟨z, hz⟩ := transGen_first h
    exact (hw _ hz).1
  have hdst : ∀ (g : LGraph), WF g → ∀ x y, Relation.TransGen (Edge g) x y → y ∈ g.nodes := by
    intro g hw x y h
    obtain ⟨z, hz⟩ := transGen_last h
    exact (hw _ hz).2
  simp only [flow]
  rw [endpoints_eq_reach _ hwf]
  constructor
  · rintro ⟨ha, hb, hne, hreach⟩
    obtain ⟨_, hac, ha1, ha2⟩ := (hroot a).mp ha
    obtain ⟨_, hbc, hb1, hb2, hbp⟩ := (hleaf b).mp hb
    rcases (hunion a b hac).mp hreach with h | h | ⟨m, h1, h2⟩
    · -- inside statement 1, not consumed downstream
      refine Or.inr (Or.inl ⟨(endpoints_eq_reach g₁ hwf₁ a b).mpr ⟨?_, ?_, hne, h⟩, ?_⟩)
      · exact (mem_roots g₁ a).mpr ⟨hsrc g₁ hwf₁ a b h, hac, ha1⟩
      · exact (mem_leaves g₁ b).mpr ⟨hdst g₁ hwf₁ a b h, hbc, hb1, hbp⟩
      · intro c hc hbcE
        have := hb2 c hbcE; rw [hc] at this; cases this
    · -- inside statement 2, source not produced by statement 1
      refine Or.inr (Or.inr ⟨(endpoints_eq_reach g₂ hwf₂ a b).mpr ⟨?_, ?_, hne, h⟩, ?_⟩)
      · exact (mem_roots g₂ a).mpr ⟨hsrc g₂ hwf₂ a b h, hac, ha2⟩
      · exact (mem_leaves g₂ b).mpr ⟨hdst g₂ hwf₂ a b h, hbc, hb2, hbp⟩
      · intro c hc hcaE
        have := ha1 c hcaE; rw [hc] at this; cases this
    · -- through the intermediate column m
      have hm1 := hdst g₁ hwf₁ a m h1
      have hm2 := hsrc g₂ hwf₂ m b h2
      have hmc := transGen_isCol hco₁ hac h1
      obtain ⟨hml, hmr⟩ := hsh m hm1 hm2 hmc
      refine Or.inl ⟨m, (endpoints_eq_reach g₁ hwf₁ a m).mpr ⟨?_, hml, ?_, h1⟩,
        (endpoints_eq_reach g₂ hwf₂ m b).mpr ⟨hmr, ?_, ?_, h2⟩⟩
      · exact (mem_roots g₁ a).mpr ⟨hsrc g₁ hwf₁ a m h1, hac, ha1⟩
      · -- a ≠ m : m has an incoming column edge in g₁, a has none
        intro ham; subst ham
        obtain ⟨x, hx, hxc⟩ := transGen_last_col hco₁ hac h1
        have := ha1 x hx; rw [hxc] at this; cases this
      · exact (mem_leaves g₂ b).mpr ⟨hdst g₂ hwf₂ m b h2, hbc, hb2, hbp⟩
      · -- m ≠ b : m has an outgoing column edge in g₂, b has none
        intro hmb; subst hmb
        obtain ⟨x, hx⟩ := transGen_first h2
        have := hb2 x hx
        rw [(hco₂ _ _ hx hmc).1] at this; cases this
  · rintro (⟨m, h1, h2⟩ | ⟨h1, hnc⟩ | ⟨h2, hnp⟩)
    · obtain ⟨ha, hm, _, hr1⟩ := (endpoints_eq_reach g₁ hwf₁ a m).mp h1
      obtain ⟨hm', hb, _, hr2⟩ := (endpoints_eq_reach g₂ hwf₂ m b).mp h2
      obtain ⟨han, hac, ha1⟩ := (mem_roots g₁ a).mp ha
      obtain ⟨hbn, hbc, hb2, hbp⟩ := (mem_leaves g₂ b).mp hb
      have hmc := ((mem_roots g₂ m).mp hm').2.1
      have hreach : Relation.TransGen (Edge (g₁.compose g₂)) a b := (hunion a b hac).mpr (Or.inr (Or.inr ⟨m, hr1, hr2⟩))
      refine ⟨(hroot a).mpr ⟨Or.inl han, hac, ha1, ?_⟩, (hleaf b).mpr ⟨Or.inr hbn, hbc, ?_, hb2, hbp⟩, ?_, hreach⟩
      · -- a has no incoming column edge in g₂: otherwise a is shared, hence a leaf of g₁, but it has an out‑edge there
        intro u hu
        cases huc : u.isCol with
        | false => rfl
        | true =>
          exfalso
          have ha2n := (hwf₂ _ hu).2
          obtain ⟨hal, _⟩ := hsh a han ha2n hac
          obtain ⟨x, hx⟩ := transGen_first hr1
          have := ((mem_leaves g₁ a).mp hal).2.2.1 x hx
          rw [(hco₁ _ _ hx hac).1] at this; cases this
      · -- b has no outgoing column edge in g₁: otherwise b is shared, hence a root of g₂, but it has an in‑edge there
        intro v hv
        cases hvc : v.isCol with
        | false => rfl
        | true =>
          exfalso
          have hb1n := (hwf₁ _ hv).1
          obtain ⟨_, hbr⟩ := hsh b hb1n hbn hbc
          obtain ⟨x, hx, hxc⟩ := transGen_last_col hco₂ hmc hr2
          have := ((mem_roots g₂ b).mp hbr).2.2 x hx
          rw [hxc] at this; cases this
      · -- a ≠ b
        intro hab; subst hab
        have ha2n := hbn
        obtain ⟨hal, _⟩ := hsh a han ha2n hac
        obtain ⟨x, hx⟩ := transGen_first hr1
        have := ((mem_leaves g₁ a).mp hal).2.2.1 x hx
        rw [(hco₁ _ _ hx hac).1] at this; cases this
    · obtain ⟨ha, hb, hne, hr1⟩ := (endpoints_eq_reach g₁ hwf₁ a b).mp h1
      obtain ⟨han, hac, ha1⟩ := (mem_roots g₁ a).mp ha
      obtain ⟨hbn, hbc, hb1, hbp⟩ := (mem_leaves g₁ b).mp hb
      refine ⟨(hroot a).mpr ⟨Or.inl han, hac, ha1, ?_⟩, (hleaf b).mpr ⟨Or.inl hbn, hbc, hb1, ?_, hbp⟩, hne,
        (hunion a b hac).mpr (Or.inl hr1)⟩
      · intro u hu
        cases huc : u.isCol with
        | false => rfl
        | true =>
          exfalso
          obtain ⟨hal, _⟩ := hsh a han (hwf₂ _ hu).2 hac
          obtain ⟨x, hx⟩ := transGen_first hr1
          have := ((mem_leaves g₁ a).mp hal).2.2.1 x hx
          rw [(hco₁ _ _ hx hac).1] at this; cases this
      · intro v hv
        cases hvc : v.isCol with
        | false => rfl
        | true => exact absurd hv (hnc v hvc)
    · obtain ⟨ha, hb, hne, hr2⟩ := (endpoints_eq_reach g₂ hwf₂ a b).mp h2
      obtain ⟨han, hac, ha2⟩ := (mem_roots g₂ a).mp ha
      obtain ⟨hbn, hbc, hb2, hbp⟩ := (mem_leaves g₂ b).mp hb
      refine ⟨(hroot a).mpr ⟨Or.inr han, hac, ?_, ha2⟩, (hleaf b).mpr ⟨Or.inr hbn, hbc, ?_, hb2, hbp⟩, hne,
        (hunion a b hac).mpr (Or.inr (Or.inl hr2))⟩
      · intro u hu
        cases huc : u.isCol with
        | false => rfl
        | true => exact absurd hu (hnp u huc)
      · intro v hv
        cases hvc : v.isCol with
        | false => rfl
        | true =>
          exfalso
          obtain ⟨_, hbr⟩ := hsh b (hwf₁ _ hv).1 hbn hbc
          obtain ⟨x, hx, hxc⟩ := transGen_last_col hco₂ hac hr2
          have := ((mem_roots g₂ b).mp hbr).2.2 x hx
          rw [hxc] at this; cases this

/-- `Resolved`: no column of the statement holder has several owner candidates (what D11 violates) -/
abbrev Resolved (h : LGraph) : Prop := NoMulti h

/-- CHAIN COMPOSITION ON THE MODEL'S COMBINED GRAPH: for two statement holders that are neither DROP nor RENAME, are `Resolved`,
    well‑formed, `ColOut`, and share only intermediate columns, the assembler succeeds and the end‑to‑end pairs of the graph it
    returns are  R₁;R₂ ∪ (pairs of 1 not consumed by 2) ∪ (pairs of 2 not produced by 1), Rᵢ = the pairs of statement i alone. -/
theorem script_chain_composition (prov : Assemble.Prov) (h₁ h₂ : LGraph) (p₁ : PlainStmt h₁) (p₂ : PlainStmt h₂)
    (r₁ : Resolved h₁) (r₂ : Resolved h₂) (hwf₁ : WF h₁) (hwf₂ : WF h₂) (hco₁ : ColOut h₁) (hco₂ : ColOut h₂)
    (hsh : SharedOnlyIntermediate h₁ h₂) :
    ∃ g, Assemble.build prov [h₁, h₂] = .ok g ∧ ∀ a b,
      ((a, b) ∈ flow g ↔
        (∃ m, (a, m) ∈ flow h₁ ∧ (m, b) ∈ flow h₂) ∨
        ((a, b) ∈ flow h₁ ∧ ∀ c, c.isCol = true → ¬ Edge h₂ b c) ∨
        ((a, b) ∈ flow h₂ ∧ ∀ c, c.isCol = true → ¬ Edge h₁ c a)) := by
  have hb := build_two prov h₁ h₂ p₁ p₂ r₁ r₂
  refine ⟨two h₁ h₂, hb, fun a b => ?_⟩
  have hall : ∀ h ∈ [h₁, h₂], WF h := by
    intro h hh; simp only [List.mem_cons, List.mem_nil_iff, or_false] at hh
    rcases hh with rfl | rfl
    · exact hwf₁
    · exact hwf₂
  have hallc : ∀ h ∈ [h₁, h₂], ColOut h ∧ Assemble.stmtRename h = [] := by
    intro h hh; simp only [List.mem_cons, List.mem_nil_iff, or_false] at hh
    rcases hh with rfl | rfl
    · exact ⟨hco₁, p₁.2⟩
    · exact ⟨hco₂, p₂.2⟩
  have hw : WF (two h₁ h₂) := buildWith_wf id prov _ _ hall hb
  have hc : ColOut (two h₁ h₂) := buildWith_colOut id prov _ _ hallc hb
  have hcongr := columnLineage_congr (two h₁ h₂) (h₁.compose h₂) hw (wf_compose h₁ h₂ hwf₁ hwf₂)
    (fun u v h hu => (hc u v h hu).1) (two_nodes h₁ h₂) (fun u v hu => two_col_edges h₁ h₂ u v hu)
  have : (a, b) ∈ flow (two h₁ h₂) ↔ (a, b) ∈ flow (h₁.compose h₂) := by
    simp only [flow, mem_endpoints]
    constructor
    · rintro ⟨p, hp, h1, h2⟩; exact ⟨p, (hcongr p).mp hp, h1, h2⟩
    · rintro ⟨p, hp, h1, h2⟩; exact ⟨p, (hcongr p).mpr hp, h1, h2⟩
  rw [this]
  exact chain_composition h₁ h₂ hwf₁ hwf₂ hco₁ hco₂ hsh a b

instance (g₁ g₂ : LGraph) : Decidable (SharedOnlyIntermediate g₁ g₂) := by
  unfold SharedOnlyIntermediate; exact inferInstance

/-! ### (4) D11 — why `Resolved` is needed; concrete scripts through the whole model (`Runner.eval`) -/

section witnesses

private def tb (sch n : String) : FromElem := .table (if sch = "" then [n] else [sch, n]) none false
private def it (c : String) (alias : Option String := none) : Item := .mk (.col [] c) alias (alias.isSome)
/-- `select <c> from <sch>.<a> join <sch>.<b> on a.k = b.k` -/
private def selJoin (c sch a b : String) : Query :=
  .select false [it c] [.mk (tb sch a) [.mk "join" (tb sch b) (some (.bin "=" (.col [a] "k") (.col [b] "k"))) []]] none [] none
private def ins (sch t : String) (q : Query) : Stmt := .insert .insertInto false (if sch = "" then [t] else [sch, t]) none q false

/-- `insert into s.o1 select a from s.t1 join s.t2 on …;  insert into s.o2 select a from s.t3 join s.t4 on …` -/
private def d11 : List Stmt := [ins "s" "o1" (selJoin "a" "s" "t1" "t2"), ins "s" "o2" (selJoin "a" "s" "t3" "t4")]

private def printed (_g : LGraph) (ps : List (List Node)) : List (List String) :=
  ps.map (fun p => p.map (fun n => match n with | .col s _ => s | _ => "?"))

/-- D11 (finding), part 1: each statement has its own unresolved column `a` (candidates {t1,t2} resp. {t3,t4}); a column
    with several candidates has no owner in its key, so in the combined graph they are ONE node — carrying the first
    statement's candidates — and both targets hang off it. -/
theorem dev_D11 :
    (match Runner.eval {} [] d11 with
     | .ok (g, hs) =>
       (hs.map (fun h => (Assemble.cands h (.col "a" none)).map (·.2)),
        (g.nodes.filter (· == .col "a" none)).length, (Assemble.cands g (.col "a" none)).map (·.2),
        printed g (columnLineage g))
     | .error _ => ([], 0, [], [])) =
    ([["s.t1", "s.t2"], ["s.t3", "s.t4"]], 1, ["s.t1", "s.t2"], [["a", "s.o1.a"], ["a", "s.o2.a"]]) := by
  decide

private def d11meta : List (String × List String) :=
  [("s.t1", ["a", "k"]), ("s.t2", ["k"]), ("s.t3", ["a", "k"]), ("s.t4", ["k"])]

/-- D11, part 2: with a metadata provider the merged node is resolved from ITS candidates, so the second statement's column
    is attributed to the first statement's table (`s.t1.a → s.o2.a`), although analysed alone it is `s.t3.a → s.o2.a`:
    the end‑to‑end pairs of the script are NOT the union of the per‑statement pairs. -/
theorem dev_D11_metadata :
    (match Runner.eval {} d11meta d11 with
     | .ok (g, _) => printed g (columnLineage g) | .error _ => []) = [["s.t1.a", "s.o1.a"], ["s.t1.a", "s.o2.a"]] ∧
    (match Runner.eval {} d11meta (d11.drop 1) with
     | .ok (g, _) => printed g (columnLineage g) | .error _ => []) = [["s.t3.a", "s.o2.a"]] := by
  decide

/-- `insert into mid select a, b as k from src;  insert into tgt select * from mid` -/
private def starChain : List Stmt :=
  [ins "" "mid" (.select false [it "a", it "b" (some "k")] [.mk (tb "" "src") []] none [] none),
   ins "" "tgt" (.select false [.mk (.star []) none false] [.mk (tb "" "mid") []] none [] none)]

/-- the session after each statement of `starChain`: `mid` ↦ [a, k], then also `tgt` ↦ … (only with a provider, where `*` expands) -/
example : (match analyzeAll {} ⟨[], []⟩ starChain with | .ok (p, _) => p.session | .error _ => []) =
    [("<default>.mid", ["a", "k"])] := by decide +kernel

/-- WITH a metadata provider (any non‑empty dict) `select *` from the table created by the previous statement expands to
    the columns registered in the session, and the paths run end to end through the intermediate table's columns. -/
theorem star_expands_from_session_witness :
    (match Runner.eval {} [("x.y", ["z"])] starChain with
     | .ok (g, _) => printed g (columnLineage g) | .error _ => []) =
      [["<default>.src.a", "<default>.mid.a", "<default>.tgt.a"], ["<default>.src.b", "<default>.mid.k", "<default>.tgt.k"]] ∧
    (match analyzeAll {} ⟨[("x.y", ["z"])], []⟩ starChain with | .ok (p, _) => p.session | .error _ => []) =
      [("<default>.mid", ["a", "k"]), ("<default>.tgt", ["a", "k"])] := by
  decide +kernel

/-- WITHOUT a provider nothing is looked up (`bool(provider)` is False): the wildcard stays a wildcard column. -/
theorem star_not_expanded_without_provider_witness :
    (match Runner.eval {} [] starChain with
     | .ok (g, _) => printed g (columnLineage g) | .error _ => []) =
      [["<default>.src.a", "<default>.mid.a"], ["<default>.src.b", "<default>.mid.k"], ["<default>.mid.*", "<default>.tgt.*"]] := by
  decide +kernel

/-- `insert into s.mid select a from s.src;  insert into s.tgt select a from s.mid join s.other on mid.k = other.k` -/
private def unqualChain : List Stmt :=
  [ins "s" "mid" (.select false [it "a"] [.mk (tb "s" "src") []] none [] none), ins "s" "tgt" (selJoin "a" "s" "mid" "other")]

/-- an unqualified column that the table created by the previous statement defines is attributed to that table — here even
    without a provider, because the intermediate table's column is already in the graph (holders.py:416‑421) — and the
    path runs end to end. -/
theorem unqualified_attributed_from_session_witness :
    (match Runner.eval {} [] unqualChain with
     | .ok (g, _) => printed g (columnLineage g) | .error _ => []) = [["s.src.a", "s.mid.a", "s.tgt.a"]] ∧
    (match Runner.eval {} [("s.other", ["k"])] unqualChain with
     | .ok (g, _) => printed g (columnLineage g) | .error _ => []) = [["s.src.a", "s.mid.a", "s.tgt.a"]] := by
  decide +kernel

/-! non‑vacuity of `session_invariant`, `later_sees_earlier`, `endpoints_eq_reach`, `chain_composition` -/

example : ∃ p hs, analyzeAll {} ⟨[], []⟩ starChain = .ok (p, hs) ∧ registered hs = [("<default>.mid", ["a", "k"])] := by
  have h : (match analyzeAll {} ⟨[], []⟩ starChain with
      | .ok (_, hs) => decide (registered hs = [("<default>.mid", ["a", "k"])]) | .error _ => false) = true := by
    decide +kernel
  cases hr : analyzeAll {} ⟨[], []⟩ starChain with
  | error e => rw [hr] at h; cases h
  | ok r => rw [hr] at h; exact ⟨r.1, r.2, rfl, by simpa using h⟩

private def cl (t c : String) : Column := Column.mk1 c (some (.table "<default>" t, "<default>." ++ t))
private def mk (es : List (Column × Column)) : LGraph :=
  es.foldl (fun g e => match addColumnLineage g e.1 e.2 with | .ok g' => g' | .error _ => g) Graph.empty
/-- statement 1: src.a → mid.a, src.k → mid.k ; statement 2: mid.a → tgt.b, other.z → tgt.z -/
private def gA : LGraph := mk [(cl "src" "a", cl "mid" "a"), (cl "src" "k", cl "mid" "k")]
private def gB : LGraph := mk [(cl "mid" "a", cl "tgt" "b"), (cl "other" "z", cl "tgt" "z")]

example : WF gA ∧ WF gB ∧ SharedOnlyIntermediate gA gB := by decide +kernel
-- R₁;R₂, dangling₁ and fresh₂ are all inhabited on this pair of statements
example : flow (gA.compose gB) =
    [((cl "src" "a").key, (cl "tgt" "b").key), ((cl "src" "k").key, (cl "mid" "k").key), ((cl "other" "z").key, (cl "tgt" "z").key)] := by
  decide +kernel
example : ((cl "src" "a").key, (cl "mid" "a").key) ∈ flow gA ∧ ((cl "mid" "a").key, (cl "tgt" "b").key) ∈ flow gB := by decide +kernel
-- script_chain_composition: the same two statements as statement HOLDERS (read/write tags + column lineage), through `Assemble.build`
private def mkStmt (r w : String) (es : List (Column × Column)) : LGraph :=
  es.foldl (fun g e => match addColumnLineage g e.1 e.2 with | .ok g' => g' | .error _ => g)
    (addWrite (addRead Graph.empty (.table "<default>" r) (some r)) (.table "<default>" w))
private def hA : LGraph := mkStmt "src" "mid" [(cl "src" "a", cl "mid" "a"), (cl "src" "k", cl "mid" "k")]
private def hB : LGraph := mkStmt "mid" "tgt" [(cl "mid" "a", cl "tgt" "b")]
example : PlainStmt hA ∧ PlainStmt hB ∧ WF hA ∧ WF hB ∧ SharedOnlyIntermediate hA hB ∧
    (∀ n ∈ hA.nodes, (Assemble.cands hA n).length ≤ 1) ∧ (∀ n ∈ hB.nodes, (Assemble.cands hB n).length ≤ 1) := by
  decide +kernel
example : (match Assemble.build Assemble.Prov.none [hA, hB] with | .ok g => flow g | .error _ => []) =
    [((cl "src" "a").key, (cl "tgt" "b").key), ((cl "src" "k").key, (cl "mid" "k").key)] := by decide +kernel
-- endpoints_eq_reach on a graph WITH a cycle (a → b → c → b, c → d): the pair (a, d) is still reported
private def gCyc : LGraph := mk [(cl "t" "a", cl "u" "b"), (cl "u" "b", cl "u" "c"), (cl "u" "c", cl "u" "b"), (cl "u" "c", cl "v" "d")]
example : WF gCyc ∧ endpoints (columnLineage gCyc) = [((cl "t" "a").key, (cl "v" "d").key)] := by decide +kernel

end witnesses

end SqlLineage.Props.C04
