/-
C18 — the graph export is faithful to the lineage graph.

Theorems about `Export.toCytoscape` (model of `sqllineage/io.py::to_cytoscape`) and `Export.summaryOf` (model of
`LineageRunner.__str__`), for EVERY graph view `g` (any node order, any payloads): the exported node entries are the
printed names of the view's nodes, the exported edges are the view's edges, every edge endpoint and every parent
reference is the id of an exported entry, node ids are unique exactly when printing is injective on the view's nodes
and owners (the unchanged code does NOT guarantee that: deviation D24, witnessed below), and the summary lists each
role's tables once, sorted.  The model is tied to the code by `harness/c18.py` (corpus + generated statements, both
levels, the WSGI `/lineage` route).
-/
import SqlLineage.Proofs.ExportLemmas
import SqlLineage.Model.Runner
import Std.Data.String.ToNat

namespace SqlLineage.Props.C18
open SqlLineage Graph Export ExportLemmas Assemble

/-! ### vocabulary -/

/-- no two distinct items of the view print the same name (the complement is the deviation class of D24) -/
def PrintInjective (g : LGraph) (compound : Bool) : Prop :=
  ∀ a ∈ items g compound, ∀ b ∈ items g compound, printItem g a = printItem g b → a = b

/-- ids of all cytoscape node elements of the export (graph nodes, then compound parents) -/
def nodeIds (g : LGraph) (compound : Bool) : List String := (toCytoscape g compound).filterMap Elem.anyNodeId?
/-- ids of the edge elements -/
def edgeIds (g : LGraph) (compound : Bool) : List String := ((toCytoscape g compound).filterMap Elem.edge?).map (·.1)

/-! ### private helpers: projections of the three segments -/

private theorem nodeId_nodeEntries (g : LGraph) (c : Bool) :
    (nodeEntries g c).filterMap Elem.nodeId? = g.nodes.map (printedNode g) := by
  unfold nodeEntries
  split
  · exact filterMap_map_some _ _ _ _ (fun _ => rfl)
  · exact filterMap_map_some _ _ _ _ (fun _ => rfl)

private theorem nodeId_parentEntries (g : LGraph) (c : Bool) : (parentEntries g c).filterMap Elem.nodeId? = [] := by
  unfold parentEntries
  split
  · exact filterMap_map_none _ _ _ (fun _ => rfl)
  · rfl

private theorem nodeId_edgeEntries (g : LGraph) : (edgeEntries g).filterMap Elem.nodeId? = [] :=
  filterMap_map_none _ _ _ (fun _ => rfl)

private theorem edge_nodeEntries (g : LGraph) (c : Bool) : (nodeEntries g c).filterMap Elem.edge? = [] := by
  unfold nodeEntries
  split
  · exact filterMap_map_none _ _ _ (fun _ => rfl)
  · exact filterMap_map_none _ _ _ (fun _ => rfl)

private theorem edge_parentEntries (g : LGraph) (c : Bool) : (parentEntries g c).filterMap Elem.edge? = [] := by
  unfold parentEntries
  split
  · exact filterMap_map_none _ _ _ (fun _ => rfl)
  · rfl

private theorem edge_edgeEntries (g : LGraph) :
    (edgeEntries g).filterMap Elem.edge? =
      g.edgesOrdered.zipIdx.map (fun ei => (edgeId ei.2, printedNode g ei.1.1, printedNode g ei.1.2)) :=
  filterMap_map_some _ _ _ _ (fun _ => rfl)

private theorem edges_of_export (g : LGraph) (c : Bool) :
    (toCytoscape g c).filterMap Elem.edge? =
      g.edgesOrdered.zipIdx.map (fun ei => (edgeId ei.2, printedNode g ei.1.1, printedNode g ei.1.2)) := by
  unfold toCytoscape
  rw [List.filterMap_append, List.filterMap_append, edge_nodeEntries, edge_parentEntries, edge_edgeEntries]
  rfl

private theorem anyId_nodeEntries (g : LGraph) (c : Bool) :
    (nodeEntries g c).filterMap Elem.anyNodeId? = g.nodes.map (printedNode g) := by
  unfold nodeEntries
  split
  · exact filterMap_map_some _ _ _ _ (fun _ => rfl)
  · exact filterMap_map_some _ _ _ _ (fun _ => rfl)

private theorem anyId_parentEntries (g : LGraph) (c : Bool) :
    (parentEntries g c).filterMap Elem.anyNodeId? = if c then (parentsDict g).map (fun kv => kv.2.1) else [] := by
  unfold parentEntries
  split
  · exact filterMap_map_some _ _ _ _ (fun _ => rfl)
  · rfl

private theorem anyId_edgeEntries (g : LGraph) : (edgeEntries g).filterMap Elem.anyNodeId? = [] :=
  filterMap_map_none _ _ _ (fun _ => rfl)

private theorem pref_nodeEntries (g : LGraph) :
    (nodeEntries g true).filterMap Elem.parentRef? = g.nodes.map (fun n => parentNameOf g (parentKey n)) := by
  show (g.nodes.map (colEntry g)).filterMap Elem.parentRef? = _
  exact filterMap_map_some _ _ _ _ (fun _ => rfl)

private theorem pref_parentEntries (g : LGraph) : (parentEntries g true).filterMap Elem.parentRef? = [] := by
  show ((parentsDict g).map (fun kv => Elem.parent kv.2.1 kv.2.2)).filterMap Elem.parentRef? = _
  exact filterMap_map_none _ _ _ (fun _ => rfl)

private theorem pref_edgeEntries (g : LGraph) : (edgeEntries g).filterMap Elem.parentRef? = [] :=
  filterMap_map_none _ _ _ (fun _ => rfl)

private theorem par_nodeEntries (g : LGraph) : (nodeEntries g true).filterMap Elem.parent? = [] := by
  show (g.nodes.map (colEntry g)).filterMap Elem.parent? = _
  exact filterMap_map_none _ _ _ (fun _ => rfl)

private theorem par_parentEntries (g : LGraph) :
    (parentEntries g true).filterMap Elem.parent? = (parentsDict g).map (fun kv => (kv.2.1, kv.2.2)) := by
  show ((parentsDict g).map (fun kv => Elem.parent kv.2.1 kv.2.2)).filterMap Elem.parent? = _
  exact filterMap_map_some _ _ _ _ (fun _ => rfl)

private theorem par_edgeEntries (g : LGraph) : (edgeEntries g).filterMap Elem.parent? = [] :=
  filterMap_map_none _ _ _ (fun _ => rfl)

private theorem parents_of_export (g : LGraph) :
    (toCytoscape g true).filterMap Elem.parent? = (parentsDict g).map (fun kv => (kv.2.1, kv.2.2)) := by
  unfold toCytoscape
  rw [List.filterMap_append, List.filterMap_append, par_nodeEntries, par_parentEntries, par_edgeEntries]
  simp

private theorem parentRefs_of_export (g : LGraph) :
    (toCytoscape g true).filterMap Elem.parentRef? = g.nodes.map (fun n => parentNameOf g (parentKey n)) := by
  unfold toCytoscape
  rw [List.filterMap_append, List.filterMap_append, pref_nodeEntries, pref_parentEntries, pref_edgeEntries]
  simp

private theorem parentsDict_eq_build (g : LGraph) :
    parentsDict g = build parentKey (parentVal g) [] g.nodes := rfl

private theorem keys_parentsDict_nodup (g : LGraph) : ((parentsDict g).map (·.1)).Nodup :=
  nodup_keys_build parentKey (parentVal g) [] g.nodes (by simp [keys])

/-! ### the export lists exactly the nodes -/

/-- layout of the list (io.py:22‑47): node entries, then the compound parents, then the edges -/
theorem export_layout (g : LGraph) (c : Bool) :
    toCytoscape g c = nodeEntries g c ++ parentEntries g c ++ edgeEntries g := rfl

/-- the entries that stand for graph nodes are the printed names of the view's nodes — same multiplicity, same order
    (at both levels) -/
theorem nodes_exact (g : LGraph) (c : Bool) :
    (toCytoscape g c).filterMap Elem.nodeId? = g.nodes.map (printedNode g) := by
  unfold toCytoscape
  rw [List.filterMap_append, List.filterMap_append, nodeId_nodeEntries, nodeId_parentEntries, nodeId_edgeEntries]
  simp

/-- the table‑level export has no parent entries and no parent references -/
theorem table_level_flat (g : LGraph) :
    (toCytoscape g false).filterMap Elem.parent? = [] ∧ (toCytoscape g false).filterMap Elem.parentRef? = [] := by
  constructor
  · unfold toCytoscape nodeEntries parentEntries edgeEntries
    simp only [Bool.false_eq_true, if_false, List.append_nil, List.filterMap_append]
    rw [filterMap_map_none _ _ _ (fun _ => rfl), filterMap_map_none _ _ _ (fun _ => rfl)]
    rfl
  · unfold toCytoscape nodeEntries parentEntries edgeEntries
    simp only [Bool.false_eq_true, if_false, List.append_nil, List.filterMap_append]
    rw [filterMap_map_none _ _ _ (fun _ => rfl), filterMap_map_none _ _ _ (fun _ => rfl)]
    rfl

/-! ### … and exactly the edges -/

/-- the exported (source, target) pairs are the printed endpoints of `graph.edges`, in iteration order -/
theorem edges_exact (g : LGraph) (c : Bool) :
    ((toCytoscape g c).filterMap Elem.edge?).map (fun t => (t.2.1, t.2.2)) =
      g.edgesOrdered.map (fun e => (printedNode g e.1, printedNode g e.2)) := by
  rw [edges_of_export, List.map_map]
  have : ((fun t : String × String × String => (t.2.1, t.2.2)) ∘
      (fun ei : (Node × Node) × Nat => (edgeId ei.2, printedNode g ei.1.1, printedNode g ei.1.2))) =
      (fun e : Node × Node => (printedNode g e.1, printedNode g e.2)) ∘ Prod.fst := rfl
  rw [this, ← List.map_map, List.zipIdx_map_fst]

/-- under the graph invariant the iteration visits every edge of the view: a pair is exported iff it is the printed
    form of an edge of the graph -/
theorem edges_exact_mem (g : LGraph) (c : Bool) (h : EdgesWF g) (s t : String) :
    (s, t) ∈ ((toCytoscape g c).filterMap Elem.edge?).map (fun x => (x.2.1, x.2.2)) ↔
      ∃ e ∈ g.edges, printedNode g e.1 = s ∧ printedNode g e.2 = t := by
  rw [edges_exact, List.mem_map]
  constructor
  · rintro ⟨e, he, heq⟩
    cases heq
    exact ⟨e, (mem_edgesOrdered_of_wf g h e).mp he, rfl, rfl⟩
  · rintro ⟨e, he, rfl, rfl⟩
    exact ⟨e, (mem_edgesOrdered_of_wf g h e).mpr he, rfl⟩

/-- edge ids are `e0, e1, …` in order -/
theorem edge_ids_sequence (g : LGraph) (c : Bool) :
    edgeIds g c = (List.range g.edgesOrdered.length).map edgeId := by
  unfold edgeIds
  rw [edges_of_export, List.map_map]
  have : ((fun t : String × String × String => t.1) ∘
      (fun ei : (Node × Node) × Nat => (edgeId ei.2, printedNode g ei.1.1, printedNode g ei.1.2))) =
      edgeId ∘ Prod.snd := rfl
  rw [this, ← List.map_map, List.zipIdx_map_snd, List.range_eq_range']

theorem edgeId_injective (i j : Nat) (h : edgeId i = edgeId j) : i = j := by
  unfold edgeId at h
  have h1 : ("e" ++ toString i).toList = ("e" ++ toString j).toList := by rw [h]
  rw [String.toList_append, String.toList_append] at h1
  have h3 : toString i = toString j := String.ext (List.append_cancel_left h1)
  exact Nat.repr_inj.mp h3

theorem edge_ids_unique (g : LGraph) (c : Bool) : (edgeIds g c).Nodup := by
  rw [edge_ids_sequence]
  exact nodup_map_of_injOn edgeId List.nodup_range (fun a _ b _ h => edgeId_injective a b h)

/-! ### referential integrity -/

/-- every edge source and target is the id of an exported node entry (needs: edge endpoints are nodes of the view —
    `EdgesWF`, preserved by every graph operation, `Proofs/ExportLemmas.lean`) -/
theorem endpoints_are_nodes (g : LGraph) (c : Bool) (h : EdgesWF g) :
    ∀ x ∈ (toCytoscape g c).filterMap Elem.edge?,
      x.2.1 ∈ (toCytoscape g c).filterMap Elem.nodeId? ∧ x.2.2 ∈ (toCytoscape g c).filterMap Elem.nodeId? := by
  intro x hx
  rw [edges_of_export, List.mem_map] at hx
  obtain ⟨ei, hei, rfl⟩ := hx
  have he : ei.1 ∈ g.edgesOrdered := List.fst_mem_of_mem_zipIdx hei
  have he' := (mem_edgesOrdered_iff g ei.1).mp he
  rw [nodes_exact]
  exact ⟨List.mem_map_of_mem he'.2, List.mem_map_of_mem (h ei.1 he'.1).2⟩

/-- the value `parents_dict` holds under a node's owner key -/
theorem parentRef_resolves (g : LGraph) (n : Node) (hn : n ∈ g.nodes) :
    ∃ v, dictGet? (parentsDict g) (parentKey n) = some v ∧ (parentKey n, v) ∈ parentsDict g := by
  have hk : parentKey n ∈ keys (parentsDict g) := by
    rw [parentsDict_eq_build, mem_keys_build]
    exact Or.inr ⟨n, hn, rfl⟩
  have := (dictGet_isSome_iff (parentsDict g) (parentKey n)).mpr hk
  cases hg : dictGet? (parentsDict g) (parentKey n) with
  | none => rw [hg] at this; cases this
  | some v => exact ⟨v, rfl, mem_of_dictGet _ _ _ hg⟩

/-- every `parent` reference of a column entry is the id of an exported parent entry -/
theorem parents_are_nodes (g : LGraph) :
    ∀ p ∈ (toCytoscape g true).filterMap Elem.parentRef?,
      p ∈ ((toCytoscape g true).filterMap Elem.parent?).map (·.1) := by
  intro p hp
  rw [parentRefs_of_export, List.mem_map] at hp
  rw [parents_of_export, List.map_map, List.mem_map]
  obtain ⟨n, hn, rfl⟩ := hp
  obtain ⟨v, hv, hmem⟩ := parentRef_resolves g n hn
  refine ⟨(parentKey n, v), hmem, ?_⟩
  simp [parentNameOf, hv]

/-- the parent entries: one per DISTINCT owner of the view's columns (identity by eq/hash), in order of first occurrence,
    each carrying the name and type stored by the LAST column with that owner (io.py:11‑21, dict comprehension) -/
theorem parents_exact (g : LGraph) :
    (toCytoscape g true).filterMap Elem.parent? = (parentsDict g).map (fun kv => (kv.2.1, kv.2.2)) ∧
    (parentsDict g).map (·.1) = (g.nodes.map parentKey).eraseDups ∧
    ∀ k, dictGet? (parentsDict g) k = ((g.nodes.filter (fun n => parentKey n = k)).getLast?).map (parentVal g) := by
  exact ⟨parents_of_export g, keys_build parentKey (parentVal g) g.nodes, dictGet_build parentKey (parentVal g) g.nodes⟩

/-! ### uniqueness of node ids -/

private theorem nodeIds_eq (g : LGraph) (c : Bool) : nodeIds g c = (items g c).map (printItem g) := by
  unfold nodeIds toCytoscape items
  rw [List.filterMap_append, List.filterMap_append, anyId_nodeEntries, anyId_parentEntries, anyId_edgeEntries,
      List.append_nil, List.map_append, List.map_map]
  congr 1
  cases c with
  | false => simp
  | true =>
    simp only [if_true, List.map_map]
    apply List.map_congr_left
    intro kv hkv
    have hget : dictGet? (parentsDict g) kv.1 = some kv.2 :=
      dictGet_of_mem (parentsDict g) kv.1 kv.2 (keys_parentsDict_nodup g) hkv
    simp [printItem, parentNameOf, hget]

private theorem items_nodup (g : LGraph) (c : Bool) (h : NodesNodup g) : (items g c).Nodup := by
  unfold items
  rw [List.nodup_append]
  refine ⟨?_, ?_, ?_⟩
  · exact nodup_map_of_injOn Item.node h (fun a _ b _ e => by cases e; rfl)
  · split
    · have := keys_parentsDict_nodup g
      have h2 : (parentsDict g).map (fun kv => Item.parent kv.1) = ((parentsDict g).map (·.1)).map Item.parent := by
        rw [List.map_map]; rfl
      rw [h2]
      exact nodup_map_of_injOn Item.parent this (fun a _ b _ e => by cases e; rfl)
    · simp
  · intro a ha b hb
    rw [List.mem_map] at ha
    obtain ⟨n, _, rfl⟩ := ha
    split at hb
    · rw [List.mem_map] at hb
      obtain ⟨kv, _, rfl⟩ := hb
      intro e; cases e
    · cases hb

/-- node ids (graph nodes and compound parents together) are pairwise distinct EXACTLY when printing is injective on the
    view's nodes and owners -/
theorem ids_unique_iff_print_injective (g : LGraph) (c : Bool) (h : NodesNodup g) :
    (nodeIds g c).Nodup ↔ PrintInjective g c := by
  rw [nodeIds_eq]
  exact nodup_map_iff (printItem g) (items_nodup g c h)

/-- the executable class test the driver reports per case (`print_injective`) decides `PrintInjective` -/
theorem print_injective_decided (g : LGraph) (c : Bool) (h : NodesNodup g) :
    nodupb ((items g c).map (printItem g)) = true ↔ PrintInjective g c := by
  rw [nodupb_iff]
  exact nodup_map_iff (printItem g) (items_nodup g c h)

theorem ids_unique (g : LGraph) (c : Bool) (h : NodesNodup g) (hp : PrintInjective g c) : (nodeIds g c).Nodup :=
  (ids_unique_iff_print_injective g c h).mpr hp

/-- cytoscape keeps nodes and edges in one id namespace: all element ids are distinct iff printing is injective and no
    node or owner prints as one of the edge ids `e0 … e{m-1}` -/
theorem all_ids_unique_iff (g : LGraph) (c : Bool) (h : NodesNodup g) :
    (nodeIds g c ++ edgeIds g c).Nodup ↔
      PrintInjective g c ∧ ∀ i, i < g.edgesOrdered.length → edgeId i ∉ nodeIds g c := by
  rw [List.nodup_append, ids_unique_iff_print_injective g c h]
  constructor
  · rintro ⟨hp, _, hd⟩
    refine ⟨hp, fun i hi hm => hd _ hm (edgeId i) ?_ rfl⟩
    rw [edge_ids_sequence]
    exact List.mem_map_of_mem (List.mem_range.mpr hi)
  · rintro ⟨hp, hd⟩
    refine ⟨hp, edge_ids_unique g c, ?_⟩
    intro a ha b hb e
    subst e
    rw [edge_ids_sequence, List.mem_map] at hb
    obtain ⟨i, hi, rfl⟩ := hb
    exact hd i (List.mem_range.mp hi) ha

/-! ### the two levels of `LineageRunner.to_cytoscape` on an assembled graph -/

/-- everything above, instantiated for the views the runner exports: on a well‑formed combined graph both levels list
    exactly the view's nodes and edges and every edge endpoint resolves -/
theorem runner_export_faithful (G : LGraph) (hG : WF G) (l : Level) :
    (runnerCytoscape G l).filterMap Elem.nodeId? = (view G l).nodes.map (printedNode (view G l)) ∧
    ((runnerCytoscape G l).filterMap Elem.edge?).map (fun t => (t.2.1, t.2.2)) =
      (view G l).edgesOrdered.map (fun e => (printedNode (view G l) e.1, printedNode (view G l) e.2)) ∧
    (∀ x ∈ (runnerCytoscape G l).filterMap Elem.edge?,
      x.2.1 ∈ (runnerCytoscape G l).filterMap Elem.nodeId? ∧ x.2.2 ∈ (runnerCytoscape G l).filterMap Elem.nodeId?) ∧
    (∀ n, n ∈ (view G l).nodes ↔ n ∈ G.nodes ∧ (match l with | .table => n.isDataset | .column => n.isCol) = true) := by
  have hv : WF (view G l) := by
    cases l
    · exact wf_tableGraph G hG
    · exact wf_columnGraph G hG
  refine ⟨nodes_exact _ _, edges_exact _ _, endpoints_are_nodes _ _ hv.edges, ?_⟩
  intro n
  cases l
  · exact mem_nodes_subgraph G _ n
  · exact mem_nodes_subgraph G _ n

/-- `_build_digraph` output is well‑formed whenever the statement holders are, so the hypothesis of
    `runner_export_faithful` is met by every assembled result -/
theorem assembled_export_faithful (prov : Prov) (hs : List LGraph) (G : LGraph) (hb : Assemble.build prov hs = .ok G)
    (hh : ∀ h ∈ hs, WF h) (l : Level) :
    ∀ x ∈ (runnerCytoscape G l).filterMap Elem.edge?,
      x.2.1 ∈ (runnerCytoscape G l).filterMap Elem.nodeId? ∧ x.2.2 ∈ (runnerCytoscape G l).filterMap Elem.nodeId? :=
  (runner_export_faithful G (wf_buildWith id prov hs G hb hh) l).2.2.1

/-! ### the text summary -/

/-- the three sections of the summary are, each, the printed names of the role's tables: sorted ascending, a
    permutation of the role list (nothing lost, nothing added), every table of the role listed once (the role lists are
    duplicate‑free), and every listed table is a node of the table‑level export -/
theorem summary_lists_roles_sorted_once (nStmts : Nat) (G : LGraph) (h : NodesNodup G) :
    let s := summaryOf nStmts G
    (Sorted s.source ∧ s.source.Perm ((sourceTables G).map (printedNode G)) ∧ (sourceTables G).Nodup) ∧
    (Sorted s.target ∧ s.target.Perm ((targetTables G).map (printedNode G)) ∧ (targetTables G).Nodup) ∧
    (Sorted s.intermediate ∧ s.intermediate.Perm ((intermediateTables G).map (printedNode G)) ∧
      (intermediateTables G).Nodup) ∧
    (∀ n, n ∈ sourceTables G ∨ n ∈ targetTables G ∨ n ∈ intermediateTables G → n ∈ (view G .table).nodes) := by
  have hr := roles_nodup G h
  exact ⟨⟨isort_sorted _, isort_perm _, hr.1⟩, ⟨isort_sorted _, isort_perm _, hr.2.1⟩,
    ⟨isort_sorted _, isort_perm _, hr.2.2⟩, roles_subset_tableGraph G⟩

/-- when table names are unambiguous each NAME appears once: the sections are strictly ascending -/
theorem summary_names_once (nStmts : Nat) (G : LGraph) (h : NodesNodup G)
    (hp : ∀ a ∈ G.nodes, ∀ b ∈ G.nodes, a.isDataset = true → b.isDataset = true → printedNode G a = printedNode G b → a = b) :
    let s := summaryOf nStmts G
    s.source.Pairwise (· < ·) ∧ s.target.Pairwise (· < ·) ∧ s.intermediate.Pairwise (· < ·) := by
  have hr := roles_nodup G h
  have key : ∀ (l : List Node), l.Nodup → (∀ n ∈ l, n ∈ (tableGraph G).nodes) →
      (isort (l.map (printedNode G))).Pairwise (· < ·) := by
    intro l hl hsub
    apply strict_of_sorted_nodup _ (isort_sorted _)
    apply (isort_perm _).nodup_iff.mpr
    apply nodup_map_of_injOn _ hl
    intro a ha b hb e
    have ha' := (mem_nodes_subgraph G _ a).mp (hsub a ha)
    have hb' := (mem_nodes_subgraph G _ b).mp (hsub b hb)
    exact hp a ha'.1 b hb'.1 ha'.2 hb'.2 e
  exact ⟨key _ hr.1 (fun n hn => roles_subset_tableGraph G n (Or.inl hn)),
    key _ hr.2.1 (fun n hn => roles_subset_tableGraph G n (Or.inr (Or.inl hn))),
    key _ hr.2.2 (fun n hn => roles_subset_tableGraph G n (Or.inr (Or.inr hn)))⟩

/-- the text is the fixed frame around the three lists (runner.py:80‑90) -/
theorem summary_text (s : Summary) :
    s.text = "Statements(#): " ++ toString s.nStmts ++ "\nSource Tables:\n    " ++ "\n    ".intercalate s.source ++
      "\nTarget Tables:\n    " ++ "\n    ".intercalate s.target ++ "\n" ++
      (if s.intermediate.isEmpty then "" else "Intermediate Tables:\n    " ++ "\n    ".intercalate s.intermediate) := rfl

/-! ### deviation D24 (unchanged code): duplicate node ids -/

section witnesses

def tT : DS := .table "<default>" "t"
def tS : DS := .table "<default>" "s"
def q1 : DS := .subq "(select a from t1)"
def q2 : DS := .subq "(select a from t2)"

private def colP (d : DS) (pn raw : String) : Column := ⟨raw, [(d, pn)]⟩
private def lin (g : LGraph) (a b : Column) : LGraph :=
  g.addEdge a.key b.key .lineage none (some (.col a)) (some (.col b))
private def has (g : LGraph) (d : DS) (p : Option Payload) (c : Column) : LGraph :=
  g.addEdge (.ds d) c.key .hasColumn none p (some (.col c))

/-- the combined graph of
    `insert into t select x.a from (select a from t1) x union all select x.a from (select a from t2) x`:
    two DISTINCT derived tables (different text) sharing the alias `x`, each owning a column `a` -/
def gD24 : LGraph :=
  let t1a := colP (.table "<default>" "t1") "<default>.t1" "a"
  let t2a := colP (.table "<default>" "t2") "<default>.t2" "a"
  let x1a := colP q1 "x" "a"
  let x2a := colP q2 "x" "a"
  let ta := colP tT "<default>.t" "a"
  let g : LGraph := Graph.empty
  let g := has g (.table "<default>" "t1") none t1a
  let g := has g q1 (some (.sub "x")) x1a
  let g := lin g t1a x1a
  let g := has g (.table "<default>" "t2") none t2a
  let g := has g q2 (some (.sub "x")) x2a
  let g := lin g t2a x2a
  let g := has g tT none ta
  let g := lin g x1a ta
  let g := lin g x2a ta
  (g.addEdge (.ds (.table "<default>" "t1")) (.ds tT) .lineage).addEdge (.ds (.table "<default>" "t2")) (.ds tT) .lineage

/-- **D24**: on that graph the column‑level export carries the node id `x.a` twice and the parent id `x` twice, although
    the graph is well‑formed; the table‑level export of the same graph is fine -/
theorem dev_D24 :
    nodupb (nodeIds (view gD24 .column) true) = false ∧
    (nodeIds (view gD24 .column) true).count "x.a" = 2 ∧ (nodeIds (view gD24 .column) true).count "x" = 2 ∧
    nodupb (view gD24 .column).nodes = true ∧ edgesWFb (view gD24 .column) = true ∧
    nodupb (nodeIds (view gD24 .table) false) = true := by
  decide

/-- the witness lies in the deviation class: printing is not injective on the column view (and the theorem
    `ids_unique_iff_print_injective` says that is the only way to get a duplicate) -/
theorem dev_D24_class : ¬ PrintInjective (view gD24 .column) true := by
  intro h
  have := h (.node (.col "x.a" (some q1))) (by decide) (.node (.col "x.a" (some q2))) (by decide) (by decide)
  exact absurd this (by decide)

/-- the same witness end to end: the typed AST renders to the SQL text below, and the complete model run (walk →
    statement holder → assembler → column view → export) yields a well‑formed view whose export repeats `x.a` and `x`.
    Replayed on the real code by `harness/c18.py` (known finding D24). -/
def witnessBranch (t : String) : Ast.Query :=
  .select false [.mk (.col ["x"] "a") none false]
    [.mk (.derived (.select false [.mk (.col [] "a") none false] [.mk (.table [t] none false) []] none [] none)
      (some "x") false) []] none [] none

def witnessStmt : Ast.Stmt :=
  .insert .insertInto false ["t"] none
    (.setop (.mk (witnessBranch "t1") false) [.mk "union all" (.mk (witnessBranch "t2") false)]) false

theorem dev_D24_sql :
    Render.stmt {} witnessStmt =
      "insert into t select x.a from (select a from t1) x union all select x.a from (select a from t2) x" ∧
    (match Runner.eval {} [] [witnessStmt] with
     | .ok (G, _) =>
       edgesWFb (view G .column) && nodupb (view G .column).nodes &&
       ((nodeIds (view G .column) true).count "x.a" == 2) && ((nodeIds (view G .column) true).count "x" == 2) &&
       nodupb (nodeIds (view G .table) false)
     | .error _ => false) = true := by
  decide +kernel

/-- second shape of the class: a column whose owner is ambiguous prints bare, so it collides with an OWNER of that name:
    `insert into t select x from (select a as x from t1) x join (select b from t2) y on …` has the unresolved column `x`
    and the subquery `x` -/
def gD24b : LGraph :=
  let xx := colP q1 "x" "x"
  let ux : Column := ⟨"x", [(q1, "x"), (q2, "y")]⟩
  let tx := colP tT "<default>.t" "x"
  let g : LGraph := Graph.empty
  let g := has g q1 (some (.sub "x")) xx
  let g := has g tT none tx
  lin g ux tx

theorem dev_D24_node_vs_parent :
    nodupb (nodeIds (view gD24b .column) true) = false ∧ (nodeIds (view gD24b .column) true).count "x" = 2 := by
  decide

/-- outside the property's text but the same mechanism: an unresolved column called `e0` collides with the first EDGE id
    (`insert into t select e0 from t1 join t2 on …`) -/
def gE0 : LGraph :=
  let u : Column := ⟨"e0", [(.table "<default>" "t1", "<default>.t1"), (.table "<default>" "t2", "<default>.t2")]⟩
  let te := colP tT "<default>.t" "e0"
  lin (has Graph.empty tT none te) u te

theorem edge_id_clash_witness :
    nodupb (nodeIds (view gE0 .column) true) = true ∧
    nodupb (nodeIds (view gE0 .column) true ++ edgeIds (view gE0 .column) true) = false := by
  decide

end witnesses

/-! ### non‑vacuity -/

section examples

/-- `insert into t select a from s`, assembled -/
def gOK : LGraph :=
  let sa := colP tS "<default>.s" "a"
  let ta := colP tT "<default>.t" "a"
  let g : LGraph := Graph.empty
  let g := has g tS none sa
  let g := has g tT none ta
  let g := lin g sa ta
  g.addEdge (.ds tS) (.ds tT) .lineage

example : WF gOK := wf_of_check gOK (by decide) (by decide)

/-- the hypotheses of `ids_unique` are satisfiable by a non‑trivial view, and the export is the expected list -/
example : PrintInjective (view gOK .column) true := by
  unfold PrintInjective
  decide +kernel

example : runnerCytoscape gOK .column =
    [.cnode "<default>.s.a" "<default>.s" [("<default>.s", "Table")] "Column",
     .cnode "<default>.t.a" "<default>.t" [("<default>.t", "Table")] "Column",
     .parent "<default>.s" "Table", .parent "<default>.t" "Table",
     .edge "e0" "<default>.s.a" "<default>.t.a"] := by decide

example : runnerCytoscape gOK .table =
    [.node "<default>.s", .node "<default>.t", .edge "e0" "<default>.s" "<default>.t"] := by decide

example : (summaryOf 1 gOK).text = "Statements(#): 1\nSource Tables:\n    <default>.s\nTarget Tables:\n    <default>.t\n" := by
  decide

/-- "later wins": two columns whose owners are EQUAL subqueries printed under different aliases share one parent entry,
    named after the last of them, and both reference it (`select x.a from (select a from t1) x union all select y.a from
    (select a from t1) y`) -/
example :
    let g : LGraph := has (has Graph.empty q1 (some (.sub "x")) (colP q1 "y" "a")) q1 none (colP q1 "x" "a")
    runnerCytoscape g .column =
      [.cnode "y.a" "x" [("y", "SubQuery")] "Column", .cnode "x.a" "x" [("x", "SubQuery")] "Column",
       .parent "x" "SubQuery"] := by decide

example : isort ["b", "a", "c", "a"] = ["a", "a", "b", "c"] := by decide

end examples

end SqlLineage.Props.C18
