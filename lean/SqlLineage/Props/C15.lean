/-
C15 — configuration overrides are scoped and thread‑local.

All theorems are about `SqlLineage.Config` (model of `sqllineage/config.py`), for an arbitrary key table /
environment `e : Env` unless the statement mentions `Gen.Config`, in which case it is about the table the
translator regenerated from the source.
-/
import SqlLineage.Model.Config
import SqlLineage.Gen.Config

namespace SqlLineage.Props.C15
open SqlLineage.Config

/-! ### helper facts (local to this file, all about the model's dict primitives) -/

private theorem loc_setLoc_same (s : State) (t : Nat) (l : Local) : (s.setLoc t l).loc t = l := by
  simp [State.loc, State.setLoc]

private theorem loc_setLoc_other (s : State) (t u : Nat) (l : Local) (h : u ≠ t) :
    (s.setLoc t l).loc u = s.loc u := by
  simp [State.loc, State.setLoc, h]

private theorem oget_oset_same (o : Overrides) (k : String) (v : Val) : oget (oset o k v) k = some v := by
  induction o with
  | nil => simp [oset, oget]
  | cons p r ih =>
    obtain ⟨k', v'⟩ := p
    by_cases h : k' = k <;> simp [oset, oget, h, ih]

private theorem oget_oset_other (o : Overrides) (k k' : String) (v : Val) (h : k' ≠ k) :
    oget (oset o k v) k' = oget o k' := by
  induction o with
  | nil => simp [oset, oget, Ne.symm h]
  | cons p r ih =>
    obtain ⟨k'', v''⟩ := p
    by_cases h1 : k'' = k
    · subst h1; simp [oset, oget, Ne.symm h]
    · by_cases h2 : k'' = k'
      · subst h2; simp [oset, oget, h1]
      · simp [oset, oget, h1, h2, ih]

/-! ### 1. Non‑interference for every interleaving (operation granularity) -/

/-- projection of a global trace on one thread -/
def proj (t : Nat) (tr : List (Nat × α)) : List α := (tr.filter (·.1 = t)).map (·.2)

/-- The outputs a thread observes, and the local state it ends in, in *any* interleaving `tr` of any number of
    threads, are exactly those of running its own operations alone. -/
theorem noninterference (e : Env) (t : Nat) (tr : List (Nat × Op)) (s : State) :
    proj t (run e s tr).2 = (lrun e (s.loc t) (proj t tr)).2 ∧
    (run e s tr).1.loc t = (lrun e (s.loc t) (proj t tr)).1 := by
  induction tr generalizing s with
  | nil => simp [run, lrun, proj]
  | cons hd r ih =>
    obtain ⟨u, op⟩ := hd
    by_cases h : u = t
    · subst h
      have := ih (step e s u op).1
      simp only [step, loc_setLoc_same] at this
      simp [run, lrun, proj, step, this] at *
      exact this
    · have := ih (step e s u op).1
      simp only [step, loc_setLoc_other _ _ _ _ (Ne.symm h)] at this
      simp [run, lrun, proj, step, h] at *
      exact this

/-- Corollary in the property's words: what thread `t` reads does not depend on what the other threads do or
    on how they are interleaved with it — two global traces with the same projection on `t` give `t` the same
    outputs. -/
theorem other_threads_invisible (e : Env) (t : Nat) (tr tr' : List (Nat × Op))
    (h : proj t tr = proj t tr') :
    proj t (run e State.init tr).2 = proj t (run e State.init tr').2 := by
  rw [(noninterference e t tr State.init).1, (noninterference e t tr' State.init).1, h]

/-! ### 2. Non‑interference at micro‑operation granularity -/

theorem micro_noninterference (e : Env) (t : Nat) (tr : List (Nat × MOp)) (s : State) :
    (mrun e s tr).loc t = lmrun e (s.loc t) (proj t tr) := by
  induction tr generalizing s with
  | nil => simp [mrun, lmrun, proj]
  | cons hd r ih =>
    obtain ⟨u, m⟩ := hd
    by_cases h : u = t
    · subst h
      have := ih (mstep e s u m)
      simp only [mstep, loc_setLoc_same] at this
      simpa [mrun, lmrun, proj, mstep] using this
    · have := ih (mstep e s u m)
      simp only [mstep, loc_setLoc_other _ _ _ _ (Ne.symm h)] at this
      simpa [mrun, lmrun, proj, mstep, h] using this

private theorem lmrun_append (e : Env) (l : Local) (a b : List MOp) :
    lmrun e l (a ++ b) = lmrun e (lmrun e l a) b := by
  induction a generalizing l with
  | nil => rfl
  | cons m r ih => simp [lmrun, ih]

private theorem lmrun_stores (e : Env) (o : Overrides) (c : Bool) (kvs : List (String × Val))
    (hk : ∀ kv ∈ kvs, e.isKey kv.1 = true) :
    lmrun e ⟨some o, c⟩ (kvs.map (fun kv => MOp.store kv.1 kv.2)) = ⟨some (storeAll e o kvs), c⟩ := by
  induction kvs generalizing o with
  | nil => simp [lmrun, storeAll]
  | cons kv r ih =>
    obtain ⟨k, v⟩ := kv
    have hk1 : e.isKey k = true := hk (k, v) (by simp)
    have hr : ∀ kv ∈ r, e.isKey kv.1 = true := fun kv h => hk kv (by simp [h])
    cases ht : e.ty? k with
    | none => simp [Env.isKey, ht] at hk1
    | some ty =>
      simp only [List.map_cons, lmrun, lmstep, ht, storeAll, Option.getD_some]
      exact ih _ hr

/-- The micro program of an operation, run without pre‑emption, has the effect of the operation. -/
theorem expand_implements (e : Env) (l : Local) (op : Op) :
    lmrun e l (expand e l op) = (lstep e l op).1 := by
  cases op with
  | call kvs =>
    simp only [expand, lstep]
    by_cases hc : l.ctx = true
    · simp [hc, lmrun, lmstep]
    · by_cases hv : (kvs.any fun kv => !e.isKey kv.1) = true
      · simp [hc, hv, lmrun, lmstep]
      · have hk : ∀ kv ∈ kvs, e.isKey kv.1 = true := by
          intro kv hmem
          cases hh : e.isKey kv.1 with
          | true => rfl
          | false => exact absurd (List.any_eq_true.mpr ⟨kv, hmem, by simp [hh]⟩) hv
        obtain ⟨cfg, ctx⟩ := l
        have hc' : ctx = false := by simpa using hc
        subst hc'
        simp only [hv, if_false, Bool.false_eq_true]
        cases cfg with
        | none =>
          simp only [List.cons_append, List.nil_append, lmrun, lmstep]
          rw [lmrun_stores e [] false kvs hk]; rfl
        | some o =>
          simp only [List.cons_append, List.nil_append, lmrun, lmstep]
          rw [lmrun_stores e o false kvs hk]; rfl
  | enter =>
    by_cases hc : l.ctx = true <;> simp [expand, lstep, hc, lmrun, lmstep]
  | exit => simp [expand, lstep, lmrun, lmstep]
  | read k => simp [expand, lstep, lmrun, lmstep]
  | assign k => by_cases h : e.isKey k = true <;> simp [expand, lstep, lmrun, lmstep, h]

/-- micro program of a whole thread program: each operation is expanded against the local state the thread
    has when the operation starts -/
def expandAll (e : Env) : Local → List Op → List MOp
  | _, [] => []
  | l, op :: r => expand e l op ++ expandAll e (lstep e l op).1 r

theorem expandAll_implements (e : Env) (l : Local) (ops : List Op) :
    lmrun e l (expandAll e l ops) = (lrun e l ops).1 := by
  induction ops generalizing l with
  | nil => simp [expandAll, lmrun, lrun]
  | cons op r ih =>
    simp only [expandAll, lmrun_append, expand_implements, lrun]
    exact ih _

/-- **Sub‑operation interleavings.**  Take any global schedule `tr` of micro‑operations in which the
    micro‑operations of thread `t` are, in order, those of its program `ops` (pre‑empted anywhere, by any
    number of other threads doing anything).  Then `t` ends in exactly the local state of running `ops` alone;
    by `noninterference`‑style reasoning the same holds at every prefix, hence for every read. -/
theorem micro_interleaving_serial (e : Env) (t : Nat) (ops : List Op) (tr : List (Nat × MOp)) (s : State)
    (h : proj t tr = expandAll e (s.loc t) ops) :
    (mrun e s tr).loc t = (lrun e (s.loc t) ops).1 := by
  rw [micro_noninterference, h, expandAll_implements]

/-! ### 3. Scope exit restores; outside scopes the environment or default is seen -/

private theorem lrun_append (e : Env) (l : Local) (a b : List Op) :
    (lrun e l (a ++ b)).1 = (lrun e (lrun e l a).1 b).1 := by
  induction a generalizing l with
  | nil => rfl
  | cons m r ih => simp [lrun, ih]

/-- whatever happened before and inside the scope (including rejected attempts and an exception that ends
    the body early — `body` is arbitrary), after `__exit__` the thread has no override and is outside any scope -/
theorem scope_exit_restores (e : Env) (l : Local) (body : List Op) :
    (lrun e l (body ++ [Op.exit])).1 = Local.init := by
  rw [lrun_append]; simp [lrun, lstep, Local.init]

/-- reads outside a scope: environment variable if set, else the default — both coerced to the key's type -/
theorem outside_scope_env_or_default (e : Env) (k : String) (t : Ty) (d : Val)
    (ht : e.ty? k = some t) (hd : e.default? k = some d) :
    (lstep e Local.init (Op.read k)).2 =
      Out.val (parseValue e.truthy (match e.env k with | some x => Val.s x | none => d) t) := by
  simp only [lstep, lookup, ht, hd, Local.init, Option.getD_none, oget]
  cases e.env k <;> rfl

/-- after the scope is closed, every read of the same thread is again the environment/default one, and — by
    `noninterference` — reads of every other thread were never anything else -/
theorem read_after_scope (e : Env) (l : Local) (body : List Op) (k : String) :
    (lstep e (lrun e l (body ++ [Op.exit])).1 (Op.read k)).2 = (lstep e Local.init (Op.read k)).2 := by
  rw [scope_exit_restores]

private theorem oget_storeAll_notin (e : Env) (o : Overrides) (kvs : List (String × Val)) (k : String)
    (hnot : ∀ kv ∈ kvs, kv.1 ≠ k) : oget (storeAll e o kvs) k = oget o k := by
  induction kvs generalizing o with
  | nil => simp [storeAll]
  | cons kv r ih =>
    obtain ⟨k', v'⟩ := kv
    have hne : k' ≠ k := hnot (k', v') (by simp)
    have hr : ∀ kv ∈ r, kv.1 ≠ k := fun kv h => hnot kv (by simp [h])
    cases ht' : e.ty? k' with
    | none => simp only [storeAll, ht']; exact ih o hr
    | some t' =>
      simp only [storeAll, ht']
      rw [ih _ hr, oget_oset_other _ _ _ _ (Ne.symm hne)]

private theorem oget_storeAll_last (e : Env) (o : Overrides) (kvs : List (String × Val)) (k : String) (v : Val)
    (t : Ty) (hnot : ∀ kv ∈ kvs, kv.1 ≠ k) :
    oget (storeAll e (oset o k (parseValue e.truthy v t)) kvs) k = some (parseValue e.truthy v t) := by
  rw [oget_storeAll_notin e _ kvs k hnot, oget_oset_same]

/-- inside the scope the overriding thread reads the override it set, coerced to the key's type — whatever
    the environment says (in particular an override to a falsy value masks the environment) -/
theorem override_visible_inside (e : Env) (pre post : List (String × Val)) (k : String) (v : Val) (t : Ty)
    (ht : e.ty? k = some t)
    (hpre : ∀ kv ∈ pre, e.isKey kv.1 = true) (hpost : ∀ kv ∈ post, e.isKey kv.1 = true)
    (hlast : ∀ kv ∈ post, kv.1 ≠ k) :
    (lrun e Local.init [Op.call (pre ++ (k, v) :: post), Op.enter, Op.read k]).2 =
      [Out.unit, Out.unit, Out.val (parseValue e.truthy v t)] := by
  have hall : (List.any (pre ++ (k, v) :: post) fun kv => !e.isKey kv.1) = false := by
    rw [Bool.eq_false_iff]; intro h
    obtain ⟨kv, hmem, hbad⟩ := List.any_eq_true.mp h
    simp only [List.mem_append, List.mem_cons] at hmem
    rcases hmem with h1 | h1 | h1
    · simp [hpre kv h1] at hbad
    · subst h1; simp [Env.isKey, ht] at hbad
    · simp [hpost kv h1] at hbad
  have hd : ∃ d, e.default? k = some d := by
    simp only [Env.ty?, Env.default?] at *
    cases hf : e.table.find? (·.1 = k) with
    | none => simp [hf] at ht
    | some r => exact ⟨_, rfl⟩
  obtain ⟨d, hd⟩ := hd
  -- storeAll over `pre` then `(k,v)` then `post`
  have hsplit : ∀ (o : Overrides) (a : List (String × Val)), (∀ kv ∈ a, e.isKey kv.1 = true) →
      storeAll e o (a ++ (k, v) :: post) =
        storeAll e (oset (storeAll e o a) k (parseValue e.truthy v t)) post := by
    intro o a ha
    induction a generalizing o with
    | nil => simp [storeAll, ht]
    | cons kv r ih =>
      obtain ⟨k', v'⟩ := kv
      have : e.isKey k' = true := ha (k', v') (by simp)
      cases ht' : e.ty? k' with
      | none => simp [Env.isKey, ht'] at this
      | some t' =>
        simp only [List.cons_append, storeAll, ht']
        exact ih _ (fun kv h => ha kv (by simp [h]))
  simp only [lrun, lstep, Local.init, hall, Bool.false_eq_true, if_false, Option.getD_none, lookup, ht, hd,
    Option.getD_some]
  rw [hsplit [] pre hpre, oget_storeAll_last e _ post k v t hlast]

/-! ### 4. Rejected attempts change nothing; assignment is refused -/

/-- an operation that raises `ConfigException` (unknown key, nested scope — at the call or at the enter —,
    direct assignment) leaves the thread's state exactly as it was, so no later read can observe it -/
theorem rejected_changes_nothing (e : Env) (l : Local) (op : Op) (w : String)
    (h : (lstep e l op).2 = Out.cfgErr w) : (lstep e l op).1 = l := by
  cases op with
  | call kvs =>
    simp only [lstep] at h ⊢
    by_cases hc : l.ctx = true
    · simp [hc]
    · by_cases hv : (kvs.any fun kv => !e.isKey kv.1) = true
      · simp [hc, hv]
      · simp [hc, hv] at h
  | enter =>
    simp only [lstep] at h ⊢
    by_cases hc : l.ctx = true
    · simp [hc]
    · simp [hc] at h
  | exit => simp [lstep] at h
  | read k => simp [lstep]
  | assign k => simp only [lstep]; split <;> rfl

/-- a call with an unknown key is rejected whatever else it carries -/
theorem unknown_key_rejected (e : Env) (l : Local) (kvs : List (String × Val)) (k : String) (v : Val)
    (hmem : (k, v) ∈ kvs) (hk : e.isKey k = false) :
    ∃ w, (lstep e l (Op.call kvs)).2 = Out.cfgErr w := by
  simp only [lstep]
  by_cases hc : l.ctx = true
  · exact ⟨"reentrant", by simp [hc]⟩
  · have : (kvs.any fun kv => !e.isKey kv.1) = true :=
      List.any_eq_true.mpr ⟨(k, v), hmem, by simp [hk]⟩
    exact ⟨"invalid-key", by simp [hc, this]⟩

/-- opening a scope inside a scope is rejected (already at the call) -/
theorem nested_scope_rejected (e : Env) (l : Local) (hin : l.ctx = true) (kvs : List (String × Val)) :
    (lstep e l (Op.call kvs)) = (l, Out.cfgErr "reentrant") ∧
    (lstep e l Op.enter) = (l, Out.cfgErr "reentrant") := by
  simp [lstep, hin]

theorem assignment_refused (e : Env) (l : Local) (k : String) (hk : e.isKey k = true) :
    lstep e l (Op.assign k) = (l, Out.cfgErr "readonly") := by
  simp [lstep, hk]

/-! ### 5. Coercion: every read of a key returns a value of the key's type -/

def HasTy : Val → Ty → Prop
  | .s _, .str => True
  | .b _, .bool => True
  | _, _ => False

theorem parseValue_hasTy (tr : List String) (v : Val) (t : Ty) : HasTy (parseValue tr v t) t := by
  cases t with
  | str => simp [parseValue, HasTy]
  | bool =>
    cases v with
    | b x => simp [parseValue, HasTy]
    | i n => simp [parseValue, HasTy]
    | s x => simp only [parseValue]; split <;> simp [HasTy]

/-- invariant: every stored override has the type of its key -/
def WellTyped (e : Env) (l : Local) : Prop :=
  ∀ o, l.cfg = some o → ∀ k v, oget o k = some v → ∃ t, e.ty? k = some t ∧ HasTy v t

private theorem wt_oset (e : Env) (o : Overrides) (k : String) (v : Val) (t : Ty) (ht : e.ty? k = some t)
    (hv : HasTy v t) (h : ∀ k v, oget o k = some v → ∃ t, e.ty? k = some t ∧ HasTy v t) :
    ∀ k' v', oget (oset o k v) k' = some v' → ∃ t, e.ty? k' = some t ∧ HasTy v' t := by
  intro k' v' hg
  by_cases hk : k' = k
  · subst hk; rw [oget_oset_same] at hg; cases hg; exact ⟨t, ht, hv⟩
  · rw [oget_oset_other _ _ _ _ hk] at hg; exact h k' v' hg

private theorem wt_storeAll (e : Env) (o : Overrides) (kvs : List (String × Val))
    (h : ∀ k v, oget o k = some v → ∃ t, e.ty? k = some t ∧ HasTy v t) :
    ∀ k v, oget (storeAll e o kvs) k = some v → ∃ t, e.ty? k = some t ∧ HasTy v t := by
  induction kvs generalizing o with
  | nil => simpa [storeAll] using h
  | cons kv r ih =>
    obtain ⟨k', v'⟩ := kv
    cases ht : e.ty? k' with
    | none => simp only [storeAll, ht]; exact ih o h
    | some t =>
      simp only [storeAll, ht]
      exact ih _ (wt_oset e o k' _ t ht (parseValue_hasTy _ _ _) h)

theorem wellTyped_init (e : Env) : WellTyped e Local.init := by
  intro o h; simp [Local.init] at h

theorem wellTyped_step (e : Env) (l : Local) (op : Op) (h : WellTyped e l) :
    WellTyped e (lstep e l op).1 := by
  cases op with
  | call kvs =>
    simp only [lstep]
    by_cases hc : l.ctx = true
    · simpa [hc] using h
    · by_cases hv : (kvs.any fun kv => !e.isKey kv.1) = true
      · simpa [hc, hv] using h
      · simp only [hc, hv, if_false, Bool.false_eq_true]
        intro o ho
        simp only [Option.some.injEq] at ho
        subst ho
        apply wt_storeAll
        cases hcfg : l.cfg with
        | none => simp [oget]
        | some o' => simpa using h o' hcfg
  | enter =>
    simp only [lstep]; split
    · exact h
    · exact fun o ho => h o ho
  | exit => intro o ho; simp [lstep] at ho
  | read k => simpa [lstep] using h
  | assign k => simp only [lstep]; split <;> exact h

theorem wellTyped_reachable (e : Env) (ops : List Op) (l : Local) (h : WellTyped e l) :
    WellTyped e (lrun e l ops).1 := by
  induction ops generalizing l with
  | nil => simpa [lrun]
  | cons op r ih => simp only [lrun]; exact ih _ (wellTyped_step e l op h)

/-- **Coercion**: in every state a thread can reach, reading a key of type `t` yields a value of type `t` —
    whether it comes from an override (given as `str`, `int` or `bool`), the environment or the default. -/
theorem read_is_coerced (e : Env) (ops : List Op) (k : String) (t : Ty) (v : Val)
    (ht : e.ty? k = some t)
    (hr : (lstep e (lrun e Local.init ops).1 (Op.read k)).2 = Out.val v) : HasTy v t := by
  have hwt := wellTyped_reachable e ops Local.init (wellTyped_init e)
  generalize (lrun e Local.init ops).1 = l at hr hwt
  simp only [lstep, lookup, ht] at hr
  cases hd : e.default? k with
  | none => simp [hd] at hr
  | some d =>
    simp only [hd] at hr
    cases hcfg : l.cfg with
    | none =>
      simp only [hcfg, Option.getD_none, oget] at hr
      cases henv : e.env k <;> simp only [henv, Out.val.injEq] at hr <;> subst hr <;>
        exact parseValue_hasTy _ _ _
    | some o =>
      simp only [hcfg, Option.getD_some] at hr
      cases hg : oget o k with
      | some v' =>
        simp only [hg, Out.val.injEq] at hr; subst hr
        obtain ⟨t', ht', hv'⟩ := hwt o hcfg k v' hg
        rw [ht] at ht'; cases ht'; exact hv'
      | none =>
        simp only [hg] at hr
        cases henv : e.env k <;> simp only [henv, Out.val.injEq] at hr <;> subst hr <;>
          exact parseValue_hasTy _ _ _

/-! ### 6. Thread‑identifier reuse -/

/-- a thread whose program ends with a scope exit leaves nothing behind: a later thread that is given the
    same identifier starts exactly like a thread with a never‑used identifier -/
theorem tid_reuse_clean (e : Env) (t : Nat) (tr : List (Nat × Op)) (ops : List Op)
    (h : proj t tr = ops ++ [Op.exit]) :
    (run e State.init tr).1.loc t = Local.init := by
  rw [(noninterference e t tr State.init).2, h, scope_exit_restores]

/-! ### 7. Facts about the key table regenerated from the source -/

theorem gen_keys_nodup : (Gen.Config.table.map (·.1)).Nodup := by decide

theorem gen_defaults_well_typed :
    ∀ r ∈ Gen.Config.table, HasTy (parseValue Gen.Config.truthy r.2.2 r.2.1) r.2.1 := by
  intro r _; exact parseValue_hasTy _ _ _

/-! ### non‑vacuity: the hypotheses are met by concrete, non‑trivial runs -/

private def env0 : Env := Gen.Config.env (fun k => if k = "DEFAULT_SCHEMA" then some "envschema" else none)

/-- two threads; thread 1 overrides DEFAULT_SCHEMA to the empty string (falsy!) inside a scope while thread 2
    reads: thread 1 sees "", thread 2 sees the environment value, thread 1 sees it again after the scope -/
example :
    (run env0 State.init
      [(1, .call [("DEFAULT_SCHEMA", .s "")]), (2, .read "DEFAULT_SCHEMA"), (1, .enter),
       (1, .read "DEFAULT_SCHEMA"), (2, .read "DEFAULT_SCHEMA"), (1, .exit), (1, .read "DEFAULT_SCHEMA")]).2
    = [(1, .unit), (2, .val (.s "envschema")), (1, .unit), (1, .val (.s "")), (2, .val (.s "envschema")),
       (1, .unit), (1, .val (.s "envschema"))] := by decide

example : (lstep env0 ⟨some [("DEFAULT_SCHEMA", .s "x")], true⟩ (.call [("TSQL_NO_SEMICOLON", .s "yes")])).2
    = .cfgErr "reentrant" := by decide

example : (lstep env0 Local.init (.call [("TSQL_NO_SEMICOLON", .s " Yes "), ("BOGUS", .i 1)]))
    = (Local.init, .cfgErr "invalid-key") := by decide

example : parseValue Gen.Config.truthy (.s " 0_0 ") .bool = .b false := by decide
example : parseValue Gen.Config.truthy (.s "On") .bool = .b true := by decide
example : parseValue Gen.Config.truthy (.i 7) .str = .s "7" := by decide

end SqlLineage.Props.C15
