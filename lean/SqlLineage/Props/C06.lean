/-
C06 — column lineage is well‑formed and consistent with table lineage.

Theorems about `Paths.pathsFrom / simplePaths / columnLineage` (model of `ColumnLineageMixin.get_column_lineage`,
core/holders.py:15‑52, on top of `networkx.all_simple_paths`) for EVERY graph, by induction on the fuel / on the path
(helper lemmas: `Proofs/PathLemmas.lean`).  The model is the FIXED code (`elif len(path) > 1`, commit 8290e64 — D12).

The projection onto table lineage is a theorem in two layers (section "projection" at the end of this file):
  * fold level, EVERY history of holders: if every statement holder projects (`Projection.HolderOK`: a column edge between
    dataset-owned columns goes from a column of a table the statement reads to a column of the table it writes; not a RENAME),
    the combined graph of `_build_digraph` has the table edge owner(source) → owner(target) under every such column edge
    (`fold_projects`), hence every hop of every reported path lies over an edge of the table graph (`path_hops_project_partial`);
  * statement level: the holders `analyze` builds for the flat write fragment of `Proofs/ColumnsExact.lean` with every qualifier
    in scope project (`flat_holder_projects_partial`), and so does a whole script of them run by `Runner.eval`
    (`script_projects_flat_partial`).
What is NOT a theorem here and is checked on every implementation result by `harness/monitor.py` instead:
  * the projection for statements outside that fragment (nested queries, set operations, UPDATE / MERGE, a metadata provider),
    after a RENAME (finding D33), and for histories that leave unresolved columns to the tail of `_build_digraph` (finding D11);
    deviation D2 (scalar subquery in the select list) and `dev_unscoped_qualifier` show where it fails;
  * "every node is retrievable by equality and hash": a statement about Python object identity and mutation; the immutable
    model can only say that the owner is part of the node key and never changes (`resolved_single_owner`, `KeyPay`).
-/
import SqlLineage.Proofs.PathLemmas
import SqlLineage.Proofs.BuildLemmas
import SqlLineage.Model.Assemble
import SqlLineage.Model.Runner
import SqlLineage.Proofs.Projection
import SqlLineage.Proofs.ProjectionFlat

namespace SqlLineage.Props.C06
open SqlLineage Graph Paths Holder

/-! ### the enumeration of simple paths -/

/-- SOUND: every returned path is a duplicate‑free chain of edges from `cur` to `tgt` that avoids the visited set. -/
theorem paths_sound (g : LGraph) (fuel : Nat) (visited : List Node) (cur tgt : Node) (p : List Node)
    (h : p ∈ pathsFrom g fuel visited cur tgt) :
    ∃ q, p = cur :: q ∧ p.getLast? = some tgt ∧ IsChain g p ∧ p.Nodup ∧ ∀ n ∈ q, n ∉ visited :=
  pathsFrom_sound g fuel visited cur tgt p h

/-- COMPLETE: every duplicate‑free edge chain from `cur` to `tgt` avoiding `visited` with at most `fuel` hops is returned. -/
theorem paths_complete (g : LGraph) (fuel : Nat) (visited : List Node) (cur tgt : Node) (q : List Node)
    (hc : IsChain g (cur :: q)) (hn : (cur :: q).Nodup) (hl : (cur :: q).getLast? = some tgt)
    (hv : ∀ n ∈ q, n ∉ visited) (hf : q.length ≤ fuel) : cur :: q ∈ pathsFrom g fuel visited cur tgt :=
  pathsFrom_complete g fuel visited cur tgt q hc hn hl hv hf

/-- with fuel = number of nodes (what `simplePaths` uses) EVERY simple path of a well‑formed graph is returned -/
theorem simple_paths_exact (g : LGraph) (hwf : WF g) (s t : Node) (hs : s ∈ g.nodes) (p : List Node) :
    p ∈ simplePaths g s t ↔ p.head? = some s ∧ p.getLast? = some t ∧ IsChain g p ∧ p.Nodup := by
  constructor
  · exact simplePaths_sound g s t p
  · rintro ⟨h1, h2, h3, h4⟩
    exact simplePaths_complete g hwf s t p hs h1 h2 h3 h4

/-! ### every reported column path -/

/-- a reported path is a chain of direct dependencies (edges of the graph) -/
theorem path_is_chain (g : LGraph) (p : List Node) (h : p ∈ columnLineage g) : IsChain g p := by
  obtain ⟨s, _, t, _, hp, _⟩ := (mem_columnLineage g p).mp h
  exact (simplePaths_sound g s t p hp).2.2.1

/-- no node is repeated -/
theorem path_nodup (g : LGraph) (p : List Node) (h : p ∈ columnLineage g) : p.Nodup := by
  obtain ⟨s, _, t, _, hp, _⟩ := (mem_columnLineage g p).mp h
  exact (simplePaths_sound g s t p hp).2.2.2

/-- at least one hop (the fixed code; `dev_D12_before_fix` shows what the filter removes) -/
theorem path_has_hop (g : LGraph) (p : List Node) (h : p ∈ columnLineage g) : p.length > 1 := by
  obtain ⟨_, _, _, _, _, hl⟩ := (mem_columnLineage g p).mp h
  exact hl

/-- it starts at a column nothing feeds: a column node of the graph with in‑degree 0 in the column view -/
theorem path_starts_at_root (g : LGraph) (p : List Node) (h : p ∈ columnLineage g) :
    ∃ a, p.head? = some a ∧ a ∈ g.nodes ∧ a.isCol = true ∧ (colGraph g).inDeg a = 0 ∧
      ∀ u, (u, a) ∈ g.edges → u.isCol = false := by
  obtain ⟨s, hs, t, _, hp, _⟩ := (mem_columnLineage g p).mp h
  refine ⟨s, (simplePaths_sound g s t p hp).1, ?_⟩
  obtain ⟨h1, h2, h3⟩ := (mem_roots g s).mp hs
  refine ⟨h1, h2, ?_, h3⟩
  simp only [roots, List.mem_filter, beq_iff_eq] at hs
  exact hs.2

/-- it ends at a column of a table: a column node with out‑degree 0 in the column view whose owner is a `Table` -/
theorem path_ends_at_written_table_column (g : LGraph) (p : List Node) (h : p ∈ columnLineage g) :
    ∃ b, p.getLast? = some b ∧ b ∈ g.nodes ∧ b.isCol = true ∧ (colGraph g).outDeg b = 0 ∧
      ∃ d, colParent b = some d ∧ d.isTable = true := by
  obtain ⟨s, _, t, ht, hp, _⟩ := (mem_columnLineage g p).mp h
  refine ⟨t, (simplePaths_sound g s t p hp).2.1, ?_⟩
  obtain ⟨h1, h2, _, h4⟩ := (mem_leaves g t).mp ht
  refine ⟨h1, h2, ?_, h4⟩
  simp only [leaves, List.mem_filter, beq_iff_eq] at ht
  exact ht.1.2

/-- first and last node differ -/
theorem path_ends_differ (g : LGraph) (p : List Node) (h : p ∈ columnLineage g) : p.head? ≠ p.getLast? := by
  have hn := path_nodup g p h
  have hl := path_has_hop g p h
  cases p with
  | nil => simp at hl
  | cons a q =>
    cases q with
    | nil => simp at hl
    | cons b r =>
      intro heq
      rw [List.getLast?_cons_cons] at heq
      exact (List.nodup_cons.mp hn).1 (List.mem_of_getLast? heq.symm)

/-- COLUMNS ONLY: under the graph invariant `ColOut` (an edge leaving a column node is a LINEAGE edge to a column node) a
    reported path stays in column nodes although the search runs on the full graph -/
theorem columns_only (g : LGraph) (hco : ColOut g) (p : List Node) (h : p ∈ columnLineage g) : ∀ n ∈ p, n.isCol = true := by
  obtain ⟨a, ha, _, hac, _⟩ := path_starts_at_root g p h
  exact IsChain.columns_only hco p (path_is_chain g p h) (fun x hx => by rw [ha] at hx; cases hx; exact hac)

/-- … and every hop is an edge of type LINEAGE -/
theorem hops_are_lineage (g : LGraph) (hco : ColOut g) (p : List Node) (h : p ∈ columnLineage g)
    (l : List Node) (a b : Node) (r : List Node) (hp : p = l ++ a :: b :: r) : g.ety a b = some .lineage := by
  obtain ⟨x, hx, _, hxc, _⟩ := path_starts_at_root g p h
  subst hp
  exact IsChain.lineage_hops hco l a b r (path_is_chain g _ h) (fun y hy => by rw [hx] at hy; cases hy; exact hxc)

/-- EXACT: on a well‑formed graph the reported paths are precisely the simple root‑to‑leaf chains with a hop -/
theorem column_lineage_exact (g : LGraph) (hwf : WF g) (p : List Node) :
    p ∈ columnLineage g ↔
      ∃ a ∈ roots g, ∃ b ∈ leaves g, p.head? = some a ∧ p.getLast? = some b ∧ IsChain g p ∧ p.Nodup ∧ p.length > 1 := by
  rw [mem_columnLineage]
  constructor
  · rintro ⟨s, hs, t, ht, hp, hl⟩
    obtain ⟨h1, h2, h3, h4⟩ := simplePaths_sound g s t p hp
    exact ⟨s, hs, t, ht, h1, h2, h3, h4, hl⟩
  · rintro ⟨s, hs, t, ht, h1, h2, h3, h4, hl⟩
    exact ⟨s, hs, t, ht, simplePaths_complete g hwf s t p ((mem_roots g s).mp hs).1 h1 h2 h3 h4, hl⟩

/-! ### the invariant `ColOut` is preserved by the holder operations -/

theorem colOut_empty : ColOut (Graph.empty : LGraph) := Paths.colOut_empty

theorem colOut_addColumnLineage (g g' : LGraph) (src tgt : Column) (h : ColOut g)
    (hr : addColumnLineage g src tgt = .ok g') : ColOut g' := Paths.colOut_addColumnLineage g g' src tgt h hr

theorem colOut_addWriteColumns (g : LGraph) (cols : List Column) (h : ColOut g) : ColOut (addWriteColumns g cols) :=
  Paths.colOut_addWriteColumns g cols h

theorem colOut_addRead (g : LGraph) (o : DObj) (h : ColOut g) : ColOut (addReadO g o) :=
  Paths.colOut_addRead g _ _ _ h

theorem colOut_addWrite (g : LGraph) (o : DObj) (h : ColOut g) : ColOut (addWriteO g o) :=
  Paths.colOut_addWrite g _ _ h

theorem colOut_compose (g h : LGraph) (hg : ColOut g) (hh : ColOut h) : ColOut (g.compose h) :=
  Paths.colOut_compose g h hg hh

theorem colOut_removeNode (g : LGraph) (n : Node) (h : ColOut g) : ColOut (g.removeNode n) :=
  Paths.colOut_removeNode g n h

theorem colOut_removeEdge (g g' : LGraph) (a b : Node) (hr : g.removeEdge? a b = some g') (h : ColOut g) : ColOut g' :=
  Paths.colOut_removeEdge g g' a b hr h

/-- the same for well‑formedness (edge end points are nodes), the hypothesis of the completeness statements -/
theorem wf_addColumnLineage (g g' : LGraph) (src tgt : Column) (h : WF g)
    (hr : addColumnLineage g src tgt = .ok g') : WF g' := by
  unfold addColumnLineage at hr
  cases htp : tgt.parent? with
  | none => rw [htp] at hr; cases hr
  | some tp =>
    rw [htp] at hr
    simp only at hr
    have h2 := wf_addEdge _ (.ds tp.1) tgt.key .hasColumn none (some (.sub tp.2)) (some (.col tgt))
      (wf_addEdge g src.key tgt.key .lineage none (some (.col src)) (some (.col tgt)) h)
    cases hsp : src.parent? with
    | none => rw [hsp] at hr; rw [← Except.ok.inj hr]; exact h2
    | some sp => rw [hsp] at hr; rw [← Except.ok.inj hr]; exact wf_addEdge _ _ _ _ _ _ _ h2

theorem wf_addWriteColumns (g : LGraph) (cols : List Column) (h : WF g) : WF (addWriteColumns g cols) := by
  unfold addWriteColumns
  cases (writeSet g).head? with
  | none => exact h
  | some t => exact wf_foldl _ (fun g ci hg => wf_addEdge _ _ _ _ _ _ _ hg) _ g h

theorem wf_compose (g h : LGraph) (hg : WF g) (hh : WF h) : WF (g.compose h) := Paths.wf_compose g h hg hh
theorem wf_removeNode (g : LGraph) (n : Node) (h : WF g) : WF (g.removeNode n) := Paths.wf_removeNode g n h

/-! ### the combined graph of a script

The assembler (`Assemble.build`, model of `SQLLineageHolder._build_digraph`) preserves both invariants, so the path clauses hold for
the combined graph of EVERY script whose statement holders satisfy them (the holders themselves come from `Model/Walk.lean`, built
from the holder operations above; that every holder the walk returns satisfies `WF`/`ColOut` is not proved — it is what the
enumeration correspondence and the monitor observe on the implementation). -/

/-- every graph the assembler returns from well‑formed statement holders is well‑formed (DROP and RENAME included) -/
theorem build_wf (prov : Assemble.Prov) (hs : List LGraph) (g : LGraph) (hhs : ∀ h ∈ hs, WF h)
    (hr : Assemble.build prov hs = .ok g) : WF g :=
  buildWith_wf id prov hs g hhs hr

/-- PARTIAL (`ColOut` through the assembler): proved for scripts without RENAME statements.  Missing for the full statement: the
    relabelling step `relabel old new` keeps `ColOut` when `old`/`new` are dataset nodes, which needs the edge‑type bookkeeping of
    `Graph.relabel` (last‑writer‑wins over the merged parallel edges). -/
theorem build_colOut_partial (prov : Assemble.Prov) (hs : List LGraph) (g : LGraph)
    (hhs : ∀ h ∈ hs, ColOut h ∧ Assemble.stmtRename h = []) (hr : Assemble.build prov hs = .ok g) : ColOut g :=
  buildWith_colOut id prov hs g hhs hr

/-- the reported paths of a script's combined graph are exactly the simple root‑to‑leaf chains with a hop -/
theorem script_paths_exact (prov : Assemble.Prov) (hs : List LGraph) (g : LGraph) (hhs : ∀ h ∈ hs, WF h)
    (hr : Assemble.build prov hs = .ok g) (p : List Node) :
    p ∈ columnLineage g ↔
      ∃ a ∈ roots g, ∃ b ∈ leaves g, p.head? = some a ∧ p.getLast? = some b ∧ IsChain g p ∧ p.Nodup ∧ p.length > 1 :=
  column_lineage_exact g (build_wf prov hs g hhs hr) p

/-- … and (no RENAME) consist of column nodes joined by LINEAGE edges only -/
theorem script_paths_columns_only_partial (prov : Assemble.Prov) (hs : List LGraph) (g : LGraph)
    (hhs : ∀ h ∈ hs, ColOut h ∧ Assemble.stmtRename h = []) (hr : Assemble.build prov hs = .ok g)
    (p : List Node) (hp : p ∈ columnLineage g) : ∀ n ∈ p, n.isCol = true :=
  columns_only g (build_colOut_partial prov hs g hhs hr) p hp

/-! ### a resolved column has exactly one owner

In the model the owner of a column is part of the node KEY (`Column.key = .col printed (parent?.map fst)`, mirroring
`Column.__eq__` = printed name and `parent`, models.py:176‑181): `parent = some d` can only come from a candidate list of
length one, so "the owner" of a resolved column node is well defined, and two column objects with the same key have the
same owner.  `KeyPay` lifts this to graphs: the column object stored as a node's dict key agrees with the node. -/

theorem resolved_single_owner (c : Column) (s : String) (d : DS) (h : c.key = .col s (some d)) :
    ∃ pn, c.parents = [(d, pn)] := by
  unfold Column.key at h
  cases hp : c.parent? with
  | none => rw [hp] at h; simp at h
  | some x =>
    rw [hp] at h
    simp only [Option.map_some, Node.col.injEq, Option.some.injEq] at h
    unfold Column.parent? at hp
    split at hp
    · rename_i p heq
      cases hp; exact ⟨x.2, by rw [heq, ← h.2]⟩
    · cases hp

/-- conversely a column without a unique candidate has no owner in its key -/
theorem unresolved_no_owner (c : Column) (h : c.parents.length ≠ 1) : ∃ s, c.key = .col s none := by
  have hp : c.parent? = none := by
    unfold Column.parent?
    split
    · rename_i p hp; rw [hp] at h; simp at h
    · rfl
  exact ⟨c.printed, by simp [Column.key, hp]⟩

/-- equal keys ⇒ equal owners (the owner is part of the identity) -/
theorem owner_part_of_identity (c₁ c₂ : Column) (h : c₁.key = c₂.key) :
    c₁.parent?.map (·.1) = c₂.parent?.map (·.1) := by
  simp only [Column.key, Node.col.injEq] at h
  exact h.2

/-- the column object stored for a node has that node as its key -/
def KeyPay (g : LGraph) : Prop := ∀ n c, g.payload n = some (.col c) → c.key = n

/-- in a `KeyPay` graph a resolved column node has exactly one owner candidate, the owner named in the node -/
theorem node_single_owner (g : LGraph) (hk : KeyPay g) (s : String) (d : DS) (c : Column)
    (h : g.payload (.col s (some d)) = some (.col c)) : ∃ pn, Assemble.cands g (.col s (some d)) = [(d, pn)] := by
  obtain ⟨pn, hpn⟩ := resolved_single_owner c s d (hk _ c h)
  exact ⟨pn, by simp [Assemble.cands, h, hpn]⟩

private theorem payload_addNode (g : LGraph) (n m : Node) (p : Option Payload) :
    (g.addNode n p).payload m = if m = n ∧ n ∉ g.nodes then p else g.payload m := by
  unfold addNode
  by_cases hn : g.hasNode n = true
  · have : n ∈ g.nodes := (hasNode_iff g n).mp hn
    simp [hn, this]
  · have hn' : n ∉ g.nodes := fun x => hn ((hasNode_iff g n).mpr x)
    simp only [hn, Bool.false_eq_true, if_false]
    by_cases hm : m = n
    · subst hm; simp [payload, hasNode, hn']
    · simp [payload, hasNode, hm]

private theorem payload_addEdge (g : LGraph) (u v m : Node) (ty : EType) (i : Option Nat) (pu pv : Option Payload) :
    (g.addEdge u v ty i pu pv).payload m = ((g.addNode u pu).addNode v pv).payload m := by
  unfold addEdge
  simp only
  split <;> rfl

theorem keyPay_empty : KeyPay (Graph.empty : LGraph) := by
  intro n c h; simp [payload, hasNode, Graph.empty] at h

theorem keyPay_addEdge (g : LGraph) (u v : Node) (ty : EType) (i : Option Nat) (pu pv : Option Payload) (h : KeyPay g)
    (hu : ∀ c, pu = some (.col c) → c.key = u) (hv : ∀ c, pv = some (.col c) → c.key = v) :
    KeyPay (g.addEdge u v ty i pu pv) := by
  intro n c hc
  rw [payload_addEdge, payload_addNode] at hc
  split at hc
  · rename_i hx; rw [hx.1]; exact hv c hc
  · rw [payload_addNode] at hc
    split at hc
    · rename_i hx; rw [hx.1]; exact hu c hc
    · exact h n c hc

theorem keyPay_addColumnLineage (g g' : LGraph) (src tgt : Column) (h : KeyPay g)
    (hr : addColumnLineage g src tgt = .ok g') : KeyPay g' := by
  unfold addColumnLineage at hr
  cases htp : tgt.parent? with
  | none => rw [htp] at hr; cases hr
  | some tp =>
    rw [htp] at hr
    simp only at hr
    have h1 := keyPay_addEdge g src.key tgt.key .lineage none (some (.col src)) (some (.col tgt)) h
      (fun c hc => by cases hc; rfl) (fun c hc => by cases hc; rfl)
    have h2 := keyPay_addEdge _ (.ds tp.1) tgt.key .hasColumn none (some (.sub tp.2)) (some (.col tgt)) h1
      (fun c hc => by cases hc) (fun c hc => by cases hc; rfl)
    cases hsp : src.parent? with
    | none => rw [hsp] at hr; rw [← Except.ok.inj hr]; exact h2
    | some sp =>
      rw [hsp] at hr; rw [← Except.ok.inj hr]
      exact keyPay_addEdge _ _ _ _ _ _ _ h2 (fun c hc => by cases hc) (fun c hc => by cases hc; rfl)

theorem keyPay_compose (g h : LGraph) (hg : KeyPay g) (hh : KeyPay h) : KeyPay (g.compose h) := by
  intro n c hc
  by_cases hn : n ∈ g.nodes
  · apply hg n c
    have hm : n ∈ (g.compose h).nodes := (mem_nodes_compose ..).mpr (Or.inl hn)
    simpa [payload, hasNode, compose, hn, hm] using hc
  · by_cases hn2 : n ∈ h.nodes
    · apply hh n c
      have hm : n ∈ (g.compose h).nodes := (mem_nodes_compose ..).mpr (Or.inr hn2)
      have hm' : n ∈ g.nodes ++ List.filter (fun n => !g.nodes.contains n) h.nodes := by
        simpa [compose, hasNode] using hm
      simpa [payload, hasNode, compose, hn, hn2, hm'] using hc
    · have hm : n ∉ (g.compose h).nodes := fun x => by
        rcases (mem_nodes_compose ..).mp x with y | y
        · exact hn y
        · exact hn2 y
      simp [payload, hasNode, hm] at hc

theorem keyPay_removeNode (g : LGraph) (n : Node) (h : KeyPay g) : KeyPay (g.removeNode n) := by
  intro m c hc
  apply h m c
  have hsub : (g.removeNode n).hasNode m = true → g.hasNode m = true := by
    rw [hasNode_iff, hasNode_iff, mem_nodes_removeNode]; exact fun x => x.1
  unfold payload at hc ⊢
  split at hc
  · rename_i hx; rw [if_pos (hsub hx)]; exact hc
  · cases hc

/-! ### D12 (fixed): what the `len(path) > 1` filter removes -/

def tbl (n : String) : DS := .table "<default>" n
def colOf (t c : String) : Column := Column.mk1 c (some (tbl t, "<default>." ++ t))

/-- `create table t (a int)`: the holder has a lone target column; before the fix `all_simple_paths(a, a)` = `[[a]]` was
    reported as a one‑node "path".  The raw enumeration still yields it, the fixed `columnLineage` does not. -/
theorem dev_D12_before_fix :
    let g := addWriteColumns (addWrite Graph.empty (tbl "t")) [Column.mk1 "a" none]
    simplePaths g (colOf "t" "a").key (colOf "t" "a").key = [[(colOf "t" "a").key]] ∧ columnLineage g = [] := by
  decide

/-! ### non‑vacuity: a concrete three‑statement chain  src.a → mid.a → tgt.b,  src.k → mid.k (dangling) -/

def gEx : LGraph :=
  match (do
    let g ← addColumnLineage Graph.empty (colOf "src" "a") (colOf "mid" "a")
    let g ← addColumnLineage g (colOf "src" "k") (colOf "mid" "k")
    addColumnLineage g (colOf "mid" "a") (colOf "tgt" "b") : Except Err LGraph) with
  | .ok g => g
  | .error _ => Graph.empty

theorem gEx_paths : columnLineage gEx =
    [[(colOf "src" "a").key, (colOf "mid" "a").key, (colOf "tgt" "b").key],
     [(colOf "src" "k").key, (colOf "mid" "k").key]] := by decide

theorem gEx_colOut : ColOut gEx := by
  have h1 : ∃ g1, addColumnLineage Graph.empty (colOf "src" "a") (colOf "mid" "a") = .ok g1 := ⟨_, rfl⟩
  obtain ⟨g1, e1⟩ := h1
  have h2 : ∃ g2, addColumnLineage g1 (colOf "src" "k") (colOf "mid" "k") = .ok g2 := ⟨_, rfl⟩
  obtain ⟨g2, e2⟩ := h2
  have h3 : ∃ g3, addColumnLineage g2 (colOf "mid" "a") (colOf "tgt" "b") = .ok g3 := ⟨_, rfl⟩
  obtain ⟨g3, e3⟩ := h3
  have : gEx = g3 := by simp [gEx, e1, e2, e3, bind, Except.bind]
  rw [this]
  exact colOut_addColumnLineage _ _ _ _ (colOut_addColumnLineage _ _ _ _ (colOut_addColumnLineage _ _ _ _ colOut_empty e1) e2) e3

/-- statement holders of `insert into mid select a from src` / `insert into tgt select a as b from mid` built with the holder API -/
def mkHolder (r w : String) (src tgt : Column) : LGraph :=
  match addColumnLineage (addWrite (addRead Graph.empty (tbl r) (some r)) (tbl w)) src tgt with
  | .ok g => g
  | .error _ => Graph.empty
def hEx1 : LGraph := mkHolder "src" "mid" (colOf "src" "a") (colOf "mid" "a")
def hEx2 : LGraph := mkHolder "mid" "tgt" (colOf "mid" "a") (colOf "tgt" "b")

theorem mkHolder_colOut (r w : String) (src tgt : Column) : ColOut (mkHolder r w src tgt) := by
  unfold mkHolder
  have h0 : ColOut (addWrite (addRead Graph.empty (tbl r) (some r)) (tbl w)) :=
    Paths.colOut_addWrite _ _ _ (Paths.colOut_addRead _ _ _ _ Paths.colOut_empty)
  cases h : addColumnLineage (addWrite (addRead Graph.empty (tbl r) (some r)) (tbl w)) src tgt with
  | ok g => exact colOut_addColumnLineage _ _ _ _ h0 h
  | error e => exact Paths.colOut_empty
theorem hEx1_colOut : ColOut hEx1 := mkHolder_colOut _ _ _ _
theorem hEx2_colOut : ColOut hEx2 := mkHolder_colOut _ _ _ _

-- the hypotheses of every implication above are met by a path of `gEx` with two hops
example : [(colOf "src" "a").key, (colOf "mid" "a").key, (colOf "tgt" "b").key] ∈ columnLineage gEx := by decide
example : WF gEx := by decide
example : IsChain gEx [(colOf "src" "a").key, (colOf "mid" "a").key, (colOf "tgt" "b").key] := by decide
example : (colOf "src" "a").key ∈ roots gEx ∧ (colOf "tgt" "b").key ∈ leaves gEx ∧ (colOf "mid" "k").key ∈ leaves gEx := by decide
example : ∀ n ∈ [(colOf "src" "a").key, (colOf "mid" "a").key, (colOf "tgt" "b").key], n.isCol = true :=
  columns_only gEx gEx_colOut _ (by decide)
-- paths_complete: the chain is duplicate‑free, avoids the (empty) visited set and fits the fuel
example : [(colOf "src" "a").key, (colOf "mid" "a").key, (colOf "tgt" "b").key] ∈
    pathsFrom gEx 2 [] (colOf "src" "a").key (colOf "tgt" "b").key :=
  paths_complete gEx 2 [] _ _ [(colOf "mid" "a").key, (colOf "tgt" "b").key] (by decide) (by decide) (by decide) (by simp) (by simp)
-- resolved_single_owner / KeyPay on a stored node
example : ∃ pn, (colOf "mid" "a").parents = [(tbl "mid", pn)] := resolved_single_owner _ "<default>.mid.a" _ rfl
example : gEx.payload (colOf "mid" "a").key = some (.col (colOf "mid" "a")) := by decide
-- build_wf / build_colOut_partial: two statement holders (src → mid, mid → tgt) assembled by the model's `build`
example : ∃ g, Assemble.build Assemble.Prov.none [hEx1, hEx2] = .ok g ∧ WF g ∧ ColOut g ∧
    columnLineage g = [[(colOf "src" "a").key, (colOf "mid" "a").key, (colOf "tgt" "b").key]] := by
  have hb : ∃ g, Assemble.build Assemble.Prov.none [hEx1, hEx2] = .ok g := by
    cases h : Assemble.build Assemble.Prov.none [hEx1, hEx2] with
    | ok g => exact ⟨g, rfl⟩
    | error e =>
      have : (match Assemble.build Assemble.Prov.none [hEx1, hEx2] with | .ok _ => true | .error _ => false) = true := by
        decide +kernel
      rw [h] at this; cases this
  obtain ⟨g, hg⟩ := hb
  refine ⟨g, hg, build_wf _ _ g ?_ hg, build_colOut_partial _ _ g ?_ hg, ?_⟩
  · intro h hh; simp only [List.mem_cons, List.mem_nil_iff, or_false] at hh
    rcases hh with rfl | rfl <;> decide +kernel
  · intro h hh; simp only [List.mem_cons, List.mem_nil_iff, or_false] at hh
    rcases hh with rfl | rfl
    · exact ⟨hEx1_colOut, by decide +kernel⟩
    · exact ⟨hEx2_colOut, by decide +kernel⟩
  · have : (match Assemble.build Assemble.Prov.none [hEx1, hEx2] with
        | .ok g => decide (columnLineage g = [[(colOf "src" "a").key, (colOf "mid" "a").key, (colOf "tgt" "b").key]])
        | .error _ => false) = true := by decide +kernel
    rw [hg] at this; simpa using this
-- a graph where the search on the full graph matters: the table node has HAS_COLUMN edges into the columns, yet no path leaves the columns
example : (gEx.outEdges (.ds (tbl "mid"))).length = 2 := by decide


/-! ## projection onto table lineage -/

section projection
open SqlLineage.Projection SqlLineage.ProjectionFlat SqlLineage.ColumnsExact SqlLineage.Walk SqlLineage.Ast

/-- **fold level, every history**: holders that project are folded into a combined graph that projects (any number of read/write
    and DROP statements, in any order; `ord` is the enumeration order of rename pairs, irrelevant here) -/
theorem fold_projects (ord : List (Node × Node) → List (Node × Node)) (hs : List LGraph) (g : LGraph)
    (hall : ∀ h ∈ hs, HolderOK h) (hf : Assemble.foldAll ord Graph.empty hs = .ok g) : ProjG g :=
  foldAll_proj ord hs _ g projG_empty hall hf

/-- the table edge under a column edge is an edge of the TABLE view (`table_lineage_graph`) -/
theorem projected_edge_in_table_graph (g : LGraph) (hg : ProjG g) (u v : Node) (he : (u, v) ∈ g.edges) (d T : DS)
    (hd : DsEdge u v d T) : (Node.ds d, Node.ds T) ∈ (Assemble.tableGraph g).edges := by
  unfold Assemble.tableGraph
  rw [Graph.mem_edges_subgraph]
  refine ⟨hg u v he d T hd, ?_⟩
  obtain ⟨_, _, h1, h2⟩ := hd
  simp [Node.isDataset, h1, h2]

/-- **every hop of every reported path** lies over an edge of the table graph, in a combined graph that projects: the owners of
    consecutive columns of a path are joined in `table_lineage_graph`, so the table graph connects the first resolved column's
    table to the last column's table along the path -/
theorem path_hops_project_partial (g : LGraph) (hg : ProjG g) (p : List Node) (hp : p ∈ columnLineage g)
    (l : List Node) (a b : Node) (r : List Node) (hsplit : p = l ++ a :: b :: r) (d T : DS) (hd : DsEdge a b d T) :
    (Node.ds d, Node.ds T) ∈ (Assemble.tableGraph g).edges := by
  have hc := path_is_chain g p hp
  rw [hsplit] at hc
  exact projected_edge_in_table_graph g hg a b (IsChain.edge_of_append l a b r hc) d T hd

/-- **the roles along a reported path**: in a well-formed combined graph that projects, for every hop of every reported path
    between table-owned columns, the table owning the hop's source column is a SOURCE or INTERMEDIATE table of the summary and the
    table owning its target column is a TARGET or INTERMEDIATE table — in particular the owner of the path's last column (last hop)
    and the owner of a resolved first column (first hop), as the property words it -/
theorem path_hop_roles_partial (g : LGraph) (hg : ProjG g) (hwf : WF g) (p : List Node) (hp : p ∈ columnLineage g)
    (l : List Node) (a b : Node) (r : List Node) (hsplit : p = l ++ a :: b :: r) (d T : DS) (hd : DsEdge a b d T) :
    (Node.ds d ∈ Assemble.sourceTables g ∨ Node.ds d ∈ Assemble.intermediateTables g) ∧
    (Node.ds T ∈ Assemble.targetTables g ∨ Node.ds T ∈ Assemble.intermediateTables g) :=
  table_edge_roles g hwf _ _ (path_hops_project_partial g hg p hp l a b r hsplit d T hd)

/-- **statement level**: the holder of a flat write statement whose qualifiers are all in scope projects -/
theorem flat_holder_projects_partial (env : Env) (silent : Bool) (s : Stmt) (hp : env.prov.truthy = false)
    (hs : fragStmt env s = true) (hsc : stmtScoped env s = true) :
    ∃ g, analyze env silent s = .ok g ∧ HolderOK g :=
  analyze_holderOK env silent s hp hs hsc

/-- **statement level, explicit column list**: the same for `INSERT INTO T (c1, …, cn) <select>` / `CREATE VIEW T (c1, …, cn) AS
    <select>` (wired by position) -/
theorem flat_cols_holder_projects_partial (env : Env) (silent : Bool) (s : Stmt) (hp : env.prov.truthy = false)
    (hs : fragStmtCols env s = true) (hsc : stmtScoped env s = true) :
    ∃ g, analyze env silent s = .ok g ∧ HolderOK g :=
  analyze_holderOK_cols env silent s hp hs hsc

/-- **statement level, set operation**: the same for INSERT / CTAS / CREATE VIEW over a set operation of any number of flat
    branches, every qualifier in scope of its own branch -/
theorem setop_holder_projects_partial (env : Env) (silent : Bool) (s : Stmt) (hp : env.prov.truthy = false)
    (hs : fragStmtSetop env s = true) (hsc : stmtScopedSetop env s = true) :
    ∃ g, analyze env silent s = .ok g ∧ HolderOK g :=
  analyze_holderOK_setop env silent s hp hs hsc

/-- a statement of one of the three write fragments of `Proofs/ColumnsExact.lean` whose qualifiers are all in scope -/
def StmtOK (env : Env) (s : Stmt) : Prop :=
  ((fragStmt env s = true ∨ fragStmtCols env s = true) ∧ stmtScoped env s = true) ∨
  (fragStmtSetop env s = true ∧ stmtScopedSetop env s = true) ∨
  plainStmt s = true

/-- `StmtOK` as a Boolean, for the correspondence check (`lean/StmtOk.lean` evaluates it on the generated statements; the harness
    then requires the implementation to show NO projection failure on them, known finding or not) -/
def stmtOKb (env : Env) (s : Stmt) : Bool :=
  ((fragStmt env s || fragStmtCols env s) && stmtScoped env s) || (fragStmtSetop env s && stmtScopedSetop env s) || plainStmt s

theorem stmtOKb_iff (env : Env) (s : Stmt) : stmtOKb env s = true ↔ StmtOK env s := by
  unfold stmtOKb StmtOK
  simp only [Bool.or_eq_true, Bool.and_eq_true]
  constructor
  · rintro ((⟨h1 | h1, h2⟩ | h) | h)
    · exact Or.inl ⟨Or.inl h1, h2⟩
    · exact Or.inl ⟨Or.inr h1, h2⟩
    · exact Or.inr (Or.inl h)
    · exact Or.inr (Or.inr h)
  · rintro (⟨h1 | h1, h2⟩ | h | h)
    · exact Or.inl (Or.inl ⟨Or.inl h1, h2⟩)
    · exact Or.inl (Or.inl ⟨Or.inr h1, h2⟩)
    · exact Or.inl (Or.inr h)
    · exact Or.inr h

/-- every holder `analyze` returns for such a statement projects and is well-formed -/
theorem stmtOK_holder (env : Env) (silent : Bool) (s : Stmt) (hp : env.prov.truthy = false) (h : StmtOK env s) (g : LGraph)
    (hg : analyze env silent s = .ok g) : HolderOK g ∧ WF g := by
  rcases h with ⟨h1 | h1, h2⟩ | ⟨h1, h2⟩ | h1
  · obtain ⟨g', hg', hok⟩ := analyze_holderOK env silent s hp h1 h2
    obtain ⟨g'', hg'', hE⟩ := analyze_exact env silent s hp h1
    rw [hg] at hg' hg''; cases hg'; cases hg''; exact ⟨hok, hE.wf⟩
  · obtain ⟨g', hg', hok⟩ := analyze_holderOK_cols env silent s hp h1 h2
    obtain ⟨g'', hg'', hE⟩ := analyze_exact_cols env silent s hp h1
    rw [hg] at hg' hg''; cases hg'; cases hg''; exact ⟨hok, hE.wf⟩
  · obtain ⟨g', hg', hok⟩ := analyze_holderOK_setop env silent s hp h1 h2
    obtain ⟨g'', hg'', hE⟩ := analyze_exact_setop env silent s hp h1
    rw [hg] at hg' hg''; cases hg'; cases hg''; exact ⟨hok, hE.wf⟩
  · exact analyze_holderOK_plain env silent s hp h1 g hg

/-- the environment `Runner.analyzeAll` analyses a statement in -/
def envOf (c : Runner.Config) (p : Runner.Provider) : Env := ⟨c.cfgDefault, c.importDefault, p.view, c.ro, c.revStar⟩

theorem register_base (p : Runner.Provider) (h : LGraph) : (Runner.register p h).base = p.base := by
  unfold Runner.register
  split
  · simp only
    split <;> rfl
  · rfl

theorem stmtOK_prov (env : Env) (pv : ProvView) (s : Stmt) (h : StmtOK env s) : StmtOK { env with prov := pv } s := by
  unfold StmtOK at *
  rw [fragStmt_prov, fragStmtCols_prov, fragStmtSetop_prov, stmtScoped_prov, stmtScopedSetop_prov]
  exact h

theorem analyzeAll_holderOK (c : Runner.Config) : ∀ (ss : List Stmt) (p p' : Runner.Provider) (hs : List LGraph),
    p.base = [] →
    (∀ s ∈ ss, StmtOK (envOf c ⟨[], []⟩) s) →
    Runner.analyzeAll c p ss = .ok (p', hs) → p'.base = [] ∧ ∀ h ∈ hs, HolderOK h ∧ WF h
  | [], p, p', hs, hb, _, he => by
    simp only [Runner.analyzeAll, Except.ok.injEq, Prod.mk.injEq] at he
    obtain ⟨rfl, rfl⟩ := he
    exact ⟨hb, by simp⟩
  | s :: r, p, p', hs, hb, hfrag, he => by
    have hpt : (envOf c p).prov.truthy = false := by simp [envOf, Runner.Provider.view, hb]
    have hsw : envOf c p = { envOf c ⟨[], []⟩ with prov := p.view } := rfl
    have hok : StmtOK (envOf c p) s := by rw [hsw]; exact stmtOK_prov _ _ s (hfrag s (by simp))
    cases hg : analyze (envOf c p) c.silent s with
    | error e =>
      unfold envOf at hg
      simp only [Runner.analyzeAll, hg] at he
      cases he
    | ok g =>
      have hgood := stmtOK_holder (envOf c p) c.silent s hpt hok g hg
      unfold envOf at hg
      simp only [Runner.analyzeAll, hg] at he
      cases hrec : Runner.analyzeAll c (Runner.register p g) r with
      | error e => rw [hrec] at he; cases he
      | ok res =>
        obtain ⟨p2, hs2⟩ := res
        rw [hrec] at he
        simp only [Except.ok.injEq, Prod.mk.injEq] at he
        obtain ⟨rfl, rfl⟩ := he
        obtain ⟨hb2, hall⟩ := analyzeAll_holderOK c r _ _ _ (by rw [register_base]; exact hb)
          (fun x hx => hfrag x (by simp [hx])) hrec
        refine ⟨hb2, ?_⟩
        intro h hh
        rcases List.mem_cons.mp hh with rfl | hh
        · exact hgood
        · exact hall h hh

/-- **script level, end to end**: a script of any number of flat write statements (INSERT without column list / CTAS / CREATE VIEW
    over one SELECT block of base tables, every qualifier in scope), run by the model of `LineageRunner._eval` without metadata,
    yields a combined graph in which every column edge between table-owned columns lies over the table edge of its owners (the
    statements may also carry an explicit column list, `fragStmtCols`, or be built over a set operation of flat branches,
    `fragStmtSetop`, or be plain SELECTs over base tables, DROPs, CREATE TABLE (with column definitions or LIKE), INSERT … VALUES and statements that move no data, `plainStmt`: `StmtOK`) —
    provided the history leaves no unresolved column edge to the tail of `_build_digraph` (with shared unresolved columns the
    clause fails on the unchanged code: finding D11).

    FULL STATEMENT (not proved): the same for every statement of `Frag02`, with a provider, and through the unresolved-column
    tail for histories without shared unresolved columns. -/
theorem script_projects_flat_partial (c : Runner.Config) (ss : List Stmt) (g : LGraph) (hs : List LGraph)
    (hfrag : ∀ s ∈ ss, StmtOK (envOf c ⟨[], []⟩) s)
    (hun : ∀ gf, Assemble.foldAll id Graph.empty hs = .ok gf → Assemble.unresolved (Assemble.tagSelfloops gf) = [])
    (he : Runner.eval c [] ss = .ok (g, hs)) : ProjG g := by
  unfold Runner.eval at he
  cases ha : Runner.analyzeAll c ⟨[], []⟩ ss with
  | error e => rw [ha] at he; cases he
  | ok res =>
    obtain ⟨p', hs'⟩ := res
    rw [ha] at he
    simp only at he
    cases hb : Assemble.build p'.asmView hs' with
    | error e => rw [hb] at he; cases he
    | ok g' =>
      rw [hb] at he
      simp only [Except.ok.injEq, Prod.mk.injEq] at he
      obtain ⟨rfl, rfl⟩ := he
      obtain ⟨_, hall'⟩ := analyzeAll_holderOK c ss _ _ _ rfl hfrag ha
      have hall : ∀ h ∈ hs', HolderOK h := fun h hh => (hall' h hh).1
      cases hf : Assemble.foldAll id Graph.empty hs' with
      | error e =>
        unfold Assemble.build Assemble.buildWith at hb
        rw [hf] at hb; cases hb
      | ok gf => exact build_proj_partial id p'.asmView hs' g' gf hall hf (hun gf hf) hb


/-! #### non‑vacuity and the deviation witness -/

/-- `create table mid as select x.a, x.b as c from src x` -/
def exMid : Stmt :=
  .ctas ["mid"] false false
    (.select false [.mk (.col ["x"] "a") none false, .mk (.col ["x"] "b") (some "c") true]
      [.mk (.table ["src"] (some "x") false) []] none [] none) false

/-- `insert into tgt select mid.a, o.k from mid join other o on mid.a = o.k` -/
def exTgt : Stmt :=
  .insert .insertInto false ["tgt"] none
    (.select false [.mk (.col ["mid"] "a") none false, .mk (.col ["o"] "k") none false]
      [.mk (.table ["mid"] none false) [.mk "join" (.table ["other"] (some "o") false)
        (some (.bin "=" (.col ["mid"] "a") (.col ["o"] "k"))) []]] none [] none) false

/-- `insert into t select foo.x from bar`: the qualifier `foo` names no relation of the FROM clause -/
def exUnscoped : Stmt :=
  .insert .insertInto false ["t"] none
    (.select false [.mk (.col ["foo"] "x") none false] [.mk (.table ["bar"] none false) []] none [] none) false

example : fragStmt {} exMid = true ∧ stmtScoped {} exMid = true := by decide +kernel
example : fragStmt {} exTgt = true ∧ stmtScoped {} exTgt = true := by decide +kernel
example : ∃ g, analyze {} false exTgt = .ok g ∧ HolderOK g :=
  flat_holder_projects_partial {} false exTgt rfl (by decide +kernel) (by decide +kernel)

/-- the hypotheses of `script_projects_flat_partial` hold for the script `[exMid; exTgt]` (no unresolved column edge is left), and
    the conclusion is not empty: the combined graph has the column edge `mid.a → tgt.a` and, under it, the table edge `mid → tgt`;
    likewise `src.a → mid.a` over `src → mid` -/
example : (match Runner.eval {} [] [exMid, exTgt] with
    | .ok (g, hs) =>
      (match Assemble.foldAll id Graph.empty hs with
        | .ok gf => decide (Assemble.unresolved (Assemble.tagSelfloops gf) = [])
        | .error _ => false) &&
      g.hasEdge (.col "<default>.mid.a" (some (tbl "mid"))) (.col "<default>.tgt.a" (some (tbl "tgt"))) &&
      g.hasEdge (.ds (tbl "mid")) (.ds (tbl "tgt")) &&
      g.hasEdge (.col "<default>.src.a" (some (tbl "src"))) (.col "<default>.mid.a" (some (tbl "mid"))) &&
      g.hasEdge (.ds (tbl "src")) (.ds (tbl "mid")) &&
      g.hasEdge (.ds (tbl "other")) (.ds (tbl "tgt"))
    | .error _ => false) = true := by decide +kernel

/-- `insert into tgt (p, q) select mid.a, o.k from mid join other o on mid.a = o.k` -/
def exTgtCols : Stmt :=
  .insert .insertInto false ["tgt"] (some ["p", "q"])
    (.select false [.mk (.col ["mid"] "a") none false, .mk (.col ["o"] "k") none false]
      [.mk (.table ["mid"] none false) [.mk "join" (.table ["other"] (some "o") false)
        (some (.bin "=" (.col ["mid"] "a") (.col ["o"] "k"))) []]] none [] none) false

example : fragStmtCols {} exTgtCols = true ∧ stmtScoped {} exTgtCols = true := by decide +kernel
example : ∃ g, analyze {} false exTgtCols = .ok g ∧ HolderOK g :=
  flat_cols_holder_projects_partial {} false exTgtCols rfl (by decide +kernel) (by decide +kernel)

/-- `create table u as select x.a from src x union all select o.k from other o` -/
def exUnionStmt : Stmt :=
  .ctas ["u"] false false
    (.setop (.mk (.select false [.mk (.col ["x"] "a") none false] [.mk (.table ["src"] (some "x") false) []] none [] none) false)
      [.mk "union all" (.mk (.select false [.mk (.col ["o"] "k") none false] [.mk (.table ["other"] (some "o") false) []]
        none [] none) false)]) false

example : fragStmtSetop {} exUnionStmt = true ∧ stmtScopedSetop {} exUnionStmt = true := by decide +kernel
example : ∃ g, analyze {} false exUnionStmt = .ok g ∧ HolderOK g :=
  setop_holder_projects_partial {} false exUnionStmt rfl (by decide +kernel) (by decide +kernel)

example : ∀ s ∈ [exMid, exTgt, exTgtCols, exUnionStmt], StmtOK (envOf {} ⟨[], []⟩) s := by
  intro s hs
  simp only [List.mem_cons, List.mem_nil_iff, or_false] at hs
  rcases hs with rfl | rfl | rfl | rfl
  · exact Or.inl ⟨Or.inl (by decide +kernel), by decide +kernel⟩
  · exact Or.inl ⟨Or.inl (by decide +kernel), by decide +kernel⟩
  · exact Or.inl ⟨Or.inr (by decide +kernel), by decide +kernel⟩
  · exact Or.inr (Or.inl ⟨by decide +kernel, by decide +kernel⟩)

/-- a plain SELECT, a DROP and a statement that moves no data are admitted too -/
example : ∀ s ∈ [Stmt.query (.select false [.mk (.col [] "a") none false] [.mk (.table ["t"] none false) []] none [] none) false,
    Stmt.drop false false ["mid"], Stmt.noop "use_statement" "use db", Stmt.createTableLike ["t2"] ["s", "t1"],
    Stmt.createTable ["t3"] false [("a", "int"), ("b", "int")], Stmt.insertValues ["t3"] (some ["a", "b"]) [[.lit "1", .lit "2"]]],
    StmtOK (envOf {} ⟨[], []⟩) s := by
  intro s hs
  simp only [List.mem_cons, List.mem_nil_iff, or_false] at hs
  rcases hs with rfl | rfl | rfl | rfl | rfl | rfl <;> exact Or.inr (Or.inr (by decide +kernel))

/-- **deviation witness** (the root cause of findings D32 and K6, on a statement no engine accepts): without `stmtScoped` the
    statement‑level theorem fails — the model, like the code (`Column.to_source_columns` falls back to `Table(qualifier)`,
    models.py:236), reports the column edge `<default>.foo.x → <default>.t.x` although the statement does not read a table `foo` -/
theorem dev_unscoped_qualifier :
    fragStmt {} exUnscoped = true ∧ stmtScoped {} exUnscoped = false ∧
    (match analyze {} false exUnscoped with
      | .ok g => g.hasEdge (.col "<default>.foo.x" (some (tbl "foo"))) (.col "<default>.t.x" (some (tbl "t"))) &&
          !(Assemble.stmtRead g).contains (.ds (tbl "foo")) && (Assemble.stmtRead g).contains (.ds (tbl "bar"))
      | .error _ => false) = true := by decide +kernel


/-! #### the summary roles along the paths of a whole script -/

/-- **script level, the property's wording**: for a script of statements of the three write fragments (qualifiers in scope, no
    metadata, no unresolved column edge left), run by the model of `LineageRunner._eval`: along every reported column path, for every
    hop between table-owned columns, the table owning the source column is a SOURCE or INTERMEDIATE table of the script's summary,
    the table owning the target column is a TARGET or INTERMEDIATE table, and the table graph has the edge between the two -/
theorem script_path_roles_flat_partial (c : Runner.Config) (ss : List Stmt) (g : LGraph) (hs : List LGraph)
    (hfrag : ∀ s ∈ ss, StmtOK (envOf c ⟨[], []⟩) s)
    (hun : ∀ gf, Assemble.foldAll id Graph.empty hs = .ok gf → Assemble.unresolved (Assemble.tagSelfloops gf) = [])
    (he : Runner.eval c [] ss = .ok (g, hs))
    (p : List Node) (hp : p ∈ columnLineage g) (l : List Node) (a b : Node) (r : List Node) (hsplit : p = l ++ a :: b :: r)
    (d T : DS) (hd : DsEdge a b d T) :
    (Node.ds d, Node.ds T) ∈ (Assemble.tableGraph g).edges ∧
    (Node.ds d ∈ Assemble.sourceTables g ∨ Node.ds d ∈ Assemble.intermediateTables g) ∧
    (Node.ds T ∈ Assemble.targetTables g ∨ Node.ds T ∈ Assemble.intermediateTables g) := by
  have hproj := script_projects_flat_partial c ss g hs hfrag hun he
  have hwf : WF g := by
    unfold Runner.eval at he
    cases ha : Runner.analyzeAll c ⟨[], []⟩ ss with
    | error e => rw [ha] at he; cases he
    | ok res =>
      obtain ⟨p', hs'⟩ := res
      rw [ha] at he
      simp only at he
      cases hb : Assemble.build p'.asmView hs' with
      | error e => rw [hb] at he; cases he
      | ok g' =>
        rw [hb] at he
        simp only [Except.ok.injEq, Prod.mk.injEq] at he
        obtain ⟨rfl, rfl⟩ := he
        exact build_wf _ _ _ (fun h hh => ((analyzeAll_holderOK c ss _ _ _ rfl hfrag ha).2 h hh).2) hb
  exact ⟨path_hops_project_partial g hproj p hp l a b r hsplit d T hd,
    path_hop_roles_partial g hproj hwf p hp l a b r hsplit d T hd⟩

end projection

end SqlLineage.Props.C06
