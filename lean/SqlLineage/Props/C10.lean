/-
C10 — total error contract; silent mode skips unsupported statements.

What is proved here is the totality of the MODELLED core (holder operations, statement walk on the typed AST, assembler)
and the neutrality of a statement skipped in silent mode.  `Err.internal site` stands for any exception that is not one of
the library's own (IndexError, KeyError, StopIteration, ValueError, NetworkXError, AssertionError …).

Outside the model, hence outside these theorems (covered by the search of `harness/c10.py`, which is a search, not a proof):
  * the third‑party parser, templater and lexer (text → tree): D15;
  * statements that are not in the typed AST: UPDATE / MERGE / COPY (the model answers `internal "unmodelled:…"` for them) —
    the MERGE arity escape D14 lives there — and the vertica `swap_partitions_between_tables` handler (D13);
  * `_get_column_from_subquery` (runs the sqlparse analyzer on the raw text of a scalar subquery).

Theorem index
  holder operations      `addColumnLineage_internal_iff`, `cleanupItem_internal_iff`, `cleanupItem_total_of_invariant`,
                         `cleanupItem_total_of_len_ne`, `cleanupGroup_errors`, `cleanupGroup_lineage_iff`, `holder_ops_total`
  walk                   `walk_total_partial` (every error of `Walk.analyze` is unsupported / lineage / "None node" /
                         "unmodelled:…"), `walk_total_nonquery`
  assembler              `build_total_rw`, `build_total` (every history, any number of RENAME pairs: D10 repaired), `build_never_errors`
  dispatch / silent      `unsupported_raises_or_skips`, `empty_holder_neutral`, `compose_empty_*`, `empty_holder_skipped`,
                         `analyzeAll_skip`, `silent_skip_neutral` (any non‑final position: structural equality of the combined graph),
                         `silent_skip_neutral_last` (final position: same roles, same column paths, `Ext`‑equal graphs)
-/
import SqlLineage.Props.C01
import SqlLineage.Props.C03
import SqlLineage.Proofs.WalkErrors
import SqlLineage.Proofs.C10Assemble
import SqlLineage.Proofs.C10Ext

namespace SqlLineage.Props.C10
open SqlLineage Ast Walk Holder Graph Assemble
open SqlLineage.Proofs.WalkErrors SqlLineage.Proofs.C10Assemble SqlLineage.Proofs.C10Ext

/-! ### 1. holder operations (`core/holders.py`, `core/parser/__init__.py`) -/

/-- `add_column_lineage(src, tgt)` raises (networkx: `None cannot be a node`) exactly when the target column has no unique
    owner; it has no other failure -/
theorem addColumnLineage_internal_iff (g : LGraph) (src tgt : Column) (e : Err) :
    addColumnLineage g src tgt = .error e ↔ tgt.parent? = none ∧ e = .internal "None node" :=
  addColumnLineage_error_iff g src tgt e

/-- a select item fails iff it has at least one source column and the column it is wired to — `write_columns[idx]` when the
    numbers match, else its own column — has no unique owner -/
theorem cleanupItem_internal_iff (importDefault : String) (tp : DS × String) (grpLen : Nat) (tblGrp : List DObj)
    (g : LGraph) (ci : ColSpec × Nat) (revStar : Nat) (e : Err) :
    cleanupItem importDefault tp grpLen tblGrp g ci revStar = .error e ↔
      ((toSourceColumns importDefault (aliasMapping g tblGrp) ci.1 revStar).isEmpty = false ∧
       (itemTarget tp grpLen g ci).parent? = none ∧ e = .internal "None node") :=
  cleanupItem_error_iff importDefault tp grpLen tblGrp g ci revStar e

/-- the callers never do that while "payload columns reachable through `write_columns` have exactly one parent" holds for
    the graph the item is evaluated on (the item's own column always has its owner: `tgt_col.parent = tgt_tbl`) -/
theorem cleanupItem_total_of_invariant (importDefault : String) (tp : DS × String) (grpLen : Nat) (tblGrp : List DObj)
    (g : LGraph) (ci : ColSpec × Nat) (revStar : Nat) (h : WriteColsOwned g) :
    ∃ g', cleanupItem importDefault tp grpLen tblGrp g ci revStar = .ok g' :=
  cleanupItem_ok_of_invariant importDefault tp grpLen tblGrp g ci revStar h

/-- … and unconditionally when the number of write columns differs from the number of select items (in particular when the
    holder has no target table or no write columns yet): `write_columns[idx]` is guarded by `len(...) == len(col_grp)` -/
theorem cleanupItem_total_of_len_ne (importDefault : String) (tp : DS × String) (grpLen : Nat) (tblGrp : List DObj)
    (g : LGraph) (ci : ColSpec × Nat) (revStar : Nat) (h : (writeColumns g).length ≠ grpLen) :
    ∃ g', cleanupItem importDefault tp grpLen tblGrp g ci revStar = .ok g' :=
  cleanupItem_ok_of_len_ne importDefault tp grpLen tblGrp g ci revStar h

/-- one union group of `end_of_query_cleanup`: `SQLLineageException` for more than one write target (`next(iter(holder.write))`
    is guarded by `if holder.write` and `len(holder.write) > 1`), otherwise only what an item raised -/
theorem cleanupGroup_errors (importDefault : String) (g : LGraph) (colGrp : List ColSpec) (tblGrp : List DObj)
    (revStar : Nat) (e : Err) (h : cleanupGroup importDefault g colGrp tblGrp revStar = .error e) :
    (e = .lineage ∧ 2 ≤ (writeSet g).length) ∨ (e = .internal "None node" ∧ (writeSet g).length = 1) :=
  cleanupGroup_error importDefault g colGrp tblGrp revStar e h

theorem cleanupGroup_lineage_iff (importDefault : String) (g : LGraph) (colGrp : List ColSpec) (tblGrp : List DObj)
    (revStar : Nat) :
    cleanupGroup importDefault g colGrp tblGrp revStar = .error .lineage ↔ 2 ≤ (writeSet g).length :=
  Proofs.WalkErrors.cleanupGroup_lineage_iff importDefault g colGrp tblGrp revStar

/-- **holder operations are total up to the owner‑less target**: every operation of `Model/HolderOps.lean` is a total
    function into graphs (`addReadO`, `addWriteO`, `addCteO`, `addWriteColumns`, `getTableColumns`, `getSourceColumns`,
    `aliasMapping`, `toSourceColumns`, `replaceWildcard`, `expandWildcard` have codomain `LGraph` / a list: every index,
    `next(iter(·))` and dict access of the code is guarded in the model by `head?` / `[i]?` / `getD`) except the three
    `Except`‑valued ones, and those fail only with `lineage` (more than one write target) or with `internal "None node"`,
    the latter only from `addColumnLineage` on an owner‑less target. -/
theorem holder_ops_total (importDefault : String) (g : LGraph) (tables : List DObj) (columns : List ColSpec)
    (barriers : List (Nat × Nat)) (revStar : Nat) (e : Err) :
    (∀ src tgt, addColumnLineage g src tgt = .error e → e = .internal "None node" ∧ tgt.parent? = none) ∧
    (∀ tp grpLen tblGrp ci, cleanupItem importDefault tp grpLen tblGrp g ci revStar = .error e → e = .internal "None node") ∧
    (∀ colGrp tblGrp, cleanupGroup importDefault g colGrp tblGrp revStar = .error e → e = .lineage ∨ e = .internal "None node") ∧
    (endOfQueryCleanup importDefault g tables columns barriers revStar = .error e → e = .lineage ∨ e = .internal "None node") := by
  refine ⟨?_, ?_, ?_, ?_⟩
  · intro src tgt h
    have := (addColumnLineage_error_iff g src tgt e).mp h
    exact ⟨this.2, this.1⟩
  · intro tp grpLen tblGrp ci h
    exact ((cleanupItem_error_iff _ _ _ _ _ _ _ e).mp h).2.2
  · intro colGrp tblGrp h
    rcases cleanupGroup_error _ _ _ _ _ _ h with ⟨h1, _⟩ | ⟨h1, _⟩
    · exact Or.inl h1
    · exact Or.inr h1
  · exact endOfQueryCleanup_error _ _ _ _ _ _ _

/-! ### 2. the statement walk (`extractors/*.py`) -/

/- FULL STATEMENT (not proved):
     theorem walk_total : ∀ env silent s site, analyze env silent s = .error (.internal site) → site.startsWith "unmodelled"
   What is proved: `walk_total_partial` below — the only other internal error the walk can hand up is the
   `"None node"` of `addColumnLineage`; by `cleanupItem_internal_iff` it needs a select item wired to a write column whose
   payload has no unique owner.  MISSING for the full statement: the graph invariant `WriteColsOwned` (stated in
   `Proofs/WalkErrors.lean`) has to be carried through the walk — through `compose` of sub‑holders, `addWriteColumns` on the
   columns inherited from the enclosing holder (which needs: the enclosing holder's target table is the sub‑holder's first
   write target) and `expandWildcard`.  `cleanupItem_total_of_invariant` is the step that would consume it. -/

private theorem exWriteQuery_err (env : Env) (isInsert : Bool) (tgt : List String) (cols : Option (List String)) (q : Query)
    (e : Err) (h : exWriteQuery env isInsert tgt cols q = .error e) : e = .lineage ∨ e = .internal "None node" := by
  unfold exWriteQuery at h
  simp only at h
  split at h
  · cases h
  · rename_i e' he'
    cases h
    exact (exQuery_ok env _ q).out _ he'

private theorem addLineage_owned_ok (g : LGraph) (src : Column) (raw : String) (tp : DS × String) (e : Err)
    (h : addColumnLineage g src (Column.mk1 raw (some tp)) = .error e) : False := by
  have := (addColumnLineage_error_iff g src (Column.mk1 raw (some tp)) e).mp h
  simp [own_parent] at this

private theorem exUpdate_err (env : Env) (ctx : Ctx) (tgt : List String) (sets : List SetClause) (frm : List FromExpr)
    (e : Err) (h : exUpdate env ctx tgt sets frm = .error e) : e = .lineage ∨ e = .internal "None node" := by
  unfold exUpdate at h
  simp only at h
  split at h
  · cases h
  · split at h
    · rename_i e1 he1
      cases h
      exfalso
      refine foldlM_error _ (fun _ => False) ?_ _ _ _ he1
      intro b c e2 hc
      refine foldlM_error _ (fun _ => False) ?_ _ _ _ hc
      intro b2 s2 e3 hs
      exact addLineage_owned_ok _ _ _ _ _ hs
    · exact (sqFrom_ok env _ _ _).out _ h

private theorem foldlM_error_mem {α β : Type} (f : β → α → Except Err β) (P : Err → Prop) :
    ∀ (l : List α), (∀ b a e, a ∈ l → f b a = .error e → P e) → ∀ (b : β) (e : Err), l.foldlM f b = .error e → P e
  | [], _, b, e, h => by simp [List.foldlM_nil, pure, Except.pure] at h
  | a :: l, hf, b, e, h => by
    rw [List.foldlM_cons] at h
    cases hfa : f b a with
    | error x =>
      rw [hfa] at h
      simp only [bind, Except.bind] at h
      cases h; exact hf b a _ (by simp) hfa
    | ok b2 =>
      rw [hfa] at h
      simp only [bind, Except.bind] at h
      exact foldlM_error_mem f P l (fun b a e ha => hf b a e (by simp [ha])) b2 e h

private theorem addLineage_parent_ok (g : LGraph) (src tgt : Column) (tp : DS × String) (e : Err)
    (hp : tgt.parent? = some tp) (h : addColumnLineage g src tgt = .error e) : False := by
  have := (addColumnLineage_error_iff g src tgt e).mp h
  simp [hp] at this

private theorem exMerge_err (env : Env) (tgt : List String) (src : MergeSource) (ups : List (List SetClause))
    (ins : List MergeInsert) (e : Err) (h : exMerge env tgt src ups ins = .error e) :
    e = .lineage ∨ e = .internal "None node" := by
  unfold exMerge at h
  simp only at h
  split at h
  · rename_i e1 he1
    cases h
    split at he1
    · cases he1
    · split at he1
      · rename_i e2 hq
        cases he1
        exact (exQuery_ok env _ _).out _ hq
      · cases he1
  · split at h
    · rename_i e1 he1
      cases h
      exfalso
      refine foldlM_error_mem _ (fun _ => False) _ ?_ _ _ he1
      intro b p e2 hmem hp
      simp only [List.mem_filterMap] at hmem
      obtain ⟨sc, _, hsc⟩ := hmem
      split at hsc
      · cases hsc
        exact addLineage_parent_ok _ _ _ _ _ (own_parent _ _) hp
      · cases hsc
    · exfalso
      refine foldlM_error _ (fun _ => False) ?_ _ _ _ h
      intro b i e2 hi
      refine foldlM_error _ (fun _ => False) ?_ _ _ _ hi
      intro b2 vi e3 hv
      split at hv
      · split at hv
        · rename_i tc htc
          have hmem : tc ∈ List.map (fun c => Column.mk1 (Ident.escapeS (c.getLast?.getD ""))
              (some ((mkTable env tgt none).d, (mkTable env tgt none).printed))) i.cols := List.mem_of_getElem? htc
          simp only [List.mem_map] at hmem
          obtain ⟨c, _, rfl⟩ := hmem
          exact addLineage_parent_ok _ _ _ _ _ (own_parent _ _) hv
        · cases hv
      · cases hv

/-- **every error of the statement analysis is accounted for**: `unsupported` (no extractor claims the statement type),
    `lineage` (more than one write target at `end_of_query_cleanup`), the `"None node"` of `add_column_lineage`, or the
    model's own marker for the three statement kinds it does not cover.  In particular the walk itself — subquery
    discovery, CTE handling, the join crawl, target detection, `_init_holder` — has no failure of its own: by structural
    induction over the whole mutual walk (`Proofs/WalkErrors.lean`) every error is handed up unchanged from
    `end_of_query_cleanup`. -/
theorem walk_total_partial (env : Env) (silent : Bool) (s : Stmt) (e : Err) (h : analyze env silent s = .error e) :
    e = .unsupported ∨ e = .lineage ∨ e = .internal "None node" := by
  unfold analyze at h
  split at h
  · split at h
    · cases h
    · cases h; exact Or.inl rfl
  · split at h
    · exact Or.inr (by rcases (exQuery_ok env _ _).out _ h with h | h <;> simp [h])
    · exact Or.inr (by rcases exWriteQuery_err _ _ _ _ _ _ h with h | h <;> simp [h])
    · exact Or.inr (by rcases exWriteQuery_err _ _ _ _ _ _ h with h | h <;> simp [h])
    · exact Or.inr (by rcases exWriteQuery_err _ _ _ _ _ _ h with h | h <;> simp [h])
    all_goals first
      | (cases h; done)
      | (cases h; exact Or.inl rfl)
      | exact Or.inr (by rcases exUpdate_err _ _ _ _ _ _ h with h | h <;> simp [h])
      | exact Or.inr (by rcases exMerge_err _ _ _ _ _ _ h with h | h <;> simp [h])

/-- statements that are not queries and carry no query are total outright: no internal error of any kind -/
def nonQuery : Stmt → Bool
  | .insertValues .. | .createTable .. | .createTableLike .. | .drop .. | .alterRename .. | .renameTable .. | .noop ..
  | .unsupported _ => true
  | _ => false

theorem walk_total_nonquery (env : Env) (silent : Bool) (s : Stmt) (hs : nonQuery s = true) (e : Err)
    (h : analyze env silent s = .error e) : e = .unsupported := by
  unfold analyze at h
  split at h
  · split at h
    · cases h
    · cases h; rfl
  · cases s <;> simp [nonQuery] at hs <;> first | (cases h; done) | (cases h; rfl)


/-! ### 3. the assembler (`SQLLineageHolder._build_digraph`) on table‑level statement holders -/

open AStmt in
/-- DROP/RENAME‑free histories always assemble (from `Props.C03.build_total`) -/
theorem build_total_rw (ss : List AStmt) (hrw : C03.RWOnly ss) : ∃ G, AStmt.build ss = .ok G :=
  C03.build_total ss hrw

/-- no RENAME statement of the history carries more than one pair (the hypothesis the totality theorem NEEDED before the
    repair of D10; kept for `build_total_single_rename`, now a corollary) -/
def SingleRename (ss : List AStmt.AStmt) : Prop := ∀ ps, AStmt.AStmt.rename ps ∈ ss → ps.length ≤ 1

private theorem foldAll_ok : ∀ (ss : List AStmt.AStmt) (g : LGraph), NoCols g →
    ∃ g', foldAll id g (ss.map AStmt.holderOf) = .ok g' ∧ NoCols g'
  | [], g, hg => ⟨g, rfl, hg⟩
  | s :: r, g, hg => by
    obtain ⟨g1, h1⟩ := C03.foldStep_total id g (AStmt.holderOf s)
    have hg1 : NoCols g1 := noCols_foldStep hg (noCols_holderOf s) h1
    obtain ⟨g', h', hn'⟩ := foldAll_ok r g1 hg1
    exact ⟨g', by simp only [List.map_cons, foldAll, h1, h'], hn'⟩

/-- **the assembler is total on table‑level statement holders** (D10 repaired): EVERY history of read/write, DROP and
    RENAME statements — any number of pairs per RENAME — assembles.  DROP never fails, RENAME never fails
    (`Props.C03.foldStep_total`: the statement's RENAME edges are removed before relabelling, and the degree is only looked
    up for a present node), the read/write branch cannot fail, and the tail of `_build_digraph` (unresolved columns:
    `remove_edge`) has nothing to do on table‑level holders. -/
theorem build_total (ss : List AStmt.AStmt) : ∃ G, AStmt.build ss = .ok G := by
  obtain ⟨g, hg, hn⟩ := foldAll_ok ss Graph.empty noCols_empty
  refine ⟨tagSelfloops g, ?_⟩
  simp only [AStmt.build, Assemble.build, buildWith, hg]
  exact tail_noCols _ g hn.nodes

theorem build_total_single_rename (ss : List AStmt.AStmt) (_h : SingleRename ss) : ∃ G, AStmt.build ss = .ok G :=
  build_total ss

/-- the assembler never returns an error on such histories -/
theorem build_never_errors (ss : List AStmt.AStmt) (e : Err) : AStmt.build ss ≠ .error e := by
  obtain ⟨G, hG⟩ := build_total ss
  rw [hG]; intro h; cases h

/-- the D10 shape (two pairs, the second renames onto the first's old name) used to end in the `NetworkXError` of
    `remove_edge`; it now assembles -/
theorem multi_rename_fixed :
    ¬ SingleRename [.rename [("b", "a"), ("c", "b")]] ∧
    (match AStmt.build [.rename [("b", "a"), ("c", "b")]] with | .ok _ => true | _ => false) = true := by
  constructor
  · intro h; have := h [("b", "a"), ("c", "b")] (by simp); simp at this
  · decide

/-! ### 4. unsupported statement types; silent mode -/

/-- a statement whose type no extractor claims raises `UnsupportedStatementException`, or — in silent mode — yields the empty
    holder (`analyzer.py:60‑78`, from `Props.C01.dispatch_total`) -/
theorem unsupported_raises_or_skips (env : Env) (s : Stmt) (h : dispatch (stmtType s) = none) :
    analyze env false s = .error .unsupported ∧ analyze env true s = .ok Graph.empty :=
  C01.dispatch_total env s h

theorem unsupported_stmt_dispatch (x : String) : dispatch (stmtType (.unsupported x)) = none := by
  show dispatch "<unsupported>" = none
  decide

/-- **`empty_holder_neutral`**: the empty holder never makes the fold fail and only composes `∅` onto the graph … -/
theorem empty_holder_neutral (ord : List (Node × Node) → List (Node × Node)) (g : LGraph) :
    foldStep ord g Graph.empty = .ok (g.compose Graph.empty) :=
  foldStep_empty ord g

/-- … and `nx.compose(g, ∅)` is `g` for every observation: the node list, the edge list and every attribute read -/
theorem compose_empty (g : LGraph) :
    (g.compose Graph.empty).nodes = g.nodes ∧ (g.compose Graph.empty).edges = g.edges ∧
    (∀ n t, (g.compose Graph.empty).tag n t = g.tag n t) ∧ (∀ u v, (g.compose Graph.empty).ety u v = g.ety u v) ∧
    (∀ u v, (g.compose Graph.empty).idx u v = g.idx u v) ∧ (∀ n, (g.compose Graph.empty).payload n = g.payload n) :=
  ⟨compose_empty_nodes g, compose_empty_edges g, compose_empty_tag g, compose_empty_ety g, compose_empty_idx g,
   compose_empty_payload g⟩

/-- an empty holder registers no session metadata (`runner.py:205‑211`: `if write := stmt_holder.write`) -/
theorem empty_holder_registers_nothing (p : Runner.Provider) : Runner.register p Graph.empty = p := rfl

/-- the holder list of a script with a skipped statement: the other statements' holders, unchanged (same provider states,
    hence same session metadata), with the empty holder at the statement's position -/
theorem analyzeAll_skip (c : Runner.Config) (hc : c.silent = true) (x : String) :
    ∀ (a b : List Stmt) (p : Runner.Provider),
      Runner.analyzeAll c p (a ++ .unsupported x :: b) =
        (match Runner.analyzeAll c p (a ++ b) with
          | .error e => .error e
          | .ok (p', hs) => .ok (p', hs.take a.length ++ Graph.empty :: hs.drop a.length))
  | [], b, p => by
    have hu : ∀ env, analyze env c.silent (.unsupported x) = .ok Graph.empty := by
      intro env; rw [hc]; exact (C01.dispatch_total env _ (unsupported_stmt_dispatch x)).2
    simp only [List.nil_append, Runner.analyzeAll, hu, empty_holder_registers_nothing, List.length_nil, List.take_zero,
      List.drop_zero]
    cases Runner.analyzeAll c p b with
    | error e => rfl
    | ok r => rfl
  | s :: a, b, p => by
    simp only [List.cons_append, Runner.analyzeAll]
    split
    · rfl
    · rename_i h hh
      rw [analyzeAll_skip c hc x a b _]
      cases Runner.analyzeAll c (Runner.register p h) (a ++ b) with
      | error e => rfl
      | ok r => simp

theorem analyzeAll_length (c : Runner.Config) : ∀ (ss : List Stmt) (p p' : Runner.Provider) (hs : List LGraph),
    Runner.analyzeAll c p ss = .ok (p', hs) → hs.length = ss.length
  | [], p, p', hs, h => by simp only [Runner.analyzeAll] at h; cases h; rfl
  | s :: r, p, p', hs, h => by
    simp only [Runner.analyzeAll] at h
    split at h
    · cases h
    · split at h
      · cases h
      · rename_i hh p1 hs1 h1
        cases h
        simp [analyzeAll_length c r _ _ _ h1]

/-- **`silent_skip_neutral`**: in silent mode a statement of an unsupported type, at any position that is not the last one,
    leaves the combined graph of the script EXACTLY as it is without the statement (structural equality of the graph —
    hence of every role set, column path and export computed from it); an error of another statement is the same error.
    The per‑statement holder list differs only by the empty holder at the statement's position (`analyzeAll_skip`). -/
theorem silent_skip_neutral (c : Runner.Config) (hc : c.silent = true) (md : List (String × List String))
    (a : List Stmt) (x : String) (b : List Stmt) (hb : b ≠ []) :
    (match Runner.eval c md (a ++ [.unsupported x] ++ b) with | .ok r => Except.ok r.1 | .error e => .error e) =
    (match Runner.eval c md (a ++ b) with | .ok r => Except.ok r.1 | .error e => .error e) := by
  simp only [Runner.eval, List.append_assoc, List.singleton_append]
  rw [analyzeAll_skip c hc x a b]
  cases hab : Runner.analyzeAll c ⟨md, []⟩ (a ++ b) with
  | error e => rfl
  | ok r =>
    obtain ⟨p', hs⟩ := r
    simp only
    have hlen := analyzeAll_length c _ _ _ _ hab
    have hdrop : hs.drop a.length ≠ [] := by
      intro h0
      have := congrArg List.length h0
      simp only [List.length_drop, List.length_nil, hlen, List.length_append] at this
      cases b with
      | nil => exact hb rfl
      | cons _ _ => simp at this
    match hd : hs.drop a.length with
    | [] => exact absurd hd hdrop
    | h :: t =>
      have hsplit : hs = hs.take a.length ++ h :: t := by rw [← hd]; exact (List.take_append_drop _ _).symm
      have hfold : foldAll id Graph.empty (hs.take a.length ++ Graph.empty :: h :: t) = foldAll id Graph.empty hs := by
        rw [foldAll_skip]; rw [← hsplit]
      simp only [Assemble.build, buildWith, hfold]
      cases foldAll id Graph.empty hs with
      | error e => rfl
      | ok g =>
        simp only
        cases resolveAll p'.asmView (tagSelfloops g) (unresolved (tagSelfloops g)) <;> rfl

/-- the fold-level form of the last position: the statement fold ends in `nx.compose(G, ∅)` -/
theorem silent_skip_fold_last (c : Runner.Config) (hc : c.silent = true) (p : Runner.Provider)
    (a : List Stmt) (x : String) :
    (match Runner.analyzeAll c p (a ++ [.unsupported x]) with
      | .error e => Except.error e
      | .ok (_, hs) => foldAll id Graph.empty hs) =
    (match Runner.analyzeAll c p a with
      | .error e => Except.error e
      | .ok (_, hs) => (match foldAll id Graph.empty hs with | .ok G => .ok (G.compose Graph.empty) | .error e => .error e)) := by
  have := analyzeAll_skip c hc x a [] p
  simp only [List.append_nil] at this
  rw [this]
  cases hab : Runner.analyzeAll c p a with
  | error e => rfl
  | ok r =>
    obtain ⟨p', hs⟩ := r
    have hlen := analyzeAll_length c _ _ _ _ hab
    simp only [← hlen, List.take_length, List.drop_length]
    exact foldAll_skip_last id hs Graph.empty

/-- the observable results of a combined graph: the three role sets and the column lineage paths (any flag setting) -/
def SameResults (g g' : LGraph) : Prop :=
  sourceTables g = sourceTables g' ∧ targetTables g = targetTables g' ∧ intermediateTables g = intermediateTables g' ∧
  (∀ a b, Paths.columnLineage g a b = Paths.columnLineage g' a b) ∧ Ext g g'

theorem sameResults_of_ext {g g' : LGraph} (h : Ext g g') : SameResults g g' :=
  ⟨(ext_roles h).1, (ext_roles h).2.1, (ext_roles h).2.2, fun a b => ext_columnLineage h a b, h⟩

private theorem build_eq_tail (prov : Prov) (hs : List LGraph) :
    Assemble.build prov hs = (match foldAll id Graph.empty hs with | .error e => .error e | .ok g => tail prov g) := by
  unfold Assemble.build buildWith tail
  cases foldAll id Graph.empty hs <;> rfl

/-- **`silent_skip_neutral`, last position**: in silent mode a trailing statement of an unsupported type leaves every
    observable result of the script as it is without the statement: the same error, or combined graphs with the same node
    and edge lists, tag reads and key objects — hence the same source / target / intermediate tables and the same column
    lineage paths. -/
theorem silent_skip_neutral_last (c : Runner.Config) (hc : c.silent = true) (md : List (String × List String))
    (a : List Stmt) (x : String) :
    (match Runner.eval c md (a ++ [.unsupported x]), Runner.eval c md a with
      | .ok r, .ok r' => SameResults r.1 r'.1
      | .error e, .error e' => e = e'
      | _, _ => False) := by
  have hsk := analyzeAll_skip c hc x a [] ⟨md, []⟩
  simp only [List.append_nil] at hsk
  simp only [Runner.eval, hsk]
  cases hab : Runner.analyzeAll c ⟨md, []⟩ a with
  | error e => simp
  | ok r =>
    obtain ⟨p', hs⟩ := r
    have hlen := analyzeAll_length c _ _ _ _ hab
    simp only [← hlen, List.take_length, List.drop_length, build_eq_tail, foldAll_skip_last]
    cases hf : foldAll id Graph.empty hs with
    | error e => simp
    | ok G =>
      simp only
      have ht := ext_tail p'.asmView (ext_compose_empty G)
      cases h1 : tail p'.asmView (G.compose Graph.empty) with
      | error e1 =>
        cases h2 : tail p'.asmView G with
        | error e2 => rw [h1, h2] at ht; exact ht
        | ok g2 => rw [h1, h2] at ht; exact ht.elim
      | ok g1 =>
        cases h2 : tail p'.asmView G with
        | error e2 => rw [h1, h2] at ht; exact ht.elim
        | ok g2 => rw [h1, h2] at ht; exact sameResults_of_ext ht


/-! ### 5. non‑vacuity -/

/-- a script of three statements with an unsupported one in the middle: silent mode reports `b → a` only … -/
example :
    (match Runner.eval { silent := true } []
        ([.insert .insertInto false ["a"] none (.select false [.mk (.star []) none false] [.mk (.table ["b"] none false) []] none [] none) false] ++
         [.unsupported "vacuum t"] ++
         [.drop false false ["zz"]]) with
      | .ok r => ((sourceTables r.1).length, (targetTables r.1).length, r.2.length)
      | .error _ => (99, 99, 99)) = (1, 1, 3) := by decide

/-- … and non‑silent mode raises `unsupported` -/
example :
    (match Runner.eval { silent := false } []
        [.insert .insertInto false ["a"] none (.select false [.mk (.star []) none false] [.mk (.table ["b"] none false) []] none [] none) false,
         .unsupported "vacuum t"] with
      | .error .unsupported => true
      | _ => false) = true := by decide

/-- the `lineage` error of `end_of_query_cleanup` is reachable in the holder model (two write targets) -/
example : (match cleanupGroup "<default>" (addWrite (addWrite Graph.empty (.table "s" "a")) (.table "s" "b")) [] [] with
    | .error .lineage => true | _ => false) = true := by decide

/-- and so is the owner‑less target of `add_column_lineage` -/
example : addColumnLineage Graph.empty (Column.mk1 "x" none) (Column.mk1 "y" none) = .error (.internal "None node") := rfl

example : SingleRename [.rw ["a"] (some "b"), .rename [("b", "c")], .drop "a", .rename []] := by
  intro ps h; simp at h; rcases h with rfl | rfl <;> simp

end SqlLineage.Props.C10
