/-
C10 — total error contract; silent mode (bootstrap stub, replaced below)
-/
import SqlLineage.Props.C01
import SqlLineage.Props.C03

namespace SqlLineage.Props.C10
open SqlLineage Ast Walk

theorem unsupported_raises_or_skips (env : Env) (s : Stmt) (h : dispatch (stmtType s) = none) :
    analyze env false s = .error .unsupported ∧ analyze env true s = .ok Graph.empty :=
  C01.dispatch_total env s h

end SqlLineage.Props.C10
