/-
C07 — lineage is invariant under layout, comments, letter case, quoting of lower-case identifiers and trailing semicolons.

What is proved here, for ALL inputs, is the invariance of the layers the extractors put between the parser's tree and
their own logic (sqlfluff's lexer and parser are not modelled — DESIGN §3; the step from text to tree, and everything
between these layers and the result, is covered by the metamorphic differential of `harness/c07.py`):

  §1  filtering      `list_child_segments` (both branches), `extract_identifier`, merge's `segments[i + 1]`,
                     `SqlFluffTable.of` (repaired, D40): whitespace / comment / meta segments inserted between the children
                     of a segment — or at every depth of the tree (`strip`) — never change what the extractors see
  §2  keywords       `raw_upper in [...]` does not depend on the letter case of `raw`, for every keyword of the
                     regenerated tables `Gen.Dispatch.keywords*`
  §3  identifiers    `escape_identifier_name`: unquoted names are case-insensitive; a lower-case quote-free name and its
                     quoted form (each quote character of `Gen.Const.quoteChars`, and brackets) normalise alike
  §4  rendering      the model's statement analysis depends on the keyword case of the rendering only through rendered
                     raw texts (subquery identities, display names of un-aliased expressions)
  §5  semicolons     `helpers.split` drops `;`-only and comment-only pieces: trailing semicolons add no statement
-/
import SqlLineage.Model.Segments
import SqlLineage.Model.Stmt
import SqlLineage.Model.Assemble
import SqlLineage.Spec.Tables
import SqlLineage.Gen.Dispatch
import SqlLineage.Proofs.Ident

namespace SqlLineage.Props.C07
open SqlLineage SqlLineage.Segments

/-! ## §1 filtering -/

private theorem toSeg_flags (n : Noise) :
    (n.toSeg.isWhitespace || n.toSeg.isComment || n.toSeg.isMeta) = true ∧ n.toSeg.children = [] := by
  cases n with
  | mk k r => cases k <;> exact ⟨rfl, rfl⟩

private theorem toSeg_negligible (n : Noise) : isNegligible n.toSeg = true := by
  have h := (toSeg_flags n).1
  unfold isNegligible
  rw [h]; rfl

private theorem toSeg_type (n : Noise) : n.toSeg.type = n.kind.typeName := by
  cases n with
  | mk k r => cases k <;> rfl

private theorem toSeg_type_ne (n : Noise) (t : String)
    (ht : t ∉ ["whitespace", "newline", "inline_comment", "block_comment", "comment", "indent", "dedent", "placeholder",
      "template_loop", "end_of_file"]) : (n.toSeg.type == t) = false := by
  rw [toSeg_type]
  cases n with
  | mk k r =>
    simp only [List.mem_cons, List.not_mem_nil, or_false, not_or] at ht
    cases k <;> simp [NoiseKind.typeName] <;> (intro h; subst h; simp at ht)

/-- a filter that rejects every inserted segment does not see the insertion -/
private theorem filter_interleave (p : Seg → Bool) (ns : Nat → List Seg) (hp : ∀ i, ∀ x ∈ ns i, p x = false) :
    ∀ (l : List Seg) (i : Nat), (interleave ns i l).filter p = l.filter p
  | [], i => by
    simp only [interleave, List.filter_nil]
    exact List.filter_eq_nil_iff.mpr (fun x hx => by simp [hp i x hx])
  | c :: r, i => by
    simp only [interleave, List.filter_append, List.filter_cons]
    rw [List.filter_eq_nil_iff.mpr (fun x hx => by simp [hp i x hx]), filter_interleave p ns hp r (i + 1)]
    rfl

private theorem flatMap_interleave {β : Type} (f : Seg → List β) (ns : Nat → List Seg) (hf : ∀ i, ∀ x ∈ ns i, f x = []) :
    ∀ (l : List Seg) (i : Nat), (interleave ns i l).flatMap f = l.flatMap f
  | [], i => by
    simp only [interleave, List.flatMap_nil]
    exact List.flatMap_eq_nil_iff.mpr (fun x hx => hf i x hx)
  | c :: r, i => by
    simp only [interleave, List.flatMap_append, List.flatMap_cons]
    rw [List.flatMap_eq_nil_iff.mpr (fun x hx => hf i x hx), flatMap_interleave f ns hf r (i + 1)]
    rfl

private theorem any_interleave (p : Seg → Bool) (ns : Nat → List Seg) (hp : ∀ i, ∀ x ∈ ns i, p x = false) :
    ∀ (l : List Seg) (i : Nat), (interleave ns i l).any p = l.any p
  | [], i => by
    simp only [interleave, List.any_nil]
    exact List.any_eq_false.mpr (fun x hx => by simp [hp i x hx])
  | c :: r, i => by
    simp only [interleave, List.any_append, List.any_cons]
    rw [List.any_eq_false.mpr (fun x hx => by simp [hp i x hx]), any_interleave p ns hp r (i + 1)]
    rfl

private theorem noise_mem {ns : Nat → List Noise} {i : Nat} {x : Seg} (hx : x ∈ (ns i).map Noise.toSeg) :
    ∃ n : Noise, x = n.toSeg := by
  obtain ⟨n, _, e⟩ := List.mem_map.mp hx
  exact ⟨n, e.symm⟩

private theorem emit_toSeg (n : Noise) : emit n.toSeg = [] := by
  unfold emit keepTypes
  have h1 := toSeg_type_ne n "column_reference" (by decide)
  have h2 := toSeg_type_ne n "column_definition" (by decide)
  have hc : (["column_reference", "column_definition"].contains n.toSeg.type) = false := by
    simp only [List.contains_cons, List.contains_nil, Bool.or_false]
    rw [h1, h2]; rfl
  rw [hc, (toSeg_flags n).2]; rfl

private theorem insertNoise_fields (ns : Nat → List Noise) (s : Seg) :
    (insertNoise ns s).type = s.type ∧ (insertNoise ns s).raw = s.raw ∧
    (insertNoise ns s).children = interleave (fun i => (ns i).map Noise.toSeg) 0 s.children := by
  cases s; exact ⟨rfl, rfl, rfl⟩

/-- **whitespace, comments and meta segments between the children of a segment are invisible to `list_child_segments`** —
    for every segment, every insertion (any number of segments, at any position, of any of the lexer's layout / comment /
    meta kinds, with any text) and both values of `check_bracketed`; covers the plain branch (utils.py:219), the
    set-expression branch (:204-205) and the bracketed branch with `iter_segments(expanding=["expression"],
    pass_through=True)` (:207-217). -/
theorem negligible_filter (ns : Nat → List Noise) (s : Seg) (cb : Bool) :
    listChildSegments (insertNoise ns s) cb = listChildSegments s cb := by
  obtain ⟨ht, _, hk⟩ := insertNoise_fields ns s
  have hneg : ∀ i, ∀ x ∈ (ns i).map Noise.toSeg, (!isNegligible x) = false := by
    intro i x hx; obtain ⟨n, e⟩ := noise_mem hx; subst e; simp [toSeg_negligible]
  have hset : ∀ i, ∀ x ∈ (ns i).map Noise.toSeg, (x.type == "set_expression") = false := by
    intro i x hx; obtain ⟨n, e⟩ := noise_mem hx; subst e; exact toSeg_type_ne n _ (by decide)
  have hexp : ∀ i, ∀ x ∈ (ns i).map Noise.toSeg,
      (if isType ["expression"] x then iter1 ["expression"] x else [x]).flatMap emit = [] := by
    intro i x hx; obtain ⟨n, e⟩ := noise_mem hx; subst e
    have : isType ["expression"] n.toSeg = false := by
      unfold isType
      simp only [List.contains_cons, List.contains_nil, Bool.or_false]
      exact toSeg_type_ne n _ (by decide)
    simp [this, emit_toSeg]
  unfold listChildSegments isSetExpression iter2
  rw [ht, hk]
  simp only [List.flatMap_assoc]
  rw [filter_interleave _ _ hneg, filter_interleave _ _ hset, any_interleave _ _ hset,
    flatMap_interleave _ _ hexp]

/-- non-vacuity: a `bracketed` segment with an `expression` child, noise at three positions -/
example :
    let col := Seg.node "column_reference" [Seg.leaf "identifier" "a"]
    let fn := Seg.node "function" [Seg.leaf "function_name" "f", Seg.node "function_contents" []]
    let s := Seg.node "bracketed" [Seg.leaf "symbol" "(", Seg.node "expression" [col, Seg.leaf "symbol" "+", fn],
      Seg.leaf "symbol" ")"]
    let ns : Nat → List Noise := fun i =>
      if i == 1 then [⟨.blockComment, "/*c;*/"⟩, ⟨.whitespace, " "⟩] else if i == 3 then [⟨.newline, "\n"⟩, ⟨.dedent, ""⟩] else []
    (insertNoise ns s).children.length = 7 ∧ ((listChildSegments s).map Seg.type) = ["column_reference", "function_name", "function_contents"] := by
  decide

/-- `extract_identifier` (the alias of an alias expression, the name of a CTE …) -/
theorem extractIdentifier_noise (ns : Nat → List Noise) (s : Seg) :
    extractIdentifier (insertNoise ns s) = extractIdentifier s := by
  unfold extractIdentifier; rw [negligible_filter]

/-- merge.py:109 `segments[i + 1]`: the successor is taken in the FILTERED list, so noise after `USING (…)` cannot be
    mistaken for the alias -/
theorem nextSegment_noise (ns : Nat → List Noise) (s : Seg) (i : Nat) :
    nextSegment (insertNoise ns s) i = nextSegment s i := by
  unfold nextSegment; rw [negligible_filter]

/-- `SqlFluffTable.of` with the repair D40: schema parts and table name do not depend on noise between the parts -/
theorem tableParts_noise (ns : Nat → List Noise) (t : Seg) : tableParts (insertNoise ns t) = tableParts t := by
  obtain ⟨ht, hr, hk⟩ := insertNoise_fields ns t
  have hflag : ∀ i, ∀ x ∈ (ns i).map Noise.toSeg, (!(x.isWhitespace || x.isComment || x.isMeta)) = false := by
    intro i x hx; obtain ⟨n, e⟩ := noise_mem hx; subst e; simp [(toSeg_flags n).1]
  unfold tableParts tablePartsOf
  rw [hk, filter_interleave _ _ hflag, ht, hr]

/-- D40 (the code before the repair counted positions over the raw child list): a blank after the dot of `s.t` makes the
    blank the table name.  T-SQL's grammar admits such gaps; replayed on the real code by `harness/c07.py`. -/
theorem dev_D40 :
    let t := Seg.node "table_reference" [Seg.leaf "identifier" "s", Seg.leaf "symbol" ".", Seg.leaf "identifier" "t"]
    let ns : Nat → List Noise := fun i => if i == 2 then [⟨.whitespace, " "⟩] else []
    tablePartsRaw t = (["s"], "t") ∧ tablePartsRaw (insertNoise ns t) = (["s"], " ") ∧
    tableParts (insertNoise ns t) = (["s"], "t") := by decide

/-! ### noise at every depth -/

private theorem stripL_eq : ∀ l : List Seg, stripL l = (l.filter (fun s => !isNoise s)).map strip
  | [] => by simp [stripL]
  | s :: r => by
    rw [stripL, stripL_eq r]
    cases h : isNoise s <;> simp [h]

private theorem strip_fields (s : Seg) :
    (strip s).type = s.type ∧ ((s.type == "symbol") = true → (strip s).raw = s.raw) ∧ (strip s).isWhitespace = s.isWhitespace ∧
    (strip s).isComment = s.isComment ∧ (strip s).isMeta = s.isMeta ∧ (strip s).children = stripL s.children := by
  cases s with
  | mk t r w c m kids =>
    refine ⟨rfl, ?_, rfl, rfl, rfl, rfl⟩
    intro h
    simp only [Seg.type] at h
    simp [strip, Seg.raw, h]

private theorem negl_strip (s : Seg) : isNegligible (strip s) = isNegligible s := by
  obtain ⟨h1, h2, h3, h4, h5, _⟩ := strip_fields s
  unfold isNegligible; rw [h1, h3, h4, h5]
  cases hs : (s.type == "symbol")
  · simp
  · rw [h2 hs]

private theorem noise_negl {s : Seg} (h : isNoise s = true) : isNegligible s = true := by
  unfold isNoise at h
  simp only [Bool.and_eq_true] at h
  unfold isNegligible
  rw [h.1.1]; rfl

private theorem noise_type {s : Seg} (h : isNoise s = true) : reservedTypes.contains s.type = false := by
  unfold isNoise at h
  simp only [Bool.and_eq_true, Bool.not_eq_true'] at h
  exact h.2

private theorem noise_leaf {s : Seg} (h : isNoise s = true) : s.children = [] := by
  unfold isNoise at h
  simp only [Bool.and_eq_true, List.isEmpty_iff] at h
  exact h.1.2

/-- the plain filter commutes with stripping -/
private theorem filter_strip (l : List Seg) :
    (l.filter (fun s => !isNegligible s)).map strip = (stripL l).filter (fun s => !isNegligible s) := by
  rw [stripL_eq, List.filter_map, List.filter_filter]
  congr 1
  apply List.filter_congr
  intro s _
  simp only [Function.comp, negl_strip]
  cases hn : isNoise s
  · simp
  · simp [noise_negl hn]

private theorem emit_strip (g : Seg) : (emit g).map strip = emit (strip g) := by
  obtain ⟨h1, _, _, _, _, h6⟩ := strip_fields g
  unfold emit
  rw [h1, h6]
  split
  · rfl
  · exact filter_strip g.children

private theorem emit_noise {g : Seg} (h : isNoise g = true) : emit g = [] := by
  have ht := noise_type h
  unfold emit
  have : keepTypes.contains g.type = false := by
    unfold reservedTypes at ht
    simp only [List.contains_cons, List.contains_nil, Bool.or_false, Bool.or_eq_false_iff] at ht
    unfold keepTypes
    simp only [List.contains_cons, List.contains_nil, Bool.or_false, Bool.or_eq_false_iff]
    exact ⟨ht.2.2.1, ht.2.2.2⟩
  rw [this, noise_leaf h]; rfl

/-- a per-child expansion that commutes with stripping and yields nothing for noise commutes with stripping the list -/
private theorem flatMap_strip (H : Seg → List Seg) (h1 : ∀ c, (H c).map strip = H (strip c))
    (h2 : ∀ c, isNoise c = true → H c = []) (l : List Seg) : (l.flatMap H).map strip = (stripL l).flatMap H := by
  rw [stripL_eq, List.flatMap_map, List.map_flatMap]
  induction l with
  | nil => rfl
  | cons c r ih =>
    rw [List.flatMap_cons, List.filter_cons]
    cases hn : isNoise c
    · simp only [Bool.not_false, if_true, List.flatMap_cons]; rw [ih, h1]
    · simp only [Bool.not_true, Bool.false_eq_true, if_false]; rw [ih, h2 c hn]; rfl

private theorem isType_noise {c : Seg} (h : isNoise c = true) : isType ["expression"] c = false := by
  have ht := noise_type h
  unfold reservedTypes at ht
  simp only [List.contains_cons, List.contains_nil, Bool.or_false, Bool.or_eq_false_iff] at ht
  unfold isType
  simp only [List.contains_cons, List.contains_nil, Bool.or_false]
  exact ht.2.1

private theorem isType_strip (c : Seg) : isType ["expression"] (strip c) = isType ["expression"] c := by
  unfold isType; rw [(strip_fields c).1]

/-- innermost level of the bracketed branch: one element of `iter1` -/
private def G (d : Seg) : List Seg := (if isType ["expression"] d then iter0 d else [d]).flatMap emit
/-- outer level: one element of `iter2` -/
private def F (c : Seg) : List Seg := (if isType ["expression"] c then iter1 ["expression"] c else [c]).flatMap emit

private theorem G_strip (d : Seg) : (G d).map strip = G (strip d) := by
  unfold G
  rw [isType_strip]
  split
  · unfold iter0; rw [(strip_fields d).2.2.2.2.2]
    exact flatMap_strip emit emit_strip (fun c h => emit_noise h) d.children
  · simp [emit_strip]

private theorem G_noise {d : Seg} (h : isNoise d = true) : G d = [] := by
  unfold G; rw [isType_noise h]; simp [emit_noise h]

private theorem iter1_flatMap (c : Seg) : (iter1 ["expression"] c).flatMap emit = c.children.flatMap G := by
  unfold iter1 G; rw [List.flatMap_assoc]

private theorem F_strip (c : Seg) : (F c).map strip = F (strip c) := by
  unfold F
  rw [isType_strip]
  split
  · rw [iter1_flatMap, iter1_flatMap, (strip_fields c).2.2.2.2.2]
    exact flatMap_strip G G_strip (fun d h => G_noise h) c.children
  · simp [emit_strip]

private theorem F_noise {c : Seg} (h : isNoise c = true) : F c = [] := by
  unfold F; rw [isType_noise h]; simp [emit_noise h]

private theorem any_set_strip (l : List Seg) :
    (stripL l).any (fun c => c.type == "set_expression") = l.any (fun c => c.type == "set_expression") := by
  rw [stripL_eq]
  induction l with
  | nil => rfl
  | cons c r ih =>
    rw [List.filter_cons]
    cases hn : isNoise c
    · simp only [Bool.not_false, if_true, List.map_cons, List.any_cons, ih, (strip_fields c).1]
    · have ht := noise_type hn
      unfold reservedTypes at ht
      simp only [List.contains_cons, List.contains_nil, Bool.or_false, Bool.or_eq_false_iff] at ht
      simp only [Bool.not_true, Bool.false_eq_true, if_false, List.any_cons, ih]
      rw [ht.1]; rfl

private theorem filter_set_strip (l : List Seg) :
    (l.filter (fun c => c.type == "set_expression")).map strip = (stripL l).filter (fun c => c.type == "set_expression") := by
  rw [stripL_eq, List.filter_map, List.filter_filter]
  congr 1
  apply List.filter_congr
  intro s _
  simp only [Function.comp, (strip_fields s).1]
  cases hn : isNoise s
  · simp
  · have ht := noise_type hn
    unfold reservedTypes at ht
    simp only [List.contains_cons, List.contains_nil, Bool.or_false, Bool.or_eq_false_iff] at ht
    rw [ht.1]; rfl

/-- **noise at every depth**: removing all layout / comment / meta leaves from a tree commutes with
    `list_child_segments` (the children it returns are the stripped children of the stripped tree, in the same order) -/
theorem negligible_filter_deep (s : Seg) (cb : Bool) :
    (listChildSegments s cb).map strip = listChildSegments (strip s) cb := by
  obtain ⟨h1, _, _, _, _, h6⟩ := strip_fields s
  unfold listChildSegments isSetExpression
  rw [h1, h6, any_set_strip]
  split
  · split
    · exact filter_set_strip s.children
    · have e : ∀ x : Seg, (iter2 ["expression"] x).flatMap emit = x.children.flatMap F := by
        intro x; unfold iter2 F; rw [List.flatMap_assoc]
      rw [e, e, h6]
      exact flatMap_strip F F_strip (fun c h => F_noise h) s.children
  · exact filter_strip s.children

/-- hence two trees that differ only in layout, comments and meta segments — anywhere — show the extractors the same
    children, up to the same kind of difference inside those children -/
theorem layout_irrelevant (a b : Seg) (cb : Bool) (h : strip a = strip b) :
    (listChildSegments a cb).map strip = (listChildSegments b cb).map strip := by
  rw [negligible_filter_deep, negligible_filter_deep, h]

/-- inserting noise is one way of differing only in layout -/
theorem strip_insertNoise (ns : Nat → List Noise) (s : Seg) : strip (insertNoise ns s) = strip s := by
  have hno : ∀ i, ∀ x ∈ (ns i).map Noise.toSeg, (!isNoise x) = false := by
    intro i x hx; obtain ⟨n, e⟩ := noise_mem hx; subst e
    have hf := toSeg_flags n
    have ht : reservedTypes.contains n.toSeg.type = false := by
      unfold reservedTypes
      simp only [List.contains_cons, List.contains_nil, Bool.or_false, Bool.or_eq_false_iff]
      refine ⟨?_, ?_, ?_, ?_⟩ <;> exact toSeg_type_ne n _ (by decide)
    unfold isNoise; rw [hf.1, hf.2, ht]; rfl
  cases s with
  | mk t r w c m kids =>
    show strip (.mk t r w c m (interleave (fun i => (ns i).map Noise.toSeg) 0 kids)) = strip (.mk t r w c m kids)
    simp only [strip]
    rw [stripL_eq, stripL_eq, filter_interleave _ _ hno]

example :
    let a := Seg.node "select_clause_element" [Seg.node "column_reference" [Seg.leaf "identifier" "t", Seg.leaf "symbol" ".",
      Seg.mk "whitespace" " " true false false [], Seg.leaf "identifier" "a"], Seg.mk "newline" "\n" true false false []]
    let b := Seg.node "select_clause_element" [Seg.node "column_reference" [Seg.leaf "identifier" "t", Seg.leaf "symbol" ".",
      Seg.leaf "identifier" "a"]]
    a.children.length ≠ b.children.length ∧ flat 0 a ≠ flat 0 b ∧ flat 0 (strip a) = flat 0 (strip b) := by decide

/-! ## §2 keyword matching -/

private theorem val_toLower (c : Char) :
    c.toLower.val = if c.val ≥ 'A'.val ∧ c.val ≤ 'Z'.val then c.val + ('a'.val - 'A'.val) else c.val := by
  unfold Char.toLower; split <;> rfl

private theorem val_toUpper (c : Char) :
    c.toUpper.val = if 'a'.val ≤ c.val ∧ c.val ≤ 'z'.val then c.val + ('A'.val - 'a'.val) else c.val := by
  unfold Char.toUpper; split <;> rfl

private theorem toUpper_toLower (c : Char) : c.toLower.toUpper = c.toUpper := by
  apply Char.ext
  rw [val_toUpper, val_toUpper, val_toLower]
  have hc : c.val.toNat < 1114112 := by
    have := c.valid
    simp only [UInt32.isValidChar, Nat.isValidChar] at this
    omega
  simp only [UInt32.le_iff_toNat_le, ge_iff_le, ← UInt32.toNat_inj]
  repeat' split
  all_goals simp only [UInt32.toNat_add, seval] at *
  all_goals omega

private theorem toUpper_toUpper (c : Char) : c.toUpper.toUpper = c.toUpper := by
  apply Char.ext
  rw [val_toUpper, val_toUpper]
  have hc : c.val.toNat < 1114112 := by
    have := c.valid
    simp only [UInt32.isValidChar, Nat.isValidChar] at this
    omega
  simp only [UInt32.le_iff_toNat_le, ← UInt32.toNat_inj]
  repeat' split
  all_goals simp only [UInt32.toNat_add, seval] at *
  all_goals omega

open SqlLineage.Ident in
/-- `raw_upper` of a re-cased text -/
theorem upper_recase (f : Nat → Bool) : ∀ k : List Char, (recase f k).map Char.toUpper = k.map Char.toUpper
  | [] => rfl
  | c :: cs => by
    simp only [recase, List.map_cons]
    rw [upper_recase (fun i => f (i + 1)) cs]
    congr 1
    split
    · exact toUpper_toUpper c
    · exact toUpper_toLower c

/-- every keyword literal the extractors compare `raw_upper` with (`create_insert.py:89-100`, `merge.py:94-96`, `copy.py`,
    `drop.py`, `rename.py`, `update.py`) -/
def allKeywords : List String :=
  (Gen.Dispatch.keywordsSelectExtractor ++ Gen.Dispatch.keywordsCreateInsertExtractor ++ Gen.Dispatch.keywordsCteExtractor ++
    Gen.Dispatch.keywordsUpdateExtractor ++ Gen.Dispatch.keywordsMergeExtractor ++ Gen.Dispatch.keywordsCopyExtractor ++
    Gen.Dispatch.keywordsNoopExtractor ++ Gen.Dispatch.keywordsDropExtractor ++ Gen.Dispatch.keywordsRenameExtractor).flatten

/-- the literals in the regenerated tables are their own upper-case form (so comparing them with `raw_upper` is meaningful) -/
theorem keywords_are_upper : ∀ k ∈ allKeywords, k.toList.map Char.toUpper = k.toList := by decide

/-- **keyword matching ignores the letter case of the statement text**: for every keyword of the regenerated tables and
    every per-character case change of its spelling, `raw_upper` is the table's literal -/
theorem keyword_match_case (f : Nat → Bool) : ∀ k ∈ allKeywords,
    (Ident.recase f k.toList).map Char.toUpper = k.toList := by
  intro k hk
  rw [upper_recase, keywords_are_upper k hk]

/-- and a text matches a keyword after re-casing iff it matched before (all texts, all keywords) -/
theorem keyword_match_iff (f : Nat → Bool) (raw k : List Char) :
    (Ident.recase f raw).map Char.toUpper = k ↔ raw.map Char.toUpper = k := by
  rw [upper_recase]

example : "USING" ∈ allKeywords ∧ Ident.recase (fun i => i % 2 == 0) "using".toList = "UsInG".toList := by decide

/-! ## §3 identifier normalisation (`escape_identifier_name`) -/

open SqlLineage.Ident in
/-- unquoted names are case-insensitive: any per-character case change of a name without quote characters that is not
    bracketed normalises to the same text -/
theorem escape_case_insensitive {s : List Char} (f : Nat → Bool) (h1 : NoQuote s) (h2 : ¬Bracketed s) :
    escape (recase f s) = escape s := by
  have hs := sameUpToCase_recase f s
  rw [escape_of_plain h1 h2, escape_of_plain (hs.noQuote h1) (fun hb => h2 (hs.bracketed_iff.mpr hb)), hs.map_toLower]

open SqlLineage.Ident in
private theorem escape_single_quoted {x : List Char} (hx : Clean x) : escape ('\'' :: (x ++ ['\''])) = x := by
  have hq : hasQuote Gen.Const.quoteChars ('\'' :: (x ++ ['\''])) = true :=
    hasQuote_of_mem (q := '\'') (by decide) (by simp)
  have hends : ∀ (p : Char → Bool), p '\'' = false → stripP p ('\'' :: (x ++ ['\''])) = '\'' :: (x ++ ['\'']) := by
    intro p hp
    apply stripP_of_ends
    · intro c hc
      have : c = '\'' := by simpa using hc.symm
      subst this; exact hp
    · intro c hc
      rw [getLast?_wrap] at hc
      have : c = '\'' := by simpa using hc.symm
      subst this; exact hp
  unfold escape escapeWith
  rw [if_pos hq]
  simp only [Gen.Const.quoteChars, List.foldl, stripChar, stripSet_eq_stripP]
  rw [hends _ (by decide), hends _ (by decide)]
  exact stripP_wrap (clean_class hx ['\''] (by decide)) (by decide) (by decide)

open SqlLineage.Ident in
/-- **quoting an already lower-case name changes nothing**: for each quote character of the regenerated `quote_chars`
    (`` ` ``, `"`, `'`) and for T-SQL brackets, a lower-case name free of quote characters and brackets normalises to the
    same text with and without the quotes -/
theorem escape_quote_lowercase {x : List Char} (hx : Clean x) (hl : IsLower x) :
    (∀ q ∈ Gen.Const.quoteChars, escape (q :: (x ++ [q])) = escape x) ∧ escape ('[' :: (x ++ [']'])) = escape x := by
  have hfix : escape x = x := escape_fixed_of_plain_lower (clean_noQuote hx) (clean_not_bracketed hx) hl
  refine ⟨?_, ?_⟩
  · intro q hq
    simp only [Gen.Const.quoteChars, List.mem_cons, List.not_mem_nil, or_false] at hq
    rcases hq with rfl | rfl | rfl
    · rw [escape_backtick_quoted hx, hfix]
    · rw [escape_double_quoted hx, hfix]
    · rw [escape_single_quoted hx, hfix]
  · rw [escape_bracket_quoted hx, hfix]

example : Ident.Clean "tab_1".toList ∧ Ident.IsLower "tab_1".toList ∧
    Ident.escape "\"tab_1\"".toList = Ident.escape "TAB_1".toList := by decide

/-- the hypothesis `IsLower` is needed: quoting a name that is not lower-case denotes a different entity -/
theorem quote_mixed_case_differs : Ident.escape "\"Ab\"".toList ≠ Ident.escape "Ab".toList := by decide

/-! ## §4 the rendering's keyword case (`Walk.Env.ro`)

The model analyses the typed AST; the only place where the *text* of the statement enters is `env.ro` (keyword case of the
canonical rendering), through exactly two functions of `Model/Walk.lean`: `subqRaw` (the raw text that identifies a
subquery, `SqlFluffSubQuery.of(segment.raw)`) and `colSpecOf` (the display name of an un-aliased expression column,
`Column(column.raw)`).  Full statement (NOT proved — see `render_case_irrelevant_partial` for what is missing):

    theorem render_case_irrelevant (env) (o) (silent) (s) :
      (analyze { env with ro := o } silent s).map tablesOf = (analyze env silent s).map tablesOf
      where tablesOf g := (maskNames (Assemble.stmtRead g), maskNames (Assemble.stmtWrite g))

Proved here: the specification of the tables a statement reads / writes does not depend on `ro` (all statements); the walk
itself does not depend on `ro` for every statement without a query part; and wherever the walk's table lineage is exact
(C01's `reads_exact`, in progress) it is independent of `ro`. -/

open SqlLineage.Ast SqlLineage.Walk SqlLineage.Spec

/-- what the property exempts: the identity of a subquery (its raw text) and the display name of an expression column are
    replaced by fixed marks; tables, paths and plain strings are kept -/
def maskNode : Node → Node
  | .ds (.subq _) => .ds (.subq "?")
  | .col p (some (.subq _)) => .col p (some (.subq "?"))
  | n => n

def maskNames (l : List Node) : List Node := l.map maskNode

/-- dataset nodes (what `StatementLineageHolder.read` / `.write` return) are never masked -/
theorem maskNames_datasets (l : List Node) (h : ∀ n ∈ l, n.isDataset = true) : maskNames l = l := by
  unfold maskNames
  conv => rhs; rw [← List.map_id l]
  apply List.map_congr_left
  intro n hn
  have := h n hn
  cases n with
  | ds d => cases d <;> simp_all [maskNode, Node.isDataset, DS.isDataset]
  | col _ _ => simp [Node.isDataset] at this
  | str _ => simp [Node.isDataset] at this

/-- so the statement-level read / write sets need no masking at all: they are lists of tables and paths -/
theorem stmtRead_unmasked (g : LGraph) : maskNames (Assemble.stmtRead g) = Assemble.stmtRead g ∧
    maskNames (Assemble.stmtWrite g) = Assemble.stmtWrite g := by
  constructor <;> apply maskNames_datasets <;> intro n hn
  · exact (List.mem_filter.mp hn).2
  · exact (List.mem_filter.mp hn).2

private theorem tableName_ro (env : Env) (o : Render.Opts) (parts : List String) :
    tableName { env with ro := o } parts = tableName env parts := rfl

section
variable (env : Env) (o : Render.Opts)

mutual
private theorem rdExpr_ro : ∀ (e : Expr) (cte : List String), rdExpr { env with ro := o } cte e = rdExpr env cte e
  | .col _ _, _ | .star _, _ | .lit _, _ => by simp only [rdExpr]
  | .func _ _ args over, cte => by
    cases over with
    | none => simp only [rdExpr, rdExprs_ro args]
    | some ov => cases ov with | mk p q => simp only [rdExpr, rdExprs_ro args, rdExprs_ro p, rdExprs_ro q]
  | .cast e _, cte => by simp only [rdExpr, rdExpr_ro e]
  | .case ws els, cte => by
    cases els with
    | none => simp only [rdExpr, rdWhens_ro ws]
    | some e => simp only [rdExpr, rdWhens_ro ws, rdExpr_ro e]
  | .bin _ a b, cte => by simp only [rdExpr, rdExpr_ro a, rdExpr_ro b]
  | .paren e, cte => by simp only [rdExpr, rdExpr_ro e]
  | .subq q, cte => by simp only [rdExpr, rdQuery_ro q]
  | .inSubq e _ q, cte => by simp only [rdExpr, rdExpr_ro e, rdQuery_ro q]
  | .exist _ q, cte => by simp only [rdExpr, rdQuery_ro q]
private theorem rdExprs_ro : ∀ (l : List Expr) (cte : List String), rdExprs { env with ro := o } cte l = rdExprs env cte l
  | [], _ => by simp only [rdExprs]
  | e :: r, cte => by simp only [rdExprs, rdExpr_ro e, rdExprs_ro r]
private theorem rdWhens_ro : ∀ (l : List When) (cte : List String), rdWhens { env with ro := o } cte l = rdWhens env cte l
  | [], _ => by simp only [rdWhens]
  | .mk c r :: rest, cte => by simp only [rdWhens, rdExpr_ro c, rdExpr_ro r, rdWhens_ro rest]
private theorem rdItems_ro : ∀ (l : List Item) (cte : List String), rdItems { env with ro := o } cte l = rdItems env cte l
  | [], _ => by simp only [rdItems]
  | .mk e _ _ :: r, cte => by simp only [rdItems, rdExpr_ro e, rdItems_ro r]
private theorem rdQuery_ro : ∀ (q : Query) (cte : List String), rdQuery { env with ro := o } cte q = rdQuery env cte q
  | .select _ its frm wh grp hav, cte => by
    cases wh <;> cases hav <;>
      simp only [rdQuery, rdOpt, rdFromExprs_ro frm, rdItems_ro its, rdExprs_ro grp, rdExpr_ro]
  | .setop first rest, cte => by simp only [rdQuery, rdBranch_ro first, rdOpBranches_ro rest]
  | .withq cs body, cte => by simp only [rdQuery, rdCtes_ro cs, rdQuery_ro body]
private theorem rdBranch_ro : ∀ (b : Branch) (cte : List String), rdBranch { env with ro := o } cte b = rdBranch env cte b
  | .mk q _, cte => by simp only [rdBranch, rdQuery_ro q]
private theorem rdOpBranches_ro : ∀ (l : List OpBranch) (cte : List String),
    rdOpBranches { env with ro := o } cte l = rdOpBranches env cte l
  | [], _ => by simp only [rdOpBranches]
  | .mk _ b :: r, cte => by simp only [rdOpBranches, rdBranch_ro b, rdOpBranches_ro r]
private theorem rdCtes_ro : ∀ (l : List Cte) (cte : List String), rdCtes { env with ro := o } cte l = rdCtes env cte l
  | [], _ => by simp only [rdCtes]
  | .mk _ q :: r, cte => by simp only [rdCtes, rdQuery_ro q, rdCtes_ro r]
private theorem rdElem_ro : ∀ (e : FromElem) (cte : List String), rdElem { env with ro := o } cte e = rdElem env cte e
  | .table parts _ _, cte => by simp only [rdElem, tableName_ro]
  | .derived q _ _, cte => by simp only [rdElem, rdQuery_ro q]
private theorem rdJoins_ro : ∀ (l : List Join) (cte : List String), rdJoins { env with ro := o } cte l = rdJoins env cte l
  | [], _ => by simp only [rdJoins]
  | .mk _ e on _ :: r, cte => by
    cases on <;> simp only [rdJoins, rdOpt, rdElem_ro e, rdJoins_ro r, rdExpr_ro]
private theorem rdFromExpr_ro : ∀ (f : FromExpr) (cte : List String),
    rdFromExpr { env with ro := o } cte f = rdFromExpr env cte f
  | .mk base js, cte => by simp only [rdFromExpr, rdElem_ro base, rdJoins_ro js]
private theorem rdFromExprs_ro : ∀ (l : List FromExpr) (cte : List String),
    rdFromExprs { env with ro := o } cte l = rdFromExprs env cte l
  | [], _ => by simp only [rdFromExprs]
  | f :: r, cte => by simp only [rdFromExprs, rdFromExpr_ro f, rdFromExprs_ro r]
end
end

private theorem rdOpt_ro (env : Env) (o : Render.Opts) (e : Option Expr) (cte : List String) :
    rdOpt { env with ro := o } cte e = rdOpt env cte e := by
  cases e <;> simp only [rdOpt, rdExpr_ro]

/-- **the tables a statement reads and writes according to the specification do not depend on the rendering** (every
    statement kind, every nesting depth) -/
theorem spec_ro_irrelevant (env : Env) (o : Render.Opts) (s : Stmt) :
    Spec.reads { env with ro := o } s = Spec.reads env s ∧ Spec.writes { env with ro := o } s = Spec.writes env s := by
  constructor
  · cases s with
    | merge tgt ta src on ups ins =>
      cases src <;>
        simp only [Spec.reads, rdQuery_ro, rdExpr_ro, rdExprs_ro, tableName_ro]
    | _ => simp only [Spec.reads, rdQuery_ro, rdFromExprs_ro, rdExprs_ro, rdOpt_ro, tableName_ro]
  · cases s <;> simp only [Spec.writes, tableName_ro]

/-- statements whose analysis never looks at a query: INSERT … VALUES, CREATE TABLE [LIKE], COPY, DROP, ALTER … RENAME,
    RENAME TABLE, no-op and unsupported statements -/
def noQueryPart : Stmt → Bool
  | .insertValues .. | .createTable .. | .createTableLike .. | .copy .. | .drop .. | .alterRename .. | .renameTable ..
  | .noop .. | .unsupported .. => true
  | _ => false

/-- statements without a query part: the walk never renders anything, its whole holder graph is independent of `ro`.
    `_partial`: for statements WITH a query part the holder graphs under two renderings differ (subquery identities and
    expression display names follow the text) and are related by a renaming of those nodes that need not be injective (a set
    operator spelled `union` in one subquery and `UNION` in an otherwise equal one makes two nodes under `upper := false`
    and one under `upper := true`); proving that `stmtRead` / `stmtWrite` survive that quotient needs a simulation
    argument through `endOfQueryCleanup` / `expandWildcard` that is not done.  The metamorphic differential covers it. -/
theorem render_case_irrelevant_partial (env : Env) (o : Render.Opts) (silent : Bool) (s : Stmt)
    (h : noQueryPart s = true) : analyze { env with ro := o } silent s = analyze env silent s := by
  cases s <;> first | rfl | (simp [noQueryPart] at h)

example : noQueryPart (.createTableLike ["s", "t"] ["u"]) = true ∧ noQueryPart (.drop false true ["t"]) = true ∧
    noQueryPart (.insertValues ["t"] (some ["a"]) [[.lit "1"]]) = true := ⟨rfl, rfl, rfl⟩

/-- printed names of the tables in a list of nodes -/
def tableNames (l : List Node) : List String :=
  l.filterMap (fun n => match n with | .ds (.table s t) => some (s ++ "." ++ t) | _ => none)

/-- the walk's statement-level table lineage is exact for `s` under `env` (what C01's `reads_exact` establishes on its
    fragment): same members as the specification -/
def TablesExact (env : Env) (silent : Bool) (s : Stmt) : Prop :=
  ∀ g, analyze env silent s = .ok g →
    (∀ x, x ∈ tableNames (Assemble.stmtRead g) ↔ x ∈ Spec.reads env s) ∧
    (∀ x, x ∈ tableNames (Assemble.stmtWrite g) ↔ x ∈ Spec.writes env s)

/-- wherever the table lineage is exact under both renderings, it is the same under both: keyword case cannot move a table -/
theorem render_case_irrelevant_of_exact (env : Env) (o : Render.Opts) (silent : Bool) (s : Stmt)
    (h₁ : TablesExact env silent s) (h₂ : TablesExact { env with ro := o } silent s)
    (g₁ g₂ : LGraph) (e₁ : analyze env silent s = .ok g₁) (e₂ : analyze { env with ro := o } silent s = .ok g₂) :
    (∀ x, x ∈ tableNames (Assemble.stmtRead g₂) ↔ x ∈ tableNames (Assemble.stmtRead g₁)) ∧
    (∀ x, x ∈ tableNames (Assemble.stmtWrite g₂) ↔ x ∈ tableNames (Assemble.stmtWrite g₁)) := by
  obtain ⟨r₁, w₁⟩ := h₁ g₁ e₁
  obtain ⟨r₂, w₂⟩ := h₂ g₂ e₂
  obtain ⟨sr, sw⟩ := spec_ro_irrelevant env o s
  constructor
  · intro x; rw [r₂ x, r₁ x, sr]
  · intro x; rw [w₂ x, w₁ x, sw]

/-- `TablesExact` is satisfiable: for a statement without a query part it is a computation (here: DROP reads and writes nothing) -/
example (env : Env) : TablesExact env false (.drop false false ["t"]) := by
  intro g hg
  have : g = exDrop env ["t"] := by
    simp [analyze, dispatch, stmtType, Gen.Dispatch.supported, Gen.Dispatch.supportedSelectExtractor,
      Gen.Dispatch.supportedCreateInsertExtractor, Gen.Dispatch.supportedCteExtractor, Gen.Dispatch.supportedUpdateExtractor,
      Gen.Dispatch.supportedMergeExtractor, Gen.Dispatch.supportedCopyExtractor, Gen.Dispatch.supportedNoopExtractor,
      Gen.Dispatch.supportedDropExtractor] at hg
    exact hg.symm
  subst this
  simp [tableNames, Assemble.stmtRead, Assemble.stmtWrite, Assemble.tagged, exDrop, Holder.addDrop, Graph.setTag, Graph.addNode,
    Graph.hasNode, Graph.tag, Graph.empty, Spec.reads, Spec.writes]

/-! ## §5 trailing semicolons (`helpers.split`) -/

/-- a piece made of semicolons, blanks, newlines and comments only -/
def NoCode (p : List Tok) : Prop := ∀ t ∈ p, t.isCode = false

private theorem firstToken_noCode : ∀ (p : List Tok), NoCode p → firstToken p = none ∨ firstToken p = some .semi
  | [], _ => Or.inl rfl
  | t :: r, h => by
    have hr : NoCode r := fun x hx => h x (List.mem_cons_of_mem _ hx)
    have ht := h t (List.mem_cons_self ..)
    cases t with
    | code _ => simp [Tok.isCode] at ht
    | semi => exact Or.inr rfl
    | blank _ => exact firstToken_noCode r hr
    | newline => exact firstToken_noCode r hr
    | lineComment _ => exact firstToken_noCode r hr
    | blockComment _ => exact firstToken_noCode r hr

theorem keepPiece_noCode {p : List Tok} (h : NoCode p) : keepPiece p = false := by
  unfold keepPiece
  rcases firstToken_noCode p h with e | e <;> rw [e]

/-- **pieces without code are dropped**: whatever the splitter cuts off after the last statement — any number of `;`,
    with blanks, line breaks and comments (even containing `;`) around them — adds no statement, wherever such pieces sit -/
theorem trailing_semicolons (pieces extra : List (List Tok)) (h : ∀ p ∈ extra, NoCode p) :
    splitKeep (pieces ++ extra) = splitKeep pieces ∧ splitKeep (extra ++ pieces) = splitKeep pieces := by
  have he : extra.filter keepPiece = [] :=
    List.filter_eq_nil_iff.mpr (fun p hp => by simp [keepPiece_noCode (h p hp)])
  unfold splitKeep
  rw [List.filter_append, List.filter_append, he]
  simp

/-- a kept statement keeps being kept when noise and semicolons are appended to it (`select 1` ↦ `select 1 ; -- c;`) -/
theorem keepPiece_append (p tail : List Tok) (h : keepPiece p = true) : keepPiece (p ++ tail) = true := by
  induction p with
  | nil => simp [keepPiece, firstToken] at h
  | cons t r ih =>
    cases t <;> simp_all [keepPiece, firstToken]

/-! ### with the splitter in the loop (level-0 token streams) -/

/-- a statement without the semicolons, blanks, line breaks and comments that trail it -/
def core (p : List Tok) : List Tok := (p.reverse.dropWhile (fun t => !t.isCode)).reverse

private theorem keepPiece_snoc (p : List Tok) (t : Tok) (ht : t.isCode = false) : keepPiece (p ++ [t]) = keepPiece p := by
  induction p with
  | nil => cases t <;> simp_all [keepPiece, firstToken, Tok.isCode]
  | cons x r ih =>
    cases x <;> simp_all [keepPiece, firstToken]

private theorem core_snoc (p : List Tok) (t : Tok) (ht : t.isCode = false) : core (p ++ [t]) = core p := by
  unfold core
  rw [List.reverse_append, List.reverse_singleton, List.singleton_append, List.dropWhile_cons]
  simp [ht]

private theorem firstToken_allWs : ∀ (p : List Tok), p.all Tok.isWs = true → firstToken p = none
  | [], _ => rfl
  | t :: r, h => by
    simp only [List.all_cons, Bool.and_eq_true] at h
    cases t <;> simp_all [firstToken, Tok.isWs, firstToken_allWs r]

/-- what `split` keeps of a splitter state: the pending statement counts whether or not the splitter would yield it -/
private def fin (st : CutState) : List (List Tok) := splitKeep (st.done ++ [st.cur])

private theorem splitKeep_cutFinish (st : CutState) : splitKeep (cutFinish st) = fin st := by
  unfold cutFinish fin splitKeep
  split
  · next h =>
    have : keepPiece st.cur = false := by
      rcases Bool.or_eq_true _ _ |>.mp h with h | h
      · rw [List.isEmpty_iff.mp h]; rfl
      · unfold keepPiece; rw [firstToken_allWs _ h]
    simp [List.filter_append, this]
  · rfl

private theorem fin_step (st : CutState) (t : Tok) (ht : t.isCode = false) :
    (fin (cutStep st t)).map core = (fin st).map core := by
  have hk : keepPiece [t] = false := by cases t <;> simp_all [keepPiece, firstToken, Tok.isCode]
  unfold cutStep fin splitKeep
  by_cases hc : (st.consume && !t.isEos) = true
  · simp [hc, List.filter_append, List.filter_cons, hk]
  · simp only [hc, Bool.false_eq_true, if_false, List.filter_append, List.map_append, List.filter_cons, List.filter_nil]
    rw [keepPiece_snoc _ _ ht]
    split
    · simp [core_snoc _ _ ht]
    · rfl

private theorem fin_foldl : ∀ (tail : List Tok) (st : CutState), (∀ t ∈ tail, t.isCode = false) →
    (fin (tail.foldl cutStep st)).map core = (fin st).map core
  | [], _, _ => rfl
  | t :: r, st, h => by
    rw [List.foldl_cons, fin_foldl r (cutStep st t) (fun x hx => h x (List.mem_cons_of_mem _ hx)),
      fin_step st t (h t (List.mem_cons_self ..))]

/-- **extra trailing semicolons, with any blanks, line breaks and comments (even containing `;`) between and after them,
    change no statement**: the statements `split` returns for the longer script are those of the original, each up to
    the noise that trails it (`select 1` ↦ `select 1 ; -- c;`).  For every level-0 token stream. -/
theorem trailing_semicolons_stream (toks tail : List Tok) (h : ∀ t ∈ tail, t.isCode = false) :
    (splitModel (toks ++ tail)).map core = (splitModel toks).map core := by
  unfold splitModel cutPieces
  rw [splitKeep_cutFinish, splitKeep_cutFinish, List.foldl_append]
  exact fin_foldl tail _ h

example :
    let s := [Tok.code "select 1", .semi]
    splitModel (s ++ [.semi, .blank " ", .semi, .newline, .blockComment "/*c;*/", .semi]) = splitModel s ∧
    splitModel ([Tok.code "select 1", .blank " ", .lineComment "-- c;\n", .semi, .semi]) =
      [[Tok.code "select 1", .blank " ", .lineComment "-- c;\n", .semi]] ∧
    (splitModel [Tok.code "select 1", .semi, .newline, .code "select 2", .blank " ", .semi, .semi]).map core =
      [[Tok.code "select 1"], [.newline, .code "select 2"]] := by decide

end SqlLineage.Props.C07
