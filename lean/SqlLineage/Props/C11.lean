/-
C11 — analysis is deterministic.

"The same script, dialect, metadata and configuration yield identical summaries, column paths and graph export in every
repetition, in every process and under every string‑hash seed, apart from the generated names of anonymous subqueries.
Result accessors can be called in any order and any number of times with the same answers."

The only source of run‑to‑run variation in the analysed code is the iteration order of Python `set`s of hash‑by‑name
objects (CPython: a function of `PYTHONHASHSEED`; modelled as an arbitrary permutation of the iterated collection).  Per
site the theorems below say that the model function standing for the loop gives the same result for every permutation:

  site (code)                                              model function            theorem
  `for table in holder.drop` (holders.py:382)              `Assemble.dropStep`       `dropStep_perm`, `dropStep_perm_eq`
  `itertools.product(read, write)` (holders.py:404)        `Assemble.rwStep`         `rwStep_product_perm`
  `set_node_attributes(g, {t: True for t in read}, …)`     `Graph.setTags`           `setTags_perm`
  the three role sets → sorted public lists                `sourceTables` …, `isortS` `roles_of_canon`, `sorted_view_order_irrelevant`
  `for table in set(alias_mapping.values()): source.parent = table` (models.py)
                                                           `toSourceColumns` (non‑star) `toSourceColumns_parents_order_irrelevant`
  the RENAME pairs of one statement, sorted by `index` (holders.py, D10 repaired)
                                                           `Assemble.renamesInOrder` `renameOrd_irrelevant`
  one whole statement of the fold, all four orders at once  `foldStepOrd`            `result_order_independent_partial`
  a whole history without RENAME, all orders at once        `foldAllOrd`             `history_order_independent`, `summary_order_independent`

and the site where the order DID matter in the model's order parameter carries a witness: `star_order_sensitive_witness`
(D16, repaired in the code: unqualified `*` over several expandable relations sharing a column name; the model keeps the
parameter).  `fixed_D10`: several RENAME pairs in one statement no longer depend on the order.
The lazy evaluation of the runner is the state machine `Model/Lazy.lean`; `accessors_pure`, `eval_at_most_once`,
`accessors_stable_under_changing_provider` are about every sequence of accessor calls.
-/
import SqlLineage.Proofs.PermLemmas
import SqlLineage.Model.Lazy
import SqlLineage.Model.FoldOrd
import SqlLineage.Props.C03
import SqlLineage.Proofs.RenameOrder

namespace SqlLineage.Props.C11
open SqlLineage Graph Assemble Holder

/-! ### `holder.drop` -/

/-- the DROP loop gives the same graph VALUE (node list, edge list, attributes) for every order of the dropped tables:
    removing an isolated node removes no edge, so it cannot change whether another node is isolated -/
theorem dropStep_perm_eq (g : LGraph) {l₁ l₂ : List Node} (h : l₁.Perm l₂) : dropStep g l₁ = dropStep g l₂ :=
  dropStep_congr g l₁ l₂ (fun _ => h.mem_iff)

theorem dropStep_perm (g : LGraph) {l₁ l₂ : List Node} (h : l₁.Perm l₂) :
    canon (dropStep g l₁) = canon (dropStep g l₂) := by rw [dropStep_perm_eq g h]

/-! ### `set_node_attributes` and `itertools.product(read, write)` -/

theorem setTags_perm (g : LGraph) {l₁ l₂ : List Node} (t : Tag) (b : Bool) (h : l₁.Perm l₂) :
    g.setTags l₁ t b = g.setTags l₂ t b :=
  setTags_congr g l₁ l₂ t b (fun _ => h.mem_iff)

/-- the read/write branch of the fold: same node set, edge set, tags and edge types for every order of the read set and
    of the write set (the node and edge LISTS may come out in a different order — that is all `canon` forgets) -/
theorem rwStep_product_perm (g : LGraph) {r₁ r₂ w₁ w₂ : List Node} (hr : r₁.Perm r₂) (hw : w₁.Perm w₂) :
    canon (rwStep g r₁ w₁) = canon (rwStep g r₂ w₂) := by
  unfold rwStep
  rw [hr.length_eq, hw.length_eq]
  split
  · rw [setTags_perm g .sourceOnly true hr]
  · split
    · rw [setTags_perm g .targetOnly true hw]
    · apply canon_foldl_addEdge_congr
      rintro ⟨a, b⟩
      simp only [AStmt.mem_product, hr.mem_iff, hw.mem_iff]

/-! ### the public views do not depend on insertion order -/

/-- two graphs with the same node set, edge set and tags have the same source, target and intermediate tables -/
theorem roles_of_canon (g h : LGraph) (hc : canon g = canon h) :
    (∀ n, n ∈ sourceTables g ↔ n ∈ sourceTables h) ∧
    (∀ n, n ∈ targetTables g ↔ n ∈ targetTables h) ∧
    (∀ n, n ∈ intermediateTables g ↔ n ∈ intermediateTables h) := by
  obtain ⟨hn, he, ht, _⟩ := (canon_eq_iff g h).mp hc
  have hin : ∀ n, (tableGraph g).inDeg n = 0 ↔ (tableGraph h).inDeg n = 0 := by
    intro n; simp only [inDeg_eq_zero_iff, mem_tableGraph_edges, he]
  have hout : ∀ n, (tableGraph g).outDeg n = 0 ↔ (tableGraph h).outDeg n = 0 := by
    intro n; simp only [outDeg_eq_zero_iff, mem_tableGraph_edges, he]
  have hinp : ∀ n, 0 < (tableGraph g).inDeg n ↔ 0 < (tableGraph h).inDeg n := by
    intro n; simp only [inDeg_pos_iff, mem_tableGraph_edges, he]
  have houtp : ∀ n, 0 < (tableGraph g).outDeg n ↔ 0 < (tableGraph h).outDeg n := by
    intro n; simp only [outDeg_pos_iff, mem_tableGraph_edges, he]
  have htt : ∀ t n, n ∈ tagTables g t ↔ n ∈ tagTables h t := by
    intro t n; simp only [mem_tagTables, hn, ht]
  refine ⟨fun n => ?_, fun n => ?_, fun n => ?_⟩
  · simp only [sourceTables, mem_union, List.mem_filter, mem_tableGraph_nodes, Bool.and_eq_true, beq_iff_eq,
      decide_eq_true_eq, htt, hn, hin, houtp]
  · simp only [targetTables, mem_union, List.mem_filter, mem_tableGraph_nodes, Bool.and_eq_true, beq_iff_eq,
      decide_eq_true_eq, htt, hn, hout, hinp]
  · simp only [intermediateTables, List.mem_filter, mem_tableGraph_nodes, Bool.and_eq_true, decide_eq_true_eq,
      Bool.not_eq_true', List.contains_eq_mem, decide_eq_false_iff_not, htt, hn, hinp, houtp]

/-- `ins` into a strictly increasing list without the new element: strictly increasing, one more member -/
private theorem ins_fresh (x : String) :
    ∀ (l : List String), l.Pairwise (· < ·) → x ∉ l →
      (Lazy.ins x l).Pairwise (· < ·) ∧ ∀ y, y ∈ Lazy.ins x l ↔ y = x ∨ y ∈ l
  | [], _, _ => by simp [Lazy.ins]
  | q :: r, hs, hx => by
    have hs' := List.pairwise_cons.mp hs
    have hxq : x ≠ q := fun e => hx (e ▸ List.mem_cons_self ..)
    have hxr : x ∉ r := fun hm => hx (List.mem_cons_of_mem _ hm)
    unfold Lazy.ins
    by_cases hlt : x < q
    · rw [if_pos hlt]
      refine ⟨List.pairwise_cons.mpr ⟨?_, hs⟩, fun y => by simp⟩
      intro y hy
      rcases List.mem_cons.mp hy with e | hy'
      · rw [e]; exact hlt
      · exact String.lt_trans hlt (hs'.1 y hy')
    · rw [if_neg hlt]
      obtain ⟨ih1, ih2⟩ := ins_fresh x r hs'.2 hxr
      have hqx : q < x := by
        by_cases hq : q < x
        · exact hq
        · exact absurd (Std.Trichotomous.trichotomous (r := (· < · : String → String → Prop)) _ _ hlt hq) hxq
      refine ⟨List.pairwise_cons.mpr ⟨?_, ih1⟩, ?_⟩
      · intro y hy
        rcases (ih2 y).mp hy with e | hy'
        · rw [e]; exact hqx
        · exact hs'.1 y hy'
      · intro y
        simp only [List.mem_cons, ih2]
        constructor
        · rintro (h | h | h)
          · exact Or.inr (Or.inl h)
          · exact Or.inl h
          · exact Or.inr (Or.inr h)
        · rintro (h | h | h)
          · exact Or.inr (Or.inl h)
          · exact Or.inl h
          · exact Or.inr (Or.inr h)

private theorem isort_fold (l : List String) (hd : l.Nodup) :
    ∀ (acc : List String), acc.Pairwise (· < ·) → (∀ y ∈ acc, y ∉ l) →
      (l.foldl (fun acc x => Lazy.ins x acc) acc).Pairwise (· < ·) ∧
      ∀ y, y ∈ l.foldl (fun acc x => Lazy.ins x acc) acc ↔ y ∈ acc ∨ y ∈ l := by
  induction l with
  | nil => intro acc hs _; simp [hs]
  | cons x r ih =>
    intro acc hs hf
    have hd' := List.nodup_cons.mp hd
    have hxa : x ∉ acc := fun hm => hf x hm (List.mem_cons_self ..)
    obtain ⟨s1, m1⟩ := ins_fresh x acc hs hxa
    have hf' : ∀ y ∈ Lazy.ins x acc, y ∉ r := by
      intro y hy
      rcases (m1 y).mp hy with e | hy'
      · rw [e]; exact hd'.1
      · exact fun hm => hf y hy' (List.mem_cons_of_mem _ hm)
    obtain ⟨s2, m2⟩ := ih hd'.2 (Lazy.ins x acc) s1 hf'
    refine ⟨s2, fun y => ?_⟩
    simp only [List.foldl_cons, m2, m1, List.mem_cons]
    constructor
    · rintro ((h | h) | h)
      · exact Or.inr (Or.inl h)
      · exact Or.inl h
      · exact Or.inr (Or.inr h)
    · rintro (h | h | h)
      · exact Or.inl (Or.inr h)
      · exact Or.inl (Or.inl h)
      · exact Or.inr h

private theorem sorted_str_unique : ∀ {l₁ l₂ : List String}, l₁.Pairwise (· < ·) → l₂.Pairwise (· < ·) →
    (∀ x, x ∈ l₁ ↔ x ∈ l₂) → l₁ = l₂
  | [], [], _, _, _ => rfl
  | [], b :: _, _, _, h => absurd ((h b).mpr (List.mem_cons_self ..)) (by simp)
  | a :: _, [], _, _, h => absurd ((h a).mp (List.mem_cons_self ..)) (by simp)
  | a :: r₁, b :: r₂, h₁, h₂, h => by
    have h₁' := List.pairwise_cons.mp h₁
    have h₂' := List.pairwise_cons.mp h₂
    have hab : a = b := by
      have ha : a ∈ b :: r₂ := (h a).mp (List.mem_cons_self ..)
      have hb : b ∈ a :: r₁ := (h b).mpr (List.mem_cons_self ..)
      rcases List.mem_cons.mp ha with e | ha'
      · exact e
      · rcases List.mem_cons.mp hb with e | hb'
        · exact e.symm
        · exact absurd (h₁'.1 b hb') (String.lt_asymm (h₂'.1 a ha'))
    subst hab
    have hna₁ : a ∉ r₁ := fun hm => String.lt_irrefl _ (h₁'.1 a hm)
    have hna₂ : a ∉ r₂ := fun hm => String.lt_irrefl _ (h₂'.1 a hm)
    have : r₁ = r₂ := sorted_str_unique h₁'.2 h₂'.2 (fun x => by
      constructor
      · intro hx
        rcases List.mem_cons.mp ((h x).mp (List.mem_cons_of_mem _ hx)) with e | hx'
        · subst e; exact absurd hx hna₁
        · exact hx'
      · intro hx
        rcases List.mem_cons.mp ((h x).mpr (List.mem_cons_of_mem _ hx)) with e | hx'
        · subst e; exact absurd hx hna₂
        · exact hx')
    rw [this]

/-- `sorted(set_of_names)`: the sorted public list is a function of the SET of names — whatever order the set is
    iterated in (runner.py:136‑155 over holders.py:326‑365) -/
theorem sorted_view_order_irrelevant (l₁ l₂ : List String) (h₁ : l₁.Nodup) (h₂ : l₂.Nodup)
    (h : ∀ x, x ∈ l₁ ↔ x ∈ l₂) : Lazy.isortS l₁ = Lazy.isortS l₂ := by
  obtain ⟨s1, m1⟩ := isort_fold l₁ h₁ [] List.Pairwise.nil (by simp)
  obtain ⟨s2, m2⟩ := isort_fold l₂ h₂ [] List.Pairwise.nil (by simp)
  apply sorted_str_unique s1 s2
  intro x
  simp only [m1, m2, List.not_mem_nil, false_or, h]

/-! ### parent candidates of an unqualified column -/

/-- `_parent.add` in two orders: over candidates with distinct identities and distinct printed names `insertParent`
    commutes (up to equality) on every sorted candidate list -/
theorem insertParent_comm (a b : DS × String) (l : List (DS × String)) (hs : PSorted l)
    (hab : a.1 ≠ b.1 ∧ a.2 ≠ b.2) (ha : ∀ q ∈ l, q.1 ≠ a.1 ∧ q.2 ≠ a.2) (hb : ∀ q ∈ l, q.1 ≠ b.1 ∧ q.2 ≠ b.2) :
    insertParent a (insertParent b l) = insertParent b (insertParent a l) := by
  obtain ⟨sb, mb⟩ := insertParent_fresh b l hs hb
  obtain ⟨sa, ma⟩ := insertParent_fresh a l hs ha
  have hfa : ∀ q ∈ insertParent b l, q.1 ≠ a.1 ∧ q.2 ≠ a.2 := by
    intro q hq
    rcases (mb q).mp hq with e | hq'
    · rw [e]; exact ⟨Ne.symm hab.1, Ne.symm hab.2⟩
    · exact ha q hq'
  have hfb : ∀ q ∈ insertParent a l, q.1 ≠ b.1 ∧ q.2 ≠ b.2 := by
    intro q hq
    rcases (ma q).mp hq with e | hq'
    · rw [e]; exact hab
    · exact hb q hq'
  obtain ⟨s1, m1⟩ := insertParent_fresh a _ sb hfa
  obtain ⟨s2, m2⟩ := insertParent_fresh b _ sa hfb
  apply psorted_unique s1 s2
  intro x
  rw [m1, m2, mb, ma]
  constructor
  · rintro (h | h | h)
    · exact Or.inr (Or.inl h)
    · exact Or.inl h
    · exact Or.inr (Or.inr h)
  · rintro (h | h | h)
    · exact Or.inr (Or.inl h)
    · exact Or.inl h
    · exact Or.inr (Or.inr h)

/-- the candidate list an unqualified column ends up with is sorted and duplicate‑free whatever the insertion order -/
theorem parent_candidates_sorted (l : List (DS × String)) (hd : DistinctCands l) :
    PSorted (l.foldl (fun ps v => insertParent v ps) []) ∧
    ∀ x, x ∈ l.foldl (fun ps v => insertParent v ps) [] ↔ x ∈ l := by
  obtain ⟨s, m⟩ := foldl_insertParent l hd [] List.Pairwise.nil (by simp)
  exact ⟨s, fun x => by rw [m]; simp⟩

private theorem foldl_addParent (l : List (DS × String)) (c : Column) :
    l.foldl (fun col v => col.addParent v) c = ⟨c.raw, l.foldl (fun ps v => insertParent v ps) c.parents⟩ := by
  induction l generalizing c with
  | nil => rfl
  | cons v r ih => simp only [List.foldl_cons]; exact ih (c.addParent v)

private theorem foldl_congr_mem {α β : Type} (f g : β → α → β) (l : List α) (a : β)
    (h : ∀ acc x, x ∈ l → f acc x = g acc x) : l.foldl f a = l.foldl g a := by
  induction l generalizing a with
  | nil => rfl
  | cons x r ih =>
    simp only [List.foldl_cons]
    rw [h a x (List.mem_cons_self ..)]
    exact ih _ (fun acc y hy => h acc y (List.mem_cons_of_mem _ hy))

/-- **an unqualified (or qualified) non‑star column gets the SAME source columns, with the same sorted parent candidates,
    for every iteration order `revStar` of `set(alias_mapping.values())`** — provided the relations in scope print under
    distinct names (two relations printing alike, e.g. two derived tables given the same alias, are D24 territory).
    Only `*` is order sensitive (`star_order_sensitive_witness`). -/
theorem toSourceColumns_parents_order_irrelevant (imp : String) (m : AliasMap) (c : ColSpec)
    (hd : DistinctCands (amValues m)) (hns : ∀ sq ∈ c.srcs, sq.2 = none → sq.1 ≠ "*") (r₁ r₂ : Nat) :
    toSourceColumns imp m c r₁ = toSourceColumns imp m c r₂ := by
  have key : ∀ (r : Nat) (name : String),
      (permK r (amValues m)).foldl (fun col v => col.addParent v) (Column.mk1 name none) =
      (amValues m).foldl (fun col v => col.addParent v) (Column.mk1 name none) := by
    intro r name
    rw [foldl_addParent, foldl_addParent]
    have hp := permK_perm r (amValues m)
    have : (Column.mk1 name none).parents = [] := rfl
    rw [this, foldl_insertParent_perm hp (hd.perm hp.symm)]
  unfold toSourceColumns
  apply foldl_congr_mem
  intro acc sq hsq
  rcases hq : sq.2 with _ | q
  · have hne : (sq.1 == "*") = false := by simpa using hns sq hsq hq
    simp only [hne, key r₁, key r₂, Bool.false_eq_true, if_false]
  · rfl

/-! ### RENAME: the pairs are sorted by the index of their edges (D10 repaired), so their enumeration order is irrelevant -/

/-- the indexes `add_rename` gave the RENAME edges of holder `h` are pairwise distinct (it numbers them 0, 1, 2, …) -/
def DistinctRenameIdx (h : LGraph) : Prop :=
  ((stmtRename h).map (fun e => (h.idx e.1 e.2).getD 0)).Nodup

instance (h : LGraph) : Decidable (DistinctRenameIdx h) := by unfold DistinctRenameIdx; infer_instance

/-- **whatever order the rename pairs are enumerated in, `_build_digraph` applies them in the same order** — since the repair
    of D10 they are sorted by `index` first (`Proofs.RenameOrder.sortPairs_perm`: sorting a permutation of a list with
    distinct keys gives one list) -/
theorem renameOrd_irrelevant (h : LGraph) (ps' : List (Node × Node)) (hp : ps'.Perm (stmtRename h))
    (hd : DistinctRenameIdx h) : renamesInOrder h ps' = renamesInOrder h (stmtRename h) :=
  SqlLineage.Proofs.RenameOrder.renamesInOrder_perm h _ _ hp hd

/-- with at most one pair in the statement every "order" of the rename set is the same list -/
theorem renameOrd_irrelevant_single_pair (g : LGraph) (ps ps' : List (Node × Node)) (h : ps'.Perm ps)
    (h1 : ps.length ≤ 1) : renameStep g ps' = renameStep g ps := by
  match ps, h1 with
  | [], _ => rw [List.perm_nil.mp h]
  | [p], _ => rw [List.perm_singleton.mp h]

/-- D10 repaired: the two‑pair statement whose outcome used to depend on the iteration order of the pair set (one order
    ended in `NetworkXError`) gives one graph under both orders -/
theorem fixed_D10 :
    let hs := [AStmt.holderOf (.rename [("b", "a"), ("c", "b")])]
    (match Assemble.buildWith id Prov.none hs, Assemble.buildWith List.reverse Prov.none hs with
      | .ok g, .ok g' => decide (g.nodes = g'.nodes ∧ g.edges = g'.edges)
      | _, _ => false) = true :=
  Props.C03.fixed_D10

/-- the holders the RENAME extractor builds have distinct indexes (three pairs, a chain and a swap) -/
example : DistinctRenameIdx (AStmt.holderOf (.rename [("a", "tmp"), ("b", "a"), ("tmp", "b")])) := by decide

/-! ### one statement of the fold under arbitrary orders of all four iterated sets -/

/-
Full statement (DESIGN §5 C11, `result_order_independent`), NOT proved:

  theorem result_order_independent (hs : List LGraph) (prov) (o₁ o₂ : orders that are permutations) :
      (∀ h ∈ hs, (stmtRename h).length ≤ 1) →
      canonE (buildWithOrd o₁ prov hs) = canonE (buildWithOrd o₂ prov hs)

What is proved: the statement for ONE step of the fold from a common graph, for every holder whose RENAME edges carry
distinct indexes — any number of pairs (`result_order_independent_partial`), and the statement for WHOLE histories without RENAME up to and including the
self‑loop tagging, with the table‑level summary as corollary (`history_order_independent`, `summary_order_independent`,
below).  Missing: congruence of `relabel` with respect to `canon` (`relabel` looks at the node ORDER when two nodes are
merged, so histories with a single‑pair RENAME need an invariant, cf. C03 `rename_loses_tags_witness`), the
unresolved‑column tail of `_build_digraph` (it reads key‑object payloads, which `canon` does not contain), and the
statement one level up that `Walk.analyze` yields `canon`‑equal holders for every `revStar` outside the D16 class.
The harness sweep over hash seeds covers those on the implementation.
-/
theorem result_order_independent_partial (dropOrd readOrd writeOrd : List Node → List Node)
    (renameOrd : List (Node × Node) → List (Node × Node))
    (hdrop : ∀ l, (dropOrd l).Perm l) (hread : ∀ l, (readOrd l).Perm l) (hwrite : ∀ l, (writeOrd l).Perm l)
    (hren : ∀ l, (renameOrd l).Perm l) (g h : LGraph) (h1 : DistinctRenameIdx h) :
    canonE (foldStepOrd dropOrd readOrd writeOrd renameOrd g h) = canonE (foldStep id g h) := by
  unfold foldStepOrd foldStep
  simp only
  split
  · simp only [canonE]
    rw [dropStep_perm _ (hdrop _)]
  · split
    · rw [renameOrd_irrelevant h _ (hren _) h1]
      rfl
    · simp only [canonE]
      rw [rwStep_product_perm _ (hread _) (hwrite _)]

/-! ### a whole history without RENAME under arbitrary orders -/

private theorem foldStepOrd_no_rename (o : Orders) (g h : LGraph) (hnr : stmtRename h = []) :
    foldStepOrd o.drop o.read o.write o.rename g h =
      .ok (if !(stmtDrop h).isEmpty then dropStep (g.compose h) (o.drop (stmtDrop h))
           else rwStep (g.compose h) (o.read (stmtRead h)) (o.write (stmtWrite h))) := by
  unfold foldStepOrd
  simp only [hnr, List.isEmpty_nil, Bool.not_true, Bool.false_eq_true, if_false]
  split <;> rfl

/-- **for every history of statements without RENAME, the assembled graph has the same nodes, edges, tags and edge types
    under any two hash seeds** (any two families of iteration orders of `holder.drop`, `holder.read`, `holder.write`),
    started from graphs with the same order‑free content -/
theorem history_order_independent (o₁ o₂ : Orders) (h₁ : o₁.IsPerm) (h₂ : o₂.IsPerm) (hs : List LGraph)
    (hnr : ∀ h ∈ hs, stmtRename h = []) :
    ∀ (g g' : LGraph), canon g = canon g' → canonE (foldAllOrd o₁ g hs) = canonE (foldAllOrd o₂ g' hs) := by
  induction hs with
  | nil => intro g g' hc; simp only [foldAllOrd, canonE, hc]
  | cons h r ih =>
    intro g g' hc
    have hh := hnr h (List.mem_cons_self ..)
    have hr : ∀ x ∈ r, stmtRename x = [] := fun x hx => hnr x (List.mem_cons_of_mem _ hx)
    simp only [foldAllOrd, foldStepOrd_no_rename _ _ _ hh]
    apply ih hr
    have hcc := canon_compose_congr g g' h hc
    split
    · exact canon_dropStep_congr _ _ _ _ hcc
        (fun n => ((h₁.1 _).mem_iff).trans ((h₂.1 _).mem_iff).symm)
    · exact canon_rwStep_congr _ _ hcc ((h₁.2.1 _).trans (h₂.2.1 _).symm) ((h₁.2.2.1 _).trans (h₂.2.2.1 _).symm)

/-- `foldAllOrd` with the model's orders is the model's fold -/
theorem foldAllOrd_model (g : LGraph) (hs : List LGraph) : foldAllOrd Orders.model g hs = foldAll id g hs := by
  induction hs generalizing g with
  | nil => rfl
  | cons h r ih =>
    have : foldStepOrd id id id id g h = foldStep id g h := rfl
    simp only [foldAllOrd, foldAll, Orders.model, this]
    cases foldStep id g h with
    | ok g' => exact ih g'
    | error e => rfl

private theorem canon_tagSelfloops_congr (g g' : LGraph) (hc : canon g = canon g') :
    canon (tagSelfloops g) = canon (tagSelfloops g') := by
  obtain ⟨hn, he, _, _⟩ := (canon_eq_iff g g').mp hc
  exact canon_setTags_congr g g' _ _ _ _ hc (fun n => by simp only [mem_selfloopNodes, hn, he])

/-- the table‑level summary (source, target, intermediate tables after the self‑loop tagging of holders.py:406‑410) of a
    RENAME‑free history is the same under any two hash seeds -/
theorem summary_order_independent (o₁ o₂ : Orders) (h₁ : o₁.IsPerm) (h₂ : o₂.IsPerm) (hs : List LGraph)
    (hnr : ∀ h ∈ hs, stmtRename h = []) (g₁ g₂ : LGraph)
    (e₁ : foldAllOrd o₁ Graph.empty hs = .ok g₁) (e₂ : foldAllOrd o₂ Graph.empty hs = .ok g₂) :
    (∀ n, n ∈ sourceTables (tagSelfloops g₁) ↔ n ∈ sourceTables (tagSelfloops g₂)) ∧
    (∀ n, n ∈ targetTables (tagSelfloops g₁) ↔ n ∈ targetTables (tagSelfloops g₂)) ∧
    (∀ n, n ∈ intermediateTables (tagSelfloops g₁) ↔ n ∈ intermediateTables (tagSelfloops g₂)) := by
  have h := history_order_independent o₁ o₂ h₁ h₂ hs hnr Graph.empty Graph.empty rfl
  rw [e₁, e₂] at h
  simp only [canonE, Except.ok.injEq] at h
  exact roles_of_canon _ _ (canon_tagSelfloops_congr _ _ h)

/-- a RENAME‑free history never fails, whatever the orders -/
theorem history_total_no_rename (o : Orders) (hs : List LGraph) (hnr : ∀ h ∈ hs, stmtRename h = []) :
    ∀ g, ∃ g', foldAllOrd o g hs = .ok g' := by
  induction hs with
  | nil => intro g; exact ⟨g, rfl⟩
  | cons h r ih =>
    intro g
    simp only [foldAllOrd, foldStepOrd_no_rename _ _ _ (hnr h (List.mem_cons_self ..))]
    exact ih (fun x hx => hnr x (List.mem_cons_of_mem _ hx)) _

/-! ### D16: the order‑sensitive site -/

/-- a holder as `end_of_query_cleanup` finds it for
    `insert into t select * from (select a, b from x) p join (select a, c from y) q …` after the two derived tables were
    analysed: `t` is the write target, `p` owns columns `a, b`, `q` owns `a, c` -/
def starHolder : LGraph :=
  let p : DS × String := (.subq "(select a, b from x)", "p")
  let q : DS × String := (.subq "(select a, c from y)", "q")
  let g := addWriteO Graph.empty ⟨.table "<default>" "t", some "t"⟩
  let add := fun (g : LGraph) (o : DS × String) (c : String) =>
    let col := Column.mk1 c (some o)
    g.addEdge (.ds o.1) col.key .hasColumn none (some (.sub o.2)) (some (.col col))
  add (add (add (add g p "a") p "b") q "a") q "c"

def starTables : List DObj := [⟨.subq "(select a, b from x)", some "p"⟩, ⟨.subq "(select a, c from y)", some "q"⟩]

/-- the column‑level result of `select *` over `starHolder` under iteration order `k` of `set(alias_mapping.values())`:
    the (source, target) lineage edges after wildcard expansion -/
def starEdges (k : Nat) : List (String × String) :=
  match endOfQueryCleanup "<default>" starHolder starTables [ColSpec.of "*" [("*", none)]] [] k with
  | .ok g =>
    let g := expandWildcard ProvView.none g
    (g.edgesOrdered.filter (fun e => g.ety e.1 e.2 == some .lineage)).filterMap (fun e =>
      match e.1, e.2 with
      | .col a _, .col b _ => some (a, b)
      | _, _ => none)
  | .error _ => []

/-- **D16**: two iteration orders of the relation set attribute the shared column `a` of `select *` to different
    relations (`p.a → t.a` under one order, `q.a → t.a` under the other); the unshared columns are the same -/
theorem star_order_sensitive_witness :
    (("p.a", "<default>.t.a") ∈ starEdges 0 ∧ ("q.a", "<default>.t.a") ∉ starEdges 0) ∧
    (("q.a", "<default>.t.a") ∈ starEdges 1 ∧ ("p.a", "<default>.t.a") ∉ starEdges 1) ∧
    (∀ k ∈ [0, 1], ("p.b", "<default>.t.b") ∈ starEdges k ∧ ("q.c", "<default>.t.c") ∈ starEdges k) := by
  decide +kernel

/-! ### accessors -/
section lazy
open Lazy
variable {ε ρ α κ : Type}

/-- a well‑formed runner state: the flag is set only together with a stored result -/
def WF (s : St ρ) : Prop := s.evaluated = true → ∃ r, s.stored = some r

theorem wf_init : WF (St.init : St ρ) := by intro h; cases h

theorem wf_call (ev : Nat → Except ε ρ) (f : ρ → α) (s : St ρ) (h : WF s) : WF (call ev f s).2 := by
  unfold call
  by_cases he : s.evaluated = true
  · obtain ⟨r, hr⟩ := h he
    simp only [he, if_true, hr]
    exact h
  · simp only [he, Bool.false_eq_true, if_false]
    unfold evalStep
    cases hev : ev s.evals with
    | ok r => intro _; exact ⟨r, rfl⟩
    | error e => simp only; intro h'; exact absurd h' he

/-- the accessor bodies never find the result attributes missing -/
theorem stored_when_evaluated (ev : Nat → Except ε ρ) (f : κ → ρ → α) (ks : List κ) :
    ∀ a ∈ (run ev f St.init ks).1, a ≠ .error .notStored := by
  have gen : ∀ (ks : List κ) (s : St ρ), WF s → ∀ a ∈ (run ev f s ks).1, a ≠ .error .notStored := by
    intro ks
    induction ks with
    | nil => intro s _ a ha; simp [run] at ha
    | cons k r ih =>
      intro s hs a ha
      simp only [run, List.mem_cons] at ha
      rcases ha with rfl | ha
      · unfold call
        by_cases he : s.evaluated = true
        · obtain ⟨x, hx⟩ := hs he
          simp [he, hx]
        · simp only [he, Bool.false_eq_true, if_false]
          unfold evalStep
          cases hev : ev s.evals with
          | ok x => simp
          | error e => simp
      · exact ih _ (wf_call ev (f k) s hs) a ha
  exact gen ks St.init wf_init

/-- once the first evaluation succeeded the state no longer changes and every accessor answers from the stored result -/
private theorem run_evaluated (ev : Nat → Except ε ρ) (f : κ → ρ → α) (r : ρ) (n : Nat) (ks : List κ) :
    run ev f ⟨true, some r, n⟩ ks = (ks.map (fun k => .ok (f k r)), ⟨true, some r, n⟩) := by
  induction ks with
  | nil => rfl
  | cons k t ih => simp only [run, call, if_true, ih, List.map_cons]

/-- **accessors can be called in any order and any number of times with the same answers, even when the provider's
    answers change over time**: if the first evaluation succeeds with result `r`, the answer to accessor `k` at ANY
    position of ANY call sequence is `f k r`, and `_eval` ran exactly once (for a non‑empty sequence) -/
theorem accessors_stable_under_changing_provider (ev : Nat → Except ε ρ) (f : κ → ρ → α) (r : ρ) (h0 : ev 0 = .ok r)
    (ks : List κ) :
    (run ev f St.init ks).1 = ks.map (fun k => .ok (f k r)) ∧ (run ev f St.init ks).2.evals ≤ 1 := by
  cases ks with
  | nil => simp [run, St.init]
  | cons k t =>
    have hc : call ev (f k) St.init = (.ok (f k r), ⟨true, some r, 1⟩) := by
      simp [call, St.init, evalStep, h0]
    refine ⟨?_, ?_⟩
    · simp only [run, hc, run_evaluated, List.map_cons]
    · simp only [run, hc, run_evaluated]
      exact Nat.le_refl 1

/-- `_eval` runs at most once on a runner whose evaluation succeeds, however many accessors are called -/
theorem eval_at_most_once (ev : Nat → Except ε ρ) (f : κ → ρ → α) (r : ρ) (h0 : ev 0 = .ok r) (ks : List κ) :
    (run ev f St.init ks).2.evals ≤ 1 :=
  (accessors_stable_under_changing_provider ev f r h0 ks).2

private theorem run_failing (ev : Nat → Except ε ρ) (f : κ → ρ → α) (e : ε) (he : ∀ n, ev n = .error e) (ks : List κ) :
    ∀ n, (run ev f ⟨false, none, n⟩ ks).1 = ks.map (fun _ => .error (.eval e)) := by
  induction ks with
  | nil => intro n; rfl
  | cons k t ih =>
    intro n
    have hc : call ev (f k) ⟨false, none, n⟩ = (.error (.eval e), ⟨false, none, n + 1⟩) := by
      simp [call, evalStep, he]
    simp only [run, hc, ih, List.map_cons]

/-- **for every sequence of accessor calls the answers equal those of a fresh evaluation** (same script, dialect,
    metadata, configuration ⇒ `ev` does not depend on when it runs): each answer is what the accessor gives as the first
    call on a new runner — whether the evaluation succeeds or raises (then every call raises the same error again) -/
theorem accessors_pure (ev : Nat → Except ε ρ) (f : κ → ρ → α) (hconst : ∀ n, ev n = ev 0) (ks : List κ) :
    (run ev f St.init ks).1 = ks.map (fresh ev f) := by
  cases h0 : ev 0 with
  | ok r =>
    rw [(accessors_stable_under_changing_provider ev f r h0 ks).1]
    apply List.map_congr_left
    intro k _
    simp [fresh, call, St.init, evalStep, h0]
  | error e =>
    have he : ∀ n, ev n = .error e := fun n => by rw [hconst n, h0]
    have := run_failing ev f e he ks 0
    simp only [St.init] at this ⊢
    rw [this]
    apply List.map_congr_left
    intro k _
    simp [fresh, call, St.init, evalStep, h0]

/-- call order and repetition: two call sequences that are permutations of each other (or contain the same accessor any
    number of times) get, accessor by accessor, the same answers -/
theorem accessor_order_irrelevant (ev : Nat → Except ε ρ) (f : κ → ρ → α) (hconst : ∀ n, ev n = ev 0)
    (ks₁ ks₂ : List κ) (k : κ) (i j : Nat) (hi : ks₁[i]? = some k) (hj : ks₂[j]? = some k) :
    (run ev f St.init ks₁).1[i]? = (run ev f St.init ks₂).1[j]? := by
  rw [accessors_pure ev f hconst, accessors_pure ev f hconst]
  simp [List.getElem?_map, hi, hj]

end lazy

/-! ### non‑vacuity -/

-- the hypotheses of the permutation theorems are met by non‑trivial inputs
example : [AStmt.tn "a", AStmt.tn "b", AStmt.tn "c"].Perm [AStmt.tn "c", AStmt.tn "a", AStmt.tn "b"] := by decide

-- dropping in two orders on a graph where one table is isolated and the other is not: same graph, one node gone
example :
    let g := match AStmt.build [.rw ["a"] (some "b"), .rw [] (some "z")] with | .ok g => g | _ => Graph.empty
    (dropStep g [AStmt.tn "z", AStmt.tn "a"]).nodes = (dropStep g [AStmt.tn "a", AStmt.tn "z"]).nodes ∧
    AStmt.tn "z" ∈ g.nodes ∧ AStmt.tn "z" ∉ (dropStep g [AStmt.tn "a", AStmt.tn "z"]).nodes ∧
    AStmt.tn "a" ∈ (dropStep g [AStmt.tn "a", AStmt.tn "z"]).nodes := by decide

-- read × write in two orders: the node LISTS differ (so `canon` is needed), the role sets do not
example :
    let g : LGraph := Graph.empty
    let g1 := rwStep g [AStmt.tn "a", AStmt.tn "b"] [AStmt.tn "w"]
    let g2 := rwStep g [AStmt.tn "b", AStmt.tn "a"] [AStmt.tn "w"]
    g1.nodes ≠ g2.nodes ∧ (sourceTables g1).length = 2 ∧ (sourceTables g2).length = 2 := by decide

-- distinct candidates: three relations, all six insertion orders give the one sorted list
example : DistinctCands [(DS.table "s" "y", "s.y"), (DS.subq "q", "p"), (DS.table "s" "x", "s.x")] := by
  unfold DistinctCands; decide

example : ∀ k ∈ [0, 1, 2, 3, 4, 5],
    (permK k [(DS.table "s" "y", "s.y"), (DS.subq "q", "p"), (DS.table "s" "x", "s.x")]).foldl
      (fun ps v => insertParent v ps) [] = [(DS.subq "q", "p"), (DS.table "s" "x", "s.x"), (DS.table "s" "y", "s.y")] := by
  decide

-- orders that are permutations but not the identity, and a RENAME-free history with reads, a write and a DROP
example : (⟨List.reverse, List.reverse, List.reverse, List.reverse⟩ : Orders).IsPerm :=
  ⟨fun l => List.reverse_perm l, fun l => List.reverse_perm l, fun l => List.reverse_perm l, fun l => List.reverse_perm l⟩

example : ∀ h ∈ [AStmt.holderOf (.rw ["a", "b"] (some "c")), AStmt.holderOf (.drop "z"), AStmt.holderOf (.rw ["c"] (some "d"))],
    stmtRename h = [] := by decide

-- on that history the reversed orders give different node LISTS than the model's orders and the same summary
example :
    let hs := [AStmt.holderOf (.rw ["a", "b"] (some "c")), AStmt.holderOf (.drop "z"), AStmt.holderOf (.rw ["c"] (some "d"))]
    (match foldAllOrd ⟨List.reverse, List.reverse, List.reverse, List.reverse⟩ Graph.empty hs, foldAllOrd Orders.model Graph.empty hs with
     | .ok g₁, .ok g₂ => decide (g₁.edges ≠ g₂.edges) && decide ((sourceTables (tagSelfloops g₁)).length = 2)
         && decide ((intermediateTables (tagSelfloops g₂)).length = 1)
     | _, _ => false) = true := by decide

-- the sorted view: two iteration orders of a set of names
example : Lazy.isortS ["s.y", "<default>.t", "s.x"] = Lazy.isortS ["s.x", "s.y", "<default>.t"] := by decide

-- the lazy machine on a concrete script: any call sequence answers like fresh runners and evaluates once
example :
    let ev := Lazy.evalScript {} [] [.drop false false ["t"]]
    (Lazy.run ev Lazy.answer Lazy.St.init [.sourceTables, .columnLineage true false, .sourceTables, .statementCount]).2.evals = 1 := by
  decide

-- a provider whose answers change between evaluations: without the flag the second call would see `2`
example :
    let ev : Nat → Except Unit Nat := fun n => .ok (n + 1)
    (Lazy.run ev (fun (_ : Unit) r => r) Lazy.St.init [(), (), ()]).1.map (fun a => match a with | .ok n => n | .error _ => 0)
      = [1, 1, 1] := by decide


/-! ## two order-sensitive sites found by probing the unchanged tree (round 3), repaired in the code; the model never had an order
    parameter there (graph node order, the later definition wins) - the witnesses pin what the repaired code must answer -/

section fixedOrderSites
open SqlLineage.Ast SqlLineage.Walk

private def selX (frm : FromElem) : Query := .select false [.mk (.col [] "x") none false] [.mk frm []] none [] none

/-- `insert into tgt with a as (select x from t1) select x from (with a as (select x from t2) select x from a) s` -/
def exCteShadow : Stmt :=
  .insert .insertInto false ["tgt"] none
    (.withq [.mk "a" (selX (.table ["t1"] none false))]
      (selX (.derived (.withq [.mk "a" (selX (.table ["t2"] none false))] (selX (.table ["a"] none false))) (some "s") false)))
    false

/-- **D52 repaired**: an inner WITH that defines a CTE with the name of an outer one shadows it: the only reported path runs from
    `t2.x` (before the repair the CTE lookup iterated a SET of SubQuery objects, and `t1.x` or `t2.x` won depending on the hash seed) -/
theorem fixed_D52_inner_cte_shadows :
    (match analyze {} false exCteShadow with
      | .ok g => decide (((Paths.columnLineage g).map (fun (p : List Node) => (p.head?, p.getLast?))) =
          [(some (.col "<default>.t2.x" (some (.table "<default>" "t2"))),
            some (.col "<default>.tgt.x" (some (.table "<default>" "tgt"))))])
      | .error _ => false) = true := by decide +kernel

/-- `update tgt set c = x.d from s1.x, s2.x` -/
def exUpdateClash : Stmt :=
  .update ["tgt"] none [⟨["c"], .col ["x"] "d"⟩]
    [.mk (.table ["s1", "x"] none false) [], .mk (.table ["s2", "x"] none false) []] none

/-- **D51 repaired**: with two FROM tables sharing a bare name the qualifier denotes the LATER one, in statement order (before the
    repair the alias mapping was built from `list(holder.read)`, a set: `s1.x.d` or `s2.x.d` depending on the hash seed) -/
theorem fixed_D51_update_from_later_table_wins :
    (match analyze {} false exUpdateClash with
      | .ok g => decide (((Paths.columnLineage g).map (fun (p : List Node) => (p.head?, p.getLast?))) =
          [(some (.col "s2.x.d" (some (.table "s2" "x"))),
            some (.col "<default>.tgt.c" (some (.table "<default>" "tgt"))))])
      | .error _ => false) = true := by decide +kernel

end fixedOrderSites

end SqlLineage.Props.C11
