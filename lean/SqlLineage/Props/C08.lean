/-
C08 — lineage is invariant under renaming of statement‑local names.

The renaming itself (one engine for: consistent renaming of CTE names / table aliases / derived‑table aliases with correct
scoping, adding an alias, dropping an alias, toggling AS) is `Model/Rename.lean`; it is the same definition the
correspondence check `harness/c08.py` applies through the driver.  The lemma families are in `Proofs/RenameLemmas.lean`.

Proved here, for ALL statements of the typed AST (mutual structural recursion, no bound on size or nesting):
  * `spec_alpha_tables`  — under `FreshInj ρ s` the tables read and written by the specification are unchanged
                           (CTE scoping commutes with renaming; base tables are untouched and never captured);
    `add_alias_tables`, `drop_alias_tables`, `toggleAs_tables` — the same for the other operations, unconditionally;
  * `frag_alpha`, `frag01_alpha` — the deviation classes (complement of `Frag01`) are unchanged; the D5 hypothesis is
                           necessary (`frag_alpha_needs_D5free`);
  * `walk_alpha_tables`  — tables reported by the walk, as a corollary of C01's pending exactness theorem (hypothesis explicit);
  * `datasetOfElem_ignores_as`, `colSpecOf_ignores_as` — what is and what is not true about the AS keyword for the walk;
  * `dev_D7` — the code as found violates the property when an alias is renamed to the bare name of
                           another table; `fixed_D7`, `explicit_alias_wins` — the repaired alias map does not.
Not proved (no column specification exists yet, `Props/C02.lean` is a placeholder): invariance of the END‑TO‑END COLUMN
PAIRS, `spec_alpha_columns : FreshInj ρ s → Spec.colflow (renameStmt ρ s) = Spec.colflow s`, and its transfer to the walk.
The column half of the property rests on the correspondence check (implementation vs implementation, and both vs the model).
-/
import SqlLineage.Proofs.RenameLemmas
import SqlLineage.Model.AliasScope
import SqlLineage.Model.Paths
import SqlLineage.Model.Assemble

namespace SqlLineage.Props.C08
open SqlLineage Ast Rename Spec SqlLineage.Proofs.Rename

/-! ### statement level -/

private theorem mem_ofKind {k : Kind} {l : Names} {x : Kind × String} (hx : x ∈ l) (hk : x.1 = k) : x.2 ∈ ofKind k l := by
  unfold ofKind
  exact List.mem_map.mpr ⟨x, List.mem_filter.mpr ⟨hx, by simp [hk]⟩, rfl⟩

/-- what the table‑level theorems need from `FreshInj`: no new name is the bare name of a table of the statement -/
theorem freshInj_ok {ρ : Subst} {s : Stmt} (h : FreshInj ρ s) : Ok (news ρ) (names s) := by
  unfold FreshInj freshInj at h
  simp only [Bool.and_eq_true, List.all_eq_true] at h
  intro x hx hk hn
  have h3 := (h.2 x.2 hn).1.2
  have : x.2 ∈ baseNames s := mem_ofKind hx hk
  have hc : (baseNames s).contains x.2 = true := List.contains_iff_mem.mpr this
  rw [hc] at h3
  exact absurd h3 (by decide)

/-- the general form: ANY operation of the engine (rename / add alias / drop alias / toggle AS, in any combination) whose
    new CTE‑or‑alias names avoid the bare names of the statement's tables leaves the specified table lineage unchanged -/
theorem spec_tables_cfg (env : Walk.Env) (c : Cfg) (s : Stmt) (h : Ok (news c.ρ) (names s)) :
    Spec.reads env (renStmt c s) = Spec.reads env s ∧ Spec.writes env (renStmt c s) = Spec.writes env s := by
  cases s with
  | query q b =>
    have := rd_query env c [] [] q (by simpa [names, Rename.stmtQuery?] using h)
    simpa [renStmt, Spec.reads, Spec.writes] using this
  | insert k tk tgt cols q b =>
    have := rd_query env c [] [] q (by simpa [names, Rename.stmtQuery?] using h)
    simpa [renStmt, Spec.reads, Spec.writes] using this
  | ctas tgt o i q b =>
    have := rd_query env c [] [] q (by simpa [names, Rename.stmtQuery?] using h)
    simpa [renStmt, Spec.reads, Spec.writes] using this
  | createView tgt o cols q =>
    have := rd_query env c [] [] q (by simpa [names, Rename.stmtQuery?] using h)
    simpa [renStmt, Spec.reads, Spec.writes] using this
  | _ => simp [renStmt]

/-- **C08, tables, specification side** — for ALL statements: a fresh injective renaming of CTE names, table aliases and
    derived‑table aliases leaves the tables read and written unchanged (CTE scoping commutes with renaming; base‑table
    names are untouched and are not captured) -/
theorem spec_alpha_tables (env : Walk.Env) (ρ : Subst) (s : Stmt) (h : FreshInj ρ s) :
    Spec.reads env (renameStmt ρ s) = Spec.reads env s ∧ Spec.writes env (renameStmt ρ s) = Spec.writes env s :=
  spec_tables_cfg env { ρ := ρ } s (freshInj_ok h)

private theorem ok_nil_news (l : Names) : Ok (news []) l := by intro x _ _ h; cases h

/-- adding an alias to un‑aliased tables (any aliases) does not change the specified tables -/
theorem add_alias_tables (env : Walk.Env) (a : Subst) (s : Stmt) :
    Spec.reads env (addAlias a s) = Spec.reads env s ∧ Spec.writes env (addAlias a s) = Spec.writes env s :=
  spec_tables_cfg env { add := a } s (ok_nil_news _)

/-- removing aliases does not change the specified tables -/
theorem drop_alias_tables (env : Walk.Env) (d : List String) (s : Stmt) :
    Spec.reads env (dropAlias d s) = Spec.reads env s ∧ Spec.writes env (dropAlias d s) = Spec.writes env s :=
  spec_tables_cfg env { drop := d } s (ok_nil_news _)

/-- the optional AS keyword does not change the specified tables -/
theorem toggleAs_tables (env : Walk.Env) (s : Stmt) :
    Spec.reads env (toggleAs s) = Spec.reads env s ∧ Spec.writes env (toggleAs s) = Spec.writes env s :=
  spec_tables_cfg env { toggle := true, toggleItems := true } s (ok_nil_news _)

/-- the general form for the engine: the deviation classes of a statement (the complement of `Frag01`) are unchanged,
    provided the statement is not in class D5 (see `frag_alpha_needs_D5free`) -/
theorem frag_cfg (c : Cfg) (s : Stmt) (h : Ok (news c.ρ) (names s)) (hd : "D5" ∉ Spec.deviations s) :
    Spec.deviations (renStmt c s) = Spec.deviations s := by
  have key : ∀ q, Ok (news c.ρ) (nmQuery q) → "D5" ∉ (devQuery [] (cteNamesQ q) q).eraseDups →
      (devQuery [] (cteNamesQ (renQuery c [] [] q)) (renQuery c [] [] q)).eraseDups = (devQuery [] (cteNamesQ q) q).eraseDups := by
    intro q hq hd
    have hd' : NoD5 (devQuery [] (cteNamesQ q) q) := fun hm => hd (List.mem_eraseDups.mpr hm)
    have := dev_query c [] (cteNamesQ q) [] q hq hd'
    rw [cn_query]
    simp only [List.map_nil] at this
    rw [this]
  cases s with
  | query q b =>
    exact key q (by simpa [names, Rename.stmtQuery?] using h) (by simpa [Spec.deviations, Spec.stmtQuery?] using hd)
  | insert k tk tgt cols q b =>
    exact key q (by simpa [names, Rename.stmtQuery?] using h) (by simpa [Spec.deviations, Spec.stmtQuery?] using hd)
  | ctas tgt o i q b =>
    exact key q (by simpa [names, Rename.stmtQuery?] using h) (by simpa [Spec.deviations, Spec.stmtQuery?] using hd)
  | createView tgt o cols q =>
    exact key q (by simpa [names, Rename.stmtQuery?] using h) (by simpa [Spec.deviations, Spec.stmtQuery?] using hd)
  | _ => simp [renStmt]

/-- **the fragment is invariant** — a fresh injective renaming does not move a statement into or out of any deviation
    class (D2, D2w, D3, D4, D7‑branch are purely structural; D5 compares table names with CTE names).
    Full statement wanted: without the D5 hypothesis.  That one is FALSE (next theorem): renaming the CTE of
    `with t1 as (select * from t1) select * from t1` removes the clash that makes the statement a D5 instance. -/
theorem frag_alpha (ρ : Subst) (s : Stmt) (h : FreshInj ρ s) (hd : "D5" ∉ Spec.deviations s) :
    Spec.deviations (renameStmt ρ s) = Spec.deviations s :=
  frag_cfg { ρ := ρ } s (freshInj_ok h) hd

/-- hence `Frag01` is closed under fresh injective renaming -/
theorem frag01_alpha (ρ : Subst) (s : Stmt) (h : FreshInj ρ s) (hs : Frag01 s) : Frag01 (renameStmt ρ s) := by
  unfold Frag01 at *
  rw [frag_alpha ρ s h (by rw [hs]; simp), hs]

def d5Stmt : Stmt :=
  .query (.withq [.mk "t1" (.select false [.mk (.star []) none false] [.mk (.table ["t1"] none false) []] none [] none)]
    (.select false [.mk (.star []) none false] [.mk (.table ["t1"] none false) []] none [] none)) false

/-- the D5 hypothesis of `frag_alpha` cannot be dropped: `with t1 as (select * from t1) select * from t1` is in class D5
    (the code resolves the inner `t1` to the CTE), `with z as (select * from t1) select * from z` is not; the specified
    table lineage is the same -/
theorem frag_alpha_needs_D5free :
    FreshInj [("t1", "z")] d5Stmt ∧ Spec.deviations d5Stmt = ["D5"] ∧ Spec.deviations (renameStmt [("t1", "z")] d5Stmt) = [] ∧
    Spec.reads {} (renameStmt [("t1", "z")] d5Stmt) = Spec.reads {} d5Stmt := by decide

/-- **tables by the walk, as a corollary of the (pending) exactness theorem of C01** — stated for any observable `T` of a
    statement (intended: the tables `Walk.analyze` reports as read, `walkReads` below) with the exactness hypothesis
    explicit: on `Frag01`, `T` has the same members as `Spec.reads` -/
theorem walk_alpha_tables (env : Walk.Env) (T : Stmt → List String)
    (hex : ∀ s, Frag01 s → ∀ t, t ∈ T s ↔ t ∈ Spec.reads env s)
    (ρ : Subst) (s : Stmt) (hf : FreshInj ρ s) (hs : Frag01 s) :
    ∀ t, t ∈ T (renameStmt ρ s) ↔ t ∈ T s := by
  intro t
  rw [hex _ (frag01_alpha ρ s hf hs), hex s hs, (spec_alpha_tables env ρ s hf).1]

/-- the tables the walk reports as read by a statement (printed names) -/
def walkReads (env : Walk.Env) (s : Stmt) : List String :=
  match Walk.analyze env false s with
  | .ok g => (Assemble.stmtRead g).filterMap (fun n => match n with | .ds d => some (Holder.printedDS g d) | _ => none)
  | .error _ => []

/-- end‑to‑end column pairs of a statement by the walk -/
def walkPairs (env : Walk.Env) (s : Stmt) : List (String × String) :=
  match Walk.analyze env false s with
  | .ok g => (Paths.columnLineage g).filterMap (fun p =>
      match p.head?, p.getLast? with
      | some (.col a _), some (.col b _) => some (a, b)
      | _, _ => none)
  | .error _ => []

/-! ### the optional AS keyword

What is proved: (1) `toggleAs_tables` above — the specification does not see it, for all statements; (2) the leaves of
the walk that look at a FROM element or a select item ignore the flag (next three theorems, for arbitrary flag values).
What is NOT proved: `Walk.analyze env silent (toggleAs s) = Walk.analyze env silent s`.  It is false as stated: the walk
identifies a subquery by its raw text (`models.py:132‑136`, `Walk.subqRaw`) and names an un‑aliased expression item by
its text, and the text of `(select a from t as x)` differs from that of `(select a from t x)`; the graphs are equal only
up to those raw texts (the correspondence check masks `subquery_<hash>` names for this reason). -/

/-- `insert into tgt select d.a from (select x.a from t1 x) d` -/
def asStmt : Stmt :=
  .insert .insertInto false ["tgt"] none
    (.select false [.mk (.col ["d"] "a") none false]
      [.mk (.derived (.select false [.mk (.col ["x"] "a") none false] [.mk (.table ["t1"] (some "x") false) []] none [] none)
        (some "d") false) []] none [] none) false

def walkNodes (env : Walk.Env) (s : Stmt) : List Node :=
  match Walk.analyze env false s with
  | .ok g => g.nodes
  | .error _ => []

/-- why `Walk.analyze env silent (toggleAs s) = Walk.analyze env silent s` is not a theorem: on `asStmt` the two holder
    graphs have different nodes (the derived table is the node `subq "(select x.a from t1 as x)"` in one and
    `subq "(select x.a from t1 x)"` in the other) while tables and end‑to‑end pairs are the same -/
theorem toggleAs_changes_only_raw_identity :
    walkNodes {} (toggleAs asStmt) ≠ walkNodes {} asStmt ∧
    walkReads {} (toggleAs asStmt) = walkReads {} asStmt ∧ walkPairs {} (toggleAs asStmt) = walkPairs {} asStmt ∧
    walkPairs {} asStmt = [("<default>.t1.a", "<default>.tgt.a")] := by decide +kernel

theorem datasetOfElem_ignores_as (env : Walk.Env) (g : LGraph) (parts : List String) (alias : Option String) (k k' : Bool) :
    Walk.datasetOfElem env g (.table parts alias k) = Walk.datasetOfElem env g (.table parts alias k') := rfl

theorem datasetOfElem_derived_ignores_as (env : Walk.Env) (g : LGraph) (q : Query) (alias : Option String) (k k' : Bool) :
    Walk.datasetOfElem env g (.derived q alias k) = Walk.datasetOfElem env g (.derived q alias k') := rfl

theorem colSpecOf_ignores_as (env : Walk.Env) (e : Expr) (alias : Option String) (k k' : Bool) :
    Walk.colSpecOf env (.mk e alias k) = Walk.colSpecOf env (.mk e alias k') := by
  cases alias with
  | some a => rfl
  | none => simp [Walk.colSpecOf, Render.item, Render.aliasSuffix]

/-- … and the rendered text of a FROM element / item differs only by the keyword: with no alias there is no difference -/
theorem render_no_alias_ignores_as (o : Render.Opts) (parts : List String) (k k' : Bool) :
    Render.fromElem o (.table parts none k) = Render.fromElem o (.table parts none k') := by
  simp [Render.fromElem, Render.aliasSuffix]

/-! ### D7: an alias equal to another table's bare name -/

open Holder in
/-- the holder of `… from sch1.foo <alias> join sch2.tab t9 …` -/
def d7Graph (alias : String) : LGraph :=
  addReadO (addReadO Graph.empty (Walk.mkTable {} ["sch1", "foo"] (some alias))) (Walk.mkTable {} ["sch2", "tab"] (some "t9"))

open Holder in
def d7Group (alias : String) : List DObj := [Walk.mkTable {} ["sch1", "foo"] (some alias), Walk.mkTable {} ["sch2", "tab"] (some "t9")]

open Holder in
/-- what `alias.x` resolves to under a given alias map -/
def d7Resolve (am : LGraph → List DObj → AliasMap) (alias : String) : List String :=
  (toSourceColumns Gen.Const.schemaUnknown (am (d7Graph alias) (d7Group alias)) (ColSpec.of "x" [("x", some alias)])).map Column.printed

/-- **D7 witness (code as found)**: with alias `q1` the reference `q1.x` is a column of `sch1.foo`; renaming the alias to
    `tab` — the bare name of the OTHER table, which itself carries the alias `t9` — makes `tab.x` a column of `sch2.tab` -/
theorem dev_D7 :
    d7Resolve Holder.aliasMappingOrig "q1" = ["sch1.foo.x"] ∧ d7Resolve Holder.aliasMappingOrig "tab" = ["sch2.tab.x"] := by
  decide

/-- with the repair the answer does not depend on the alias -/
theorem fixed_D7 :
    d7Resolve Holder.aliasMappingFixed "q1" = ["sch1.foo.x"] ∧ d7Resolve Holder.aliasMappingFixed "tab" = ["sch1.foo.x"] := by
  decide

open Holder in
/-- `… from t2 left join s2.t2 q1 …`: what `t2.c` resolves to — the table without alias, or the one only reachable as `q1` -/
def d7ResolveDefault (am : LGraph → List DObj → AliasMap) : List String :=
  let grp := [Walk.mkTable {} ["t2"] none, Walk.mkTable {} ["s2", "t2"] (some "q1")]
  (toSourceColumns Gen.Const.schemaUnknown (am (grp.foldl addReadO Graph.empty) grp) (ColSpec.of "c" [("c", some "t2")])).map
    Column.printed

/-- the second face of D7: the DEFAULT alias of an un‑aliased table is overridden by the bare name of an aliased one
    (adding an alias to `t2` changes the answer); the repaired map gives the table without alias -/
theorem dev_D7_default :
    d7ResolveDefault Holder.aliasMappingOrig = ["s2.t2.c"] ∧ d7ResolveDefault Holder.aliasMappingFixed = ["<default>.t2.c"] := by
  decide

/-- **the repaired map, for all holders and groups**: an alias written in the query resolves to the (last) relation that
    carries it, whatever bare or qualified table names are in scope -/
theorem explicit_alias_wins (g : LGraph) (grp : List Holder.DObj) (a : String) (e : String × (DS × String))
    (h : ((Holder.aliasEdges g grp).filter Holder.isExplicit).reverse.find? (·.1 == a) = some e) :
    Holder.amGet (Holder.aliasMappingFixed g grp) a = some e.2 := by
  simp [Holder.amGet, Holder.aliasMappingFixed, List.reverse_append, List.find?_append, h]

/-- the model in force (`Model/HolderOps.lean`) is the REPAIRED code (fix `D7-explicit-alias-hides-bare-table-name`) -/
theorem model_alias_mapping : Holder.aliasMapping = Holder.aliasMappingFixed := rfl

def d7Stmt : Stmt :=
  .insert .insertInto false ["tgt"] none
    (.select false [.mk (.col ["q1"] "x") none false]
      [.mk (.table ["sch1", "foo"] (some "q1") false)
        [.mk "join" (.table ["sch2", "tab"] (some "t9") false) (some (.bin "=" (.col ["q1"] "k") (.col ["t9"] "k"))) []]]
      none [] none) false

/-- **the D7 witness through the whole walk, repaired model**: `insert into tgt select q1.x from sch1.foo q1 join sch2.tab t9
    on q1.k = t9.k` reports `sch1.foo.x → tgt.x` before and after `q1 ↦ tab` -/
theorem analysis_D7_fixed :
    walkPairs {} d7Stmt = [("sch1.foo.x", "<default>.tgt.x")] ∧
    walkPairs {} (renameStmt [("q1", "tab")] d7Stmt) = [("sch1.foo.x", "<default>.tgt.x")] := by decide +kernel

/-- the renaming `q1 ↦ tab` is injective and clashes with no local name and no qualifier (`freshInjLoose`), it is refused
    by `FreshInj` only because `tab` is the bare name of a table: exactly the D7 class -/
theorem d7_renaming_class :
    freshInjLoose [("q1", "tab")] d7Stmt = true ∧ ¬ FreshInj [("q1", "tab")] d7Stmt ∧ d7Class [("q1", "tab")] d7Stmt = true ∧
    FreshInj [("q1", "q2")] d7Stmt := by decide

/-! ### non‑vacuity -/

/-- `insert into tgt with c1 as (select x.a, t2.b from s1.t1 x join t2 on x.a = t2.a)
      select d.a, c1.b from (select y.a from c1 y) d join c1 on d.a = c1.a` — a CTE, a derived table, two aliases -/
def exStmt : Stmt :=
  .insert .insertInto false ["tgt"] none
    (.withq [.mk "c1" (.select false [.mk (.col ["x"] "a") none false, .mk (.col ["t2"] "b") none false]
        [.mk (.table ["s1", "t1"] (some "x") false)
          [.mk "join" (.table ["t2"] none false) (some (.bin "=" (.col ["x"] "a") (.col ["t2"] "a"))) []]] none [] none)]
      (.select false [.mk (.col ["d"] "a") none false, .mk (.col ["c1"] "b") none false]
        [.mk (.derived (.select false [.mk (.col ["y"] "a") none false] [.mk (.table ["c1"] (some "y") true) []] none [] none)
            (some "d") false)
          [.mk "join" (.table ["c1"] none false) (some (.bin "=" (.col ["d"] "a") (.col ["c1"] "a"))) []]] none [] none))
    false

def exρ : Subst := [("c1", "Cte9"), ("x", "n2"), ("d", "key"), ("y", "n4")]

example : FreshInj exρ exStmt := by decide
example : Frag01 exStmt := by decide
example : Render.stmt {} (renameStmt exρ exStmt) =
    "insert into tgt with Cte9 as (select n2.a, t2.b from s1.t1 n2 join t2 on n2.a = t2.a) " ++
    "select key.a, Cte9.b from (select n4.a from Cte9 as n4) key join Cte9 on key.a = Cte9.a" := by decide +kernel
example : Spec.reads {} exStmt = ["s1.t1", "<default>.t2"] ∧ Spec.reads {} (renameStmt exρ exStmt) = ["s1.t1", "<default>.t2"] := by
  decide
/-- a renaming that is NOT fresh: giving the CTE of `with c1 as (select a from t1) select * from c1 join t2` the name of
    the base table `t2` captures that table -/
def captureStmt : Stmt :=
  .query (.withq [.mk "c1" (.select false [.mk (.col [] "a") none false] [.mk (.table ["t1"] none false) []] none [] none)]
    (.select false [.mk (.star []) none false]
      [.mk (.table ["c1"] none false) [.mk "join" (.table ["t2"] none false) none []]] none [] none)) false
example : ¬ FreshInj [("c1", "t2")] captureStmt ∧
    Spec.reads {} (renameStmt [("c1", "t2")] captureStmt) ≠ Spec.reads {} captureStmt := by decide
/-- adding, dropping, toggling on the example -/
example : Render.stmt {} (addAlias [("t2", "k9")] exStmt) =
    "insert into tgt with c1 as (select x.a, k9.b from s1.t1 x join t2 k9 on x.a = k9.a) " ++
    "select d.a, c1.b from (select y.a from c1 as y) d join c1 on d.a = c1.a" := by decide +kernel
example : dropOk ["x"] exStmt = true ∧ Render.stmt {} (dropAlias ["x"] exStmt) =
    "insert into tgt with c1 as (select t1.a, t2.b from s1.t1 join t2 on t1.a = t2.a) " ++
    "select d.a, c1.b from (select y.a from c1 as y) d join c1 on d.a = c1.a" := by decide +kernel
example : Render.stmt {} (toggleAs exStmt) =
    "insert into tgt with c1 as (select x.a, t2.b from s1.t1 as x join t2 on x.a = t2.a) " ++
    "select d.a, c1.b from (select y.a from c1 y) as d join c1 on d.a = c1.a" := by decide +kernel
/-- scoping: an inner alias `x` shadows the outer one; a qualifier that names a base table is not touched although the
    same name is renamed as an alias elsewhere -/
example : Render.query {} (renQuery { ρ := [("x", "n")] } [] []
    (.select false [.mk (.col ["x"] "a") none false] [.mk (.table ["x"] none false) []]
      (some (.exist false (.select false [.mk (.col ["x"] "b") none false] [.mk (.table ["t2"] (some "x") false) []] none [] none)))
      [] none)) = "select x.a from x where exists (select n.b from t2 n)" := by decide

end SqlLineage.Props.C08
