/-
C17 — the visualisation server only discloses files under its roots.

All theorems are about `SqlLineage.PathSec` (model of `sqllineage/drawing.py` request handling with the REPAIRED
containment check, `respond`; the original check is kept as `respondOrig` for the deviation witnesses D22, D23).
They hold for every world (directory tree, working directory, root setting, static folder) and every request:
path strings of any length over any characters.

Vocabulary
  * `served r`            – the response carries file content or directory entries
  * `accessed w rq`       – the pathlib path the handler hands to the operating system for this request
  * `w.resolved p`        – segments of `p.resolve()`: made absolute below the working directory, `.`/`..` eliminated
  * `Inside a root`       – `root` is a prefix of `a` (both resolved segment lists)

Trusted base specific to this file (everything else is proved or checked by the correspondence on every run):
  (T1) For a tree without symbolic links, `pathlib.Path.resolve()` (= `os.path.realpath`, non‑strict) of a path equals
       the lexical resolution `w.resolved` – join below `os.getcwd()` when relative, drop `.` and empty segments, let
       `..` remove the previous segment, `/..` = `/`, a `//` root collapses to `/` – whether or not the path exists; and
       `a.is_relative_to(b)` on two resolved paths is `b`'s parts being a prefix of `a`'s parts.  `harness/c17.py` part L
       compares exactly this with the library on every enumerated spelling, parts P/G compare the resulting decisions.
  (T2) The operating system resolves the string it is given as `osResolve` does (component by component from `/` or
       the working directory, every component requiring a directory, no symbolic links).  `os_resolve_lexical` below
       *proves* that whenever this succeeds it ends at the lexically resolved location, so containment of the resolved
       path is containment of the object actually opened.
  Symbolic links are outside the model and outside the property as checked here.
-/
import SqlLineage.Model.PathSec
import SqlLineage.Gen.Const

namespace SqlLineage.Props.C17
open SqlLineage.PathSec

/-! ### character level: a `..` segment needs a `..` substring -/

private theorem splitSlash_ne_nil (s : Str) : splitSlash s ≠ [] := by
  cases s with
  | nil => simp [splitSlash]
  | cons c r =>
    unfold splitSlash
    split
    · simp
    · split <;> simp

private theorem splitSlash_head_prefix (s : Str) (h : Seg) (t : List Seg) (e : splitSlash s = h :: t) : h <+: s := by
  induction s generalizing h t with
  | nil =>
    simp [splitSlash] at e
    obtain ⟨e1, _⟩ := e
    subst e1
    exact List.prefix_rfl
  | cons c r ih =>
    unfold splitSlash at e
    split at e
    · simp at e
      obtain ⟨e1, _⟩ := e
      subst e1
      exact List.nil_prefix
    · split at e
      · simp at e
        obtain ⟨e1, _⟩ := e
        subst e1
        exact ⟨r, rfl⟩
      · rename_i h' t' e'
        simp at e
        obtain ⟨e1, _⟩ := e
        subst e1
        exact (List.cons_prefix_cons).2 ⟨rfl, ih h' t' e'⟩

/-- every piece of `s.split("/")` is a contiguous part of `s` -/
theorem mem_splitSlash_infix (s : Str) (seg : Seg) (h : seg ∈ splitSlash s) : seg <:+: s := by
  induction s generalizing seg with
  | nil => simp [splitSlash] at h; rw [h]; exact List.infix_rfl
  | cons c r ih =>
    unfold splitSlash at h
    split at h
    · rcases List.mem_cons.1 h with h | h
      · rw [h]; exact List.nil_infix
      · exact List.infix_cons (ih seg h)
    · split at h
      · rename_i e; exact absurd e (splitSlash_ne_nil r)
      · rename_i h' t' e'
        rcases List.mem_cons.1 h with h | h
        · rw [h]
          exact ((List.cons_prefix_cons).2 ⟨rfl, splitSlash_head_prefix r h' t' e'⟩).isInfix
        · exact List.infix_cons (ih seg (by rw [e']; exact List.mem_cons_of_mem _ h))

/-- the executable substring test finds every contiguous occurrence -/
theorem hasSub_of_infix (pat s : Str) (h : pat <:+: s) : hasSub pat s = true := by
  induction s with
  | nil =>
    have : pat = [] := List.infix_nil.1 h
    simp [hasSub, this]
  | cons c r ih =>
    unfold hasSub
    rcases List.infix_cons_iff.1 h with h | h
    · simp [List.isPrefixOf_iff_prefix.2 h]
    · simp [ih h]

/-- helper lemma of the GET branch: **no `..` substring ⇒ no segment equals `..`** -/
theorem no_dotdot_substring_no_dotdot_segment (s : Str) (h : hasSub dotdot s = false) :
    ∀ seg ∈ splitSlash s, seg ≠ dotdot := by
  intro seg hm e
  have := hasSub_of_infix dotdot s (e ▸ mem_splitSlash_infix s seg hm)
  simp [this] at h

private theorem stripSlash_infix (s : Str) : stripSlash s <:+: s := by
  unfold stripSlash
  have h1 : ((s.dropWhile (· = '/')).reverse.dropWhile (· = '/')).reverse <+: s.dropWhile (· = '/') := by
    have := List.dropWhile_suffix (l := (s.dropWhile (· = '/')).reverse) (· = '/')
    have := List.reverse_prefix.2 this
    simpa using this
  exact h1.isInfix.trans (List.dropWhile_suffix _).isInfix

private theorem leadingSlashes_eq_zero_of_head (s : Str) (h : s.head? ≠ some '/') : leadingSlashes s = 0 := by
  cases s with
  | nil => rfl
  | cons c r =>
    unfold leadingSlashes
    have : c ≠ '/' := by intro e; simp [e] at h
    simp [this]

private theorem stripSlash_head (s : Str) : (stripSlash s).head? ≠ some '/' := by
  unfold stripSlash
  intro e
  -- the stripped string is a prefix of `dropWhile` whose head is not a slash
  have hp : ((s.dropWhile (· = '/')).reverse.dropWhile (· = '/')).reverse <+: s.dropWhile (· = '/') := by
    have := List.dropWhile_suffix (l := (s.dropWhile (· = '/')).reverse) (· = '/')
    have := List.reverse_prefix.2 this
    simpa using this
  obtain ⟨t, ht⟩ := hp
  have hd := List.head?_dropWhile_not (· = '/') s
  generalize ((s.dropWhile (· = '/')).reverse.dropWhile (· = '/')).reverse = u at e ht
  cases u with
  | nil => simp at e
  | cons c r =>
    simp at e
    rw [← ht] at hd
    simp [e] at hd

/-- `path_info.strip("/")` is never anchored, so joining it below the static folder cannot replace the folder -/
theorem parse_stripSlash_relative (s : Str) : (parse (stripSlash s)).root = 0 := by
  simp [parse, leadingSlashes_eq_zero_of_head _ (stripSlash_head s)]

/-! ### lexical resolution -/

private theorem foldl_resolveStep_clean (acc b : List Seg)
    (h : ∀ s ∈ b, keepSeg s = true ∧ s ≠ dotdot) : b.foldl resolveStep acc = acc ++ b := by
  induction b generalizing acc with
  | nil => simp
  | cons s r ih =>
    have hs := h s (by simp)
    have hk : s ≠ [] ∧ s ≠ dot := by simpa [keepSeg] using hs.1
    have : resolveStep acc s = acc ++ [s] := by simp [resolveStep, hs.2, hk.1, hk.2]
    simp [List.foldl_cons, this, ih (acc ++ [s]) (fun x hx => h x (by simp [hx]))]

private theorem join_join_tail (c a b : PurePath) (hb : b.root = 0) :
    (c.join (a.join b)).tail = (c.join a).tail ++ b.tail := by
  unfold PurePath.join
  by_cases ha : a.root = 0 <;> simp [hb, ha]

/-- joining a relative path without `..` below `a` stays inside `a` -/
theorem inside_join_clean (w : World) (a b : PurePath) (hb : b.root = 0)
    (hc : ∀ s ∈ b.tail, keepSeg s = true ∧ s ≠ dotdot) :
    Inside (w.resolved (a.join b)) (w.resolved a) := by
  unfold Inside World.resolved World.absolute resolve
  rw [join_join_tail _ _ _ hb, List.foldl_append, foldl_resolveStep_clean _ _ hc]
  exact List.prefix_append _ _

private theorem parse_tail_clean (s : Str) (h : hasSub dotdot s = false) :
    ∀ x ∈ (parse s).tail, keepSeg x = true ∧ x ≠ dotdot := by
  intro x hx
  simp only [parse, List.mem_filter] at hx
  exact ⟨hx.2, no_dotdot_substring_no_dotdot_segment s h x hx.1⟩

private theorem hasSub_false_of_infix (pat s t : Str) (hi : t <:+: s) (h : hasSub pat s = false) :
    hasSub pat t = false := by
  cases e : hasSub pat t with
  | false => rfl
  | true =>
    -- an occurrence in `t` is an occurrence in `s`
    have : pat <:+: t := by
      clear hi h
      induction t with
      | nil => simp [hasSub] at e; rw [e]; exact List.infix_rfl
      | cons c r ih =>
        unfold hasSub at e
        have e : (pat.isPrefixOf (c :: r) = true) ∨ hasSub pat r = true := by simpa using e
        rcases e with e | e
        · exact (List.isPrefixOf_iff_prefix.1 e).isInfix
        · exact List.infix_cons (ih e)
    have := hasSub_of_infix pat s (this.trans hi)
    simp [this] at h

/-! ### 1. GET: what is served lies inside the static folder -/

/-- **get_contained.**  Whatever `PATH_INFO` is, a GET that returns file content returns it for a path that – resolved –
    lies inside the (resolved) static folder. -/
theorem get_contained (w : World) (p : Str) (pl : Payload) :
    served (respond w ⟨.GET, p, pl⟩) = true →
    accessed w ⟨.GET, p, pl⟩ = some (getTarget w p) ∧
    Inside (w.resolved (getTarget w p)) (w.resolved w.static) := by
  intro hs
  refine ⟨rfl, ?_⟩
  unfold getTarget
  by_cases hp : p = ['/']
  · simp only [hp, if_true]
    exact inside_join_clean w _ _ (by decide) (by decide)
  · simp only [hp, if_false]
    by_cases hd : hasSub dotdot p = true
    · simp [respond, respondWith, respondGet, hp, hd, served] at hs
    · have hd' : hasSub dotdot p = false := by simpa using hd
      exact inside_join_clean w _ _ (parse_stripSlash_relative p)
        (parse_tail_clean _ (hasSub_false_of_infix _ _ _ (stripSlash_infix p) hd'))

/-- every `PATH_INFO` (other than `/`) that contains `..` anywhere is refused before the file system is touched -/
theorem get_dotdot_refused (w : World) (p : Str) (pl : Payload) (hp : p ≠ ['/']) (hd : hasSub dotdot p = true) :
    respond w ⟨.GET, p, pl⟩ = .notFound404 := by
  simp [respond, respondWith, respondGet, hp, hd]

/-! ### 2. POST: what is served lies inside the configured root -/

private theorem truthy_some (o : Option Str) (x : Str) (h : truthy o = some x) : o = some x := by
  unfold truthy at h
  split at h
  · simpa using h
  · simp at h

private theorem inRoot_inside (w : World) (a : PurePath) (h : w.inRoot a = true) :
    Inside (w.resolved a) (w.resolved w.root) :=
  List.isPrefixOf_iff_prefix.1 h

private theorem allowed_mem (w : World) (pl : Payload) (h : allowedFixed w pl = true) (a : PurePath)
    (ha : a ∈ checkedPaths pl) : Inside (w.resolved a) (w.resolved w.root) :=
  inRoot_inside w a (List.all_eq_true.1 h a ha)

/-- what a POST handler accesses on behalf of the request is one of the validated paths -/
theorem accessed_is_checked (w : World) (route : Str) (pl : Payload) (a : PurePath)
    (hacc : accessed w ⟨.POST, route, pl⟩ = some a)
    (hreq : route ≠ routeDirectory ∨ truthy pl.f ≠ none ∨ truthy pl.d ≠ none) :
    a ∈ checkedPaths pl := by
  simp only [accessed] at hacc
  by_cases hdir : route = routeDirectory
  · simp only [hdir, if_true, Option.some.injEq] at hacc
    subst hacc
    unfold dirTarget checkedPaths
    cases hf : truthy pl.f with
    | some f => simp
    | none =>
      cases hd : truthy pl.d with
      | some d => simp [truthy_some _ _ hd]
      | none => simp [hdir, hf, hd] at hreq
  · simp only [hdir, if_false] at hacc
    by_cases hr : route ∈ routes
    · simp only [hr, if_true] at hacc
      cases hf : truthy pl.f with
      | none => simp [hf] at hacc
      | some f =>
        simp [hf] at hacc
        subst hacc
        simp [checkedPaths, truthy_some _ _ hf]
    · simp [hr] at hacc

/-- **post_contained.**  A POST that returns file content, an analysis of file content, or a directory listing
    accessed a path that – resolved – lies inside the (resolved) `root_path`; the only other thing `/directory` ever
    lists is the configured default directory, and only when the request names neither `f` nor `d`. -/
theorem post_contained (w : World) (route : Str) (pl : Payload) :
    served (respond w ⟨.POST, route, pl⟩) = true →
    ∃ a, accessed w ⟨.POST, route, pl⟩ = some a ∧
      (Inside (w.resolved a) (w.resolved w.root) ∨
       (route = routeDirectory ∧ truthy pl.f = none ∧ truthy pl.d = none ∧ a = parse w.defaultDir)) := by
  intro hs
  simp only [respond, respondWith, respondPost] at hs
  by_cases hr : route ∈ routes
  · by_cases hal : allowedFixed w pl = true
    · by_cases hdir : route = routeDirectory
      · refine ⟨dirTarget w pl, by simp [accessed, hdir], ?_⟩
        by_cases hreq : truthy pl.f ≠ none ∨ truthy pl.d ≠ none
        · exact Or.inl (allowed_mem w pl hal _ (accessed_is_checked w route pl _ (by simp [accessed, hdir])
            (Or.inr hreq)))
        · have h1 : truthy pl.f = none := by
            cases h : truthy pl.f with
            | none => rfl
            | some _ => exact absurd (Or.inl (by simp [h])) hreq
          have h2 : truthy pl.d = none := by
            cases h : truthy pl.d with
            | none => rfl
            | some _ => exact absurd (Or.inr (by simp [h])) hreq
          exact Or.inr ⟨hdir, h1, h2, by simp [dirTarget, h1, h2]⟩
      · cases hf : truthy pl.f with
        | none => simp [hr, hal, hdir, hf, served] at hs
        | some f =>
          have hacc : accessed w ⟨.POST, route, pl⟩ = some (parse f) := by simp [accessed, hdir, hr, hf]
          exact ⟨parse f, hacc, Or.inl (allowed_mem w pl hal _ (accessed_is_checked w route pl _ hacc (Or.inl hdir)))⟩
    · simp [hr, hal, served] at hs
  · simp [hr, served] at hs

/-- completeness of the refusal: a request‑derived path that resolves outside the root is answered 403, whatever the
    file system contains -/
theorem post_escape_refused (w : World) (route : Str) (pl : Payload) (a : PurePath)
    (hr : route ∈ routes)
    (hacc : accessed w ⟨.POST, route, pl⟩ = some a)
    (hreq : route ≠ routeDirectory ∨ truthy pl.f ≠ none ∨ truthy pl.d ≠ none)
    (hout : ¬ Inside (w.resolved a) (w.resolved w.root)) :
    respond w ⟨.POST, route, pl⟩ = .forbidden403 := by
  have hm := accessed_is_checked w route pl a hacc hreq
  have : allowedFixed w pl = false := by
    cases h : allowedFixed w pl with
    | false => rfl
    | true => exact absurd (allowed_mem w pl h a hm) hout
  simp [respond, respondWith, respondPost, hr, this]

/-! ### 3. Refusals reveal nothing -/

/-- **refusal_reveals_nothing.**  A response that is not `served` is one of: the three fixed JSON messages
    (403 / 404 / 405) or the empty pre‑flight answer – literal bodies, `Resp.fixedBody` –, a result computed from the
    request alone, or no response at all (exception).  None of them has a file‑system‑dependent body. -/
theorem refusal_reveals_nothing (w : World) (rq : Request) (h : served (respond w rq) = false) :
    (respond w rq).fixedBody.isSome = true ∨ respond w rq = .fromPayload ∨ ∃ e, respond w rq = .crash e := by
  cases hr : respond w rq <;> simp_all [served, Resp.fixedBody]

/-- methods other than GET / POST never reach the file system -/
theorem other_methods_touch_nothing (w : World) (rq : Request) (h : rq.method = .OPTIONS ∨ rq.method = .other) :
    served (respond w rq) = false ∧ accessed w rq = none := by
  rcases h with h | h <;> simp only [respond, respondWith, accessed, h] <;> (try split) <;> simp [served]

/-! ### 4. The operating system ends where the lexical resolution says (symlink‑free tree) -/

private theorem walkStep_names (fs : Node) (st st' : Stack) (s : Seg) (h : walkStep fs st s = .ok st') :
    st'.map (·.1) = resolveStep (st.map (·.1)) s := by
  unfold walkStep at h
  split at h
  · simp at h
  · unfold resolveStep
    by_cases h1 : s = dotdot
    · simp only [h1, if_true, Except.ok.injEq] at h ⊢
      rw [← h, List.map_dropLast]
    · by_cases h2 : s = [] ∨ s = dot
      · simp only [h1, h2, if_true, if_false, Except.ok.injEq] at h ⊢
        rw [← h]
      · simp only [h1, h2, if_false] at h ⊢
        split at h
        · simp only [Except.ok.injEq] at h
          rw [← h]; simp
        · simp at h

/-- successful resolution on the tree ends at the lexically resolved location -/
theorem walk_names (fs : Node) (st st' : Stack) (segs : List Seg) (h : walk fs st segs = .ok st') :
    st'.map (·.1) = segs.foldl resolveStep (st.map (·.1)) := by
  induction segs generalizing st with
  | nil => simp [walk] at h; simp [h]
  | cons s r ih =>
    unfold walk at h
    split at h
    · rename_i st1 e
      rw [List.foldl_cons, ← walkStep_names fs st st1 s e]
      exact ih st1 h
    · simp at h

private theorem foldl_resolveStep_filter (acc : List Seg) (l : List Seg) :
    (l.filter keepSeg).foldl resolveStep acc = l.foldl resolveStep acc := by
  induction l generalizing acc with
  | nil => rfl
  | cons s r ih =>
    by_cases hk : keepSeg s = true
    · simp [hk, ih]
    · have hk' : s = [] ∨ s = dot := by
        by_cases h1 : s = []
        · exact Or.inl h1
        · by_cases h2 : s = dot
          · exact Or.inr h2
          · exact absurd (by simp [keepSeg, h1, h2]) hk
      have hne : s ≠ dotdot := by
        rcases hk' with h | h <;> (rw [h]; decide)
      have : resolveStep acc s = acc := by simp [resolveStep, hne, hk']
      simp [hk, this, ih]

/-- **os_resolve_lexical.**  If the operating system resolves the string `raw` (relative to the working directory when
    not anchored) and no symbolic link is involved, the names of the directories it went through are exactly
    `Path(raw).resolve()`'s parts.  Hence `Inside (w.resolved (parse raw)) root` speaks about the object that is opened. -/
theorem os_resolve_lexical (w : World) (raw : Str) (st : Stack) (h : osResolve w raw = .ok st) :
    st.map (·.1) = w.resolved (parse raw) := by
  unfold osResolve at h
  cases raw with
  | nil => simp at h
  | cons c r =>
    simp only at h
    by_cases hc : c = '/'
    · simp only [hc, if_true] at h
      have := walk_names _ _ _ _ h
      simp only [List.map_nil] at this
      rw [this]
      have hroot : (parse ('/' :: r)).root ≠ 0 := by
        simp only [parse, leadingSlashes]
        simp only [if_true, Nat.add_eq_zero_iff, Nat.succ_ne_self, and_false, if_false]
        split <;> simp
      subst hc
      simp only [World.resolved, World.absolute, PurePath.join, hroot, if_false, resolve]
      simp [parse, foldl_resolveStep_filter]
    · simp only [hc, if_false] at h
      split at h
      · rename_i st0 e0
        have h0 := walk_names _ _ _ _ e0
        have h1 := walk_names _ _ _ _ h
        simp only [List.map_nil] at h0
        rw [h1, h0]
        have hroot : (parse (c :: r)).root = 0 := by
          simp [parse, leadingSlashes, hc]
        simp only [World.resolved, World.absolute, PurePath.join, hroot, if_true, resolve, World.cwdPath]
        simp [parse, List.foldl_append, foldl_resolveStep_filter]
      · simp at h

/-! #### `str(path)` handed to the operating system is read back as the same path -/

/-- shape of every path the model builds (`parse`, `join`, `parent` preserve it): a pathlib root, and parts that are
    non‑empty, not `.`, and free of slashes -/
def WF (p : PurePath) : Prop :=
  p.root ≤ 2 ∧ ∀ s ∈ p.tail, keepSeg s = true ∧ '/' ∉ s

private theorem mem_splitSlash_noSlash (s : Str) (seg : Seg) (h : seg ∈ splitSlash s) : '/' ∉ seg := by
  induction s generalizing seg with
  | nil => simp [splitSlash] at h; simp [h]
  | cons c r ih =>
    unfold splitSlash at h
    split at h
    · rcases List.mem_cons.1 h with h | h
      · simp [h]
      · exact ih seg h
    · rename_i hc
      split at h
      · rename_i e; exact absurd e (splitSlash_ne_nil r)
      · rename_i h' t' e'
        rcases List.mem_cons.1 h with h | h
        · have := ih h' (by rw [e']; simp)
          rw [h]
          intro hm
          rcases List.mem_cons.1 hm with hm | hm
          · exact hc hm.symm
          · exact this hm
        · exact ih seg (by rw [e']; exact List.mem_cons_of_mem _ h)

theorem parse_wf (s : Str) : WF (parse s) := by
  constructor
  · simp only [parse]; split <;> (try split) <;> omega
  · intro x hx
    simp only [parse, List.mem_filter] at hx
    exact ⟨hx.2, mem_splitSlash_noSlash s x hx.1⟩

theorem join_wf (a b : PurePath) (ha : WF a) (hb : WF b) : WF (a.join b) := by
  unfold PurePath.join
  split
  · exact ⟨ha.1, fun s hs => by
      rcases List.mem_append.1 hs with h | h
      · exact ha.2 s h
      · exact hb.2 s h⟩
  · exact hb

theorem parent_wf (a : PurePath) (ha : WF a) : WF a.parent :=
  ⟨ha.1, fun s hs => ha.2 s ((List.dropLast_prefix a.tail).subset hs)⟩

private theorem splitSlash_noSlash (s : Seg) (hs : '/' ∉ s) : splitSlash s = [s] := by
  induction s with
  | nil => rfl
  | cons c r ih =>
    have hc : c ≠ '/' := fun e => hs (by simp [e])
    have hr : '/' ∉ r := fun h => hs (List.mem_cons_of_mem _ h)
    unfold splitSlash
    simp [hc, ih hr]

private theorem splitSlash_append_slash (s : Seg) (hs : '/' ∉ s) (rest : Str) :
    splitSlash (s ++ '/' :: rest) = s :: splitSlash rest := by
  induction s with
  | nil => simp [splitSlash]
  | cons c r ih =>
    have hc : c ≠ '/' := fun e => hs (by simp [e])
    have hr : '/' ∉ r := fun h => hs (List.mem_cons_of_mem _ h)
    simp only [List.cons_append]
    rw [splitSlash]
    simp [hc, ih hr]

private theorem splitSlash_joinSlash (tail : List Seg) (h : ∀ s ∈ tail, '/' ∉ s) (hne : tail ≠ []) :
    splitSlash (joinSlash tail) = tail := by
  induction tail with
  | nil => exact absurd rfl hne
  | cons s r ih =>
    cases r with
    | nil => simp [joinSlash, splitSlash_noSlash s (h s (by simp))]
    | cons s' r' =>
      simp only [joinSlash]
      rw [splitSlash_append_slash s (h s (by simp)), ih (fun x hx => h x (List.mem_cons_of_mem _ hx)) (by simp)]

private theorem splitSlash_replicate (n : Nat) (x : Str) :
    splitSlash (List.replicate n '/' ++ x) = List.replicate n [] ++ splitSlash x := by
  induction n with
  | zero => simp
  | succ n ih => simp [List.replicate_succ, splitSlash, ih]

private theorem leadingSlashes_replicate (n : Nat) (x : Str) :
    leadingSlashes (List.replicate n '/' ++ x) = n + leadingSlashes x := by
  induction n with
  | zero => simp
  | succ n ih => simp [List.replicate_succ, leadingSlashes, ih]; omega

private theorem leadingSlashes_joinSlash (tail : List Seg) (h : ∀ s ∈ tail, keepSeg s = true ∧ '/' ∉ s) :
    leadingSlashes (joinSlash tail) = 0 := by
  cases tail with
  | nil => rfl
  | cons s r =>
    have hs := h s (by simp)
    cases s with
    | nil => simp [keepSeg] at hs
    | cons c s' =>
      have hc : c ≠ '/' := fun e => hs.2 (by simp [e])
      cases r <;> simp [joinSlash, leadingSlashes, hc]

private theorem filter_keepSeg_replicate (n : Nat) (l : List Seg) :
    (List.replicate n ([] : Seg) ++ l).filter keepSeg = l.filter keepSeg := by
  induction n with
  | zero => simp
  | succ n ih => simp [List.replicate_succ, keepSeg, ih]

/-- `Path(str(p)) == p`: the string pathlib prints is parsed back (by pathlib, and by the operating system, which
    splits at slashes the same way) into the same root and parts -/
theorem parse_str (p : PurePath) (wf : WF p) : parse p.str = p := by
  obtain ⟨root, tail⟩ := p
  have hk : tail.filter keepSeg = tail := List.filter_eq_self.2 (fun s hs => (wf.2 s hs).1)
  unfold PurePath.str
  by_cases h0 : root = 0 ∧ tail = []
  · simp only [h0, and_self, if_true]
    decide
  · simp only [h0, if_false]
    have hroot : root ≤ 2 := wf.1
    simp only [parse, leadingSlashes_replicate, splitSlash_replicate, filter_keepSeg_replicate,
      leadingSlashes_joinSlash tail wf.2, Nat.add_zero]
    by_cases ht : tail = []
    · subst ht
      have : root ≠ 0 := fun e => h0 ⟨e, rfl⟩
      have hr : (if root = 0 then 0 else if root = 2 then 2 else 1) = root := by
        split
        · omega
        · split <;> omega
      simp [joinSlash, splitSlash, keepSeg, hr]
    · rw [splitSlash_joinSlash tail (fun s hs => (wf.2 s hs).2) ht, hk]
      have hr : (if root = 0 then 0 else if root = 2 then 2 else 1) = root := by
        split
        · omega
        · split <;> omega
      simp [hr]

theorem getTarget_wf (w : World) (p : Str) : WF (getTarget w p) := by
  unfold getTarget World.static
  split
  · exact join_wf _ _ (join_wf _ _ (parse_wf _) (parse_wf _)) ⟨by decide, by decide⟩
  · exact join_wf _ _ (join_wf _ _ (parse_wf _) (parse_wf _)) (parse_wf _)

theorem dirTarget_wf (w : World) (pl : Payload) : WF (dirTarget w pl) := by
  unfold dirTarget
  split
  · exact parent_wf _ (parse_wf _)
  · split <;> exact parse_wf _

/-- the raw string and the pathlib path of a request denote the same path -/
theorem accessedRaw_parse (w : World) (rq : Request) (raw : Str) (h : accessedRaw w rq = some raw) :
    accessed w rq = some (parse raw) := by
  unfold accessedRaw at h
  unfold accessed
  split at h
  · simp only [Option.some.injEq] at h
    rw [← h, parse_str _ (getTarget_wf w _)]
  · split at h
    · simp only [Option.some.injEq] at h
      rename_i hd
      simp only [hd, if_true]
      rw [← h, parse_str _ (dirTarget_wf w _)]
    · rename_i hd
      simp only [hd, if_false]
      split at h
      · rename_i hr
        simp [hr, h]
      · simp at h
  · simp at h

private theorem osRead_ok (w : World) (raw : Str) (r : Nat × Bool) (h : osRead w raw = .ok r) :
    ∃ st, osResolve w raw = .ok st ∧ cur w.fs st = .file r.1 r.2 := by
  unfold osRead at h
  split at h
  · simp at h
  · rename_i st e
    split at h
    · rename_i id sql hc
      simp only [Except.ok.injEq] at h
      exact ⟨st, e, by rw [hc, ← h]⟩
    · simp at h

private theorem osListdir_ok (w : World) (raw : Str) (es : List (Seg × Bool)) (h : osListdir w raw = .ok es) :
    ∃ st ch, osResolve w raw = .ok st ∧ cur w.fs st = .dir ch ∧ es = ch.map (fun kn => (kn.1, kn.2.isDir)) := by
  unfold osListdir at h
  split at h
  · simp at h
  · rename_i st e
    split at h
    · simp at h
    · rename_i ch hc
      simp only [Except.ok.injEq] at h
      exact ⟨st, ch, e, hc, h.symm⟩

private theorem errResp_not_served (e : Errno) : served (errResp e) = false := by
  cases e <;> rfl

/-- what a served response carries is the data of the node the operating system reached through `accessedRaw` -/
theorem served_reads_accessed (w : World) (rq : Request) (hs : served (respond w rq) = true) :
    ∃ raw st, accessedRaw w rq = some raw ∧ osResolve w raw = .ok st ∧ discloses (respond w rq) (cur w.fs st) := by
  obtain ⟨m, p, pl⟩ := rq
  cases m with
  | GET =>
    simp only [respond, respondWith, respondGet] at hs ⊢
    refine ⟨(getTarget w p).str, ?_⟩
    simp only [accessedRaw, true_and]
    -- both branches that can serve end in `osRead` of the target
    have key : ∀ r, osRead w (getTarget w p).str = .ok r →
        ∃ st, osResolve w (getTarget w p).str = .ok st ∧ discloses (.fileContent r.1) (cur w.fs st) := by
      intro r hr
      obtain ⟨st, h1, h2⟩ := osRead_ok w _ r hr
      exact ⟨st, h1, by rw [h2]; simp [discloses]⟩
    by_cases hp : p = ['/']
    · simp only [hp, if_true] at hs ⊢
      cases hr : osRead w (getTarget w ['/']).str with
      | error e => simp [hr, errResp_not_served] at hs
      | ok r => simpa [hp] using key r (by simpa [hp] using hr)
    · simp only [hp, if_false] at hs ⊢
      by_cases hd : hasSub dotdot p = true
      · simp [hd, served] at hs
      · simp only [hd] at hs ⊢
        cases ho : osResolve w (getTarget w p).str with
        | error e => simp [ho, served] at hs
        | ok st0 =>
          simp only [ho] at hs ⊢
          cases hr : osRead w (getTarget w p).str with
          | error e => simp [hr, errResp_not_served] at hs
          | ok r =>
            obtain ⟨st, h1, h2⟩ := key r hr
            rw [ho] at h1
            exact ⟨st, h1, by simpa [hr] using h2⟩
  | POST =>
    simp only [respond, respondWith, respondPost] at hs ⊢
    by_cases hr : p ∈ routes
    · by_cases hal : allowedFixed w pl = true
      · by_cases hdir : p = routeDirectory
        · subst hdir
          simp only [hr, hal, accessedRaw] at hs ⊢
          simp only [not_true_eq_false, if_false, Bool.not_true, Bool.false_eq_true, if_true] at hs ⊢
          cases hl : osListdir w (dirTarget w pl).str with
          | error e => simp [hl, errResp_not_served] at hs
          | ok es =>
            obtain ⟨st, ch, h1, h2, h3⟩ := osListdir_ok w _ es hl
            exact ⟨_, st, rfl, h1, by rw [h2]; simp [discloses, h3]⟩
        · cases hf : truthy pl.f with
          | none => simp [hr, hal, hdir, hf, served] at hs
          | some f =>
            simp only [hr, hal, hdir, hf, accessedRaw, readScript] at hs ⊢
            simp only [not_true_eq_false, if_false, Bool.not_true, Bool.false_eq_true, if_true] at hs ⊢
            cases ho : osRead w f with
            | error e => simp [ho, errResp_not_served] at hs
            | ok r =>
              obtain ⟨st, h1, h2⟩ := osRead_ok w f r ho
              refine ⟨f, st, rfl, h1, ?_⟩
              rw [h2]
              by_cases hsc : p = routeScript
              · simp [hsc, discloses]
              · by_cases hsql : r.2 = true <;> simp [hsc, hsql, discloses]
      · simp [hr, hal, served] at hs
    · simp [hr, served] at hs
  | OPTIONS =>
    simp only [respond, respondWith] at hs
    split at hs <;> simp [served] at hs
  | other => simp [respond, respondWith, served] at hs

/-- **disclosure_is_under_root** (end to end, symlink‑free tree).  Whenever a response carries file content or
    directory entries, they are those of a node the operating system reached at a location `st` – the names of the
    directories from `/` down to it – that lies inside the resolved static folder (GET) or inside the resolved
    `root_path` (POST), or is the configured default directory when `/directory` is asked for nothing in particular. -/
theorem disclosure_is_under_root (w : World) (rq : Request) (hs : served (respond w rq) = true) :
    ∃ raw st, accessedRaw w rq = some raw ∧ osResolve w raw = .ok st ∧ discloses (respond w rq) (cur w.fs st) ∧
      ((rq.method = .GET ∧ Inside (st.map (·.1)) (w.resolved w.static)) ∨
       (rq.method = .POST ∧ Inside (st.map (·.1)) (w.resolved w.root)) ∨
       (rq.method = .POST ∧ rq.pathInfo = routeDirectory ∧ truthy rq.payload.f = none ∧ truthy rq.payload.d = none ∧
          raw = (parse w.defaultDir).str)) := by
  obtain ⟨raw, st, hraw, hos, hdisc⟩ := served_reads_accessed w rq hs
  refine ⟨raw, st, hraw, hos, hdisc, ?_⟩
  have hacc := accessedRaw_parse w rq raw hraw
  have hnames := os_resolve_lexical w raw st hos
  obtain ⟨m, p, pl⟩ := rq
  cases m with
  | GET =>
    obtain ⟨h1, h2⟩ := get_contained w p pl hs
    rw [h1] at hacc
    simp only [Option.some.injEq] at hacc
    exact Or.inl ⟨rfl, by rw [hnames, ← hacc]; exact h2⟩
  | POST =>
    obtain ⟨a, h1, h2⟩ := post_contained w p pl hs
    rw [h1] at hacc
    simp only [Option.some.injEq] at hacc
    rcases h2 with h2 | ⟨hd, hf, hdd, ha⟩
    · exact Or.inr (Or.inl ⟨rfl, by rw [hnames, ← hacc]; exact h2⟩)
    · refine Or.inr (Or.inr ⟨rfl, hd, hf, hdd, ?_⟩)
      simp only [accessedRaw, hd, if_true, Option.some.injEq] at hraw
      rw [← hraw]; simp [dirTarget, hf, hdd]
  | OPTIONS => simp [accessedRaw] at hraw
  | other => simp [accessedRaw] at hraw

/-! ### 5. The original code violates the property (D22, D23) — witnesses -/

/-- `/t` holds the root `/t/root`, a sibling whose name starts with the root's name, and a file next to them -/
def fsEx : Node :=
  .dir [("t".toList, .dir [
    ("secret.txt".toList, .file 9 false),
    ("root".toList, .dir [("a.sql".toList, .file 1 true), ("child".toList, .dir [("b.sql".toList, .file 2 true)])]),
    ("root_backup".toList, .dir [("dump.sql".toList, .file 8 false)])])]

def wEx : World :=
  { fs := fsEx, cwd := "/t/root".toList, rootPath := "/t/root".toList, defaultDir := "/t/root".toList,
    pkgDir := "/pkg".toList, staticName := Gen.Const.staticFolder.toList }

def post (route : String) (pl : Payload) : Request := ⟨.POST, route.toList, pl⟩

/-- D22 (a): `..` after the root passes the string‑prefix test; `/script` returns a file outside the root -/
theorem dev_D22_dotdot :
    respondOrig wEx (post "/script" { f := some "/t/root/../secret.txt".toList }) = .fileContent 9 ∧
    ¬ Inside (wEx.resolved (parse "/t/root/../secret.txt".toList)) (wEx.resolved wEx.root) := by
  decide

/-- D22 (b): a sibling directory whose name merely starts with the root's name passes the string‑prefix test -/
theorem dev_D22_sibling :
    respondOrig wEx (post "/script" { f := some "/t/root_backup/dump.sql".toList }) = .fileContent 8 ∧
    respondOrig wEx (post "/directory" { d := some "/t/root_backup".toList })
      = .listing "/t/root_backup".toList [("dump.sql".toList, false)] ∧
    ¬ Inside (wEx.resolved (parse "/t/root_backup".toList)) (wEx.resolved wEx.root) := by
  decide

/-- D22 (c): the same through a relative spelling and through the analyzer's error message -/
theorem dev_D22_relative_lineage :
    respondOrig wEx (post "/lineage" { f := some "../secret.txt".toList }) = .analysisError 9 := by
  decide

/-- D23: `f` = the root itself is validated, but `/directory` lists `Path(f).parent` – the directory above the root -/
theorem dev_D23 :
    respondOrig wEx (post "/directory" { f := some "/t/root".toList })
      = .listing "/t".toList [("secret.txt".toList, false), ("root".toList, true), ("root_backup".toList, true)] ∧
    Inside (wEx.resolved (parse "/t/root".toList)) (wEx.resolved wEx.root) ∧
    ¬ Inside (wEx.resolved (parse "/t/root".toList).parent) (wEx.resolved wEx.root) := by
  decide

/-- D23 is independent of D22: it survives a correct (resolved) containment test as long as only `d` and `f`
    themselves are validated -/
theorem dev_D23_survives_D22_repair :
    respondWith (fun w pl => (checkedPathsOrig pl).all w.inRoot) wEx
        (post "/directory" { f := some "child/../../root".toList })
      = .listing "child/../..".toList [("secret.txt".toList, false), ("root".toList, true), ("root_backup".toList, true)] := by
  decide

/-- the repaired code refuses all of them -/
theorem repaired_refuses_witnesses :
    respond wEx (post "/script" { f := some "/t/root/../secret.txt".toList }) = .forbidden403 ∧
    respond wEx (post "/script" { f := some "/t/root_backup/dump.sql".toList }) = .forbidden403 ∧
    respond wEx (post "/directory" { d := some "/t/root_backup".toList }) = .forbidden403 ∧
    respond wEx (post "/lineage" { f := some "../secret.txt".toList }) = .forbidden403 ∧
    respond wEx (post "/directory" { f := some "/t/root".toList }) = .forbidden403 ∧
    respond wEx (post "/directory" { f := some "child/../../root".toList }) = .forbidden403 := by
  decide

/-! ### 6. Non‑vacuity: the hypotheses of the implications are satisfiable by non‑trivial inputs -/

/-- `served (POST …)` holds for paths with `..`, `.`, doubled slashes and a relative spelling that stay inside -/
example : respond wEx (post "/script" { f := some "/t/root/child/.././/a.sql".toList }) = .fileContent 1 := by decide
example : respond wEx (post "/lineage" { f := some "child/../child/b.sql".toList }) = .analysis 2 := by decide
example : respond wEx (post "/directory" { f := some "child/b.sql".toList })
    = .listing "child".toList [("b.sql".toList, false)] := by decide
example : respond wEx (post "/directory" { d := some "/t/root/child/..".toList })
    = .listing "/t/root/child/..".toList [("a.sql".toList, false), ("child".toList, true)] := by decide
example : respond wEx (post "/directory" {})
    = .listing "/t/root".toList [("a.sql".toList, false), ("child".toList, true)] := by decide
/-- `post_escape_refused` is not vacuous either (see `repaired_refuses_witnesses`); and refusal can be a crash -/
example : respond wEx (post "/script" { f := some "/t/root/a.sql/../a.sql".toList }) = .crash "NotADirectoryError" := by
  decide

def wStatic : World :=
  { wEx with fs := .dir [("pkg".toList, .dir [("build".toList, .dir [
      ("index.html".toList, .file 5 false), ("static".toList, .dir [("main.js".toList, .file 6 false)])]),
      ("build_old".toList, .dir [("x".toList, .file 7 false)]), ("cli.py".toList, .file 4 false)])] }

/-- `served (GET …)` holds; `..` is refused even in the middle of a name; the sibling is unreachable -/
example : respond wStatic ⟨.GET, "/".toList, {}⟩ = .fileContent 5 := by decide
example : respond wStatic ⟨.GET, "//static/./main.js/".toList, {}⟩ = .fileContent 6 := by decide
example : respond wStatic ⟨.GET, "/../cli.py".toList, {}⟩ = .notFound404 := by decide
example : respond wStatic ⟨.GET, "/static/..main.js".toList, {}⟩ = .notFound404 := by decide
example : respond wStatic ⟨.GET, "/static".toList, {}⟩ = .notFound404 := by decide
example : respond wStatic ⟨.OPTIONS, "/script".toList, {}⟩ = .options := by decide
example : respond wStatic ⟨.other, "/script".toList, {}⟩ = .notAllowed405 := by decide

end SqlLineage.Props.C17
