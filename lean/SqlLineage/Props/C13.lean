/-
C13 — metadata only refines column attribution.

  "Supplying table metadata never changes table-level lineage. With metadata, SELECT * over a known table expands to
   exactly that table's columns, an unqualified column in a multi-relation scope is attributed to exactly those in-scope
   tables whose metadata lists it and never to one whose known metadata lacks it, and a target table's known columns name
   the positions of an INSERT without column list; an explicit column list always wins. Tables the provider does not know
   get the same answer as without metadata."

The provider enters the model at exactly four places: `addWriteColumns … (provColumns …)` for an INSERT target
(`Model/Stmt.lean::exWriteQuery`, create_insert.py:104‑116), `expandWildcard` (`Model/HolderOps.lean`, holders.py:163‑185),
`resolveOne` (`Model/Assemble.lean`, holders.py:410‑449) and the lateral‑alias branch that is behind a configuration flag
and not modelled.  This file proves, for EVERY graph:

  * frame lemmas — each provider‑driven operation touches only column nodes and edges incident to a column node, and no tag
    (`addWriteColumns_frame`, `replaceWildcard_frame`, `expandWildcard_frame`, `resolveOne_frame`, `resolveAll_frame`),
    hence leaves `holder.read / .write / .cte / .drop` and the rename edges alone (`tables_independent_of_provider_ops`);
  * `tables_independent_of_provider_partial` — the statement‑level consequence for every statement without a query and for
    SELECT / CREATE TABLE AS / CREATE VIEW over a flat SELECT block (`tables_independent_of_provider_insert_partial`: also
    INSERT … SELECT into a target the provider does not know); what is missing for the full mutual walk is said there;
  * `star_exact`, `unqualified_by_metadata`, `never_to_known_lacking`, `insert_positions_from_target_meta`,
    `explicit_list_wins` (for the REPAIRED create_insert.py, `Model/InsertCols.lean`), `unknown_tables_unchanged`;
  * `dev_D8` — the unrepaired extractor (`InsertCols.exWriteQueryUnrepaired`) ignores an explicit column list that is a strict
    subset of the known columns.

The model is tied to the code by `harness/c13.py`.
-/
import SqlLineage.Proofs.FrameLemmas
import SqlLineage.Proofs.WriteColsLemmas
import SqlLineage.Proofs.FlatLemmas
import SqlLineage.Model.Stmt
import SqlLineage.Model.InsertCols

namespace SqlLineage.Props.C13
open SqlLineage Graph Holder Walk InsertCols WriteCols TargetFrame

/-! ### frame lemmas: provider‑driven operations change only column nodes / column edges, and no tag -/

/-- `add_write_column(*cols)` — in particular with the provider's columns of the target (create_insert.py:104‑116) -/
theorem addWriteColumns_frame (g : LGraph) (cols : List Column) : Frame g (addWriteColumns g cols) :=
  TargetFrame.addWriteColumns_frame g cols

private theorem frame_replace_step (existing : List Node) (tgt : DS) (tp : DS × String) (g : LGraph) (sc : Column) :
    Frame g (
      let nc := Column.mk1 sc.raw (some tp)
      if sc.raw == "*" || (existing.contains nc.key && !(getSourceColumns g nc.key).isEmpty) then g
      else
        let g1 := g.addEdge (.ds tgt) nc.key .hasColumn none none (some (.col nc))
        let g2 := match sc.parent? with
          | some sp => g1.addEdge (.ds sp.1) sc.key .hasColumn none (some (.sub sp.2)) (some (.col sc))
          | none => g1
        g2.addEdge sc.key nc.key .lineage none (some (.col sc)) (some (.col nc))) := by
  simp only
  split
  · exact Frame.refl g
  · cases sc.parent? with
    | none =>
      exact Frame.trans (Frame.addEdge _ _ _ _ _ _ _ (Or.inr (key_isCol _)))
        (Frame.addEdge _ _ _ _ _ _ _ (Or.inr (key_isCol _)))
    | some sp =>
      exact Frame.trans (Frame.trans (Frame.addEdge _ _ _ _ _ _ _ (Or.inr (key_isCol _)))
        (Frame.addEdge _ _ _ _ _ _ _ (Or.inr (key_isCol _)))) (Frame.addEdge _ _ _ _ _ _ _ (Or.inr (key_isCol _)))

/-- `_replace_wildcard` (holders.py:220‑240) for wildcard nodes that are column nodes -/
theorem replaceWildcard_frame (g : LGraph) (tgt : DS) (srcCols : List Column) (tw sw : Node)
    (htw : tw.isCol = true) (hsw : sw.isCol = true) : Frame g (replaceWildcard g tgt srcCols tw sw) := by
  unfold replaceWildcard
  have key : ∀ (G : LGraph), Frame G (if (G.hasNode tw && (getSourceColumns G tw).isEmpty) = true then G.removeNode tw else G) := by
    intro G
    split
    · exact Frame.removeNode _ _ htw
    · exact Frame.refl _
  exact Frame.trans (Frame.trans
    (Frame.foldl _ srcCols g (fun sc _ g' => frame_replace_step _ tgt _ g' sc))
    (frame_ite_removeNode _ sw hsw)) (key _)

private theorem frame_ite_replace (g : LGraph) (tgt : DS) (cols : List Column) (tw sw : Node)
    (htw : tw.isCol = true) (hsw : sw.isCol = true) :
    Frame g (if cols.isEmpty then g else replaceWildcard g tgt cols tw sw) := by
  split
  · exact Frame.refl g
  · exact replaceWildcard_frame g tgt cols tw sw htw hsw

/-- `expand_wildcard(provider)` (holders.py:163‑185), for every graph and every provider -/
theorem expandWildcard_frame (p : ProvView) (g : LGraph) : Frame g (expandWildcard p g) := by
  unfold expandWildcard
  cases targetTable? g with
  | none => exact Frame.refl g
  | some tgt =>
    apply Frame.foldl
    intro wn hwn g'
    have hcol : wn.isCol = true := (List.mem_filter.mp hwn).2
    split
    · split
      · apply Frame.foldl
        intro sw _ g''
        cases sw.parent? with
        | none => exact Frame.refl _
        | some sp => exact frame_ite_replace _ _ _ _ _ hcol (key_isCol _)
      · exact Frame.refl _
    · exact Frame.refl _

/-! ### `star_exact`: what `_replace_wildcard` puts in place of the target wildcard -/

/-- order‑preserving insertion into a successor list (what `add_edge` does to `_succ[u]`) -/
def pushU (acc : List Node) (k : Node) : List Node := if acc.contains k then acc else acc ++ [k]

/-- one iteration of the loop of `_replace_wildcard` (D47 repaired: only a target column that already HAS a source is
    skipped; one that is merely listed — known from metadata — is wired) -/
def replaceStep (existing : List Node) (tgt : DS) (tp : DS × String) (g : LGraph) (sc : Column) : LGraph :=
  let nc := Column.mk1 sc.raw (some tp)
  if sc.raw == "*" || (existing.contains nc.key && !(getSourceColumns g nc.key).isEmpty) then g
  else
    let g := g.addEdge (.ds tgt) nc.key .hasColumn none none (some (.col nc))
    let g := match sc.parent? with
      | some sp => g.addEdge (.ds sp.1) sc.key .hasColumn none (some (.sub sp.2)) (some (.col sc))
      | none => g
    g.addEdge sc.key nc.key .lineage none (some (.col sc)) (some (.col nc))

/-- `if graph.has_node(n): graph.remove_node(n)` -/
def rmIf (g : LGraph) (n : Node) : LGraph := if g.hasNode n then g.removeNode n else g

/-- the target wildcard goes only when nothing feeds it any more (D48 repaired) -/
def rmIfUnfed (g : LGraph) (n : Node) : LGraph :=
  if g.hasNode n && (getSourceColumns g n).isEmpty then g.removeNode n else g

theorem replaceWildcard_eq (g : LGraph) (tgt : DS) (srcCols : List Column) (tw sw : Node) :
    replaceWildcard g tgt srcCols tw sw =
      rmIfUnfed (rmIf (srcCols.foldl (replaceStep ((getTableColumns g tgt).map (·.key)) tgt (tgt, printedDS g tgt)) g) sw) tw := rfl

/-- the target columns the expansion names, in the order of the source table's columns: every column but a wildcard -/
def namedKeys (tp : DS × String) (srcCols : List Column) : List Node :=
  (srcCols.filter (fun sc => !(sc.raw == "*"))).map (fun sc => (Column.mk1 sc.raw (some tp)).key)

theorem pushU_mem (acc : List Node) (k : Node) (h : k ∈ acc) : pushU acc k = acc := by
  unfold pushU; simp [h]

theorem subset_pushU (acc : List Node) (k : Node) : ∀ x ∈ acc, x ∈ pushU acc k := by
  intro x hx; unfold pushU; split
  · exact hx
  · simp [hx]

private theorem outEdges_replaceStep (existing : List Node) (tgt : DS) (tp : DS × String) (g : LGraph) (sc : Column)
    (h : ∀ sp, sc.parent? = some sp → sp.1 ≠ tgt) (hex : ∀ k ∈ existing, k ∈ g.outEdges (.ds tgt)) :
    (replaceStep existing tgt tp g sc).outEdges (.ds tgt) =
      if sc.raw == "*" then g.outEdges (.ds tgt)
      else pushU (g.outEdges (.ds tgt)) (Column.mk1 sc.raw (some tp)).key := by
  have h1 : (g.addEdge (.ds tgt) (Column.mk1 sc.raw (some tp)).key .hasColumn none none
      (some (.col (Column.mk1 sc.raw (some tp))))).outEdges (.ds tgt) =
      pushU (g.outEdges (.ds tgt)) (Column.mk1 sc.raw (some tp)).key := by
    rw [outEdges_addEdge]
    unfold pushU
    by_cases hm : (Column.mk1 sc.raw (some tp)).key ∈ g.outEdges (.ds tgt)
    · simp [hm]
    · simp [hm]
  unfold replaceStep
  by_cases hs : (sc.raw == "*") = true
  · simp only [hs, Bool.true_or, if_true]
  · simp only [hs, Bool.false_or, Bool.false_eq_true, if_false]
    by_cases hk : (existing.contains (Column.mk1 sc.raw (some tp)).key &&
        !(getSourceColumns g (Column.mk1 sc.raw (some tp)).key).isEmpty) = true
    · -- skipped: the column is among the existing ones, hence already a successor of the target
      simp only [hk, if_true]
      have hmem : (Column.mk1 sc.raw (some tp)).key ∈ existing := by
        have := (Bool.and_eq_true _ _).mp hk
        simpa using this.1
      exact (pushU_mem _ _ (hex _ hmem)).symm
    · simp only [hk, Bool.false_eq_true, if_false]
      cases hp : sc.parent? with
      | none =>
        simp only
        rw [outEdges_addEdge, if_neg (fun x => by cases x.1)]
        exact h1
      | some sp =>
        have hsp : sp.1 ≠ tgt := h sp hp
        simp only
        rw [outEdges_addEdge, if_neg (fun x => by cases x.1), outEdges_addEdge,
          if_neg (fun x => hsp (by cases x.1; rfl))]
        exact h1

private theorem outEdges_replaceFold (existing : List Node) (tgt : DS) (tp : DS × String) :
    ∀ (srcCols : List Column) (g : LGraph), (∀ sc ∈ srcCols, ∀ sp, sc.parent? = some sp → sp.1 ≠ tgt) →
      (∀ k ∈ existing, k ∈ g.outEdges (.ds tgt)) →
      (srcCols.foldl (replaceStep existing tgt tp) g).outEdges (.ds tgt) =
        (namedKeys tp srcCols).foldl pushU (g.outEdges (.ds tgt))
  | [], g, _, _ => rfl
  | sc :: r, g, h, hex => by
    have hr : ∀ sc' ∈ r, ∀ sp, sc'.parent? = some sp → sp.1 ≠ tgt := fun sc' hm => h sc' (by simp [hm])
    have hstep := outEdges_replaceStep existing tgt tp g sc (h sc (by simp)) hex
    have hex' : ∀ k ∈ existing, k ∈ (replaceStep existing tgt tp g sc).outEdges (.ds tgt) := by
      intro k hk
      rw [hstep]
      split
      · exact hex k hk
      · exact subset_pushU _ _ k (hex k hk)
    simp only [List.foldl_cons]
    rw [outEdges_replaceFold existing tgt tp r _ hr hex', hstep]
    unfold namedKeys
    by_cases hk : (sc.raw == "*") = true
    · simp [hk]
    · simp [hk]

private theorem mem_nodes_replaceStep (existing : List Node) (tgt : DS) (tp : DS × String) (g : LGraph) (sc : Column)
    (n : Node) (hn : n ∈ g.nodes) : n ∈ (replaceStep existing tgt tp g sc).nodes := by
  unfold replaceStep
  simp only
  split
  · exact hn
  · cases sc.parent? with
    | none => simp only [mem_nodes_addEdge]; exact Or.inl (Or.inl hn)
    | some sp => simp only [mem_nodes_addEdge]; exact Or.inl (Or.inl (Or.inl hn))

private theorem mem_nodes_replaceFold (existing : List Node) (tgt : DS) (tp : DS × String) (n : Node) :
    ∀ (srcCols : List Column) (g : LGraph), n ∈ g.nodes → n ∈ (srcCols.foldl (replaceStep existing tgt tp) g).nodes
  | [], _, hn => hn
  | sc :: r, g, hn => mem_nodes_replaceFold existing tgt tp n r _ (mem_nodes_replaceStep existing tgt tp g sc n hn)

/-- in a graph whose stored column objects agree with their nodes (`Props.C06.KeyPay`, an invariant of every builder
    operation) the columns listed for a table are successors of the table -/
theorem existing_sub (g : LGraph) (tgt : DS) (hkp : ∀ n c, g.payload n = some (.col c) → c.key = n) :
    ∀ k ∈ (getTableColumns g tgt).map (·.key), k ∈ g.outEdges (.ds tgt) := by
  intro k hk
  obtain ⟨c, hc, rfl⟩ := List.mem_map.mp hk
  unfold getTableColumns at hc
  obtain ⟨n, hn, hcn⟩ := List.mem_filterMap.mp hc
  have hno : n ∈ g.outEdges (.ds tgt) := (List.mem_filter.mp hn).1
  -- the key object stored for node `n` has key `n`
  cases hco : colOf g n with
  | none => simp [hco] at hcn
  | some col =>
    simp only [hco] at hcn
    split at hcn
    · have hcc : col = c := Option.some.inj hcn
      subst hcc
      have : col.key = n := by
        apply hkp n col
        unfold colOf at hco
        split at hco
        · rename_i c' hp; cases hco; exact hp
        · cases hco
      rw [this]; exact hno
    · cases hcn

/-- `star_exact`, holder level, for EVERY graph (D47, D48 repaired): after `_replace_wildcard(tgt, src_table_columns,
    tgt_wildcard, src_wildcard)` the successor list of the target table is its old list with the source table's columns
    appended IN THEIR ORDER — every one that is not a wildcard; a name the target already lists keeps its place —, the
    source wildcard taken out, and the target wildcard taken out exactly when no other wildcard feeds it any more.
    Hypotheses: the wildcards are column nodes of the graph; the source columns are not owned by the target itself (the
    target is `write ∖ read`); the stored column objects agree with their nodes (`Props.C06.KeyPay`). -/
theorem star_exact (g : LGraph) (tgt : DS) (srcCols : List Column) (tw sw : Node)
    (htw : tw.isCol = true) (hsw : sw.isCol = true) (hswN : sw ∈ g.nodes)
    (hsrc : ∀ sc ∈ srcCols, ∀ sp, sc.parent? = some sp → sp.1 ≠ tgt)
    (hkp : ∀ n c, g.payload n = some (.col c) → c.key = n) :
    ∃ G : LGraph,
      G = (srcCols.foldl (replaceStep ((getTableColumns g tgt).map (·.key)) tgt (tgt, printedDS g tgt)) g).removeNode sw ∧
      (replaceWildcard g tgt srcCols tw sw).outEdges (.ds tgt) =
        (if G.hasNode tw && (getSourceColumns G tw).isEmpty then
          (((namedKeys (tgt, printedDS g tgt) srcCols).foldl pushU (g.outEdges (.ds tgt))).filter (· ≠ sw)).filter (· ≠ tw)
        else ((namedKeys (tgt, printedDS g tgt) srcCols).foldl pushU (g.outEdges (.ds tgt))).filter (· ≠ sw)) := by
  have h1 : ∀ n : Node, n.isCol = true → (Node.ds tgt) ≠ n := by intro n hn e; subst e; cases hn
  refine ⟨_, rfl, ?_⟩
  rw [replaceWildcard_eq]
  generalize hG : srcCols.foldl (replaceStep ((getTableColumns g tgt).map (·.key)) tgt (tgt, printedDS g tgt)) g = G
  have hfold := outEdges_replaceFold ((getTableColumns g tgt).map (·.key)) tgt (tgt, printedDS g tgt) srcCols g hsrc
    (existing_sub g tgt hkp)
  rw [hG] at hfold
  have hswG : sw ∈ G.nodes := by rw [← hG]; exact mem_nodes_replaceFold _ _ _ _ _ _ hswN
  have e1 : rmIf G sw = G.removeNode sw := by simp [rmIf, hasNode, hswG]
  rw [e1]
  unfold rmIfUnfed
  split
  · rw [outEdges_removeNode _ _ _ (h1 _ htw), outEdges_removeNode _ _ _ (h1 _ hsw), hfold]
  · rw [outEdges_removeNode _ _ _ (h1 _ hsw), hfold]

/-- the columns a provider lists for a table other than the target satisfy the hypothesis of `star_exact`, and the
    columns created are named exactly like the provider's (normalised) -/
theorem star_exact_provider (p : ProvView) (src tgt : DS) (printed : String) (h : src ≠ tgt) :
    (∀ sc ∈ provColumns p src printed, ∀ sp, sc.parent? = some sp → sp.1 ≠ tgt) ∧
    (provColumns p src printed).map (·.raw) = (p.cols printed).map Ident.escapeS := by
  constructor
  · intro sc hsc sp hsp
    simp only [provColumns, List.mem_map] at hsc
    obtain ⟨c, _, rfl⟩ := hsc
    simp only [Column.mk1, Column.parent?] at hsp
    cases hsp
    exact h
  · simp [provColumns, Column.mk1, Function.comp]

/-! ### the target side of an INSERT: `insert_positions_from_target_meta`, `explicit_list_wins`

About the REPAIRED `create_insert.py` (fix D8), modelled by `InsertCols.targetHolder`: the holder the select extractor is
started from.  `writeColObjs` of that holder is the list `write_columns` it hands over (`AnalyzerContext.write_columns`);
`end_of_query_cleanup` wires the i‑th select item to its i‑th element when the lengths agree (`positional_wiring`). -/

private theorem base_nodes (t : DObj) : (addWriteO Graph.empty t).nodes = [.ds t.d] := by
  simp [addWriteO, addWrite, setTag, addNode, hasNode, Graph.empty]
private theorem base_edges (t : DObj) : (addWriteO (Graph.empty : LGraph) t).edges = [] := by
  simp [addWriteO, addWrite]
private theorem base_write (t : DObj) : (addWriteO (Graph.empty : LGraph) t).tag (.ds t.d) .write = some true := by
  simp [addWriteO, addWrite, tag_setTag]
private theorem base_read (t : DObj) : (addWriteO (Graph.empty : LGraph) t).tag (.ds t.d) .read ≠ some true := by
  simp [addWriteO, addWrite, tag_setTag]
private theorem addParent_same (r : String) (p : DS × String) : (Column.mk1 r (some p)).addParent p = Column.mk1 r (some p) := by
  simp [Column.mk1, Column.addParent, insertParent]

/-- the bare target: what the holder is right after `add_write(table)`, and again after the write columns were removed -/
structure Bare (D : LGraph) (T : DS) : Prop where
  nodes : D.nodes = [.ds T]
  edges : D.edges = []
  write : D.tag (.ds T) .write = some true
  read : D.tag (.ds T) .read ≠ some true

private theorem bare_base (t : DObj) : Bare (addWriteO Graph.empty t) t.d :=
  ⟨base_nodes t, base_edges t, base_write t, base_read t⟩

/-- `add_write_column(*cols)` on the bare target, columns pairwise distinct -/
private theorem addWriteColumns_bare (D : LGraph) (T : DS) (cols : List Column) (hD : Bare D T)
    (hnd : ((cols.map (·.addParent (T, printedDS D T))).map (·.key)).Nodup) :
    WInv D T (cols.map (·.addParent (T, printedDS D T))) cols.length (addWriteColumns D cols) := by
  have hws : (writeSet D).head? = some T := by
    have := (WInv.base D T 0 hD.nodes hD.edges).tagSet .write
    simp only [writeSet, this, hD.write]; rfl
  unfold addWriteColumns
  rw [hws]
  have := WInv.fold (B := D) (T := T) (·.addParent (T, printedDS D T)) cols [] 0 D (WInv.base D T 0 hD.nodes hD.edges)
    (by simpa using hnd)
  simpa using this

private theorem writeColObjs_bare (D : LGraph) (T : DS) (cols : List Column) (hD : Bare D T)
    (hnd : ((cols.map (·.addParent (T, printedDS D T))).map (·.key)).Nodup) :
    writeColObjs (addWriteColumns D cols) = cols.map (·.addParent (T, printedDS D T)) :=
  (addWriteColumns_bare D T cols hD hnd).writeColObjs hD.write hD.read

private theorem bare_drop (D : LGraph) (T : DS) (cols : List Column) (hD : Bare D T)
    (hnd : ((cols.map (·.addParent (T, printedDS D T))).map (·.key)).Nodup) :
    Bare (dropWriteColumns (addWriteColumns D cols)) T := by
  obtain ⟨n, e, t, _⟩ := (addWriteColumns_bare D T cols hD hnd).drop hD.write hD.read hnd
  exact ⟨n, e, (t .write).trans hD.write, fun h => hD.read ((t .read).symm.trans h)⟩

private theorem dropWriteColumns_bare (D : LGraph) (T : DS) (hD : Bare D T) : dropWriteColumns D = D := by
  have h0 := WInv.base D T 0 hD.nodes hD.edges
  unfold dropWriteColumns
  rw [h0.writeColumns hD.write hD.read]
  rfl

private theorem printedDS_table (g g' : LGraph) (s n : String) : printedDS g (.table s n) = printedDS g' (.table s n) := rfl

/-- `insert_positions_from_target_meta`: for an INSERT without column list into a table the provider knows (its columns
    pairwise distinct after normalisation), the write columns handed to the select extractor are exactly the provider's
    columns of the target, in the provider's order — so the i‑th select item is wired to the i‑th known column -/
theorem insert_positions_from_target_meta (env : Env) (tgt : List String) (ht : env.prov.truthy = true)
    (hnd : ((provColumns env.prov (mkTable env tgt none).d (mkTable env tgt none).printed).map (·.key)).Nodup) :
    writeColObjs (targetHolder env true tgt none) =
      provColumns env.prov (mkTable env tgt none).d (mkTable env tgt none).printed := by
  have hB := bare_base (mkTable env tgt none)
  have hpr : printedDS (addWriteO Graph.empty (mkTable env tgt none)) (mkTable env tgt none).d =
      (mkTable env tgt none).printed := by simp [printedDS, mkTable, DObj.printed]
  have hfix : (provColumns env.prov (mkTable env tgt none).d (mkTable env tgt none).printed).map
      (·.addParent ((mkTable env tgt none).d, printedDS (addWriteO Graph.empty (mkTable env tgt none)) (mkTable env tgt none).d)) =
      provColumns env.prov (mkTable env tgt none).d (mkTable env tgt none).printed := by
    rw [hpr]
    simp only [provColumns, List.map_map]
    apply List.map_congr_left
    intro c _
    simp only [Function.comp, addParent_same]
  simp only [targetHolder, ht, Bool.and_self, if_true]
  rw [writeColObjs_bare _ _ _ hB (by rw [hfix]; exact hnd), hfix]

/-- `explicit_list_wins`: with an explicit column list the write columns handed to the select extractor are the listed
    columns, in the order written, WHATEVER the provider knows about the target (all of them, some of them — the D8
    shape —, none, or no provider).  Side conditions: the listed names, and the provider's names for the target, are
    pairwise distinct. -/
theorem explicit_list_wins (env : Env) (tgt : List String) (cs : List Column)
    (hcs : ((cs.map (·.addParent ((mkTable env tgt none).d, (mkTable env tgt none).printed))).map (·.key)).Nodup)
    (hprov : env.prov.truthy = true →
      ((provColumns env.prov (mkTable env tgt none).d (mkTable env tgt none).printed).map (·.key)).Nodup) :
    writeColObjs (targetHolder env true tgt (some cs)) =
      cs.map (·.addParent ((mkTable env tgt none).d, (mkTable env tgt none).printed)) := by
  have hB := bare_base (mkTable env tgt none)
  have hpr : ∀ g : LGraph, printedDS g (mkTable env tgt none).d = (mkTable env tgt none).printed := by
    intro g; simp [printedDS, mkTable, DObj.printed]
  -- whatever happened at the table reference, removing the write columns gives the bare target back
  have hD : Bare (dropWriteColumns (if (true && env.prov.truthy) = true then
      addWriteColumns (addWriteO Graph.empty (mkTable env tgt none))
        (provColumns env.prov (mkTable env tgt none).d (mkTable env tgt none).printed)
      else addWriteO Graph.empty (mkTable env tgt none))) (mkTable env tgt none).d := by
    by_cases ht : env.prov.truthy = true
    · simp only [ht, Bool.and_self, if_true]
      apply bare_drop _ _ _ hB
      have hfix : (provColumns env.prov (mkTable env tgt none).d (mkTable env tgt none).printed).map
          (·.addParent ((mkTable env tgt none).d, printedDS (addWriteO Graph.empty (mkTable env tgt none)) (mkTable env tgt none).d)) =
          provColumns env.prov (mkTable env tgt none).d (mkTable env tgt none).printed := by
        rw [hpr]
        simp only [provColumns, List.map_map]
        apply List.map_congr_left
        intro c _
        simp only [Function.comp, addParent_same]
      rw [hfix]; exact hprov ht
    · simp only [ht, Bool.and_false, Bool.false_eq_true, if_false]
      rw [dropWriteColumns_bare _ _ hB]; exact hB
  simp only [targetHolder, setExplicitColumns]
  rw [writeColObjs_bare _ _ _ hD (by rw [hpr]; exact hcs), hpr]

/-- the provider plays no role once the list is there: same write columns with and without it -/
theorem explicit_list_wins_over_provider (env : Env) (p : ProvView) (tgt : List String) (cs : List Column)
    (hcs : ((cs.map (·.addParent ((mkTable env tgt none).d, (mkTable env tgt none).printed))).map (·.key)).Nodup)
    (hprov : p.truthy = true → ((provColumns p (mkTable env tgt none).d (mkTable env tgt none).printed).map (·.key)).Nodup) :
    writeColObjs (targetHolder { env with prov := p } true tgt (some cs)) =
      writeColObjs (targetHolder { env with prov := ProvView.none } true tgt (some cs)) := by
  have e1 : ∀ q : ProvView, mkTable { env with prov := q } tgt none = mkTable env tgt none := fun _ => rfl
  rw [explicit_list_wins { env with prov := p } tgt cs (by rw [e1]; exact hcs) (by rw [e1]; exact hprov),
    explicit_list_wins { env with prov := ProvView.none } tgt cs (by rw [e1]; exact hcs)
      (by intro h; cases h)]
  rfl

/-- how `end_of_query_cleanup` uses the write columns: when their number equals the number of select items, item `i` (with
    at least one source column) is wired to `write_columns[i]`, whatever the item itself is called -/
theorem positional_wiring (importDefault : String) (tp : DS × String) (tblGrp : List DObj) (g : LGraph) (ci : ColSpec × Nat)
    (k : Nat) (n : Node) (c : Column)
    (hs : toSourceColumns importDefault (aliasMapping g tblGrp) ci.1 k ≠ [])
    (hn : (writeColumns g)[ci.2]? = some n) (hc : colOf g n = some c) :
    cleanupItem importDefault tp (writeColumns g).length tblGrp g ci k =
      (toSourceColumns importDefault (aliasMapping g tblGrp) ci.1 k).foldlM (fun g s => addColumnLineage g s c) g := by
  have hs' : (toSourceColumns importDefault (aliasMapping g tblGrp) ci.1 k).isEmpty = false := by
    cases h : toSourceColumns importDefault (aliasMapping g tblGrp) ci.1 k with
    | nil => exact absurd h hs
    | cons _ _ => rfl
  simp [cleanupItem, hs', hn, hc]

/-! ### `resolveOne` in pieces -/

/-- candidates that already own a column of that name in the graph -/
def inGraphOf (g : LGraph) (e : Node × Node) : List Column :=
  ((Assemble.cands g e.1).map (Assemble.mkSrcCol (Assemble.rawOf g e.1))).filter (fun c => match c.parent? with
    | some (d, _) => g.hasEdge (.ds d) c.key | none => false)

/-- the provider's answer: for every candidate that is a table with a known schema, its listed columns of that name -/
def fromProvOf (prov : Assemble.Prov) (g : LGraph) (e : Node × Node) : List Column :=
  if (inGraphOf g e).isEmpty && prov.truthy then
    (Assemble.cands g e.1).flatMap (fun p => match p.1 with
      | .table s n =>
        if s != Gen.Const.schemaUnknown then
          ((prov.cols (s ++ "." ++ n)).map (fun cn => Column.mk1 (Ident.escapeS cn) (some p))).filter
            (fun c => Assemble.rawOf g e.1 == c.raw)
        else []
      | _ => [])
  else []

def srcsOf (prov : Assemble.Prov) (g : LGraph) (e : Node × Node) : List Column := inGraphOf g e ++ fromProvOf prov g e

/-- the lineage edges from the resolved owners' columns to the target -/
def wired (g : LGraph) (e : Node × Node) (srcs : List Column) : LGraph :=
  srcs.foldl (fun g c => g.addEdge c.key e.2 .lineage none (some (.col c)) none) g

theorem resolveOne_eq (prov : Assemble.Prov) (g : LGraph) (e : Node × Node) :
    Assemble.resolveOne prov g e =
      if (srcsOf prov g e).isEmpty then .ok (wired g e (srcsOf prov g e))
      else match (wired g e (srcsOf prov g e)).removeEdge? e.1 e.2 with
        | some g2 => .ok g2
        | none => .error (.internal "remove_edge") := rfl

private theorem wired_frame (g : LGraph) (e : Node × Node) (srcs : List Column) : Frame g (wired g e srcs) :=
  Frame.foldl _ _ g (fun _ _ _ => Frame.addEdge _ _ _ _ _ _ _ (Or.inl (key_isCol _)))

/-- the repair of one unresolved column by graph or provider (holders.py:417‑444); `e.1` is a column node, as in
    `Assemble.unresolved` -/
theorem resolveOne_frame (prov : Assemble.Prov) (g g' : LGraph) (e : Node × Node) (he : e.1.isCol = true)
    (hok : Assemble.resolveOne prov g e = .ok g') : Frame g g' := by
  rw [resolveOne_eq] at hok
  by_cases hs : (srcsOf prov g e).isEmpty = true
  · rw [if_pos hs] at hok
    cases hok
    exact wired_frame g e _
  · rw [if_neg hs] at hok
    cases hr : (wired g e (srcsOf prov g e)).removeEdge? e.1 e.2 with
    | none => rw [hr] at hok; cases hok
    | some g2 =>
      rw [hr] at hok
      cases hok
      exact Frame.trans (wired_frame g e _) (Frame.removeEdge _ _ _ _ (Or.inl he) hr)

/-- the whole repair loop over column edges -/
theorem resolveAll_frame (prov : Assemble.Prov) : ∀ (es : List (Node × Node)) (g g' : LGraph),
    (∀ e ∈ es, e.1.isCol = true) → Assemble.resolveAll prov g es = .ok g' → Frame g g'
  | [], g, g', _, hok => by
    simp only [Assemble.resolveAll] at hok
    cases hok
    exact Frame.refl g
  | e :: r, g, g', hes, hok => by
    simp only [Assemble.resolveAll] at hok
    cases h1 : Assemble.resolveOne prov g e with
    | error x => rw [h1] at hok; cases hok
    | ok g1 =>
      rw [h1] at hok
      exact Frame.trans (resolveOne_frame prov g g1 e (hes e (by simp)) h1)
        (resolveAll_frame prov r g1 g' (fun e' he' => hes e' (by simp [he'])) hok)

/-! ### `unqualified_by_metadata`, `never_to_known_lacking`

An unqualified column over several relations is a column node whose key object has several owner candidates; the assembler
repairs each edge leaving it (`resolveOne`).  If no candidate already owns a column of that name in the graph, the provider
is asked for every candidate that is a table with a known schema. -/

/-- the provider lists a column named `raw` (after normalisation) for the candidate `p`, a table whose schema is known -/
def listedBy (prov : Assemble.Prov) (raw : String) (p : DS × String) : Prop :=
  match p.1 with
  | .table s n => s ≠ Gen.Const.schemaUnknown ∧ raw ∈ (prov.cols (s ++ "." ++ n)).map Ident.escapeS
  | _ => False

private theorem mk1_inj (raw : String) (p p' : DS × String) (h : Column.mk1 raw (some p) = Column.mk1 raw (some p')) :
    p = p' := by
  simp only [Column.mk1, Column.mk.injEq, true_and] at h
  exact List.head_eq_of_cons_eq h

/-- the owners chosen for an unqualified column = exactly the in‑scope candidates whose metadata lists the name -/
theorem unqualified_by_metadata (prov : Assemble.Prov) (g : LGraph) (e : Node × Node)
    (hin : inGraphOf g e = []) (ht : prov.truthy = true) (c : Column) :
    c ∈ srcsOf prov g e ↔
      ∃ p ∈ Assemble.cands g e.1, listedBy prov (Assemble.rawOf g e.1) p ∧ c = Column.mk1 (Assemble.rawOf g e.1) (some p) := by
  simp only [srcsOf, fromProvOf, hin, ht, List.isEmpty_nil, Bool.and_self, if_true, List.nil_append, List.mem_flatMap]
  constructor
  · rintro ⟨p, hp, hc⟩
    refine ⟨p, hp, ?_⟩
    cases hd : p.1 with
    | table s n =>
      rw [hd] at hc
      simp only at hc
      by_cases hs : (s != Gen.Const.schemaUnknown) = true
      · rw [if_pos hs] at hc
        simp only [List.mem_filter, List.mem_map] at hc
        obtain ⟨⟨cn, hcn, rfl⟩, hraw⟩ := hc
        have hraw' : Assemble.rawOf g e.1 = Ident.escapeS cn := by simpa [Column.mk1] using hraw
        refine ⟨?_, by rw [hraw']⟩
        simp only [listedBy, hd]
        exact ⟨by simpa using hs, by rw [hraw']; exact List.mem_map.mpr ⟨cn, hcn, rfl⟩⟩
      · rw [if_neg hs] at hc; simp at hc
    | path u => rw [hd] at hc; simp at hc
    | subq r => rw [hd] at hc; simp at hc
  · rintro ⟨p, hp, hl, rfl⟩
    refine ⟨p, hp, ?_⟩
    cases hd : p.1 with
    | table s n =>
      simp only [listedBy, hd] at hl
      obtain ⟨hs, hm⟩ := hl
      obtain ⟨cn, hcn, hraw⟩ := List.mem_map.mp hm
      have hs' : (s != Gen.Const.schemaUnknown) = true := by simpa using hs
      simp only [hs', if_true, List.mem_filter, List.mem_map]
      exact ⟨⟨cn, hcn, by rw [hraw]⟩, by simp [Column.mk1]⟩
    | path u => simp [listedBy, hd] at hl
    | subq r => simp [listedBy, hd] at hl

/-- a candidate whose metadata does not list the name — in particular a table the provider KNOWS with other columns — is
    never chosen -/
theorem never_to_known_lacking (prov : Assemble.Prov) (g : LGraph) (e : Node × Node) (hin : inGraphOf g e = [])
    (p : DS × String) (hl : ¬listedBy prov (Assemble.rawOf g e.1) p) :
    Column.mk1 (Assemble.rawOf g e.1) (some p) ∉ srcsOf prov g e := by
  by_cases ht : prov.truthy = true
  · rw [unqualified_by_metadata prov g e hin ht]
    rintro ⟨p', _, hl', heq⟩
    rw [mk1_inj _ _ _ heq] at hl
    exact hl hl'
  · simp [srcsOf, fromProvOf, hin, ht]

/-- when a candidate already owns the column in the graph (a subquery, or a table written earlier in the script) the
    provider is not consulted at all -/
theorem graph_owner_first (prov : Assemble.Prov) (g : LGraph) (e : Node × Node) (hin : inGraphOf g e ≠ []) :
    srcsOf prov g e = inGraphOf g e := by
  have : (inGraphOf g e).isEmpty = false := by
    cases h : inGraphOf g e with
    | nil => exact absurd h hin
    | cons _ _ => rfl
  simp [srcsOf, fromProvOf, this]

private theorem mem_edges_wired (g : LGraph) (e : Node × Node) : ∀ (srcs : List Column) (x : Node × Node),
    x ∈ (wired g e srcs).edges ↔ x ∈ g.edges ∨ ∃ c ∈ srcs, x = (c.key, e.2) := by
  intro srcs
  induction srcs generalizing g with
  | nil => intro x; simp [wired]
  | cons c r ih =>
    intro x
    have := ih (g.addEdge c.key e.2 .lineage none (some (.col c)) none) x
    simp only [wired, List.foldl_cons] at this ⊢
    rw [this, mem_edges_addEdge]
    simp only [List.mem_cons, exists_eq_or_imp]
    constructor
    · rintro ((a | a) | a)
      · exact Or.inl a
      · exact Or.inr (Or.inl a)
      · exact Or.inr (Or.inr a)
    · rintro (a | a | a)
      · exact Or.inl (Or.inl a)
      · exact Or.inl (Or.inr a)
      · exact Or.inr a

/-- what the repair does to the edges into the target column: when some owner was found, the edge from the unresolved
    column is replaced by one edge from each chosen owner's column; otherwise nothing changes -/
theorem resolved_edges (prov : Assemble.Prov) (g g' : LGraph) (e : Node × Node)
    (hok : Assemble.resolveOne prov g e = .ok g') (n : Node) :
    (n, e.2) ∈ g'.edges ↔
      if srcsOf prov g e = [] then (n, e.2) ∈ g.edges
      else ((n, e.2) ∈ g.edges ∨ ∃ c ∈ srcsOf prov g e, n = c.key) ∧ n ≠ e.1 := by
  rw [resolveOne_eq] at hok
  by_cases hs : srcsOf prov g e = []
  · rw [hs] at hok
    simp only [List.isEmpty_nil, if_true] at hok
    cases hok
    simp [hs, wired]
  · have hs' : (srcsOf prov g e).isEmpty = false := by
      cases h : srcsOf prov g e with
      | nil => exact absurd h hs
      | cons _ _ => rfl
    rw [hs'] at hok
    simp only [Bool.false_eq_true, if_false] at hok
    rw [if_neg hs]
    cases hr : (wired g e (srcsOf prov g e)).removeEdge? e.1 e.2 with
    | none => rw [hr] at hok; cases hok
    | some g2 =>
      rw [hr] at hok
      cases hok
      rw [mem_edges_removeEdge _ _ _ _ hr, mem_edges_wired]
      constructor
      · rintro ⟨h1 | ⟨c, hc, h2⟩, h3⟩
        · exact ⟨Or.inl h1, fun x => h3 (by rw [x])⟩
        · exact ⟨Or.inr ⟨c, hc, congrArg Prod.fst h2⟩, fun x => h3 (by rw [x])⟩
      · rintro ⟨h1 | ⟨c, hc, h2⟩, h3⟩
        · exact ⟨Or.inl h1, fun x => h3 (congrArg Prod.fst x)⟩
        · exact ⟨Or.inr ⟨c, hc, by rw [h2]⟩, fun x => h3 (congrArg Prod.fst x)⟩

/-! ### `tables_independent_of_provider`, operation level -/

/-- every provider‑driven operation leaves `holder.read`, `.write`, `.cte`, `.drop` (dataset nodes by tag, in order) and the
    statement's read / write sets exactly as they were — for EVERY graph and every provider -/
theorem tables_independent_of_provider_ops (p : ProvView) (g : LGraph) (cols : List Column) (t : Tag) :
    tagSet (expandWildcard p g) t = tagSet g t ∧ tagSet (addWriteColumns g cols) t = tagSet g t ∧
    Assemble.stmtRead (expandWildcard p g) = Assemble.stmtRead g ∧
    Assemble.stmtWrite (expandWildcard p g) = Assemble.stmtWrite g ∧
    Assemble.stmtRead (addWriteColumns g cols) = Assemble.stmtRead g ∧
    Assemble.stmtWrite (addWriteColumns g cols) = Assemble.stmtWrite g :=
  ⟨tagSet_eq_of_frame (expandWildcard_frame p g) t, tagSet_eq_of_frame (addWriteColumns_frame g cols) t,
   stmtRead_eq_of_frame (expandWildcard_frame p g), stmtWrite_eq_of_frame (expandWildcard_frame p g),
   stmtRead_eq_of_frame (addWriteColumns_frame g cols), stmtWrite_eq_of_frame (addWriteColumns_frame g cols)⟩

/-- … in particular two providers give the same tables after wildcard expansion -/
theorem expandWildcard_tables (p p' : ProvView) (g : LGraph) (t : Tag) :
    tagSet (expandWildcard p g) t = tagSet (expandWildcard p' g) t :=
  (tagSet_eq_of_frame (expandWildcard_frame p g) t).trans (tagSet_eq_of_frame (expandWildcard_frame p' g) t).symm

/-- the assembler's repair loop: the table‑level view of the combined graph (dataset nodes, their tags, edges between
    datasets and their types) does not depend on what the provider answered -/
theorem resolveAll_tables (prov prov' : Assemble.Prov) (g g1 g2 : LGraph)
    (h1 : Assemble.resolveAll prov g (Assemble.unresolved g) = .ok g1)
    (h2 : Assemble.resolveAll prov' g (Assemble.unresolved g) = .ok g2) :
    (∀ n t, n.isCol = false → g1.tag n t = g2.tag n t) ∧
    (∀ u v, u.isCol = false → v.isCol = false → (((u, v) ∈ g1.edges ↔ (u, v) ∈ g2.edges) ∧ g1.ety u v = g2.ety u v)) := by
  have hcol : ∀ e ∈ Assemble.unresolved g, e.1.isCol = true := by
    intro e he
    simp only [Assemble.unresolved, List.mem_filter, Bool.and_eq_true] at he
    exact he.2.1
  have f1 := resolveAll_frame prov _ g g1 hcol h1
  have f2 := resolveAll_frame prov' _ g g2 hcol h2
  refine ⟨fun n t hn => (f1.tags n t hn).trans (f2.tags n t hn).symm, fun u v hu hv => ?_⟩
  exact ⟨(f1.edges u v hu hv).1.trans (f2.edges u v hu hv).1.symm, (f1.edges u v hu hv).2.trans (f2.edges u v hu hv).2.symm⟩

/-! ### `tables_independent_of_provider`, statement level (partial) -/

/-- two analysis results report the same tables: both fail alike, or both succeed with the same read and write sets
    (as lists, in order) -/
def TablesAgree (x y : Except Err LGraph) : Prop :=
  match x, y with
  | .ok a, .ok b => Assemble.stmtRead a = Assemble.stmtRead b ∧ Assemble.stmtWrite a = Assemble.stmtWrite b
  | .error e, .error e' => e = e'
  | _, _ => False

theorem TablesAgree.refl (x : Except Err LGraph) : TablesAgree x x := by
  cases x <;> simp [TablesAgree]

/-- two holders framed by one common holder report the same tables -/
private theorem agree_of_frames {g a b : LGraph} (fa : Frame g a) (fb : Frame g b) : TablesAgree (.ok a) (.ok b) :=
  ⟨(stmtRead_eq_of_frame fa).trans (stmtRead_eq_of_frame fb).symm,
   (stmtWrite_eq_of_frame fa).trans (stmtWrite_eq_of_frame fb).symm⟩

/-- the fragment of `tables_independent_of_provider_partial`: every statement without a query; SELECT, CREATE TABLE AS and
    CREATE VIEW over one flat SELECT block (`Flat.flatSelect`: base tables only, no subquery; see `Proofs/FlatLemmas.lean`) -/
def frag13 : Ast.Stmt → Bool
  | .query q _ => Flat.flatSelect q
  | .ctas _ _ _ q _ => Flat.flatSelect q
  | .createView _ _ _ q => Flat.flatSelect q
  | .insert .. | .update .. | .merge .. => false
  | _ => true

/-- the select extractor on a flat block, for two providers: same outcome up to a frame -/
private theorem exQuery_flat_agree (env : Env) (p p' : ProvView) (ctx : Ctx) (q : Ast.Query) (hq : Flat.flatSelect q = true) :
    (∃ e, exQuery { env with prov := p } ctx q = .error e ∧ exQuery { env with prov := p' } ctx q = .error e) ∨
    (∃ c, exQuery { env with prov := p } ctx q = .ok (expandWildcard p c) ∧
          exQuery { env with prov := p' } ctx q = .ok (expandWildcard p' c)) := by
  cases q with
  | setop _ _ => simp [Flat.flatSelect] at hq
  | withq _ _ => simp [Flat.flatSelect] at hq
  | select d its frm wh grp hav =>
    rw [Flat.exQuery_flat _ ctx d its frm wh grp hav hq, Flat.exQuery_flat _ ctx d its frm wh grp hav hq,
      Flat.finishBranches_eq, Flat.finishBranches_eq, Flat.cleanupOf_prov env p, Flat.cleanupOf_prov env p']
    cases Flat.cleanupOf env (initHolder ctx) [(its, frm)] with
    | error e => exact Or.inl ⟨e, rfl, rfl⟩
    | ok c => exact Or.inr ⟨c, rfl, rfl⟩

private theorem base_edges' (t : DObj) : (addWriteO (Graph.empty : LGraph) t).edges = [] := by
  simp [addWriteO, addWrite]

/-- INSERT … VALUES: the provider only adds write columns to the bare target -/
private theorem insertValues_agree (env : Env) (p : ProvView) (tgt : List String) (cols : Option (List String)) :
    TablesAgree
      ((fun (env : Env) =>
        let t := mkTable env tgt none
        let g := addWriteO Graph.empty t
        let g := if env.prov.truthy then addWriteColumns g (provColumns env.prov t.d t.printed) else g
        (Except.ok (match cols with | some cs => addWriteColumns g (cs.map listColumn) | none => g) : Except Err LGraph))
        { env with prov := p })
      ((fun (env : Env) =>
        let t := mkTable env tgt none
        let g := addWriteO Graph.empty t
        let g := if env.prov.truthy then addWriteColumns g (provColumns env.prov t.d t.printed) else g
        (Except.ok (match cols with | some cs => addWriteColumns g (cs.map listColumn) | none => g) : Except Err LGraph))
        { env with prov := ProvView.none }) := by
  have fr : ∀ q : ProvView, Frame (addWriteO Graph.empty (mkTable env tgt none))
      (match cols with
        | some cs => addWriteColumns (if q.truthy then addWriteColumns (addWriteO Graph.empty (mkTable env tgt none))
            (provColumns q (mkTable env tgt none).d (mkTable env tgt none).printed) else addWriteO Graph.empty (mkTable env tgt none))
            (cs.map listColumn)
        | none => (if q.truthy then addWriteColumns (addWriteO Graph.empty (mkTable env tgt none))
            (provColumns q (mkTable env tgt none).d (mkTable env tgt none).printed) else addWriteO Graph.empty (mkTable env tgt none))) := by
    intro q
    have f1 : Frame (addWriteO Graph.empty (mkTable env tgt none))
        (if q.truthy then addWriteColumns (addWriteO Graph.empty (mkTable env tgt none))
          (provColumns q (mkTable env tgt none).d (mkTable env tgt none).printed) else addWriteO Graph.empty (mkTable env tgt none)) := by
      split
      · exact addWriteColumns_frame _ _
      · exact Frame.refl _
    cases cols with
    | none => exact f1
    | some cs => exact Frame.trans f1 (addWriteColumns_frame _ _)
  exact agree_of_frames (fr p) (fr ProvView.none)

/-- CREATE TABLE AS / CREATE VIEW over a flat block: the target holder does not depend on the provider, the select
    extractor's result does only up to a frame -/
private theorem writeQuery_agree (env : Env) (p : ProvView) (tgt : List String) (cols : Option (List String)) (q : Ast.Query)
    (hq : Flat.flatSelect q = true) :
    TablesAgree (exWriteQuery { env with prov := p } false tgt cols q)
      (exWriteQuery { env with prov := ProvView.none } false tgt cols q) := by
  -- the holder handed to the select extractor (no provider involved: not an INSERT)
  have hG : ∃ G : LGraph, ∀ p' : ProvView, exWriteQuery { env with prov := p' } false tgt cols q =
      (match exQuery { env with prov := p' } (ctxOf G) q with | .ok h => .ok (G.compose h) | .error e => .error e) := by
    first
      | exact ⟨(match cols with
            | some cs => addWriteColumns (addWriteO Graph.empty (mkTable env tgt none)) (cs.map listColumn)
            | none => addWriteO Graph.empty (mkTable env tgt none)), fun _ => rfl⟩
      | exact ⟨writeTargetHolder env false tgt cols, fun _ => rfl⟩
  obtain ⟨G, hG⟩ := hG
  rw [hG p, hG ProvView.none]
  rcases exQuery_flat_agree env p ProvView.none (ctxOf G) q hq with ⟨e, h1, h2⟩ | ⟨c, h1, h2⟩
  · rw [h1, h2]; simp [TablesAgree]
  · rw [h1, h2]
    exact agree_of_frames (Frame.compose G (expandWildcard_frame p c)) (Frame.compose G (expandWildcard_frame _ c))

/-- `tables_independent_of_provider`, statement level, PARTIAL.

    Full statement (checked on every generated case by `harness/c13.py`, oracle O1; not a theorem):
      ∀ env p silent s, TablesAgree (analyze {env with prov := p} silent s) (analyze {env with prov := ProvView.none} silent s)

    Proved here for `frag13`.  Missing for the rest:
      * INSERT … SELECT — the provider's columns of the target enter `end_of_query_cleanup` as write columns, so the two runs
        wire DIFFERENT target columns; lifting needs a relational invariant through `cleanupItem` / `addColumnLineage` (same
        dataset nodes, tags, alias edges and key objects on both sides, and every write column owned by the target);
      * nested queries (derived tables, CTEs, subqueries in expressions, set operations) — the same invariant through the
        30‑function mutual recursion of `Model/Walk.lean`, for which Lean generates no equation lemmas. -/
theorem tables_independent_of_provider_partial (env : Env) (p : ProvView) (silent : Bool) (s : Ast.Stmt)
    (hs : frag13 s = true) :
    TablesAgree (analyze { env with prov := p } silent s) (analyze { env with prov := ProvView.none } silent s) := by
  unfold analyze
  cases hd : dispatch (stmtType s) with
  | none => exact TablesAgree.refl _
  | some c =>
    cases s with
    | insert _ _ _ _ _ _ => simp [frag13] at hs
    | query q b =>
      have hq : Flat.flatSelect q = true := by simpa [frag13] using hs
      simp only
      rcases exQuery_flat_agree env p ProvView.none {} q hq with ⟨e, h1, h2⟩ | ⟨c', h1, h2⟩
      · rw [h1, h2]; simp [TablesAgree]
      · rw [h1, h2]; exact agree_of_frames (expandWildcard_frame p c') (expandWildcard_frame _ c')
    | ctas tgt orr ine q b =>
      have hq : Flat.flatSelect q = true := by simpa [frag13] using hs
      simp only
      exact writeQuery_agree env p tgt none q hq
    | createView tgt orr cols q =>
      have hq : Flat.flatSelect q = true := by simpa [frag13] using hs
      simp only
      exact writeQuery_agree env p tgt cols q hq
    | insertValues tgt cols rows =>
      -- (second alternative: `Model/Stmt.lean` after `patches/Stmt-D8.patch`, where this branch is `writeTargetHolder`)
      first
        | exact insertValues_agree env p tgt cols
        | (cases cols with
           | none =>
             exact agree_of_frames
               (target_frame (α := List String) (addWriteO Graph.empty (mkTable env tgt none)) (base_edges' _) (true && p.truthy)
                 (provColumns p (mkTable env tgt none).d (mkTable env tgt none).printed) (fun cs => cs.map listColumn) none)
               (target_frame (α := List String) (addWriteO Graph.empty (mkTable env tgt none)) (base_edges' _)
                 (true && ProvView.none.truthy)
                 (provColumns ProvView.none (mkTable env tgt none).d (mkTable env tgt none).printed)
                 (fun cs => cs.map listColumn) none)
           | some cs =>
             exact agree_of_frames
               (target_frame (addWriteO Graph.empty (mkTable env tgt none)) (base_edges' _) (true && p.truthy)
                 (provColumns p (mkTable env tgt none).d (mkTable env tgt none).printed) (fun cs => cs.map listColumn) (some cs))
               (target_frame (addWriteO Graph.empty (mkTable env tgt none)) (base_edges' _) (true && ProvView.none.truthy)
                 (provColumns ProvView.none (mkTable env tgt none).d (mkTable env tgt none).printed)
                 (fun cs => cs.map listColumn) (some cs)))
    | createTable tgt ine cols => exact TablesAgree.refl _
    | createTableLike tgt src => exact TablesAgree.refl _
    | update _ _ _ _ _ => simp [frag13] at hs
    | merge _ _ _ _ _ _ => simp [frag13] at hs
    | copy _ _ => exact TablesAgree.refl _
    | drop v ie tgt => exact TablesAgree.refl _
    | alterRename x y => exact TablesAgree.refl _
    | renameTable ps => exact TablesAgree.refl _
    | noop _ _ => exact TablesAgree.refl _
    | unsupported _ => exact TablesAgree.refl _

/-- INSERT … SELECT over a flat block into a target the provider does NOT know (whatever it knows about the sources —
    the wildcard expansion case): the target holder is the one without provider, the rest is as for CREATE TABLE AS.
    (INSERT into a KNOWN target is the case named as missing in `tables_independent_of_provider_partial`.) -/
theorem tables_independent_of_provider_insert_partial (env : Env) (p : ProvView) (silent : Bool) (k : Ast.InsertKind)
    (tk : Bool) (tgt : List String) (cols : Option (List String)) (q : Ast.Query) (b : Bool)
    (hq : Flat.flatSelect q = true) (hunk : p.cols (mkTable env tgt none).printed = []) :
    TablesAgree (analyze { env with prov := p } silent (.insert k tk tgt cols q b))
      (analyze { env with prov := ProvView.none } silent (.insert k tk tgt cols q b)) := by
  have h0 : ∀ g : LGraph, addWriteColumns g [] = g := by
    intro g; unfold addWriteColumns; split <;> rfl
  have hpc : provColumns p (mkTable env tgt none).d (mkTable env tgt none).printed = [] := by
    simp [provColumns, hunk]
  -- the holder after the table reference, under provider `p'`
  let G1 : ProvView → LGraph := fun p' =>
    if (true && p'.truthy) = true then
      addWriteColumns (addWriteO Graph.empty (mkTable env tgt none))
        (provColumns p' (mkTable env tgt none).d (mkTable env tgt none).printed)
    else addWriteO Graph.empty (mkTable env tgt none)
  have hG1 : ∀ p' : ProvView, (p' = p ∨ p' = ProvView.none) → G1 p' = addWriteO Graph.empty (mkTable env tgt none) := by
    intro p' hp'
    rcases hp' with rfl | rfl
    · simp only [G1, hpc, h0, ite_self]
    · rfl
  have hG : ∃ G : LGraph, ∀ p' : ProvView, (p' = p ∨ p' = ProvView.none) →
      exWriteQuery { env with prov := p' } true tgt cols q =
      (match exQuery { env with prov := p' } (ctxOf G) q with | .ok h => .ok (G.compose h) | .error e => .error e) := by
    first
      | (refine ⟨(match cols with
            | some cs => addWriteColumns (addWriteO Graph.empty (mkTable env tgt none)) (cs.map listColumn)
            | none => addWriteO Graph.empty (mkTable env tgt none)), ?_⟩
         intro p' hp'
         have e1 : exWriteQuery { env with prov := p' } true tgt cols q =
             (match exQuery { env with prov := p' } (ctxOf (match cols with
                 | some cs => addWriteColumns (G1 p') (cs.map listColumn) | none => G1 p')) q with
               | .ok h => Except.ok (Graph.compose (match cols with
                 | some cs => addWriteColumns (G1 p') (cs.map listColumn) | none => G1 p') h)
               | .error e => Except.error e) := rfl
         rw [e1, hG1 p' hp'])
      | (cases cols with
         | none =>
           refine ⟨writeTargetHolder { env with prov := ProvView.none } true tgt none, ?_⟩
           intro p' hp'
           have hT : writeTargetHolder { env with prov := p' } true tgt none =
               writeTargetHolder { env with prov := ProvView.none } true tgt none := by
             show G1 p' = G1 ProvView.none
             rw [hG1 p' hp', hG1 ProvView.none (Or.inr rfl)]
           have e3 : exWriteQuery { env with prov := p' } true tgt none q =
               (match exQuery { env with prov := p' } (ctxOf (writeTargetHolder { env with prov := p' } true tgt none)) q with
                 | .ok h => Except.ok (Graph.compose (writeTargetHolder { env with prov := p' } true tgt none) h)
                 | .error e => Except.error e) := rfl
           rw [e3, hT]
         | some cs =>
           refine ⟨writeTargetHolder { env with prov := ProvView.none } true tgt (some cs), ?_⟩
           intro p' hp'
           have hT : writeTargetHolder { env with prov := p' } true tgt (some cs) =
               writeTargetHolder { env with prov := ProvView.none } true tgt (some cs) := by
             show addWriteColumns (removeWriteColumns (G1 p')) (cs.map listColumn) =
               addWriteColumns (removeWriteColumns (G1 ProvView.none)) (cs.map listColumn)
             rw [hG1 p' hp', hG1 ProvView.none (Or.inr rfl)]
           have e3 : exWriteQuery { env with prov := p' } true tgt (some cs) q =
               (match exQuery { env with prov := p' } (ctxOf (writeTargetHolder { env with prov := p' } true tgt (some cs))) q with
                 | .ok h => Except.ok (Graph.compose (writeTargetHolder { env with prov := p' } true tgt (some cs)) h)
                 | .error e => Except.error e) := rfl
           rw [e3, hT])
  obtain ⟨G, hG⟩ := hG
  unfold analyze
  cases dispatch (stmtType (.insert k tk tgt cols q b)) with
  | none => exact TablesAgree.refl _
  | some c =>
    simp only
    rw [hG p (Or.inl rfl), hG ProvView.none (Or.inr rfl)]
    rcases exQuery_flat_agree env p ProvView.none (ctxOf G) q hq with ⟨e, h1, h2⟩ | ⟨c', h1, h2⟩
    · rw [h1, h2]; simp [TablesAgree]
    · rw [h1, h2]
      exact agree_of_frames (Frame.compose G (expandWildcard_frame p c')) (Frame.compose G (expandWildcard_frame _ c'))

/-! ### `unknown_tables_unchanged` -/

/-- a provider that answers "no columns" for every table asked about behaves like no provider at all:
    wildcard expansion … -/
theorem unknown_tables_unchanged_expand (p : ProvView) (g : LGraph) (h : ∀ k, p.cols k = []) :
    expandWildcard p g = expandWildcard ProvView.none g := by
  have hp : ∀ (d : DS) (k : String), (if p.truthy = true then provColumns p d k else []) = [] := by
    intro d k; split
    · simp [provColumns, h]
    · rfl
  unfold expandWildcard
  simp only [hp, ProvView.none, Bool.false_eq_true, if_false]

/-- … the repair of unresolved columns … -/
theorem unknown_tables_unchanged_resolve (prov : Assemble.Prov) (g : LGraph) (e : Node × Node) (h : ∀ k, prov.cols k = []) :
    Assemble.resolveOne prov g e = Assemble.resolveOne Assemble.Prov.none g e := by
  have : srcsOf prov g e = srcsOf Assemble.Prov.none g e := by
    simp only [srcsOf, fromProvOf, h, Assemble.Prov.none, Bool.and_false, Bool.false_eq_true, if_false]
    congr 1
    split
    · simp only [List.flatMap_eq_nil_iff]
      intro p _
      cases p.1 <;> simp
    · rfl
  rw [resolveOne_eq, resolveOne_eq, this]

/-- … and the target columns of an INSERT (`add_write_column()` with nothing is the identity) -/
theorem unknown_tables_unchanged_target (env : Env) (tgt : List String) (cols : Option (List Column))
    (h : ∀ k, env.prov.cols k = []) :
    targetHolder env true tgt cols = targetHolder { env with prov := ProvView.none } true tgt cols := by
  have h0 : ∀ g : LGraph, addWriteColumns g [] = g := by
    intro g; unfold addWriteColumns; split <;> rfl
  unfold targetHolder
  simp only [provColumns, h, List.map_nil, h0, ProvView.none, Bool.and_false, Bool.false_eq_true, ite_self]
  split <;> rfl

/-! ### D8 — the unrepaired model ignores an explicit list that is a strict subset of the known columns -/

/-- the provider knows `s.t (a, b, c)` -/
def d8Prov : ProvView := ⟨true, fun k => if k == "s.t" then ["a", "b", "c"] else []⟩

/-- the query of `insert into s.t (a, b) select x, y from s.u` -/
def d8Query : Ast.Query :=
  .select false [.mk (.col [] "x") none false, .mk (.col [] "y") none false] [.mk (.table ["s", "u"] none false) []]
    none [] none

def d8Stmt : Ast.Stmt := .insert .insertInto false ["s", "t"] (some ["a", "b"]) d8Query false

/-- the lineage edges between column nodes, by printed name -/
def colEdges (r : Except Err LGraph) : List (String × String) :=
  match r with
  | .ok g => g.edges.filterMap (fun e => match e with
      | (.col a _, .col b _) => if g.ety e.1 e.2 == some .lineage then some (a, b) else none
      | _ => none)
  | .error _ => []

/-- unrepaired extractor: three write columns for two items, the positional wiring is skipped, the items keep their own
    names; repaired (`exWriteQueryFixed` / `analyzeFixed`): the list names the positions; without metadata the unrepaired
    extractor agrees with the repaired one -/
theorem dev_D8 :
    colEdges (exWriteQueryUnrepaired { prov := d8Prov } true ["s", "t"] (some ["a", "b"]) d8Query) =
      [("s.u.x", "s.t.x"), ("s.u.y", "s.t.y")] ∧
    colEdges (analyzeFixed { prov := d8Prov } false d8Stmt) = [("s.u.x", "s.t.a"), ("s.u.y", "s.t.b")] ∧
    colEdges (exWriteQueryUnrepaired {} true ["s", "t"] (some ["a", "b"]) d8Query) =
      [("s.u.x", "s.t.a"), ("s.u.y", "s.t.b")] := by
  decide +kernel

/-! ### non‑vacuity -/

/-- the provider knows `s.u (a, B, c)` (one name spelled in upper case), `s.v (a, d)` and `s.t (p, q)` -/
def exProv : ProvView :=
  ⟨true, fun k => if k == "s.u" then ["a", "B", "c"] else if k == "s.v" then ["a", "d"] else if k == "s.t" then ["p", "q"] else []⟩

/-- `insert into s.t2 select * from s.u` -/
def exStar : Ast.Stmt :=
  .insert .insertInto false ["s", "t2"] none
    (.select false [.mk (.star []) none false] [.mk (.table ["s", "u"] none false) []] none [] none) false

/-- `star_exact` through the whole walk: the wildcard over the known table becomes exactly its columns, normalised, in the
    provider's order; without metadata the wildcard pair stays -/
example : colEdges (analyze { prov := exProv } false exStar) = [("s.u.a", "s.t2.a"), ("s.u.b", "s.t2.b"), ("s.u.c", "s.t2.c")] ∧
    colEdges (analyze {} false exStar) = [("s.u.*", "s.t2.*")] := by decide +kernel

/-- `create table s.t2 as select *, max(x.k) as m from s.u x join s.v on x.a = v.a` is inside `frag13`, reads two tables
    and writes one, and the provider does change its columns -/
def exCtas : Ast.Stmt :=
  .ctas ["s", "t2"] false false
    (.select false [.mk (.star []) none false, .mk (.func "max" false [.col ["x"] "k"] none) (some "m") true]
      [.mk (.table ["s", "u"] (some "x") false)
        [.mk "join" (.table ["s", "v"] none false) (some (.bin "=" (.col ["x"] "a") (.col ["v"] "a"))) []]] none [] none) false

example : frag13 exCtas = true ∧
    (analyze { prov := exProv } false exCtas).toOption.map (fun g => (Assemble.stmtRead g, Assemble.stmtWrite g)) =
      some ([.ds (.table "s" "u"), .ds (.table "s" "v")], [.ds (.table "s" "t2")]) ∧
    colEdges (analyze { prov := exProv } false exCtas) ≠ colEdges (analyze {} false exCtas) := by decide +kernel

/-- `insert into s.t2 select b, a, zz from s.u x join s.v y using (k)`: `b` is listed by s.u only, `a` by both, `zz` by
    none — the repair attributes them accordingly and leaves `zz` unresolved (`unqualified_by_metadata`,
    `never_to_known_lacking` on a graph the walk produced) -/
def exUnq : Ast.Stmt :=
  .insert .insertInto false ["s", "t2"] none
    (.select false [.mk (.col [] "b") none false, .mk (.col [] "a") none false, .mk (.col [] "zz") none false]
      [.mk (.table ["s", "u"] (some "x") false) [.mk "join" (.table ["s", "v"] (some "y") false) none ["k"]]] none [] none) false

example :
    (match analyze { prov := exProv } false exUnq with
      | .ok h => (match Assemble.build ⟨true, exProv.cols⟩ [h] with | .ok g => colEdges (.ok g) | .error _ => [])
      | .error _ => []) =
    [("zz", "s.t2.zz"), ("s.u.b", "s.t2.b"), ("s.u.a", "s.t2.a"), ("s.v.a", "s.t2.a")] := by decide +kernel

/-- the hypotheses of `insert_positions_from_target_meta` / `explicit_list_wins` hold for a real provider, and the
    conclusions are not trivial: the known columns name the positions; a one‑column list replaces them -/
example : ((provColumns exProv (mkTable {} ["s", "t"] none).d (mkTable {} ["s", "t"] none).printed).map (·.key)).Nodup ∧
    (writeColObjs (targetHolder { prov := exProv } true ["s", "t"] none)).map (·.printed) = ["s.t.p", "s.t.q"] ∧
    (writeColObjs (targetHolder { prov := exProv } true ["s", "t"] (some [listColumn "q"]))).map (·.printed) = ["s.t.q"] := by
  decide +kernel

/-! ### D47, D48 repaired: witnesses on the whole runner model -/

/-- the (source, target) LINEAGE pairs between column nodes of a script's combined graph -/
def linPairs (r : Except Err (LGraph × List LGraph)) : List (String × String) :=
  match r with
  | .ok (g, _) => (g.edges.filter (fun e => g.ety e.1 e.2 == some .lineage)).filterMap (fun e =>
      match e.1, e.2 with | .col p _, .col q _ => some (p, q) | _, _ => none)
  | .error _ => [("error", "error")]

def starOver (frm : List Ast.FromExpr) : Ast.Stmt :=
  .insert .insertInto false ["sa", "tgt"] none (.select false [.mk (.star []) none false] frm none [] none) false

/-- D47 repaired: `insert into sa.tgt select * from sa.t1` with BOTH tables known under the same column names — the usual
    staging copy — used to report NO column lineage at all (the target's columns, listed from metadata, counted as
    "already there" and were skipped); now every column is wired -/
theorem fixed_D47 :
    linPairs (Runner.eval {} [("sa.t1", ["a", "b"]), ("sa.tgt", ["a", "b"])]
      [starOver [.mk (.table ["sa", "t1"] none false) []]]) =
    [("sa.t1.a", "sa.tgt.a"), ("sa.t1.b", "sa.tgt.b")] := by decide +kernel

/-- D48 repaired: `select *` over a join of a KNOWN table and an UNKNOWN one — the unknown table keeps the wildcard pair it
    has without metadata (it used to vanish together with the target wildcard when the known table was expanded) -/
theorem fixed_D48 :
    linPairs (Runner.eval {} [("sa.t1", ["a", "b"])]
      [starOver [.mk (.table ["sa", "t1"] (some "x") false) [.mk "join" (.table ["sa", "t2"] (some "y") false)
        (some (.bin "=" (.col ["x"] "a") (.col ["y"] "k"))) []]]]) =
    [("sa.t2.*", "sa.tgt.*"), ("sa.t1.a", "sa.tgt.a"), ("sa.t1.b", "sa.tgt.b")] := by decide +kernel

end SqlLineage.Props.C13
