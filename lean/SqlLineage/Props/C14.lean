/-
C14 — a default schema equals explicit qualification.

  "Analysing a script with default schema S — set through the environment or a scoped override — gives the same tables,
   column pairs and export as analysing the script with every unqualified table name written as S.name; names that are
   already qualified are unaffected, and with no default the placeholder schema is used uniformly for sources, targets
   and column owners."

What is proved here, over the model (`Model/Walk.lean`, `Model/Stmt.lean`, `Model/HolderOps.lean`) and the table
specification (`Spec/Tables.lean`), with `qualifyStmt` of `Model/Qualify.lean` as the explicit qualification:

  * one lemma per creation site of a `Table` in the model:
      - `mkTable_default_eq_qualified`  (`SqlFluffTable.of` → `Table(real_name, schema)`, every FROM element, target, LIKE
        source, DROP / RENAME operand goes through it);
      - `fallback_default_eq_qualified` (`Table(qualifier)` in `Column.to_source_columns`, models.py — the unknown‑qualifier
        fallback) for the REPAIRED code: `Table.__init__` resolves an omitted schema at call time (fix D17), which the model
        expresses by instantiating its `importDefault` parameter with `defaultSchema env`;
  * `qualified_unaffected`, `placeholder_uniform`;
  * `spec_default_eq_qualify` (+ `_writes`) for ALL statements: the tables a statement reads / writes under default `S`
    are those the qualified statement reads / writes under no default — and under ANY other default
    (`spec_qualified_stmt_unaffected`);
  * the walk itself: `walk_default_eq_qualify_partial` (all statements that contain no query: the statement holder graphs are
    EQUAL) and `walk_flat_default_eq_qualify_partial` (INSERT / CTAS / VIEW / SELECT over one flat SELECT block: equal
    holder graphs, columns included);
  * `dev_D17`: with `importDefault ≠ defaultSchema env` (the unrepaired code under a scoped override) the owner of an
    unknown‑qualifier column is NOT the table the qualified spelling denotes.

`S` ranges over plain stable names: non‑empty and a fixpoint of `escape_identifier_name` (lower case, unquoted).  The
mechanism by which the default is set (environment variable / scoped override) is the subject of C15; here it is the
value `Env.cfgDefault` read at call time.  The model is tied to the code by `harness/c14.py`.
-/
import SqlLineage.Model.Qualify
import SqlLineage.Model.Stmt
import SqlLineage.Model.Assemble
import SqlLineage.Spec.Tables
import SqlLineage.Proofs.FlatLemmas
import SqlLineage.Proofs.WriteColsLemmas

namespace SqlLineage.Props.C14
open SqlLineage Ast Walk Holder Qualify Flat Graph

/-- a plain, stable schema name: not empty, unchanged by `escape_identifier_name` -/
structure Plain (S : String) : Prop where
  ne : S ≠ ""
  stable : Ident.escapeS S = S

/-- the placeholder schema `Schema.unknown`, as `Schema()` stores it -/
def placeholder : String := Ident.escapeS Gen.Const.schemaUnknown

theorem placeholder_eq : placeholder = "<default>" := by decide

/-! ### `Schema()` -/

theorem defaultSchema_set (env : Env) (S : String) (h : Plain S) : defaultSchema { env with cfgDefault := S } = S := by
  simp [defaultSchema, h.ne, h.stable]

theorem defaultSchema_unset (env : Env) : defaultSchema { env with cfgDefault := "" } = placeholder := by
  simp [defaultSchema, placeholder]

/-! ### creation site 1: `SqlFluffTable.of` / `Table(name, schema)` — `mkTable` -/

/-- an unqualified name under default `S` is the table the name `S.name` denotes under no default — same identity, same
    alias attribute -/
theorem mkTable_default_eq_qualified (env : Env) (S n : String) (a : Option String) (h : Plain S) :
    mkTable { env with cfgDefault := S } [n] a = mkTable { env with cfgDefault := "" } [S, n] a := by
  simp [mkTable, defaultSchema, h.ne, h.stable, String.intercalate_singleton]

/-- … and under ANY other default `S'`: the qualified spelling does not look at the configuration -/
theorem mkTable_default_eq_qualified' (env : Env) (S S' n : String) (a : Option String) (h : Plain S) :
    mkTable { env with cfgDefault := S } [n] a = mkTable { env with cfgDefault := S' } [S, n] a := by
  simp [mkTable, defaultSchema, h.ne, h.stable, String.intercalate_singleton]

/-- names with ≥ 2 parts (and a non‑empty qualifier text) do not depend on the configured default -/
theorem qualified_unaffected (env : Env) (S S' : String) (parts : List String) (a : Option String)
    (h2 : 2 ≤ parts.length) (hq : ".".intercalate (parts.dropLast.map Ident.escapeS) ≠ "") :
    mkTable { env with cfgDefault := S } parts a = mkTable { env with cfgDefault := S' } parts a := by
  have hne : parts.dropLast.isEmpty = false := by
    cases parts with
    | nil => simp at h2
    | cons x r => cases r with
      | nil => simp at h2
      | cons y r' => simp [List.dropLast]
  have hq' : ".".intercalate (List.map Ident.escapeS parts).dropLast ≠ "" := by simpa using hq
  simp [mkTable, hne, hq']

/-- with no default every `mkTable` site uses the placeholder for an unqualified name -/
theorem placeholder_uniform_mkTable (env : Env) (n : String) (a : Option String) :
    (mkTable { env with cfgDefault := "" } [n] a).d = .table placeholder (Ident.escapeS n) := by
  simp [mkTable, defaultSchema, placeholder]

/-! ### creation site 2: `Table(qualifier)` in `Column.to_source_columns` — the unknown‑qualifier fallback

`toSourceColumns importDefault m c`: when the qualifier `q` of a source reference is not a key of the alias map the owner is
`Table(q)`.  Its schema is the model's `importDefault` parameter: for the unrepaired code the value `Schema()` had when
`core/models.py` was imported, for the repaired code (fix D17: `schema: Optional[Schema] = None`, resolved inside
`Table.__init__`) the value of `Schema()` at the call, i.e. `defaultSchema env`. -/

/-- the owner `to_source_columns` gives a reference `q.c` whose qualifier is not in the alias map -/
def fallbackOwner (importDefault q : String) : DS × String :=
  (.table importDefault (Ident.escapeS q), importDefault ++ "." ++ Ident.escapeS q)

theorem toSourceColumns_fallback (importDefault : String) (m : AliasMap) (name c q : String) (k : Nat)
    (hm : amGet m q = none) :
    toSourceColumns importDefault m ⟨name, [(c, some q)], false⟩ k =
      [Column.mk1 c (some (fallbackOwner importDefault q))] := by
  simp [toSourceColumns, hm, pushCol, fallbackOwner]

/-- REPAIRED code (`importDefault := defaultSchema env`): under default `S` the fallback owner is exactly the table the
    spelling `S.q` denotes under no default -/
theorem fallback_default_eq_qualified (env : Env) (S q : String) (h : Plain S) :
    let envS : Env := { env with cfgDefault := S }
    let t := mkTable { env with cfgDefault := "" } [S, q] none
    fallbackOwner (defaultSchema envS) q = (t.d, t.printed) := by
  simp [fallbackOwner, mkTable, defaultSchema, DObj.printed, h.ne, h.stable, String.intercalate_singleton]

/-- with no default the repaired fallback uses the placeholder, like every other site -/
theorem placeholder_uniform_fallback (env : Env) (q : String) :
    fallbackOwner (defaultSchema { env with cfgDefault := "" }) q =
      (.table placeholder (Ident.escapeS q), placeholder ++ "." ++ Ident.escapeS q) := by
  simp [fallbackOwner, defaultSchema, placeholder]

/-- `placeholder_uniform`: with `cfgDefault = ""` every creation site of the (repaired) model — `mkTable` for sources,
    targets, LIKE sources, DROP / RENAME operands, and the `to_source_columns` fallback for column owners — puts an
    unqualified name into `Gen.Const.schemaUnknown` -/
theorem placeholder_uniform (env : Env) (n : String) (a : Option String) :
    (mkTable { env with cfgDefault := "" } [n] a).d = .table "<default>" (Ident.escapeS n) ∧
    (fallbackOwner (defaultSchema { env with cfgDefault := "" }) n).1 = .table "<default>" (Ident.escapeS n) := by
  rw [← placeholder_eq]
  exact ⟨placeholder_uniform_mkTable env n a, by rw [placeholder_uniform_fallback]⟩

/-! ### the table specification: default `S` = explicit qualification, for ALL statements

Stated once for any two environments that agree on what names denote up to writing bare names as `S.name`; instantiated
below with (default `S`, no default) and with (default `S`, any other default). -/

structure Agree (e1 e2 : Env) (S : String) : Prop where
  bare : ∀ parts, isBare parts = true → Spec.tableName e1 parts = Spec.tableName e2 [S, parts.getLast?.getD ""]
  other : ∀ parts, isBare parts = false → Spec.tableName e1 parts = Spec.tableName e2 parts

/-- the schema `mkTable` gives a bare name is `Schema()` -/
private theorem mkTable_bare (env : Env) (parts : List String) (a : Option String) (hb : isBare parts = true) :
    mkTable env parts a =
      ⟨.table (defaultSchema env) (Ident.escapeS (parts.getLast?.getD "")),
       some (match a with | some x => Ident.escapeS x | none => Ident.escapeS (parts.getLast?.getD ""))⟩ := by
  have hb' : ".".intercalate (parts.dropLast.map Ident.escapeS) = "" := by simpa [isBare] using hb
  unfold mkTable
  simp only [hb']
  split <;> simp <;> rfl

private theorem mkTable_notBare (env env' : Env) (parts : List String) (a : Option String) (hb : isBare parts = false) :
    mkTable env parts a = mkTable env' parts a := by
  have hb' : ".".intercalate (parts.dropLast.map Ident.escapeS) ≠ "" := by simpa [isBare] using hb
  have hne : parts.dropLast.isEmpty = false := by
    cases hd : parts.dropLast with
    | nil => rw [hd] at hb'; simp at hb'
    | cons x r => rfl
  have hb'' : ".".intercalate (List.map Ident.escapeS parts).dropLast ≠ "" := by simpa using hb'
  unfold mkTable
  simp [hne, hb'']

theorem agree_default (env : Env) (S S' : String) (h : Plain S) :
    Agree { env with cfgDefault := S } { env with cfgDefault := S' } S := by
  constructor
  · intro parts hb
    simp only [Spec.tableName]
    rw [mkTable_bare _ parts none hb, ← mkTable_default_eq_qualified' env S S' _ none h]
    have hb1 : isBare [parts.getLast?.getD ""] = true := by simp [isBare]
    rw [mkTable_bare _ [parts.getLast?.getD ""] none hb1]
    simp
  · intro parts hb
    simp only [Spec.tableName]
    rw [mkTable_notBare _ { env with cfgDefault := S' } parts none hb]

/-- "names that are already qualified are unaffected", in the vocabulary of `qualifyStmt` -/
theorem qualified_unaffected' (env : Env) (S S' : String) (parts : List String) (a : Option String)
    (hb : isBare parts = false) :
    mkTable { env with cfgDefault := S } parts a = mkTable { env with cfgDefault := S' } parts a :=
  mkTable_notBare _ _ parts a hb

variable {e1 e2 : Env} {S : String}

private theorem tableName_qName (H : Agree e1 e2 S) (parts : List String) :
    Spec.tableName e1 parts = Spec.tableName e2 (qName S parts) := by
  unfold qName
  by_cases hb : isBare parts = true
  · rw [if_pos hb]; exact H.bare parts hb
  · rw [if_neg hb]; exact H.other parts (by simpa using hb)

mutual
private theorem rdExpr_q (H : Agree e1 e2 S) (cte : List String) :
    ∀ e, Spec.rdExpr e1 cte e = Spec.rdExpr e2 cte (qExpr S cte e)
  | .col _ _ => by simp [Spec.rdExpr, qExpr]
  | .star _ => by simp [Spec.rdExpr, qExpr]
  | .lit _ => by simp [Spec.rdExpr, qExpr]
  | .func _ _ args none => by simp [Spec.rdExpr, qExpr, qOver, rdExprs_q H cte args]
  | .func _ _ args (some (.mk p o)) => by
    simp [Spec.rdExpr, qExpr, qOver, rdExprs_q H cte args, rdExprs_q H cte p, rdExprs_q H cte o]
  | .cast e _ => by simp [Spec.rdExpr, qExpr, rdExpr_q H cte e]
  | .case ws none => by simp [Spec.rdExpr, qExpr, qOpt, rdWhens_q H cte ws]
  | .case ws (some e) => by simp [Spec.rdExpr, qExpr, qOpt, rdWhens_q H cte ws, rdExpr_q H cte e]
  | .bin _ a b => by simp [Spec.rdExpr, qExpr, rdExpr_q H cte a, rdExpr_q H cte b]
  | .paren e => by simp [Spec.rdExpr, qExpr, rdExpr_q H cte e]
  | .subq q => by simp [Spec.rdExpr, qExpr, rdQuery_q H cte q]
  | .inSubq e _ q => by simp [Spec.rdExpr, qExpr, rdExpr_q H cte e, rdQuery_q H cte q]
  | .exist _ q => by simp [Spec.rdExpr, qExpr, rdQuery_q H cte q]
private theorem rdExprs_q (H : Agree e1 e2 S) (cte : List String) :
    ∀ es, Spec.rdExprs e1 cte es = Spec.rdExprs e2 cte (qExprs S cte es)
  | [] => by simp [Spec.rdExprs, qExprs]
  | e :: r => by simp [Spec.rdExprs, qExprs, rdExpr_q H cte e, rdExprs_q H cte r]
private theorem rdWhens_q (H : Agree e1 e2 S) (cte : List String) :
    ∀ ws, Spec.rdWhens e1 cte ws = Spec.rdWhens e2 cte (qWhens S cte ws)
  | [] => by simp [Spec.rdWhens, qWhens]
  | .mk c r :: rest => by simp [Spec.rdWhens, qWhens, rdExpr_q H cte c, rdExpr_q H cte r, rdWhens_q H cte rest]
private theorem rdItems_q (H : Agree e1 e2 S) (cte : List String) :
    ∀ its, Spec.rdItems e1 cte its = Spec.rdItems e2 cte (qItems S cte its)
  | [] => by simp [Spec.rdItems, qItems]
  | .mk e _ _ :: r => by simp [Spec.rdItems, qItems, rdExpr_q H cte e, rdItems_q H cte r]
private theorem rdQuery_q (H : Agree e1 e2 S) (cte : List String) :
    ∀ q, Spec.rdQuery e1 cte q = Spec.rdQuery e2 cte (qQuery S cte q)
  | .select _ its frm wh grp hav => by
    have hwh : Spec.rdOpt e1 cte wh = Spec.rdOpt e2 cte (qOpt S cte wh) := by
      cases wh with
      | none => simp [Spec.rdOpt, qOpt]
      | some e => simp [Spec.rdOpt, qOpt, rdExpr_q H cte e]
    have hhav : Spec.rdOpt e1 cte hav = Spec.rdOpt e2 cte (qOpt S cte hav) := by
      cases hav with
      | none => simp [Spec.rdOpt, qOpt]
      | some e => simp [Spec.rdOpt, qOpt, rdExpr_q H cte e]
    simp only [Spec.rdQuery, qQuery]
    rw [rdItems_q H cte its, rdFromExprs_q H cte frm, hwh, rdExprs_q H cte grp, hhav]
  | .setop first rest => by
    simp only [Spec.rdQuery, qQuery]
    rw [rdBranch_q H cte first, rdOpBranches_q H cte rest]
  | .withq cs body => by
    have h := rdCtes_q H cte cs
    simp only [Spec.rdQuery, qQuery]
    rw [h.1, h.2.1, h.2.2, rdQuery_q H (scopeAfter cte cs) body]
private theorem rdBranch_q (H : Agree e1 e2 S) (cte : List String) :
    ∀ b, Spec.rdBranch e1 cte b = Spec.rdBranch e2 cte (qBranch S cte b)
  | .mk q _ => by simp [Spec.rdBranch, qBranch, rdQuery_q H cte q]
private theorem rdOpBranches_q (H : Agree e1 e2 S) (cte : List String) :
    ∀ bs, Spec.rdOpBranches e1 cte bs = Spec.rdOpBranches e2 cte (qOpBranches S cte bs)
  | [] => by simp [Spec.rdOpBranches, qOpBranches]
  | .mk _ b :: r => by simp [Spec.rdOpBranches, qOpBranches, rdBranch_q H cte b, rdOpBranches_q H cte r]
/-- reads of the CTE bodies agree, and the scope of the main query is `scopeAfter` on both sides -/
private theorem rdCtes_q (H : Agree e1 e2 S) (cte : List String) : ∀ cs,
    (Spec.rdCtes e1 cte cs).1 = (Spec.rdCtes e2 cte (qCtes S cte cs)).1 ∧
    (Spec.rdCtes e1 cte cs).2 = scopeAfter cte cs ∧ (Spec.rdCtes e2 cte (qCtes S cte cs)).2 = scopeAfter cte cs
  | [] => by simp [Spec.rdCtes, qCtes, scopeAfter]
  | .mk name q :: r => by
    have h := rdCtes_q H (cte ++ [Ident.escapeS name]) r
    simp only [Spec.rdCtes, qCtes, scopeAfter]
    rw [rdQuery_q H cte q, h.1]
    exact ⟨rfl, h.2.1, h.2.2⟩
private theorem rdElem_q (H : Agree e1 e2 S) (cte : List String) :
    ∀ e, Spec.rdElem e1 cte e = Spec.rdElem e2 cte (qElem S cte e)
  | .table [] _ _ => by
    simp only [Spec.rdElem, qElem, qRef]
    rw [tableName_qName H []]
    simp [qName, isBare]
  | .table [x] _ _ => by
    by_cases hc : cte.contains (Ident.escapeS x) = true
    · simp only [Spec.rdElem, qElem, qRef, hc, ↓reduceIte]
    · have hc' : cte.contains (Ident.escapeS x) = false := by simpa using hc
      simp only [Spec.rdElem, qElem, qRef, hc', Bool.false_eq_true, ↓reduceIte]
      rw [H.bare [x] (by simp [isBare])]
      simp
  | .table (x :: y :: r) _ _ => by
    simp only [Spec.rdElem, qElem, qRef]
    rw [tableName_qName H (x :: y :: r)]
    unfold qName
    split <;> simp
  | .derived q _ _ => by simp [Spec.rdElem, qElem, rdQuery_q H cte q]
private theorem rdJoins_q (H : Agree e1 e2 S) (cte : List String) :
    ∀ js, Spec.rdJoins e1 cte js = Spec.rdJoins e2 cte (qJoins S cte js)
  | [] => by simp [Spec.rdJoins, qJoins]
  | .mk _ e none _ :: r => by simp [Spec.rdJoins, qJoins, Spec.rdOpt, qOpt, rdElem_q H cte e, rdJoins_q H cte r]
  | .mk _ e (some c) _ :: r => by
    simp [Spec.rdJoins, qJoins, Spec.rdOpt, qOpt, rdElem_q H cte e, rdExpr_q H cte c, rdJoins_q H cte r]
private theorem rdFromExpr_q (H : Agree e1 e2 S) (cte : List String) :
    ∀ f, Spec.rdFromExpr e1 cte f = Spec.rdFromExpr e2 cte (qFromExpr S cte f)
  | .mk base js => by simp [Spec.rdFromExpr, qFromExpr, rdElem_q H cte base, rdJoins_q H cte js]
private theorem rdFromExprs_q (H : Agree e1 e2 S) (cte : List String) :
    ∀ fs, Spec.rdFromExprs e1 cte fs = Spec.rdFromExprs e2 cte (qFromExprs S cte fs)
  | [] => by simp [Spec.rdFromExprs, qFromExprs]
  | f :: r => by simp [Spec.rdFromExprs, qFromExprs, rdFromExpr_q H cte f, rdFromExprs_q H cte r]
end

private theorem qExprs_eq_map (S : String) (cte : List String) : ∀ es : List Expr, qExprs S cte es = es.map (qExpr S cte)
  | [] => by simp [qExprs]
  | e :: r => by simp [qExprs, qExprs_eq_map S cte r]

theorem spec_reads_agree (H : Agree e1 e2 S) (s : Stmt) : Spec.reads e1 s = Spec.reads e2 (qualifyStmt S s) := by
  cases s with
  | update tgt a sets frm wh =>
    have hs : (sets.map (qSet S)).map (·.src) = qExprs S [] (sets.map (·.src)) := by
      rw [qExprs_eq_map]; simp [List.map_map, Function.comp, qSet]
    have hwh : Spec.rdOpt e1 [] wh = Spec.rdOpt e2 [] (qOpt S [] wh) := by
      cases wh with
      | none => simp [Spec.rdOpt, qOpt]
      | some e => simp [Spec.rdOpt, qOpt, rdExpr_q H [] e]
    simp only [Spec.reads, qualifyStmt]
    rw [hs, ← rdExprs_q H, ← rdFromExprs_q H, hwh]
  | merge tgt a src on ups ins =>
    have hset : ∀ l : List SetClause, (l.map (qSet S)).map (·.src) = (l.map (·.src)).map (qExpr S []) := by
      intro l; simp [List.map_map, Function.comp, qSet]
    have hu : ((ups.map (fun l => l.map (qSet S))).flatten.map (·.src)) = qExprs S [] (ups.flatten.map (·.src)) := by
      rw [qExprs_eq_map]
      induction ups with
      | nil => rfl
      | cons l r ih =>
        simp only [List.map_cons, List.flatten_cons, List.map_append, ih, hset]
    have hi : ((ins.map (qMergeInsert S)).flatMap (·.vals)) = qExprs S [] (ins.flatMap (·.vals)) := by
      rw [qExprs_eq_map]
      induction ins with
      | nil => rfl
      | cons i r ih =>
        simp only [List.map_cons, List.flatMap_cons, List.map_append, ih]
        cases i
        simp [qMergeInsert, qExprs_eq_map]
    cases src with
    | table parts a' =>
      simp only [Spec.reads, qualifyStmt, qMergeSource]
      rw [hu, hi, ← rdExprs_q H, ← rdExprs_q H, ← rdExpr_q H, ← tableName_qName H]
    | derived q a' =>
      simp only [Spec.reads, qualifyStmt, qMergeSource]
      rw [hu, hi, ← rdExprs_q H, ← rdExprs_q H, ← rdExpr_q H, ← rdQuery_q H]
  | _ => simp [Spec.reads, qualifyStmt, ← rdQuery_q H, ← tableName_qName H]

theorem spec_writes_agree (H : Agree e1 e2 S) (s : Stmt) : Spec.writes e1 s = Spec.writes e2 (qualifyStmt S s) := by
  cases s <;> simp [Spec.writes, qualifyStmt, ← tableName_qName H]

/-- C14 at the level of the table specification, for ALL statements: what a statement reads under default `S` is what
    the explicitly qualified statement reads under no default -/
theorem spec_default_eq_qualify (env : Env) (S : String) (h : Plain S) (s : Stmt) :
    Spec.reads { env with cfgDefault := S } s = Spec.reads { env with cfgDefault := "" } (qualifyStmt S s) :=
  spec_reads_agree (agree_default env S "" h) s

theorem spec_default_eq_qualify_writes (env : Env) (S : String) (h : Plain S) (s : Stmt) :
    Spec.writes { env with cfgDefault := S } s = Spec.writes { env with cfgDefault := "" } (qualifyStmt S s) :=
  spec_writes_agree (agree_default env S "" h) s

/-- "names that are already qualified are unaffected", statement level: once every base table is written `S.name`, the
    configured default (any `S'`) no longer matters -/
theorem spec_qualified_stmt_unaffected (env : Env) (S S' : String) (h : Plain S) (s : Stmt) :
    Spec.reads { env with cfgDefault := S' } (qualifyStmt S s) = Spec.reads { env with cfgDefault := "" } (qualifyStmt S s) ∧
    Spec.writes { env with cfgDefault := S' } (qualifyStmt S s) = Spec.writes { env with cfgDefault := "" } (qualifyStmt S s) :=
  ⟨(spec_reads_agree (agree_default env S S' h) s).symm.trans (spec_reads_agree (agree_default env S "" h) s),
   (spec_writes_agree (agree_default env S S' h) s).symm.trans (spec_writes_agree (agree_default env S "" h) s)⟩

/-! ### the walk itself -/

/-- `mkTable` under default `S` = `mkTable` of the qualified name under no default, for every name -/
theorem mkTable_qName (env : Env) (S : String) (h : Plain S) (parts : List String) (a : Option String) :
    mkTable { env with cfgDefault := S } parts a = mkTable { env with cfgDefault := "" } (qName S parts) a := by
  unfold qName
  by_cases hb : isBare parts = true
  · rw [if_pos hb, mkTable_bare _ parts a hb, ← mkTable_default_eq_qualified env S _ a h]
    rw [mkTable_bare _ [parts.getLast?.getD ""] a (by simp [isBare])]
    simp
  · rw [if_neg hb]; exact mkTable_notBare _ _ parts a (by simpa using hb)

/-- `qualifyStmt` does not change the statement type the dispatch looks at -/
theorem stmtType_qualify (S : String) (s : Stmt) : stmtType (qualifyStmt S s) = stmtType s := by
  cases s with
  | query q b => cases q <;> cases b <;> simp [qualifyStmt, qQuery, stmtType]
  | drop v ie tgt => cases v <;> simp [qualifyStmt, stmtType]
  | _ => simp [qualifyStmt, stmtType]

/-- the statement contains a query the select / CTE extractors walk -/
def hasQuery : Stmt → Bool
  | .query .. | .insert .. | .ctas .. | .createView .. | .update .. | .merge .. => true
  | _ => false

/-- `walk_default_eq_qualify`, part 1: for every statement that contains no query (INSERT … VALUES, CREATE TABLE [LIKE],
    DROP, ALTER … RENAME, RENAME TABLE, COPY, no‑op and unsupported statements) the statement holder GRAPH under default `S` equals the holder graph of the
    qualified statement under no default — tables, tags, columns (incl. provider‑given ones), edges, order.

    Full statement (not proved for statements with a query, see `walk_flat_default_eq_qualify_partial` and the note there):
      ∀ s, tableView (analyze {env with cfgDefault := S} silent s) = tableView (analyze {env with cfgDefault := ""} silent (qualifyStmt S s)) -/
theorem walk_default_eq_qualify_partial (env : Env) (S : String) (h : Plain S) (silent : Bool) (s : Stmt)
    (hs : hasQuery s = false) :
    analyze { env with cfgDefault := S } silent s = analyze { env with cfgDefault := "" } silent (qualifyStmt S s) := by
  have hT := stmtType_qualify S s
  unfold analyze
  rw [hT]
  cases hd : dispatch (stmtType s) with
  | none => rfl
  | some c =>
    cases s with
    | query _ _ => simp [hasQuery] at hs
    | insert _ _ _ _ _ _ => simp [hasQuery] at hs
    | ctas _ _ _ _ _ => simp [hasQuery] at hs
    | createView _ _ _ _ => simp [hasQuery] at hs
    | insertValues tgt cols rows =>
      -- (second alternative: `Model/Stmt.lean` after `patches/Stmt-D8.patch`, where this branch is `writeTargetHolder`)
      first
        | (simp only [qualifyStmt, ← mkTable_qName env S h]; done)
        | (simp only [qualifyStmt, writeTargetHolder, ← mkTable_qName env S h])
    | createTable tgt ine cols => simp only [qualifyStmt, ← mkTable_qName env S h]
    | createTableLike tgt src => simp only [qualifyStmt, ← mkTable_qName env S h]
    | update _ _ _ _ _ => simp [hasQuery] at hs
    | merge _ _ _ _ _ _ => simp [hasQuery] at hs
    | copy tgt path => simp only [qualifyStmt, exCopy, ← mkTable_qName env S h]
    | drop v ie tgt => simp only [qualifyStmt, exDrop, ← mkTable_qName env S h]
    | alterRename x y => simp only [qualifyStmt, exRename, List.foldl, ← mkTable_qName env S h]
    | renameTable ps =>
      simp only [qualifyStmt, exRename, List.foldl_map, ← mkTable_qName env S h]
    | noop _ _ => simp only [qualifyStmt]
    | unsupported _ => simp only [qualifyStmt]

/-! ### flat statements: the walk under default `S` = the walk of the qualified statement, as GRAPHS -/

mutual
private theorem plain_noSubq : ∀ e, plain e = true → hasSubq e = false
  | .col _ _, _ => by simp [hasSubq]
  | .star _, _ => by simp [hasSubq]
  | .lit _, _ => by simp [hasSubq]
  | .func _ _ args none, h => by
    have h1 : plainL args = true := by simpa [plain] using h
    simp [hasSubq, plainL_noSubq args h1]
  | .func _ _ args (some (.mk p o)), h => by
    have h1 : plainL args = true ∧ plainL p = true ∧ plainL o = true := by simpa [plain, Bool.and_eq_true] using h
    simp [hasSubq, plainL_noSubq args h1.1, plainL_noSubq p h1.2.1, plainL_noSubq o h1.2.2]
  | .cast e _, h => by
    have h1 : plain e = true := by simpa [plain] using h
    simp [hasSubq, plain_noSubq e h1]
  | .case _ _, h => by simp [plain] at h
  | .bin _ a b, h => by
    have h1 : plain a = true ∧ plain b = true := by simpa [plain, Bool.and_eq_true] using h
    simp [hasSubq, plain_noSubq a h1.1, plain_noSubq b h1.2]
  | .paren e, h => by
    have h1 : plain e = true := by simpa [plain] using h
    simp [hasSubq, plain_noSubq e h1]
  | .subq _, h => by simp [plain] at h
  | .inSubq _ _ _, h => by simp [plain] at h
  | .exist _ _, h => by simp [plain] at h
private theorem plainL_noSubq : ∀ es, plainL es = true → hasSubqL es = false
  | [], _ => by simp [hasSubqL]
  | e :: r, h => by
    have h1 : plain e = true ∧ plainL r = true := by simpa [plainL, Bool.and_eq_true] using h
    simp [hasSubqL, plain_noSubq e h1.1, plainL_noSubq r h1.2]
end

mutual
/-- qualification does not touch an expression without subquery -/
private theorem qExpr_noSubq (S : String) (cte : List String) : ∀ e, hasSubq e = false → qExpr S cte e = e
  | .col _ _, _ => by simp [qExpr]
  | .star _, _ => by simp [qExpr]
  | .lit _, _ => by simp [qExpr]
  | .func _ _ args none, h => by
    have h1 : hasSubqL args = false := by simpa [hasSubq] using h
    simp [qExpr, qOver, qExprs_noSubq S cte args h1]
  | .func _ _ args (some (.mk p o)), h => by
    have h1 : hasSubqL args = false ∧ hasSubqL p = false ∧ hasSubqL o = false := by
      simpa [hasSubq, Bool.or_eq_false_iff] using h
    simp [qExpr, qOver, qExprs_noSubq S cte args h1.1, qExprs_noSubq S cte p h1.2.1, qExprs_noSubq S cte o h1.2.2]
  | .cast e _, h => by
    have h1 : hasSubq e = false := by simpa [hasSubq] using h
    simp [qExpr, qExpr_noSubq S cte e h1]
  | .case ws none, h => by
    have h1 : hasSubqW ws = false := by simpa [hasSubq] using h
    simp [qExpr, qOpt, qWhens_noSubq S cte ws h1]
  | .case ws (some e), h => by
    have h1 : hasSubqW ws = false ∧ hasSubq e = false := by simpa [hasSubq, Bool.or_eq_false_iff] using h
    simp [qExpr, qOpt, qWhens_noSubq S cte ws h1.1, qExpr_noSubq S cte e h1.2]
  | .bin _ a b, h => by
    have h1 : hasSubq a = false ∧ hasSubq b = false := by simpa [hasSubq, Bool.or_eq_false_iff] using h
    simp [qExpr, qExpr_noSubq S cte a h1.1, qExpr_noSubq S cte b h1.2]
  | .paren e, h => by
    have h1 : hasSubq e = false := by simpa [hasSubq] using h
    simp [qExpr, qExpr_noSubq S cte e h1]
  | .subq _, h => by simp [hasSubq] at h
  | .inSubq _ _ _, h => by simp [hasSubq] at h
  | .exist _ _, h => by simp [hasSubq] at h
private theorem qExprs_noSubq (S : String) (cte : List String) : ∀ es, hasSubqL es = false → qExprs S cte es = es
  | [], _ => by simp [qExprs]
  | e :: r, h => by
    have h1 : hasSubq e = false ∧ hasSubqL r = false := by simpa [hasSubqL, Bool.or_eq_false_iff] using h
    simp [qExprs, qExpr_noSubq S cte e h1.1, qExprs_noSubq S cte r h1.2]
private theorem qWhens_noSubq (S : String) (cte : List String) : ∀ ws, hasSubqW ws = false → qWhens S cte ws = ws
  | [], _ => by simp [qWhens]
  | .mk c r :: rest, h => by
    have h1 : (hasSubq c = false ∧ hasSubq r = false) ∧ hasSubqW rest = false := by
      simpa [hasSubqW, Bool.or_eq_false_iff] using h
    simp [qWhens, qExpr_noSubq S cte c h1.1.1, qExpr_noSubq S cte r h1.1.2, qWhens_noSubq S cte rest h1.2]
end

private theorem flatItem_noSubq : ∀ it : Item, flatItem it = true → (match it with | .mk e _ _ => hasSubq e = false)
  | .mk (.func n d args over) _ _, h => plain_noSubq _ (by simpa [flatItem] using h)
  | .mk (.cast e t) _ _, h => by
    have : plain e = true := by simpa [flatItem] using h
    simp [hasSubq, plain_noSubq e this]
  | .mk (.col _ _) _ _, _ => by simp [hasSubq]
  | .mk (.star _) _ _, _ => by simp [hasSubq]
  | .mk (.lit _) _ _, _ => by simp [hasSubq]
  | .mk (.case ws els) _ _, h => by simpa [flatItem] using h
  | .mk (.bin _ a b) _ _, h => by simpa [flatItem] using h
  | .mk (.paren e) _ _, h => by simpa [flatItem] using h
  | .mk (.subq _) _ _, h => by simp [flatItem, hasSubq] at h
  | .mk (.inSubq _ _ _) _ _, h => by simp [flatItem, hasSubq] at h
  | .mk (.exist _ _) _ _, h => by simp [flatItem, hasSubq] at h

private theorem qItems_flat (S : String) (cte : List String) : ∀ its : List Item, its.all flatItem = true → qItems S cte its = its
  | [], _ => by simp [qItems]
  | .mk e a k :: r, h => by
    have h1 : flatItem (.mk e a k) = true ∧ r.all flatItem = true := by simpa [List.all_cons, Bool.and_eq_true] using h
    have he : hasSubq e = false := flatItem_noSubq (.mk e a k) h1.1
    simp [qItems, qExpr_noSubq S cte e he, qItems_flat S cte r h1.2]

mutual
private theorem cdExpr_plain (env : Env) (g : LGraph) : ∀ e, plain e = true → cdExpr env g e = []
  | .col _ _, _ => by simp [cdExpr]
  | .star _, _ => by simp [cdExpr]
  | .lit _, _ => by simp [cdExpr]
  | .func _ _ args none, h => by
    have h1 : plainL args = true := by simpa [plain] using h
    simp [cdExpr, cdExprs_plain env g args h1]
  | .func _ _ args (some (.mk p o)), h => by
    have h1 : plainL args = true ∧ plainL p = true ∧ plainL o = true := by simpa [plain, Bool.and_eq_true] using h
    simp [cdExpr, cdExprs_plain env g args h1.1, cdExprs_plain env g p h1.2.1, cdExprs_plain env g o h1.2.2]
  | .cast e _, h => by
    have h1 : plain e = true := by simpa [plain] using h
    simp [cdExpr, cdExpr_plain env g e h1]
  | .case _ _, h => by simp [plain] at h
  | .bin _ a b, h => by
    have h1 : plain a = true ∧ plain b = true := by simpa [plain, Bool.and_eq_true] using h
    simp [cdExpr, cdExpr_plain env g a h1.1, cdExpr_plain env g b h1.2]
  | .paren e, h => by
    have h1 : plain e = true := by simpa [plain] using h
    simp [cdExpr, cdExpr_plain env g e h1]
  | .subq _, h => by simp [plain] at h
  | .inSubq _ _ _, h => by simp [plain] at h
  | .exist _ _, h => by simp [plain] at h
private theorem cdExprs_plain (env : Env) (g : LGraph) : ∀ es, plainL es = true → cdExprs env g es = []
  | [], _ => by simp [cdExprs]
  | e :: r, h => by
    have h1 : plain e = true ∧ plainL r = true := by simpa [plainL, Bool.and_eq_true] using h
    simp [cdExprs, cdExpr_plain env g e h1.1, cdExprs_plain env g r h1.2]
end

/-- a table reference of the FROM clause, no CTE in sight: default `S` = qualified -/
private theorem datasetOfElem_q (env : Env) (S : String) (h : Plain S) (g : LGraph) (hc : cteObjs g = [])
    (parts : List String) (a : Option String) (k : Bool) :
    datasetOfElem { env with cfgDefault := S } g (.table parts a k) =
      datasetOfElem { env with cfgDefault := "" } g (qElem S [] (.table parts a k)) := by
  have hq : qRef S [] parts = qName S parts := by
    cases parts with
    | nil => rfl
    | cons x r =>
      cases r with
      | nil => simp [qRef, qName, isBare]
      | cons y r' => rfl
  have hlen : ∀ n, qName S parts ≠ [n] := by
    intro n
    unfold qName
    split
    · simp
    · rename_i hb
      intro e
      rw [e] at hb
      simp [isBare] at hb
  have hR : datasetOfElem { env with cfgDefault := "" } g (.table (qName S parts) a k) =
      [mkTable { env with cfgDefault := "" } (qName S parts) a] := by
    generalize hqp : qName S parts = qp at hlen
    cases qp with
    | nil => rfl
    | cons x r =>
      cases r with
      | nil => exact absurd rfl (hlen x)
      | cons y r' => rfl
  have hL : datasetOfElem { env with cfgDefault := S } g (.table parts a k) = [mkTable { env with cfgDefault := S } parts a] := by
    cases parts with
    | nil => rfl
    | cons x r =>
      cases r with
      | nil => simp [datasetOfElem, hc]
      | cons y r' => rfl
  simp only [qElem, hq]
  rw [hL, hR, mkTable_qName env S h]

private theorem cdJoins_q (env : Env) (S : String) (h : Plain S) (g : LGraph) (hc : cteObjs g = []) :
    ∀ js : List Join, js.all flatJoin = true →
      cdJoins { env with cfgDefault := S } g js = cdJoins { env with cfgDefault := "" } g (qJoins S [] js) ∧
      (qJoins S [] js).all flatJoin = true
  | [], _ => by simp [cdJoins, qJoins]
  | .mk kd e on us :: r, hj => by
    have h1 : flatJoin (.mk kd e on us) = true ∧ r.all flatJoin = true := by simpa [List.all_cons, Bool.and_eq_true] using hj
    obtain ⟨ih1, ih2⟩ := cdJoins_q env S h g hc r h1.2
    cases e with
    | derived q a ak => simp [flatJoin, flatElem] at h1
    | table parts a ak =>
      have hd := datasetOfElem_q env S h g hc parts a ak
      cases on with
      | none =>
        refine ⟨?_, ?_⟩
        · simp only [cdJoins, qJoins, qOpt, qElem] at hd ⊢
          rw [hd, ih1]; simp [cdElem]
        · simp [qJoins, qElem, qOpt, flatJoin, flatElem, flatOn, ih2]
      | some c =>
        have hp : plain c = true := by simpa [flatJoin, flatElem, flatOn] using h1.1
        have hcq : qExpr S [] c = c := qExpr_noSubq S [] c (plain_noSubq c hp)
        refine ⟨?_, ?_⟩
        · simp only [cdJoins, qJoins, qOpt, qElem, hcq] at hd ⊢
          rw [hd, ih1, cdExpr_plain _ g c hp, cdExpr_plain _ g c hp]; simp [cdElem]
        · simp [qJoins, qElem, qOpt, hcq, flatJoin, flatElem, flatOn, hp, ih2]

/-- the datasets one from‑expression contributes (its base element, then the elements of its join clauses) -/
private def feTables (env : Env) (g : LGraph) : FromExpr → List DObj
  | .mk base js => datasetOfElem env g base ++ (if js.isEmpty then [] else cdFromExpr env g (.mk base js))

private theorem tablesOfFrom_eq (env : Env) (g : LGraph) (frm : List FromExpr) :
    tablesOfFrom env g frm = frm.flatMap (feTables env g) := by
  unfold tablesOfFrom
  split
  · rfl
  · simp [feTables]
  · congr 1

private theorem feTables_q (env : Env) (S : String) (h : Plain S) (g : LGraph) (hc : cteObjs g = []) (fe : FromExpr)
    (hf : flatFromExpr fe = true) :
    feTables { env with cfgDefault := S } g fe = feTables { env with cfgDefault := "" } g (qFromExpr S [] fe) ∧
    flatFromExpr (qFromExpr S [] fe) = true := by
  cases fe with
  | mk base js =>
    cases base with
    | derived q a ak => simp [flatFromExpr, flatElem] at hf
    | table parts a ak =>
      have hj : js.all flatJoin = true := by simpa [flatFromExpr, flatElem] using hf
      obtain ⟨c1, c2⟩ := cdJoins_q env S h g hc js hj
      have hd := datasetOfElem_q env S h g hc parts a ak
      have hemp : (qJoins S [] js).isEmpty = js.isEmpty := by cases js with
        | nil => rfl
        | cons j r => cases j; rfl
      refine ⟨?_, ?_⟩
      · simp only [feTables, qFromExpr, qElem, hemp] at hd ⊢
        rw [hd]
        simp only [cdFromExpr, cdElem, List.nil_append, c1]
      · simp [qFromExpr, qElem, flatFromExpr, flatElem, c2]

private theorem tablesOfFrom_q (env : Env) (S : String) (h : Plain S) (g : LGraph) (hc : cteObjs g = []) :
    ∀ frm : List FromExpr, frm.all flatFromExpr = true →
      tablesOfFrom { env with cfgDefault := S } g frm = tablesOfFrom { env with cfgDefault := "" } g (qFromExprs S [] frm) ∧
      (qFromExprs S [] frm).all flatFromExpr = true := by
  intro frm hf
  rw [tablesOfFrom_eq, tablesOfFrom_eq]
  induction frm with
  | nil => simp [qFromExprs]
  | cons fe r ih =>
    have h1 : flatFromExpr fe = true ∧ r.all flatFromExpr = true := by simpa [List.all_cons, Bool.and_eq_true] using hf
    obtain ⟨a1, a2⟩ := feTables_q env S h g hc fe h1.1
    obtain ⟨b1, b2⟩ := ih h1.2
    refine ⟨?_, ?_⟩
    · simp only [qFromExprs, List.flatMap_cons]
      rw [a1, b1]
    · simp [qFromExprs, a2, b2]

/-- `finishBranches` of one flat block -/
private theorem finishBranches_q (env : Env) (S : String) (h : Plain S) (g : LGraph) (hc : cteObjs g = [])
    (its : List Item) (frm : List FromExpr) (hf : frm.all flatFromExpr = true) :
    finishBranches { env with cfgDefault := S } g [(its, frm)] =
      finishBranches { env with cfgDefault := "" } g [(its, qFromExprs S [] frm)] := by
  have hc1 : ∀ it : Item, colSpecOf { env with cfgDefault := S } it = colSpecOf { env with cfgDefault := "" } it := by
    intro it; cases it; rfl
  have hcs : its.map (colSpecOf { env with cfgDefault := S }) = its.map (colSpecOf { env with cfgDefault := "" }) :=
    List.map_congr_left (fun it _ => hc1 it)
  simp only [finishBranches, List.zipIdx_cons, List.zipIdx_nil, List.foldl_cons, List.foldl_nil, List.nil_append]
  rw [(tablesOfFrom_q env S h g hc frm hf).1, hcs]

/-- the select extractor on a flat block whose initial holder has no CTE -/
private theorem exQuery_q (env : Env) (S : String) (h : Plain S) (ctx : Ctx) (hc : cteObjs (initHolder ctx) = [])
    (q : Query) (hq : flatSelect q = true) :
    exQuery { env with cfgDefault := S } ctx q = exQuery { env with cfgDefault := "" } ctx (qQuery S [] q) := by
  cases q with
  | setop _ _ => simp [flatSelect] at hq
  | withq _ _ => simp [flatSelect] at hq
  | select d its frm wh grp hav =>
    have h1 : (its.all flatItem = true ∧ frm.all flatFromExpr = true) ∧ flatWhere wh = true := by
      simpa [flatSelect, Bool.and_eq_true] using hq
    have hits : qItems S [] its = its := qItems_flat S [] its h1.1.1
    have hwh : qOpt S [] wh = wh := by
      cases wh with
      | none => rfl
      | some e =>
        have : hasSubq e = false := by simpa [flatWhere] using h1.2
        simp [qOpt, qExpr_noSubq S [] e this]
    have hq' : flatSelect (.select d its (qFromExprs S [] frm) wh (qExprs S [] grp) (qOpt S [] hav)) = true := by
      simp [flatSelect, h1.1.1, (tablesOfFrom_q env S h (initHolder ctx) hc frm h1.1.2).2, h1.2]
    simp only [qQuery, hits, hwh]
    rw [exQuery_flat _ ctx d its frm wh grp hav hq, exQuery_flat _ ctx d its _ wh _ _ hq']
    exact finishBranches_q env S h _ hc its frm h1.1.2

/-! #### the initial holder of the select extractor carries no CTE when the target holder has none -/

private theorem tagSet_cte_addWriteO (g : LGraph) (o : DObj) : tagSet (addWriteO g o) .cte = tagSet g .cte := by
  have htag : ∀ m, (addWriteO g o).tag m .cte = g.tag m .cte := by
    intro m
    simp [addWriteO, addWrite, tag_setTag]
  have hnodes : (addWriteO g o).nodes = if Node.ds o.d ∈ g.nodes then g.nodes else g.nodes ++ [Node.ds o.d] := by
    simp only [addWriteO, addWrite, setTag]
    exact nodes_addNode g _ _
  simp only [tagSet, hnodes, htag]
  split
  · rfl
  · rename_i hn
    rw [List.filter_append]
    have : [Node.ds o.d].filter (fun n => g.tag n .cte == some true) = [] := by
      simp [tag_of_not_mem g _ .cte hn]
    rw [this, List.append_nil]

private theorem cteObjs_nil_of {g : LGraph} (h : tagSet g .cte = []) : cteObjs g = [] := by
  simp [cteObjs, objsOf, h]

private theorem initHolder_noCte (ctx : Ctx) (hc : ctx.cte = []) : cteObjs (initHolder ctx) = [] := by
  apply cteObjs_nil_of
  have hw : ∀ (l : List DObj) (g : LGraph), tagSet (l.foldl addWriteO g) .cte = tagSet g .cte := by
    intro l
    induction l with
    | nil => intro g; rfl
    | cons o r ih => intro g; simp only [List.foldl_cons]; rw [ih, tagSet_cte_addWriteO]
  unfold initHolder
  simp only [hc, List.foldl_nil]
  split
  · rw [hw]; rfl
  · rw [tagSet_eq_of_frame (TargetFrame.addWriteColumns_frame _ _), hw]; rfl

/-- the fragment of `walk_flat_default_eq_qualify_partial`: every statement without a query; SELECT, INSERT … SELECT,
    CREATE TABLE AS and CREATE VIEW over one flat SELECT block (`Flat.flatSelect`, see `Proofs/FlatLemmas.lean`) -/
def frag14 : Stmt → Bool
  | .query q _ => flatSelect q
  | .insert _ _ _ _ q _ => flatSelect q
  | .ctas _ _ _ q _ => flatSelect q
  | .createView _ _ _ q => flatSelect q
  | .update .. | .merge .. => false
  | _ => true

/-- the create/insert extractor on a flat block: the target holder `G` is the same on both sides (`mkTable_qName`; the
    provider is asked about the same table), it carries no CTE, and the select extractor agrees by `exQuery_q` -/
private theorem exWriteQuery_q (env : Env) (S : String) (h : Plain S) (isInsert : Bool) (tgt : List String)
    (cols : Option (List String)) (q : Query) (hq : flatSelect q = true) :
    exWriteQuery { env with cfgDefault := S } isInsert tgt cols q =
      exWriteQuery { env with cfgDefault := "" } isInsert (qName S tgt) cols (qQuery S [] q) := by
  have hG : ∃ G : LGraph, tagSet G .cte = [] ∧
      (∀ q', exWriteQuery { env with cfgDefault := S } isInsert tgt cols q' =
        (match exQuery { env with cfgDefault := S } (ctxOf G) q' with | .ok hh => .ok (G.compose hh) | .error e => .error e)) ∧
      (∀ q', exWriteQuery { env with cfgDefault := "" } isInsert (qName S tgt) cols q' =
        (match exQuery { env with cfgDefault := "" } (ctxOf G) q' with | .ok hh => .ok (G.compose hh) | .error e => .error e)) := by
    have hcte0 : tagSet (addWriteO Graph.empty (mkTable { env with cfgDefault := S } tgt none)) .cte = [] := by
      rw [tagSet_cte_addWriteO]; rfl
    first
      | -- `Model/Stmt.lean` as it is
        (refine ⟨(match cols with
            | some cs => addWriteColumns
                (if isInsert && env.prov.truthy then addWriteColumns (addWriteO Graph.empty (mkTable { env with cfgDefault := S } tgt none))
                  (provColumns env.prov (mkTable { env with cfgDefault := S } tgt none).d (mkTable { env with cfgDefault := S } tgt none).printed)
                 else addWriteO Graph.empty (mkTable { env with cfgDefault := S } tgt none)) (cs.map listColumn)
            | none =>
                (if isInsert && env.prov.truthy then addWriteColumns (addWriteO Graph.empty (mkTable { env with cfgDefault := S } tgt none))
                  (provColumns env.prov (mkTable { env with cfgDefault := S } tgt none).d (mkTable { env with cfgDefault := S } tgt none).printed)
                 else addWriteO Graph.empty (mkTable { env with cfgDefault := S } tgt none))), ?_, fun _ => rfl, ?_⟩
         · have f1 : Frame (addWriteO Graph.empty (mkTable { env with cfgDefault := S } tgt none))
               (if isInsert && env.prov.truthy then addWriteColumns (addWriteO Graph.empty (mkTable { env with cfgDefault := S } tgt none))
                  (provColumns env.prov (mkTable { env with cfgDefault := S } tgt none).d (mkTable { env with cfgDefault := S } tgt none).printed)
                 else addWriteO Graph.empty (mkTable { env with cfgDefault := S } tgt none)) := by
             split
             · exact TargetFrame.addWriteColumns_frame _ _
             · exact Frame.refl _
           cases cols with
           | none => rw [tagSet_eq_of_frame f1]; exact hcte0
           | some cs =>
             rw [tagSet_eq_of_frame (Frame.trans f1 (TargetFrame.addWriteColumns_frame _ _))]; exact hcte0
         · intro q'
           rw [mkTable_qName env S h tgt none]
           rfl)
      | -- after `patches/Stmt-D8.patch`
        (have he : (addWriteO (Graph.empty : LGraph) (mkTable { env with cfgDefault := S } tgt none)).edges = [] := by
           simp [addWriteO, addWrite]
         refine ⟨writeTargetHolder { env with cfgDefault := S } isInsert tgt cols, ?_, fun _ => rfl, ?_⟩
         · cases cols with
           | none =>
             have fr : Frame (addWriteO Graph.empty (mkTable { env with cfgDefault := S } tgt none))
                 (writeTargetHolder { env with cfgDefault := S } isInsert tgt none) :=
               TargetFrame.target_frame (α := List String) _ he (isInsert && env.prov.truthy)
                 (provColumns env.prov (mkTable { env with cfgDefault := S } tgt none).d
                   (mkTable { env with cfgDefault := S } tgt none).printed) (fun cs => cs.map listColumn) none
             rw [tagSet_eq_of_frame fr]; exact hcte0
           | some cs =>
             have fr : Frame (addWriteO Graph.empty (mkTable { env with cfgDefault := S } tgt none))
                 (writeTargetHolder { env with cfgDefault := S } isInsert tgt (some cs)) :=
               TargetFrame.target_frame (α := List String) _ he (isInsert && env.prov.truthy)
                 (provColumns env.prov (mkTable { env with cfgDefault := S } tgt none).d
                   (mkTable { env with cfgDefault := S } tgt none).printed) (fun l => l.map listColumn) (some cs)
             rw [tagSet_eq_of_frame fr]; exact hcte0
         · intro q'
           have : writeTargetHolder { env with cfgDefault := S } isInsert tgt cols =
               writeTargetHolder { env with cfgDefault := "" } isInsert (qName S tgt) cols := by
             simp only [writeTargetHolder, ← mkTable_qName env S h]
           rw [this]
           rfl)
  obtain ⟨G, hcte, h1, h2⟩ := hG
  rw [h1 q, h2 (qQuery S [] q),
    exQuery_q env S h (ctxOf G) (initHolder_noCte _ (cteObjs_nil_of hcte)) q hq]

/-- `walk_default_eq_qualify`, part 2: for every statement of `frag14` — in particular SELECT / INSERT … SELECT / CREATE TABLE AS /
    CREATE VIEW over one flat SELECT block — the statement holder GRAPH under default `S` equals the holder graph of the
    qualified statement under no default: tables, aliases, columns, lineage edges, order; any provider, any
    `importDefault`.

    Missing for the full statement (`∀ s`, table level): statements with nested queries.  A subquery is identified by its
    rendered text (`SubQuery.__eq__` by `query_raw`), and qualification changes that text, so the two holders are no longer
    equal but only equal up to a renaming of subquery nodes; the lift needs that equivalence carried through the
    30‑function mutual recursion of `Model/Walk.lean` (no equation lemmas), and excludes the D5 class where the walk's
    unscoped CTE lookup and the standard scoping of `qualifyStmt` disagree.  Checked differentially by `harness/c14.py`
    (model under default `S` vs model of the qualified statement, and both against the implementation). -/
theorem walk_flat_default_eq_qualify_partial (env : Env) (S : String) (h : Plain S) (silent : Bool) (s : Stmt)
    (hs : frag14 s = true) :
    analyze { env with cfgDefault := S } silent s = analyze { env with cfgDefault := "" } silent (qualifyStmt S s) := by
  cases s with
  | query q b =>
    have hq : flatSelect q = true := by simpa [frag14] using hs
    have hT := stmtType_qualify S (.query q b)
    unfold analyze
    rw [hT]
    cases dispatch (stmtType (.query q b)) with
    | none => rfl
    | some c =>
      simp only [qualifyStmt]
      exact exQuery_q env S h {} (initHolder_noCte {} rfl) q hq
  | insert k tk tgt cols q b =>
    have hq : flatSelect q = true := by simpa [frag14] using hs
    have hT := stmtType_qualify S (.insert k tk tgt cols q b)
    unfold analyze
    rw [hT]
    cases dispatch (stmtType (.insert k tk tgt cols q b)) with
    | none => rfl
    | some c => simp only [qualifyStmt]; exact exWriteQuery_q env S h true tgt cols q hq
  | ctas tgt orr ine q b =>
    have hq : flatSelect q = true := by simpa [frag14] using hs
    have hT := stmtType_qualify S (.ctas tgt orr ine q b)
    unfold analyze
    rw [hT]
    cases dispatch (stmtType (.ctas tgt orr ine q b)) with
    | none => rfl
    | some c => simp only [qualifyStmt]; exact exWriteQuery_q env S h false tgt none q hq
  | createView tgt orr cols q =>
    have hq : flatSelect q = true := by simpa [frag14] using hs
    have hT := stmtType_qualify S (.createView tgt orr cols q)
    unfold analyze
    rw [hT]
    cases dispatch (stmtType (.createView tgt orr cols q)) with
    | none => rfl
    | some c => simp only [qualifyStmt]; exact exWriteQuery_q env S h false tgt cols q hq
  | insertValues _ _ _ => exact walk_default_eq_qualify_partial env S h silent _ rfl
  | createTable _ _ _ => exact walk_default_eq_qualify_partial env S h silent _ rfl
  | createTableLike _ _ => exact walk_default_eq_qualify_partial env S h silent _ rfl
  | update _ _ _ _ _ => simp [frag14] at hs
  | merge _ _ _ _ _ _ => simp [frag14] at hs
  | copy _ _ => exact walk_default_eq_qualify_partial env S h silent _ rfl
  | drop _ _ _ => exact walk_default_eq_qualify_partial env S h silent _ rfl
  | alterRename _ _ => exact walk_default_eq_qualify_partial env S h silent _ rfl
  | renameTable _ => exact walk_default_eq_qualify_partial env S h silent _ rfl
  | noop _ _ => exact walk_default_eq_qualify_partial env S h silent _ rfl
  | unsupported _ => exact walk_default_eq_qualify_partial env S h silent _ rfl

/-- D17 (unrepaired code, scoped override): `importDefault` is still the import‑time value, so the owner of `zz.a` in
    `select zz.a from t1` under default `sx` is `<default>.zz`, not the `sx.zz` that the qualified spelling denotes -/
theorem dev_D17 :
    let env : Env := { cfgDefault := "sx" }              -- importDefault = "<default>" (nothing set at import time)
    fallbackOwner env.importDefault "zz" ≠ fallbackOwner (defaultSchema env) "zz" ∧
    (fallbackOwner env.importDefault "zz").1 = .table "<default>" "zz" ∧
    (mkTable { cfgDefault := "" } ["sx", "zz"] none).d = .table "sx" "zz" := by decide

/-- D17 seen through the walk: the statement holder of `insert into tgt select zz.a from t1` under default `sx` -/
def d17Stmt : Stmt :=
  .insert .insertInto false ["tgt"] none
    (.select false [.mk (.col ["zz"] "a") none false] [.mk (.table ["t1"] none false) []] none [] none) false

def hasColNode (r : Except Err LGraph) (printed : String) : Bool :=
  match r with
  | .ok g => g.nodes.any (fun n => match n with | .col p _ => p == printed | _ => false)
  | .error _ => false

theorem dev_D17_walk :
    hasColNode (analyze { cfgDefault := "sx" } false d17Stmt) "<default>.zz.a" = true ∧
    hasColNode (analyze { cfgDefault := "sx", importDefault := "sx" } false d17Stmt) "sx.zz.a" = true ∧
    hasColNode (analyze { cfgDefault := "sx", importDefault := "sx" } false d17Stmt) "<default>.zz.a" = false := by
  decide +kernel

/-! ### non‑vacuity -/

example : Plain "sx" := ⟨by decide, by decide⟩
example : Plain "s1" := ⟨by decide, by decide⟩
/-- a quoted mixed‑case name is not stable (`"Sx"` ↦ `Sx` ↦ `sx`): outside the hypothesis -/
example : Ident.escapeS "\"Sx\"" ≠ "\"Sx\"" := by decide

/-- `insert into tgt with c1 as (select a from t1), c2 as (select a from c1) select x.a from c2 x join s2.t2 using (a)
     join (select * from c3) d using (a) where a in (select a from t3)`:
    bare base tables (t1, c3 — not a CTE —, t3, tgt), CTE references (c1, c2 — left alone), an already qualified name -/
def exStmt : Stmt :=
  .insert .insertInto false ["tgt"] none
    (.withq [.mk "c1" (.select false [.mk (.col [] "a") none false] [.mk (.table ["t1"] none false) []] none [] none),
             .mk "c2" (.select false [.mk (.col [] "a") none false] [.mk (.table ["c1"] none false) []] none [] none)]
      (.select false [.mk (.col ["x"] "a") none false]
        [.mk (.table ["c2"] (some "x") false)
          [.mk "join" (.table ["s2", "t2"] none false) none ["a"],
           .mk "join" (.derived (.select false [.mk (.star []) none false] [.mk (.table ["c3"] none false) []] none [] none)
              (some "d") false) none ["a"]]]
        (some (.inSubq (.col [] "a") false
          (.select false [.mk (.col [] "a") none false] [.mk (.table ["t3"] none false) []] none [] none)))
        [] none)) false

example : Spec.reads { cfgDefault := "sx" } exStmt = ["sx.t1", "s2.t2", "sx.c3", "sx.t3"] ∧
    Spec.reads { cfgDefault := "" } (qualifyStmt "sx" exStmt) = ["sx.t1", "s2.t2", "sx.c3", "sx.t3"] ∧
    Spec.writes { cfgDefault := "" } (qualifyStmt "sx" exStmt) = ["sx.tgt"] ∧
    Render.stmt {} (qualifyStmt "sx" exStmt) =
      "insert into sx.tgt with c1 as (select a from sx.t1), c2 as (select a from c1) select x.a from c2 x join s2.t2 using (a) " ++
      "join (select * from sx.c3) d using (a) where a in (select a from sx.t3)" := by decide +kernel

/-- a query‑free statement inside `walk_default_eq_qualify_partial` whose holder is not trivial -/
example : hasQuery (.createTableLike ["t1"] ["s2", "t2"]) = false ∧
    (analyze { cfgDefault := "sx" } false (.createTableLike ["t1"] ["s2", "t2"])).toOption.map
      (fun g => (Assemble.stmtRead g, Assemble.stmtWrite g)) =
      some ([.ds (.table "s2" "t2")], [.ds (.table "sx" "t1")]) := by decide +kernel

/-- `insert into tgt select a, max(x.b) as m, case when a > 1 then zz.c else 0 end as k from t1 x join s2.t2 on x.k = t2.k
     where a > 1` is inside `frag14` (a CASE as select item is fine), and its holder is not trivial: two sources, a target,
    column edges incl. the unknown‑qualifier fallback -/
def exFlat : Stmt :=
  .insert .insertInto false ["tgt"] none
    (.select false
      [.mk (.col [] "a") none false, .mk (.func "max" false [.col ["x"] "b"] none) (some "m") true,
       .mk (.case [.mk (.bin ">" (.col [] "a") (.lit "1")) (.col ["zz"] "c")] (some (.lit "0"))) (some "k") true]
      [.mk (.table ["t1"] (some "x") false)
        [.mk "join" (.table ["s2", "t2"] none false) (some (.bin "=" (.col ["x"] "k") (.col ["t2"] "k"))) []]]
      (some (.bin ">" (.col [] "a") (.lit "1"))) [] none) false


example : frag14 exFlat = true ∧
    (analyze { cfgDefault := "sx", importDefault := "sx" } false exFlat).toOption.map
      (fun g => (Assemble.stmtRead g, Assemble.stmtWrite g, g.edges.length)) =
      some ([.ds (.table "sx" "t1"), .ds (.table "s2" "t2")], [.ds (.table "sx" "tgt")], 11) := by decide +kernel

end SqlLineage.Props.C14
