/-
C14 — a default schema equals explicit qualification.

  "Analysing a script with default schema S — set through the environment or a scoped override — gives the same tables,
   column pairs and export as analysing the script with every unqualified table name written as S.name; names that are
   already qualified are unaffected, and with no default the placeholder schema is used uniformly for sources, targets
   and column owners."

What is proved here, over the model (`Model/Walk.lean`, `Model/Stmt.lean`, `Model/HolderOps.lean`) and the table
specification (`Spec/Tables.lean`), with `qualifyStmt` of `Model/Qualify.lean` as the explicit qualification:

  * one lemma per creation site of a `Table` in the model:
      - `mkTable_default_eq_qualified`  (`SqlFluffTable.of` → `Table(real_name, schema)`, every FROM element, target, LIKE
        source, DROP / RENAME operand goes through it);
      - `fallback_default_eq_qualified` (`Table(qualifier)` in `Column.to_source_columns`, models.py — the unknown‑qualifier
        fallback) for the REPAIRED code: `Table.__init__` resolves an omitted schema at call time (fix D17), which the model
        expresses by instantiating its `importDefault` parameter with `defaultSchema env`;
  * `qualified_unaffected`, `placeholder_uniform`;
  * `spec_default_eq_qualify` (+ `_writes`) for ALL statements: the tables a statement reads / writes under default `S`
    are those the qualified statement reads / writes under no default — and under ANY other default
    (`spec_qualified_stmt_unaffected`);
  * the walk itself: `walk_default_eq_qualify_partial` (all statements that contain no query: the statement holder graphs are
    EQUAL) and `walk_flat_default_eq_qualify_partial` (INSERT / CTAS / VIEW / SELECT over one flat SELECT block: equal
    holder graphs, columns included);
  * `dev_D17`: with `importDefault ≠ defaultSchema env` (the unrepaired code under a scoped override) the owner of an
    unknown‑qualifier column is NOT the table the qualified spelling denotes.

`S` ranges over plain stable names: non‑empty and a fixpoint of `escape_identifier_name` (lower case, unquoted).  The
mechanism by which the default is set (environment variable / scoped override) is the subject of C15; here it is the
value `Env.cfgDefault` read at call time.  The model is tied to the code by `harness/c14.py`.
-/
import SqlLineage.Model.Qualify
import SqlLineage.Model.Stmt
import SqlLineage.Model.Assemble
import SqlLineage.Spec.Tables

namespace SqlLineage.Props.C14
open SqlLineage Ast Walk Holder Qualify

/-- a plain, stable schema name: not empty, unchanged by `escape_identifier_name` -/
structure Plain (S : String) : Prop where
  ne : S ≠ ""
  stable : Ident.escapeS S = S

/-- the placeholder schema `Schema.unknown`, as `Schema()` stores it -/
def placeholder : String := Ident.escapeS Gen.Const.schemaUnknown

theorem placeholder_eq : placeholder = "<default>" := by decide

/-! ### `Schema()` -/

theorem defaultSchema_set (env : Env) (S : String) (h : Plain S) : defaultSchema { env with cfgDefault := S } = S := by
  simp [defaultSchema, h.ne, h.stable]

theorem defaultSchema_unset (env : Env) : defaultSchema { env with cfgDefault := "" } = placeholder := by
  simp [defaultSchema, placeholder]

/-! ### creation site 1: `SqlFluffTable.of` / `Table(name, schema)` — `mkTable` -/

/-- an unqualified name under default `S` is the table the name `S.name` denotes under no default — same identity, same
    alias attribute -/
theorem mkTable_default_eq_qualified (env : Env) (S n : String) (a : Option String) (h : Plain S) :
    mkTable { env with cfgDefault := S } [n] a = mkTable { env with cfgDefault := "" } [S, n] a := by
  simp [mkTable, defaultSchema, h.ne, h.stable, String.intercalate_singleton]

/-- … and under ANY other default `S'`: the qualified spelling does not look at the configuration -/
theorem mkTable_default_eq_qualified' (env : Env) (S S' n : String) (a : Option String) (h : Plain S) :
    mkTable { env with cfgDefault := S } [n] a = mkTable { env with cfgDefault := S' } [S, n] a := by
  simp [mkTable, defaultSchema, h.ne, h.stable, String.intercalate_singleton]

/-- names with ≥ 2 parts (and a non‑empty qualifier text) do not depend on the configured default -/
theorem qualified_unaffected (env : Env) (S S' : String) (parts : List String) (a : Option String)
    (h2 : 2 ≤ parts.length) (hq : ".".intercalate (parts.dropLast.map Ident.escapeS) ≠ "") :
    mkTable { env with cfgDefault := S } parts a = mkTable { env with cfgDefault := S' } parts a := by
  have hne : parts.dropLast.isEmpty = false := by
    cases parts with
    | nil => simp at h2
    | cons x r => cases r with
      | nil => simp at h2
      | cons y r' => simp [List.dropLast]
  have hq' : ".".intercalate (List.map Ident.escapeS parts).dropLast ≠ "" := by simpa using hq
  simp [mkTable, hne, hq']

/-- with no default every `mkTable` site uses the placeholder for an unqualified name -/
theorem placeholder_uniform_mkTable (env : Env) (n : String) (a : Option String) :
    (mkTable { env with cfgDefault := "" } [n] a).d = .table placeholder (Ident.escapeS n) := by
  simp [mkTable, defaultSchema, placeholder]

/-! ### creation site 2: `Table(qualifier)` in `Column.to_source_columns` — the unknown‑qualifier fallback

`toSourceColumns importDefault m c`: when the qualifier `q` of a source reference is not a key of the alias map the owner is
`Table(q)`.  Its schema is the model's `importDefault` parameter: for the unrepaired code the value `Schema()` had when
`core/models.py` was imported, for the repaired code (fix D17: `schema: Optional[Schema] = None`, resolved inside
`Table.__init__`) the value of `Schema()` at the call, i.e. `defaultSchema env`. -/

/-- the owner `to_source_columns` gives a reference `q.c` whose qualifier is not in the alias map -/
def fallbackOwner (importDefault q : String) : DS × String :=
  (.table importDefault (Ident.escapeS q), importDefault ++ "." ++ Ident.escapeS q)

theorem toSourceColumns_fallback (importDefault : String) (m : AliasMap) (name c q : String) (k : Nat)
    (hm : amGet m q = none) :
    toSourceColumns importDefault m ⟨name, [(c, some q)], false⟩ k =
      [Column.mk1 c (some (fallbackOwner importDefault q))] := by
  simp [toSourceColumns, hm, pushCol, fallbackOwner]

/-- REPAIRED code (`importDefault := defaultSchema env`): under default `S` the fallback owner is exactly the table the
    spelling `S.q` denotes under no default -/
theorem fallback_default_eq_qualified (env : Env) (S q : String) (h : Plain S) :
    let envS : Env := { env with cfgDefault := S }
    let t := mkTable { env with cfgDefault := "" } [S, q] none
    fallbackOwner (defaultSchema envS) q = (t.d, t.printed) := by
  simp [fallbackOwner, mkTable, defaultSchema, DObj.printed, h.ne, h.stable, String.intercalate_singleton]

/-- with no default the repaired fallback uses the placeholder, like every other site -/
theorem placeholder_uniform_fallback (env : Env) (q : String) :
    fallbackOwner (defaultSchema { env with cfgDefault := "" }) q =
      (.table placeholder (Ident.escapeS q), placeholder ++ "." ++ Ident.escapeS q) := by
  simp [fallbackOwner, defaultSchema, placeholder]

/-- `placeholder_uniform`: with `cfgDefault = ""` every creation site of the (repaired) model — `mkTable` for sources,
    targets, LIKE sources, DROP / RENAME operands, and the `to_source_columns` fallback for column owners — puts an
    unqualified name into `Gen.Const.schemaUnknown` -/
theorem placeholder_uniform (env : Env) (n : String) (a : Option String) :
    (mkTable { env with cfgDefault := "" } [n] a).d = .table "<default>" (Ident.escapeS n) ∧
    (fallbackOwner (defaultSchema { env with cfgDefault := "" }) n).1 = .table "<default>" (Ident.escapeS n) := by
  rw [← placeholder_eq]
  exact ⟨placeholder_uniform_mkTable env n a, by rw [placeholder_uniform_fallback]⟩

/-! ### the table specification: default `S` = explicit qualification, for ALL statements

Stated once for any two environments that agree on what names denote up to writing bare names as `S.name`; instantiated
below with (default `S`, no default) and with (default `S`, any other default). -/

structure Agree (e1 e2 : Env) (S : String) : Prop where
  bare : ∀ parts, isBare parts = true → Spec.tableName e1 parts = Spec.tableName e2 [S, parts.getLast?.getD ""]
  other : ∀ parts, isBare parts = false → Spec.tableName e1 parts = Spec.tableName e2 parts

/-- the schema `mkTable` gives a bare name is `Schema()` -/
private theorem mkTable_bare (env : Env) (parts : List String) (a : Option String) (hb : isBare parts = true) :
    mkTable env parts a =
      ⟨.table (defaultSchema env) (Ident.escapeS (parts.getLast?.getD "")),
       some (Ident.escapeS (a.getD (Ident.escapeS (parts.getLast?.getD ""))))⟩ := by
  have hb' : ".".intercalate (parts.dropLast.map Ident.escapeS) = "" := by simpa [isBare] using hb
  unfold mkTable
  simp only [hb']
  split <;> simp

private theorem mkTable_notBare (env env' : Env) (parts : List String) (a : Option String) (hb : isBare parts = false) :
    mkTable env parts a = mkTable env' parts a := by
  have hb' : ".".intercalate (parts.dropLast.map Ident.escapeS) ≠ "" := by simpa [isBare] using hb
  have hne : parts.dropLast.isEmpty = false := by
    cases hd : parts.dropLast with
    | nil => rw [hd] at hb'; simp at hb'
    | cons x r => rfl
  have hb'' : ".".intercalate (List.map Ident.escapeS parts).dropLast ≠ "" := by simpa using hb'
  unfold mkTable
  simp [hne, hb'']

theorem agree_default (env : Env) (S S' : String) (h : Plain S) :
    Agree { env with cfgDefault := S } { env with cfgDefault := S' } S := by
  constructor
  · intro parts hb
    simp only [Spec.tableName]
    rw [mkTable_bare _ parts none hb, ← mkTable_default_eq_qualified' env S S' _ none h]
    have hb1 : isBare [parts.getLast?.getD ""] = true := by simp [isBare]
    rw [mkTable_bare _ [parts.getLast?.getD ""] none hb1]
    simp
  · intro parts hb
    simp only [Spec.tableName]
    rw [mkTable_notBare _ { env with cfgDefault := S' } parts none hb]

/-- "names that are already qualified are unaffected", in the vocabulary of `qualifyStmt` -/
theorem qualified_unaffected' (env : Env) (S S' : String) (parts : List String) (a : Option String)
    (hb : isBare parts = false) :
    mkTable { env with cfgDefault := S } parts a = mkTable { env with cfgDefault := S' } parts a :=
  mkTable_notBare _ _ parts a hb

variable {e1 e2 : Env} {S : String}

private theorem tableName_qName (H : Agree e1 e2 S) (parts : List String) :
    Spec.tableName e1 parts = Spec.tableName e2 (qName S parts) := by
  unfold qName
  by_cases hb : isBare parts = true
  · rw [if_pos hb]; exact H.bare parts hb
  · rw [if_neg hb]; exact H.other parts (by simpa using hb)

mutual
private theorem rdExpr_q (H : Agree e1 e2 S) (cte : List String) :
    ∀ e, Spec.rdExpr e1 cte e = Spec.rdExpr e2 cte (qExpr S cte e)
  | .col _ _ => by simp [Spec.rdExpr, qExpr]
  | .star _ => by simp [Spec.rdExpr, qExpr]
  | .lit _ => by simp [Spec.rdExpr, qExpr]
  | .func _ _ args none => by simp [Spec.rdExpr, qExpr, qOver, rdExprs_q H cte args]
  | .func _ _ args (some (.mk p o)) => by
    simp [Spec.rdExpr, qExpr, qOver, rdExprs_q H cte args, rdExprs_q H cte p, rdExprs_q H cte o]
  | .cast e _ => by simp [Spec.rdExpr, qExpr, rdExpr_q H cte e]
  | .case ws none => by simp [Spec.rdExpr, qExpr, qOpt, rdWhens_q H cte ws]
  | .case ws (some e) => by simp [Spec.rdExpr, qExpr, qOpt, rdWhens_q H cte ws, rdExpr_q H cte e]
  | .bin _ a b => by simp [Spec.rdExpr, qExpr, rdExpr_q H cte a, rdExpr_q H cte b]
  | .paren e => by simp [Spec.rdExpr, qExpr, rdExpr_q H cte e]
  | .subq q => by simp [Spec.rdExpr, qExpr, rdQuery_q H cte q]
  | .inSubq e _ q => by simp [Spec.rdExpr, qExpr, rdExpr_q H cte e, rdQuery_q H cte q]
  | .exist _ q => by simp [Spec.rdExpr, qExpr, rdQuery_q H cte q]
private theorem rdExprs_q (H : Agree e1 e2 S) (cte : List String) :
    ∀ es, Spec.rdExprs e1 cte es = Spec.rdExprs e2 cte (qExprs S cte es)
  | [] => by simp [Spec.rdExprs, qExprs]
  | e :: r => by simp [Spec.rdExprs, qExprs, rdExpr_q H cte e, rdExprs_q H cte r]
private theorem rdWhens_q (H : Agree e1 e2 S) (cte : List String) :
    ∀ ws, Spec.rdWhens e1 cte ws = Spec.rdWhens e2 cte (qWhens S cte ws)
  | [] => by simp [Spec.rdWhens, qWhens]
  | .mk c r :: rest => by simp [Spec.rdWhens, qWhens, rdExpr_q H cte c, rdExpr_q H cte r, rdWhens_q H cte rest]
private theorem rdItems_q (H : Agree e1 e2 S) (cte : List String) :
    ∀ its, Spec.rdItems e1 cte its = Spec.rdItems e2 cte (qItems S cte its)
  | [] => by simp [Spec.rdItems, qItems]
  | .mk e _ _ :: r => by simp [Spec.rdItems, qItems, rdExpr_q H cte e, rdItems_q H cte r]
private theorem rdQuery_q (H : Agree e1 e2 S) (cte : List String) :
    ∀ q, Spec.rdQuery e1 cte q = Spec.rdQuery e2 cte (qQuery S cte q)
  | .select _ its frm wh grp hav => by
    have hwh : Spec.rdOpt e1 cte wh = Spec.rdOpt e2 cte (qOpt S cte wh) := by
      cases wh with
      | none => simp [Spec.rdOpt, qOpt]
      | some e => simp [Spec.rdOpt, qOpt, rdExpr_q H cte e]
    have hhav : Spec.rdOpt e1 cte hav = Spec.rdOpt e2 cte (qOpt S cte hav) := by
      cases hav with
      | none => simp [Spec.rdOpt, qOpt]
      | some e => simp [Spec.rdOpt, qOpt, rdExpr_q H cte e]
    simp only [Spec.rdQuery, qQuery]
    rw [rdItems_q H cte its, rdFromExprs_q H cte frm, hwh, rdExprs_q H cte grp, hhav]
  | .setop first rest => by
    simp only [Spec.rdQuery, qQuery]
    rw [rdBranch_q H cte first, rdOpBranches_q H cte rest]
  | .withq cs body => by
    have h := rdCtes_q H cte cs
    simp only [Spec.rdQuery, qQuery]
    rw [h.1, h.2.1, h.2.2, rdQuery_q H (scopeAfter cte cs) body]
private theorem rdBranch_q (H : Agree e1 e2 S) (cte : List String) :
    ∀ b, Spec.rdBranch e1 cte b = Spec.rdBranch e2 cte (qBranch S cte b)
  | .mk q _ => by simp [Spec.rdBranch, qBranch, rdQuery_q H cte q]
private theorem rdOpBranches_q (H : Agree e1 e2 S) (cte : List String) :
    ∀ bs, Spec.rdOpBranches e1 cte bs = Spec.rdOpBranches e2 cte (qOpBranches S cte bs)
  | [] => by simp [Spec.rdOpBranches, qOpBranches]
  | .mk _ b :: r => by simp [Spec.rdOpBranches, qOpBranches, rdBranch_q H cte b, rdOpBranches_q H cte r]
/-- reads of the CTE bodies agree, and the scope of the main query is `scopeAfter` on both sides -/
private theorem rdCtes_q (H : Agree e1 e2 S) (cte : List String) : ∀ cs,
    (Spec.rdCtes e1 cte cs).1 = (Spec.rdCtes e2 cte (qCtes S cte cs)).1 ∧
    (Spec.rdCtes e1 cte cs).2 = scopeAfter cte cs ∧ (Spec.rdCtes e2 cte (qCtes S cte cs)).2 = scopeAfter cte cs
  | [] => by simp [Spec.rdCtes, qCtes, scopeAfter]
  | .mk name q :: r => by
    have h := rdCtes_q H (cte ++ [Ident.escapeS name]) r
    simp only [Spec.rdCtes, qCtes, scopeAfter]
    rw [rdQuery_q H cte q, h.1]
    exact ⟨rfl, h.2.1, h.2.2⟩
private theorem rdElem_q (H : Agree e1 e2 S) (cte : List String) :
    ∀ e, Spec.rdElem e1 cte e = Spec.rdElem e2 cte (qElem S cte e)
  | .table [] _ _ => by
    simp only [Spec.rdElem, qElem, qRef]
    rw [tableName_qName H []]
    simp [qName, isBare]
  | .table [x] _ _ => by
    by_cases hc : cte.contains (Ident.escapeS x) = true
    · simp only [Spec.rdElem, qElem, qRef, hc, ↓reduceIte]
    · have hc' : cte.contains (Ident.escapeS x) = false := by simpa using hc
      simp only [Spec.rdElem, qElem, qRef, hc', Bool.false_eq_true, ↓reduceIte]
      rw [H.bare [x] (by simp [isBare])]
      simp
  | .table (x :: y :: r) _ _ => by
    simp only [Spec.rdElem, qElem, qRef]
    rw [tableName_qName H (x :: y :: r)]
    unfold qName
    split <;> simp
  | .derived q _ _ => by simp [Spec.rdElem, qElem, rdQuery_q H cte q]
private theorem rdJoins_q (H : Agree e1 e2 S) (cte : List String) :
    ∀ js, Spec.rdJoins e1 cte js = Spec.rdJoins e2 cte (qJoins S cte js)
  | [] => by simp [Spec.rdJoins, qJoins]
  | .mk _ e none _ :: r => by simp [Spec.rdJoins, qJoins, Spec.rdOpt, qOpt, rdElem_q H cte e, rdJoins_q H cte r]
  | .mk _ e (some c) _ :: r => by
    simp [Spec.rdJoins, qJoins, Spec.rdOpt, qOpt, rdElem_q H cte e, rdExpr_q H cte c, rdJoins_q H cte r]
private theorem rdFromExpr_q (H : Agree e1 e2 S) (cte : List String) :
    ∀ f, Spec.rdFromExpr e1 cte f = Spec.rdFromExpr e2 cte (qFromExpr S cte f)
  | .mk base js => by simp [Spec.rdFromExpr, qFromExpr, rdElem_q H cte base, rdJoins_q H cte js]
private theorem rdFromExprs_q (H : Agree e1 e2 S) (cte : List String) :
    ∀ fs, Spec.rdFromExprs e1 cte fs = Spec.rdFromExprs e2 cte (qFromExprs S cte fs)
  | [] => by simp [Spec.rdFromExprs, qFromExprs]
  | f :: r => by simp [Spec.rdFromExprs, qFromExprs, rdFromExpr_q H cte f, rdFromExprs_q H cte r]
end

theorem spec_reads_agree (H : Agree e1 e2 S) (s : Stmt) : Spec.reads e1 s = Spec.reads e2 (qualifyStmt S s) := by
  cases s <;> simp [Spec.reads, qualifyStmt, ← rdQuery_q H, ← tableName_qName H]

theorem spec_writes_agree (H : Agree e1 e2 S) (s : Stmt) : Spec.writes e1 s = Spec.writes e2 (qualifyStmt S s) := by
  cases s <;> simp [Spec.writes, qualifyStmt, ← tableName_qName H]

/-- C14 at the level of the table specification, for ALL statements: what a statement reads under default `S` is what
    the explicitly qualified statement reads under no default -/
theorem spec_default_eq_qualify (env : Env) (S : String) (h : Plain S) (s : Stmt) :
    Spec.reads { env with cfgDefault := S } s = Spec.reads { env with cfgDefault := "" } (qualifyStmt S s) :=
  spec_reads_agree (agree_default env S "" h) s

theorem spec_default_eq_qualify_writes (env : Env) (S : String) (h : Plain S) (s : Stmt) :
    Spec.writes { env with cfgDefault := S } s = Spec.writes { env with cfgDefault := "" } (qualifyStmt S s) :=
  spec_writes_agree (agree_default env S "" h) s

/-- "names that are already qualified are unaffected", statement level: once every base table is written `S.name`, the
    configured default (any `S'`) no longer matters -/
theorem spec_qualified_stmt_unaffected (env : Env) (S S' : String) (h : Plain S) (s : Stmt) :
    Spec.reads { env with cfgDefault := S' } (qualifyStmt S s) = Spec.reads { env with cfgDefault := "" } (qualifyStmt S s) ∧
    Spec.writes { env with cfgDefault := S' } (qualifyStmt S s) = Spec.writes { env with cfgDefault := "" } (qualifyStmt S s) :=
  ⟨(spec_reads_agree (agree_default env S S' h) s).symm.trans (spec_reads_agree (agree_default env S "" h) s),
   (spec_writes_agree (agree_default env S S' h) s).symm.trans (spec_writes_agree (agree_default env S "" h) s)⟩

/-! ### the walk itself -/

/-- `mkTable` under default `S` = `mkTable` of the qualified name under no default, for every name -/
theorem mkTable_qName (env : Env) (S : String) (h : Plain S) (parts : List String) (a : Option String) :
    mkTable { env with cfgDefault := S } parts a = mkTable { env with cfgDefault := "" } (qName S parts) a := by
  unfold qName
  by_cases hb : isBare parts = true
  · rw [if_pos hb, mkTable_bare _ parts a hb, ← mkTable_default_eq_qualified env S _ a h]
    rw [mkTable_bare _ [parts.getLast?.getD ""] a (by simp [isBare])]
    simp
  · rw [if_neg hb]; exact mkTable_notBare _ _ parts a (by simpa using hb)

/-- `qualifyStmt` does not change the statement type the dispatch looks at -/
theorem stmtType_qualify (S : String) (s : Stmt) : stmtType (qualifyStmt S s) = stmtType s := by
  cases s with
  | query q b => cases q <;> cases b <;> simp [qualifyStmt, qQuery, stmtType]
  | drop v ie tgt => cases v <;> simp [qualifyStmt, stmtType]
  | _ => simp [qualifyStmt, stmtType]

/-- the statement contains a query the select / CTE extractors walk -/
def hasQuery : Stmt → Bool
  | .query .. | .insert .. | .ctas .. | .createView .. => true
  | _ => false

/-- `walk_default_eq_qualify`, part 1: for every statement that contains no query (INSERT … VALUES, CREATE TABLE [LIKE],
    DROP, ALTER … RENAME, RENAME TABLE, no‑op and unsupported statements; UPDATE / MERGE / COPY are outside the modelled walk
    and answer the same error on both sides) the statement holder GRAPH under default `S` equals the holder graph of the
    qualified statement under no default — tables, tags, columns (incl. provider‑given ones), edges, order.

    Full statement (not proved for statements with a query, see `walk_flat_default_eq_qualify_partial` and the note there):
      ∀ s, tableView (analyze {env with cfgDefault := S} silent s) = tableView (analyze {env with cfgDefault := ""} silent (qualifyStmt S s)) -/
theorem walk_default_eq_qualify_partial (env : Env) (S : String) (h : Plain S) (silent : Bool) (s : Stmt)
    (hs : hasQuery s = false) :
    analyze { env with cfgDefault := S } silent s = analyze { env with cfgDefault := "" } silent (qualifyStmt S s) := by
  have hT := stmtType_qualify S s
  unfold analyze
  rw [hT]
  cases hd : dispatch (stmtType s) with
  | none => rfl
  | some c =>
    cases s with
    | query _ _ => simp [hasQuery] at hs
    | insert _ _ _ _ _ _ => simp [hasQuery] at hs
    | ctas _ _ _ _ _ => simp [hasQuery] at hs
    | createView _ _ _ _ => simp [hasQuery] at hs
    | insertValues tgt cols rows =>
      -- (second alternative: `Model/Stmt.lean` after `patches/Stmt-D8.patch`, where this branch is `writeTargetHolder`)
      first
        | (simp only [qualifyStmt, ← mkTable_qName env S h]; done)
        | (simp only [qualifyStmt, writeTargetHolder, ← mkTable_qName env S h])
    | createTable tgt ine cols => simp only [qualifyStmt, ← mkTable_qName env S h]
    | createTableLike tgt src => simp only [qualifyStmt, ← mkTable_qName env S h]
    | update _ _ _ _ _ => simp only [qualifyStmt]
    | merge _ _ _ _ _ _ => simp only [qualifyStmt]
    | copy _ _ => simp only [qualifyStmt]
    | drop v ie tgt => simp only [qualifyStmt, exDrop, ← mkTable_qName env S h]
    | alterRename x y => simp only [qualifyStmt, exRename, List.foldl, ← mkTable_qName env S h]
    | renameTable ps =>
      simp only [qualifyStmt, exRename, List.foldl_map, ← mkTable_qName env S h]
    | noop _ _ => simp only [qualifyStmt]
    | unsupported _ => simp only [qualifyStmt]

/-- D17 (unrepaired code, scoped override): `importDefault` is still the import‑time value, so the owner of `zz.a` in
    `select zz.a from t1` under default `sx` is `<default>.zz`, not the `sx.zz` that the qualified spelling denotes -/
theorem dev_D17 :
    let env : Env := { cfgDefault := "sx" }              -- importDefault = "<default>" (nothing set at import time)
    fallbackOwner env.importDefault "zz" ≠ fallbackOwner (defaultSchema env) "zz" ∧
    (fallbackOwner env.importDefault "zz").1 = .table "<default>" "zz" ∧
    (mkTable { cfgDefault := "" } ["sx", "zz"] none).d = .table "sx" "zz" := by decide

/-- D17 seen through the walk: the statement holder of `insert into tgt select zz.a from t1` under default `sx` -/
def d17Stmt : Stmt :=
  .insert .insertInto false ["tgt"] none
    (.select false [.mk (.col ["zz"] "a") none false] [.mk (.table ["t1"] none false) []] none [] none) false

def hasColNode (r : Except Err LGraph) (printed : String) : Bool :=
  match r with
  | .ok g => g.nodes.any (fun n => match n with | .col p _ => p == printed | _ => false)
  | .error _ => false

theorem dev_D17_walk :
    hasColNode (analyze { cfgDefault := "sx" } false d17Stmt) "<default>.zz.a" = true ∧
    hasColNode (analyze { cfgDefault := "sx", importDefault := "sx" } false d17Stmt) "sx.zz.a" = true ∧
    hasColNode (analyze { cfgDefault := "sx", importDefault := "sx" } false d17Stmt) "<default>.zz.a" = false := by
  decide +kernel

/-! ### non‑vacuity -/

example : Plain "sx" := ⟨by decide, by decide⟩
example : Plain "s1" := ⟨by decide, by decide⟩
/-- a quoted mixed‑case name is not stable (`"Sx"` ↦ `Sx` ↦ `sx`): outside the hypothesis -/
example : Ident.escapeS "\"Sx\"" ≠ "\"Sx\"" := by decide

/-- `insert into tgt with c1 as (select a from t1), c2 as (select a from c1) select x.a from c2 x join s2.t2 using (a)
     join (select * from c3) d using (a) where a in (select a from t3)`:
    bare base tables (t1, c3 — not a CTE —, t3, tgt), CTE references (c1, c2 — left alone), an already qualified name -/
def exStmt : Stmt :=
  .insert .insertInto false ["tgt"] none
    (.withq [.mk "c1" (.select false [.mk (.col [] "a") none false] [.mk (.table ["t1"] none false) []] none [] none),
             .mk "c2" (.select false [.mk (.col [] "a") none false] [.mk (.table ["c1"] none false) []] none [] none)]
      (.select false [.mk (.col ["x"] "a") none false]
        [.mk (.table ["c2"] (some "x") false)
          [.mk "join" (.table ["s2", "t2"] none false) none ["a"],
           .mk "join" (.derived (.select false [.mk (.star []) none false] [.mk (.table ["c3"] none false) []] none [] none)
              (some "d") false) none ["a"]]]
        (some (.inSubq (.col [] "a") false
          (.select false [.mk (.col [] "a") none false] [.mk (.table ["t3"] none false) []] none [] none)))
        [] none)) false

example : Spec.reads { cfgDefault := "sx" } exStmt = ["sx.t1", "s2.t2", "sx.c3", "sx.t3"] ∧
    Spec.reads { cfgDefault := "" } (qualifyStmt "sx" exStmt) = ["sx.t1", "s2.t2", "sx.c3", "sx.t3"] ∧
    Spec.writes { cfgDefault := "" } (qualifyStmt "sx" exStmt) = ["sx.tgt"] ∧
    Render.stmt {} (qualifyStmt "sx" exStmt) =
      "insert into sx.tgt with c1 as (select a from sx.t1), c2 as (select a from c1) select x.a from c2 x join s2.t2 using (a) " ++
      "join (select * from sx.c3) d using (a) where a in (select a from sx.t3)" := by decide +kernel

/-- a query‑free statement inside `walk_default_eq_qualify_partial` whose holder is not trivial -/
example : hasQuery (.createTableLike ["t1"] ["s2", "t2"]) = false ∧
    (analyze { cfgDefault := "sx" } false (.createTableLike ["t1"] ["s2", "t2"])).toOption.map
      (fun g => (Assemble.stmtRead g, Assemble.stmtWrite g)) =
      some ([.ds (.table "s2" "t2")], [.ds (.table "sx" "t1")]) := by decide +kernel

end SqlLineage.Props.C14
