/-
C05 — a script is analysed as exactly the sequence of its statements.

All theorems are about `SqlLineage.Split` (model of `helpers.split` / `trim_comment`, i.e. of sqlparse's lexer and statement
splitter on the class `level0`, and of `LineageRunner._eval`), for ALL token lists / scripts (no bound on length, number
of statements, or the contents of literals and comments).  Helper lemmas: `Proofs/Split.lean`; the specification
(`segs`: cut at every `;`): `Spec/Split.lean`.

Partial: sqlparse's and sqlfluff's real lexers are modelled (not verified) — the tie is the differential correspondence
of `harness/c05.py`; statements outside `level0` (see `Model/Split.lean`) are only exercised.  The per‑statement analyser
and the assembler are abstract parameters of the runner theorems (their models belong to C01–C04).
Not proved here: that the CONCRETE analyser / assembler models ignore the session when the provider is falsy
(`analyze_ignores_session_when_falsy` of DESIGN.md §5 — `Model.Walk` / `Model.Assemble` are other layers); it is the hypothesis
`Falsy` below and is exercised on the real code by part C of `harness/c05.py`.  Likewise insensitivity of the analysis to
attached comments / blanks / the trailing `;` (C07) is the hypothesis `hresp` of `script_eq_statements_partial`.
-/
import SqlLineage.Model.Split
import SqlLineage.Spec.Split
import SqlLineage.Proofs.Split
import SqlLineage.Gen.Config

namespace SqlLineage.Props.C05
open SqlLineage.Split SqlLineage.Spec.Split SqlLineage.Proofs.Split

/-! ### 1. The lexer: `lex (render ts) = ts` for well‑formed token lists, and `render (lex s) = s` for every string -/

/-- **lex_render** — lexing the rendering of a well‑formed token list gives back exactly the tokens.  Token bodies are
    arbitrary (any number of `;` inside literals and comments). -/
theorem lex_render (ts : List Tok) (h : wf ts = true) : lex (render ts) = ts := by
  have := flush_run_render ts St.init (by simp [St.init, boundary]) h (by intros; simp [St.init, mcompat])
  rw [lex, this]; simp [St.init, flush]

/-- **render_lex** — the lexer loses nothing: for EVERY string (well‑formed or not, terminated or not) the tokens print
    back to it.  Hence every piece `split` returns is a literal substring of the script. -/
theorem render_lex (s : List Char) : render (lex s) = s := by
  have := text_run s St.init (by intro h; simp [St.init] at h)
  simpa [lex, St.init, flush, render] using this

/-! ### 2. The splitter on tokens, for EVERY token list: the kept pieces are the `;`‑delimited segments that contain
something other than blanks and comments — in order, each up to comments / `;` / outer blanks (`essence`) -/

/-- **split_spec** — for EVERY token list: the pieces `helpers.split` keeps are, in order and up to comments / `;` /
    outer blanks, exactly the `;`‑delimited segments that contain something besides blanks and comments. -/
theorem split_spec (ts : List Tok) :
    (splitT ts).map essence = specSplit ts := by
  have := (go_spec ts).1 [] [] (by simp) (by simp)
  simpa [splitT, pieces, specSplit] using this

/-! ### 3. Scripts assembled from statements and separator noise -/

/-- `WellFormedScript lead items`: the token list is canonical (`wf`) and inside the modelled class (`level0`); `lead` and
    every separator consist of blanks, comments and `;` only; every statement has no top‑level `;` and contains at least
    one token that is not a blank or a comment; every separator except the last contains a `;`.  Literal and comment
    bodies are arbitrary — in particular they may contain any number of `;`. -/
abbrev WellFormedScript (lead : List Tok) (items : List (List Tok × List Tok)) : Prop := scriptHyp lead items = true

/-- **split_render** — a script rendered from statements `s₁ … sₙ` with arbitrary separator noise (`;`, `;;`, blanks, line
    and block comments containing `;`, leading / trailing blank or comment‑only pieces) is split into exactly `n` pieces,
    in order, the `i`‑th being `sᵢ` up to comments, the `;` and outer blanks. -/
theorem split_render (lead : List Tok) (items : List (List Tok × List Tok)) (h : WellFormedScript lead items) :
    (splitT (lex (render (scriptToks lead items)))).map essence = items.map (fun p => essence p.1) := by
  obtain ⟨hwf, hlead, hit, hseps⟩ := hyp_parts h
  rw [lex_render _ hwf, split_spec, specSplit]
  exact S_noise (body items) _ (S_body items hit hseps) lead [] hlead (by simp)

/-- the same for the strings `helpers.split` returns: lexing each returned piece and taking its essence gives the
    statements' essences (the pieces are `render`ings of token lists, `render_lex` says nothing was lost) -/
theorem split_render_strings (lead : List Tok) (items : List (List Tok × List Tok)) (h : WellFormedScript lead items) :
    ∃ ps : List (List Tok), split (render (scriptToks lead items)) = ps.map render ∧
      ps.map essence = items.map (fun p => essence p.1) :=
  ⟨_, rfl, split_render lead items h⟩

/-- **count_eq** — the number of statements reported is the number of statements the script was built from -/
theorem count_eq (lead : List Tok) (items : List (List Tok × List Tok)) (h : WellFormedScript lead items) :
    (split (render (scriptToks lead items))).length = items.length := by
  have := congrArg List.length (split_render lead items h)
  simpa [split] using this

/-- **empty_and_comment_only_dropped** — (1) a script made of blanks, comments and `;` only has no statements;
    (2) in ANY script every reported piece contains a token that is not a blank, a comment or a `;`. -/
theorem empty_and_comment_only_dropped :
    (∀ n : List Tok, wf n = true → n.all isNoise = true → split (render n) = []) ∧
    (∀ s : List Char, ∀ p ∈ splitT (lex s), p.any isSubst = true) := by
  constructor
  · intro n hwf hn
    have h := split_spec n
    have h0 : specSplit n = [] := S_only_noise n hn
    rw [h0] at h
    have : splitT n = [] := by simpa using h
    simp [split, lex_render _ hwf, this]
  · intro s p hp
    have hk : keep p = true := by
      simp only [splitT, List.mem_filter] at hp; exact hp.2
    -- the first token that is neither blank nor comment exists and is not `;`
    unfold keep at hk
    split at hk
    · rename_i t ht
      have hmem := List.mem_of_find?_eq_some ht
      have hp' := List.find?_some ht
      rw [List.any_eq_true]
      refine ⟨t, hmem, ?_⟩
      simp only [Bool.and_eq_true, Bool.not_eq_true'] at hp'
      simp only [Bool.not_eq_true'] at hk
      simp [isSubst, hp'.1, hp'.2, hk]
    · simp at hk

/-- **semicolon_inside_literal_or_comment_does_not_split** — a statement without a top‑level `;` is ONE piece and comes
    back verbatim, whatever its string literals, quoted names, `--` / `# ` line comments and block comments contain
    (their bodies are unconstrained apart from being terminated: any number of `;`). -/
theorem semicolon_inside_literal_or_comment_does_not_split (s : List Tok) (hwf : wf s = true) (hs : stmtOk s = true) :
    split (render s) = [render s] := by
  simp only [stmtOk, Bool.and_eq_true] at hs
  have hnw : s.all isWhite = false := by
    rcases hw : s.all isWhite with _ | _
    · rfl
    · have := white_no_subst hw; rw [this] at hs; simp at hs
  have hk : keep s = true := by rw [keep_nosemi hs.1]; exact hs.2
  simp [split, lex_render _ hwf, splitT, pieces, go_nosemi s [] hs.1, hnw, hk]



/-! ### 4. `trim_comment` / `statements()` -/

/-- **trimComment_render** — on a well‑formed token list `trim_comment` replaces exactly the comment tokens (each by one
    blank or line break) and leaves every other token, literal bodies included, untouched -/
theorem trimComment_render (ts : List Tok) (h : wf ts = true) : trimComment (render ts) = render (ts.map uncomment) := by
  simp [trimComment, lex_render _ h]

/-- … and no comment token is left -/
theorem uncomment_no_comment (ts : List Tok) : ∀ t ∈ ts.map uncomment, isComment t = false := by
  intro t ht
  simp only [List.mem_map] at ht
  obtain ⟨u, _, rfl⟩ := ht
  cases u <;> simp [uncomment, isComment]

/-! ### 5. The runner: a script is analysed as the sequence of its statements (`runner.py:185‑218`) -/

/-- analyse every statement with the SAME (initial) session metadata; the first exception wins -/
def analyzeAll (f : List Char → Except ε H) : List (List Char) → Except ε (List H)
  | [] => .ok []
  | st :: r =>
    match f st with
    | .error e => .error e
    | .ok h =>
      match analyzeAll f r with
      | .error e => .error e
      | .ok hs => .ok (h :: hs)

/-- the provider is falsy (`DummyMetaDataProvider()` without metadata): every metadata lookup in the analyser and in the
    assembler is gated on the provider's truthiness (`holders.py:174`, `:426`, `create_insert.py:111`,
    `parser/__init__.py:46`), so neither depends on what the session has registered -/
structure Falsy (r : Runner σ H R ε) (s0 : σ) : Prop where
  analyze_ignores : ∀ s st, r.analyze s st = r.analyze s0 st
  build_ignores : ∀ s hs, r.build s hs = r.build s0 hs

private theorem loop_fold (r : Runner σ H R ε) (s0 : σ) (hf : Falsy r s0) (stmts : List (List Char)) :
    ∀ s acc, (loop r s acc stmts).1 =
      match analyzeAll (r.analyze s0) stmts with
      | .error e => .error e
      | .ok hs => .ok (acc.reverse ++ hs) := by
  induction stmts with
  | nil => intro s acc; simp [loop, analyzeAll]
  | cons st rest ih =>
    intro s acc
    simp only [loop, analyzeAll, hf.analyze_ignores s st]
    cases h : r.analyze s0 st with
    | error e => simp
    | ok hd =>
      simp only [ih]
      cases analyzeAll (r.analyze s0) rest <;> simp

/-- **eval_is_fold** — with a falsy provider `_eval` is: analyse each statement of the list on its own (no statement sees
    anything of the others), then assemble the holders in order.  Exceptions propagate, first one wins. -/
theorem eval_is_fold (r : Runner σ H R ε) (s0 : σ) (hf : Falsy r s0) (stmts : List (List Char)) :
    (eval r s0 stmts).1 =
      match analyzeAll (r.analyze s0) stmts with
      | .error e => .error e
      | .ok hs => r.build s0 hs := by
  have := loop_fold r s0 hf stmts s0 []
  unfold eval
  generalize hl : loop r s0 [] stmts = l at this ⊢
  obtain ⟨res, s1⟩ := l
  simp only at this ⊢
  rw [this]
  cases analyzeAll (r.analyze s0) stmts with
  | error e => simp
  | ok hs => simp [hf.build_ignores]

/-- **session_bracket** — whatever happens inside the `with` block (normal end or exception), the session metadata is
    deregistered afterwards -/
theorem session_bracket (r : Runner σ H R ε) (s0 : σ) (stmts : List (List Char)) :
    ∃ s1, (eval r s0 stmts).2 = r.clear s1 := by
  unfold eval
  generalize loop r s0 [] stmts = l
  exact ⟨l.2, rfl⟩

/-- which splitter `_eval` uses (`runner.py:193‑200`); the flag's default in the source is off (generated table) -/
theorem stmtsOf_sqlparse (b : Bool) (dialect : String) (f : List Char → List (List Char)) (script : List Char)
    (h : b = false ∨ dialect ≠ "tsql") : stmtsOf b dialect f script = split (strip script) := by
  rcases h with h | h <;> simp [stmtsOf, h]

theorem stmtsOf_tsql (f : List Char → List (List Char)) (script : List Char) :
    stmtsOf true "tsql" f script = f (strip script) := by
  simp [stmtsOf]

theorem tsql_flag_default_off :
    (Gen.Config.table.find? (fun e => e.1 = "TSQL_NO_SEMICOLON")).map (fun e => e.2) = some (.bool, .b false) := by
  decide

/-- the whole of `_eval` -/
def runScript (r : Runner σ H R ε) (s0 : σ) (tsqlNoSemi : Bool) (dialect : String)
    (splitTsql : List Char → List (List Char)) (script : List Char) : Except ε R × σ :=
  eval r s0 (stmtsOf tsqlNoSemi dialect splitTsql script)

/-- in either mode (sqlparse splitting or T‑SQL batch splitting without semicolons) the run is the fold over whatever
    statement list the chosen splitter returned -/
theorem run_is_fold (r : Runner σ H R ε) (s0 : σ) (hf : Falsy r s0) (b : Bool) (dialect : String)
    (f : List Char → List (List Char)) (script : List Char) :
    (runScript r s0 b dialect f script).1 =
      match analyzeAll (r.analyze s0) (stmtsOf b dialect f script) with
      | .error e => .error e
      | .ok hs => r.build s0 hs :=
  eval_is_fold r s0 hf _

private theorem analyzeAll_congr (f : List Char → Except ε H)
    (hresp : ∀ p q : List Tok, essence p = essence q → f (render p) = f (render q)) :
    ∀ l1 l2 : List (List Tok), l1.map essence = l2.map essence →
      analyzeAll f (l1.map render) = analyzeAll f (l2.map render) := by
  intro l1
  induction l1 with
  | nil => intro l2 h; cases l2 with
    | nil => rfl
    | cons a b => simp at h
  | cons p r ih =>
    intro l2 h
    cases l2 with
    | nil => simp at h
    | cons q r2 =>
      simp only [List.map_cons, List.cons.injEq] at h
      simp only [List.map_cons, analyzeAll, hresp p q h.1, ih r2 h.2]

/- FULL STATEMENT (not proved): the same without `hstrip`, i.e. for scripts that carry outer blanks as well
     (runScript … (render (scriptToks lead items))).1 = match analyzeAll … (items.map (render ∘ fst)) with …
   Missing: `_eval` strips the script first, and `strip (render ts)` is not `render` of a sub-list of `ts` in general — a
   trailing `-- c ⏎` loses its LF and the blanks at the end of its body, `# ⏎` even stops being a comment — so
   `split_render` would have to be re-established for the stripped token list.  `hstrip` (decidable) restricts the three
   runner corollaries below to scripts without outer blanks; `helpers.split` itself (`split_render`, `count_eq`) has no such
   restriction, and the correspondence compares `_eval`'s texts with the model's `runnerSplit = split ∘ strip` on scripts
   with outer blanks too. -/
/-- **script_eq_statements_partial** — the lineage of a script equals the assembly of what each of its statements yields when
    analysed on its own text alone, for every script of the quantifier's shape.
    Hypotheses beyond well‑formedness: the provider is falsy; the per‑statement analysis does not depend on comments, the
    trailing `;` and outer blanks (that is property C07, here an assumption on the abstract `analyze`); the script has no
    outer blanks (`_eval` strips it first). -/
theorem script_eq_statements_partial (r : Runner σ H R ε) (s0 : σ) (hf : Falsy r s0)
    (hresp : ∀ p q : List Tok, essence p = essence q → r.analyze s0 (render p) = r.analyze s0 (render q))
    (lead : List Tok) (items : List (List Tok × List Tok)) (h : WellFormedScript lead items)
    (hstrip : strip (render (scriptToks lead items)) = render (scriptToks lead items))
    (b : Bool) (dialect : String) (f : List Char → List (List Char)) (hmode : b = false ∨ dialect ≠ "tsql") :
    (runScript r s0 b dialect f (render (scriptToks lead items))).1 =
      match analyzeAll (r.analyze s0) (items.map (fun p => render p.1)) with
      | .error e => .error e
      | .ok hs => r.build s0 hs := by
  rw [run_is_fold r s0 hf, stmtsOf_sqlparse _ _ _ _ hmode, hstrip]
  have := analyzeAll_congr (r.analyze s0) hresp (splitT (lex (render (scriptToks lead items)))) (items.map (fun p => p.1))
    (by rw [split_render lead items h]; simp)
  simp only [split, this, List.map_map]
  rfl

/-- a statement run alone: one holder, assembled alone -/
theorem single_statement_run_partial (r : Runner σ H R ε) (s0 : σ) (hf : Falsy r s0) (s : List Tok) (hwf : wf s = true)
    (hs : stmtOk s = true) (hstrip : strip (render s) = render s)
    (b : Bool) (dialect : String) (f : List Char → List (List Char)) (hmode : b = false ∨ dialect ≠ "tsql") :
    (runScript r s0 b dialect f (render s)).1 =
      match r.analyze s0 (render s) with
      | .error e => .error e
      | .ok h => r.build s0 [h] := by
  rw [run_is_fold r s0 hf, stmtsOf_sqlparse _ _ _ _ hmode, hstrip,
    semicolon_inside_literal_or_comment_does_not_split s hwf hs]
  simp only [analyzeAll]
  cases r.analyze s0 (render s) <;> simp

/-- **script_concat_partial** — for a total analysis and an assembler that is a homomorphism from holder lists (an associative
    combination `op`, which is what "assembling" means), the result for `script₁ script₂` is the combination of the
    results for `script₁` and for `script₂`. -/
theorem script_concat_partial (r : Runner σ H R Empty) (s0 : σ) (hf : Falsy r s0)
    (hresp : ∀ p q : List Tok, essence p = essence q → r.analyze s0 (render p) = r.analyze s0 (render q))
    (a : List Char → H) (hok : ∀ st, r.analyze s0 st = .ok (a st))
    (combine : List H → R) (op : R → R → R) (hbuild : ∀ hs, r.build s0 hs = .ok (combine hs))
    (hhom : ∀ x y, combine (x ++ y) = op (combine x) (combine y))
    (lead : List Tok) (i1 i2 : List (List Tok × List Tok))
    (h12 : WellFormedScript lead (i1 ++ i2)) (h1 : WellFormedScript lead i1) (h2 : WellFormedScript [] i2)
    (s12 : strip (render (scriptToks lead (i1 ++ i2))) = render (scriptToks lead (i1 ++ i2)))
    (s1 : strip (render (scriptToks lead i1)) = render (scriptToks lead i1))
    (s2 : strip (render (scriptToks [] i2)) = render (scriptToks [] i2)) (dialect : String)
    (f : List Char → List (List Char)) :
    ∃ x y, (runScript r s0 false dialect f (render (scriptToks lead i1))).1 = .ok x ∧
      (runScript r s0 false dialect f (render (scriptToks [] i2))).1 = .ok y ∧
      (runScript r s0 false dialect f (render (scriptToks lead (i1 ++ i2)))).1 = .ok (op x y) := by
  have hall : ∀ l : List (List Char), analyzeAll (r.analyze s0) l = .ok (l.map a) := by
    intro l; induction l with
    | nil => rfl
    | cons st rest ih => simp [analyzeAll, hok, ih]
  refine ⟨combine ((i1.map (fun p => render p.1)).map a), combine ((i2.map (fun p => render p.1)).map a), ?_, ?_, ?_⟩
  · rw [script_eq_statements_partial r s0 hf hresp lead i1 h1 s1 false dialect f (Or.inl rfl), hall]; simp [hbuild]
  · rw [script_eq_statements_partial r s0 hf hresp [] i2 h2 s2 false dialect f (Or.inl rfl), hall]; simp [hbuild]
  · rw [script_eq_statements_partial r s0 hf hresp lead (i1 ++ i2) h12 s12 false dialect f (Or.inl rfl), hall]
    simp [hbuild, hhom]

/-! ### 6. Non‑vacuity: concrete scripts (evaluated by the kernel) -/

/-- `;` inside a string literal, inside a `--` comment, inside a block comment: three statements, attached as sqlparse
    attaches them (the line comment after `;` stays with the ended piece, the block comment opens the next one) -/
example : split "select ';' ; select 2 -- a;b\n; /* c;d */ select 3".toList
    = ["select ';' ; ".toList, "select 2 -- a;b\n; ".toList, "/* c;d */ select 3".toList] := by decide

example : statements "select ';' ; select 2 -- a;b\n; /* c;d */ select 3".toList
    = ["select ';' ; ".toList, "select 2 \n; ".toList, "  select 3".toList] := by decide

/-- empty and comment‑only statements are dropped; `;;`; `# ` comments; doubled quotes; quoted names -/
example : split " ; ;;\n/* only; */ ;select `a;` , 'it''s;' # x;\n;; -- tail;".toList
    = ["select `a;` , 'it''s;' # x;\n;".toList] := by decide

example : split "-- c;\n /* d; */ ; \n".toList = [] := by decide

/-- the hypotheses of `split_render` are satisfiable by a script with all three kinds of hidden `;` and noisy separators -/
private def exItems : List (List Tok × List Tok) :=
  [ ("select ".toList.map Tok.ch ++ [.quoted '\'' "a;b".toList], [.ch ' ', .semi, .ch ' ', .line .dash " c;".toList true, .semi]),
    ("select 1 ".toList.map Tok.ch ++ [.block " x; ".toList] ++ ", 2".toList.map Tok.ch, [.semi, .semi, .ch '\n', .block ";".toList]),
    ([.line .hash "lead;".toList true] ++ "select 3".toList.map Tok.ch, [.ch ' ', .line .dash "end;".toList false]) ]

example : WellFormedScript [.block "l;".toList, .semi, .ch '\n'] exItems := by decide

example : render (scriptToks [.block "l;".toList, .semi, .ch '\n'] exItems)
    = "/*l;*/;\nselect 'a;b' ; -- c;\n;select 1 /* x; */, 2;;\n/*;*/# lead;\nselect 3 --end;".toList := by decide

example : strip (render (scriptToks [.block "l;".toList, .semi, .ch '\n'] exItems))
    = render (scriptToks [.block "l;".toList, .semi, .ch '\n'] exItems) := by decide

example : split (render (scriptToks [.block "l;".toList, .semi, .ch '\n'] exItems))
    = ["\nselect 'a;b' ; -- c;\n".toList, "select 1 /* x; */, 2;".toList, "\n/*;*/# lead;\nselect 3 --end;".toList] := by
  decide +kernel

/-- outside `level0` the model is not claimed: sqlparse keeps `select (1; select 2)` in one piece -/
example : level0 (lex "select (1; select 2)".toList) = false := by decide
example : level0 (lex "select 1 +-- c ;\n 2".toList) = false := by decide
example : level0 (lex "begin; select 1; end".toList) = false := by decide
example : level0 (lex "select 'it''s;' from t -- c;\n; select \"x;\" /* ; */".toList) = true := by decide

/-- `Falsy` is satisfiable by a runner whose analysis ignores the session -/
example : Falsy (σ := Nat) (H := List Char) (R := List (List Char)) (ε := Empty)
    ⟨fun _ st => .ok st, fun _ s => s + 1, fun _ hs => .ok hs, fun _ => 0⟩ 0 :=
  ⟨fun _ _ => rfl, fun _ _ => rfl⟩

end SqlLineage.Props.C05
