import SqlLineage.Model.Split
import SqlLineage.Gen.Config

namespace SqlLineage.Props.C05
open SqlLineage.Split

/-! ### 1. The lexer: `lex (render ts) = ts` for well‑formed token lists, and `render (lex s) = s` for every string -/

private theorem run_append (s : St) (a b : List Char) : run s (a ++ b) = run (run s a) b := by
  simp [run, List.foldl_append]

private theorem run_cons (s : St) (c : Char) (r : List Char) : run s (c :: r) = run (step s c) r := rfl

private theorem run_nil (s : St) : run s [] = s := rfl

/-- the modes in which no token is in progress beyond a one‑character look‑ahead -/
private def boundary : Mode → Bool
  | .code | .dash | .slash | .hash | .strQ _ => true
  | _ => false

/-- `c` does not continue the pending look‑ahead -/
private def mcompat : Mode → Char → Bool
  | .dash, c => c != '-'
  | .slash, c => c != '*'
  | .hash, c => c != ' '
  | .strQ q, c => c != q
  | _, _ => true

private theorem step_boundary (s : St) (c : Char) (hb : boundary s.mode = true) (hc : mcompat s.mode c = true) :
    step s c = stepCode (flush s) c := by
  obtain ⟨m, cur, out⟩ := s
  cases m <;> simp_all [step, flush, boundary, mcompat]

private theorem run_line_body (op : Opener) (b acc : List Char) (o : List Tok) (h : b.all (· != '\n') = true) :
    run ⟨.line op, acc, o⟩ b = ⟨.line op, b.reverse ++ acc, o⟩ := by
  induction b generalizing acc with
  | nil => simp [run]
  | cons c r ih =>
    simp only [List.all_cons, Bool.and_eq_true, bne_iff_ne, ne_eq] at h
    rw [run_cons]
    simp only [step, h.1, if_false]
    rw [ih _ h.2]; simp

private theorem run_qbody (q : Char) (b acc : List Char) (o : List Tok) (h : qbody q b = true) :
    run ⟨.str q, acc, o⟩ b = ⟨.str q, b.reverse ++ acc, o⟩ := by
  induction b using qbody.induct q generalizing acc with
  | case1 => simp [run]
  | case2 c =>
    simp only [qbody, bne_iff_ne, ne_eq] at h
    simp [run, step, h]
  | case3 c' r ih =>
    simp only [qbody, if_true, Bool.and_eq_true, decide_eq_true_eq] at h
    obtain ⟨h1, h2⟩ := h
    subst h1
    rw [run_cons, run_cons]
    simp only [step, if_true]
    rw [ih _ h2]; simp
  | case4 c c' r hc ih =>
    simp only [qbody, hc, if_false] at h
    rw [run_cons]
    simp only [step, hc, if_false]
    rw [ih _ h]; simp

private def bm (star : Bool) : Mode := if star then .blockStar else .block

private theorem run_block_body (b : List Char) : ∀ (star : Bool) (acc : List Char) (o : List Tok),
    noClose star b = true → ∃ star', run ⟨bm star, acc, o⟩ b = ⟨bm star', b.reverse ++ acc, o⟩ := by
  induction b with
  | nil => intro star acc o _; exact ⟨star, by simp [run]⟩
  | cons c r ih =>
    intro star acc o h
    cases star with
    | false =>
      simp only [noClose, Bool.false_and, Bool.false_eq_true, if_false] at h
      by_cases hc : c = '*'
      · subst hc
        obtain ⟨s', hs'⟩ := ih true ('*' :: acc) o (by simpa using h)
        refine ⟨s', ?_⟩
        rw [run_cons]; simp only [bm, step, Bool.false_eq_true, if_false, if_true] at *
        rw [hs']; simp
      · obtain ⟨s', hs'⟩ := ih false (c :: acc) o (by simpa [hc] using h)
        refine ⟨s', ?_⟩
        rw [run_cons]; simp only [bm, step, Bool.false_eq_true, if_false, hc] at *
        rw [hs']; simp
    | true =>
      by_cases hs : c = '/'
      · simp [noClose, hs] at h
      · simp only [noClose, Bool.true_and, decide_eq_true_eq, hs, if_false] at h
        by_cases hc : c = '*'
        · subst hc
          obtain ⟨s', hs'⟩ := ih true ('*' :: acc) o (by simpa using h)
          refine ⟨s', ?_⟩
          rw [run_cons]; simp only [bm, step, if_true, hs, if_false] at *
          rw [hs']; simp
        · obtain ⟨s', hs'⟩ := ih false (c :: acc) o (by simpa [hc] using h)
          refine ⟨s', ?_⟩
          rw [run_cons]; simp only [bm, step, if_true, hs, hc, if_false, Bool.false_eq_true] at *
          rw [hs']; simp

private theorem isQuote_ne {q : Char} (h : isQuote q = true) : q ≠ ';' ∧ q ≠ '-' ∧ q ≠ '/' ∧ q ≠ '#' := by
  simp only [isQuote, Bool.or_eq_true, decide_eq_true_eq] at h
  rcases h with (h | h) | h <;> subst h <;> decide

/-- one whole token, from a boundary state to a boundary state -/
private theorem run_tok (s : St) (t : Tok) (hb : boundary s.mode = true) (hok : tokOk t = true)
    (hc : mcompat s.mode (firstChar t) = true) (hnl : ∀ op b, t ≠ .line op b false) :
    boundary (run s (render1 t)).mode = true ∧ flush (run s (render1 t)) = t :: flush s ∧
      ∀ c, compat t c = true → mcompat (run s (render1 t)).mode c = true := by
  cases t with
  | ch c =>
    simp only [tokOk, Bool.and_eq_true, bne_iff_ne, ne_eq, Bool.not_eq_true'] at hok
    simp only [render1, run_cons, run_nil, firstChar] at *
    rw [step_boundary s c hb hc]
    by_cases h1 : c = '-'
    · subst h1; simp [stepCode, isQuote, boundary, flush, compat, mcompat]
    by_cases h2 : c = '/'
    · subst h2; simp [stepCode, isQuote, boundary, flush, compat, mcompat]
    by_cases h3 : c = '#'
    · subst h3; simp [stepCode, isQuote, boundary, flush, compat, mcompat]
    simp [stepCode, hok.1, hok.2, h1, h2, h3, boundary, flush, mcompat]
  | semi =>
    simp only [render1, run_cons, run_nil, firstChar] at *
    rw [step_boundary s ';' hb hc]
    simp [stepCode, boundary, flush, mcompat]
  | quoted q b =>
    simp only [tokOk, Bool.and_eq_true] at hok
    obtain ⟨hq, hbody⟩ := hok
    obtain ⟨n1, n2, n3, n4⟩ := isQuote_ne hq
    simp only [render1, run_cons, firstChar] at *
    rw [step_boundary s q hb hc]
    simp only [stepCode, n1, hq, if_false, if_true]
    rw [run_append, run_qbody q b [] _ hbody, run_cons, run_nil]
    simp [step, boundary, flush, compat, mcompat]
  | line op b nl =>
    cases nl with
    | false => exact absurd rfl (hnl op b)
    | true =>
      simp only [tokOk] at hok
      cases op with
      | dash =>
        simp only [render1, Opener.text, List.cons_append, List.nil_append, run_cons, firstChar, if_true] at *
        rw [step_boundary s '-' hb hc]
        simp only [stepCode, isQuote, show ('-' : Char) ≠ ';' by decide, if_false, step, if_true]
        rw [show (('-' : Char) = '\'' || ('-' : Char) = '"' || ('-' : Char) = '`') = false by decide]
        simp only [Bool.false_eq_true, if_false, step, if_true]
        rw [run_append, run_line_body .dash b [] _ hok, run_cons, run_nil]
        simp [step, boundary, flush, compat, mcompat]
      | hash =>
        simp only [render1, Opener.text, List.cons_append, List.nil_append, run_cons, firstChar, if_true] at *
        rw [step_boundary s '#' hb hc]
        simp only [stepCode, isQuote, show ('#' : Char) ≠ ';' by decide, show ('#' : Char) ≠ '-' by decide,
          show ('#' : Char) ≠ '/' by decide, if_false, step, if_true]
        rw [show (('#' : Char) = '\'' || ('#' : Char) = '"' || ('#' : Char) = '`') = false by decide]
        simp only [Bool.false_eq_true, if_false, step, if_true]
        rw [run_append, run_line_body .hash b [] _ hok, run_cons, run_nil]
        simp [step, boundary, flush, compat, mcompat]
  | block b =>
    simp only [tokOk] at hok
    simp only [render1, run_cons, firstChar] at *
    rw [step_boundary s '/' hb hc]
    simp only [stepCode, isQuote, show ('/' : Char) ≠ ';' by decide, show ('/' : Char) ≠ '-' by decide, if_false, step, if_true]
    rw [show (('/' : Char) = '\'' || ('/' : Char) = '"' || ('/' : Char) = '`') = false by decide]
    simp only [Bool.false_eq_true, if_false, step, if_true]
    obtain ⟨star', hs'⟩ := run_block_body b false [] (flush s) hok
    rw [run_append]
    simp only [bm, Bool.false_eq_true, if_false] at hs'
    rw [hs', run_cons, run_cons, run_nil]
    cases star' <;> simp [bm, step, boundary, flush, compat, mcompat]
  | junk r => simp [tokOk] at hok

private theorem wf_cons {t : Tok} {r : List Tok} (h : wf (t :: r) = true) :
    tokOk t = true ∧ wf r = true ∧ (∀ t' r', r = t' :: r' → compat t (firstChar t') = true) := by
  cases r with
  | nil => simp [wf] at *; exact h
  | cons t' r' =>
    simp only [wf, Bool.and_eq_true] at h
    refine ⟨h.1.1, h.2, ?_⟩
    intro t'' r'' e
    cases e; exact h.1.2

private theorem flush_run_render (ts : List Tok) : ∀ s : St, boundary s.mode = true → wf ts = true →
    (∀ t r, ts = t :: r → mcompat s.mode (firstChar t) = true) →
    flush (run s (render ts)) = ts.reverse ++ flush s := by
  induction ts with
  | nil => intro s _ _ _; simp [render, run]
  | cons t r ih =>
    intro s hb hwf hc
    obtain ⟨hok, hwr, hadj⟩ := wf_cons hwf
    have hc' := hc t r rfl
    simp only [render, run_append]
    by_cases hl : ∃ op b, t = .line op b false
    · obtain ⟨op, b, rfl⟩ := hl
      -- a line comment without LF: nothing may follow
      have hr : r = [] := by
        cases r with
        | nil => rfl
        | cons t' r' => have := hadj t' r' rfl; simp [compat] at this
      subst hr
      simp only [tokOk] at hok
      simp only [render, run_nil, List.reverse_cons, List.reverse_nil, List.nil_append, List.singleton_append]
      cases op with
      | dash =>
        simp only [render1, Opener.text, List.cons_append, List.nil_append, run_cons, firstChar, Bool.false_eq_true,
          if_false, List.append_nil] at *
        rw [step_boundary s '-' hb hc']
        simp only [stepCode, isQuote, show ('-' : Char) ≠ ';' by decide, if_false, step, if_true]
        rw [show (('-' : Char) = '\'' || ('-' : Char) = '"' || ('-' : Char) = '`') = false by decide]
        simp only [Bool.false_eq_true, if_false, step, if_true]
        rw [run_line_body .dash b [] _ hok]
        simp [flush]
      | hash =>
        simp only [render1, Opener.text, List.cons_append, List.nil_append, run_cons, firstChar, Bool.false_eq_true,
          if_false, List.append_nil] at *
        rw [step_boundary s '#' hb hc']
        simp only [stepCode, isQuote, show ('#' : Char) ≠ ';' by decide, show ('#' : Char) ≠ '-' by decide,
          show ('#' : Char) ≠ '/' by decide, if_false, step, if_true]
        rw [show (('#' : Char) = '\'' || ('#' : Char) = '"' || ('#' : Char) = '`') = false by decide]
        simp only [Bool.false_eq_true, if_false, step, if_true]
        rw [run_line_body .hash b [] _ hok]
        simp [flush]
    · have hnl : ∀ op b, t ≠ .line op b false := fun op b e => hl ⟨op, b, e⟩
      obtain ⟨hb1, hf1, hc1⟩ := run_tok s t hb hok hc' hnl
      rw [ih _ hb1 hwr (fun t' r' e => hc1 _ (hadj t' r' e)), hf1]
      simp

/-- **lex_render** — lexing the rendering of a well‑formed token list gives back exactly the tokens.  Token bodies are
    arbitrary (any number of `;` inside literals and comments). -/
theorem lex_render (ts : List Tok) (h : wf ts = true) : lex (render ts) = ts := by
  have := flush_run_render ts St.init (by simp [St.init, boundary]) h (by intros; simp [St.init, mcompat])
  rw [lex, this]; simp [St.init, flush]

/-- the characters consumed so far, as the lexer would print them if the input ended here -/
private theorem render_append (a b : List Tok) : render (a ++ b) = render a ++ render b := by
  induction a with
  | nil => simp [render]
  | cons t r ih => simp [render, ih]

private theorem render_reverse_cons (t : Tok) (o : List Tok) : render (o ++ [t]) = render o ++ render1 t := by
  simp [render_append, render]

private theorem isQuote_stepCode {c : Char} (h : isQuote c = true) (o : List Tok) : stepCode o c = ⟨.str c, [], o⟩ := by
  have := isQuote_ne h
  simp [stepCode, h, this.1]

private theorem text_stepCode (o : List Tok) (c : Char) :
    render (flush (stepCode o c)).reverse = render o.reverse ++ [c] := by
  by_cases h0 : c = ';'
  · subst h0; simp [stepCode, flush, render_reverse_cons, render1]
  by_cases hq : isQuote c = true
  · rw [isQuote_stepCode hq]; simp [flush, render_reverse_cons, render1]
  by_cases h1 : c = '-'
  · subst h1; simp [stepCode, isQuote, flush, render_reverse_cons, render1]
  by_cases h2 : c = '/'
  · subst h2; simp [stepCode, isQuote, flush, render_reverse_cons, render1]
  by_cases h3 : c = '#'
  · subst h3; simp [stepCode, isQuote, flush, render_reverse_cons, render1]
  simp [stepCode, h0, hq, h1, h2, h3, flush, render_reverse_cons, render1]

/-- in `blockStar` the pending `*` is the head of `cur` -/
private def good (s : St) : Prop := s.mode = .blockStar → ∃ r, s.cur = '*' :: r

private theorem stepCode_mode (o : List Tok) (c : Char) : (stepCode o c).mode ≠ .blockStar := by
  unfold stepCode
  repeat' split
  all_goals simp

private theorem good_step (s : St) (c : Char) (_ : good s) : good (step s c) := by
  obtain ⟨m, cur, out⟩ := s
  intro hm
  cases m with
  | code => exact absurd hm (stepCode_mode _ _)
  | dash => simp only [step] at hm ⊢; split at hm <;> first | exact absurd hm (stepCode_mode _ _) | simp at hm
  | slash => simp only [step] at hm ⊢; split at hm <;> first | exact absurd hm (stepCode_mode _ _) | simp at hm
  | hash => simp only [step] at hm ⊢; split at hm <;> first | exact absurd hm (stepCode_mode _ _) | simp at hm
  | str q => simp only [step] at hm ⊢; split at hm <;> simp at hm
  | strQ q => simp only [step] at hm ⊢; split at hm <;> first | exact absurd hm (stepCode_mode _ _) | simp at hm
  | line op => simp only [step] at hm ⊢; split at hm <;> simp at hm
  | block =>
    by_cases h : c = '*'
    · subst h; exact ⟨cur, by simp [step]⟩
    · simp [step, h] at hm
  | blockStar =>
    by_cases h : c = '/'
    · simp [step, h] at hm
    · by_cases h' : c = '*'
      · subst h'; exact ⟨cur, by simp [step]⟩
      · simp [step, h, h'] at hm

private theorem text_step (s : St) (c : Char) (hg : good s) :
    render (flush (step s c)).reverse = render (flush s).reverse ++ [c] := by
  obtain ⟨m, cur, out⟩ := s
  cases m with
  | code => simp only [step]; rw [text_stepCode]; simp [flush]
  | dash =>
    by_cases h : c = '-'
    · subst h; simp [step, flush, render_reverse_cons, render1, Opener.text]
    · simp only [step, h, if_false]; rw [text_stepCode]; simp [flush, render_reverse_cons, render1]
  | slash =>
    by_cases h : c = '*'
    · subst h; simp [step, flush, render_reverse_cons, render1]
    · simp only [step, h, if_false]; rw [text_stepCode]; simp [flush, render_reverse_cons, render1]
  | hash =>
    by_cases h : c = ' '
    · subst h; simp [step, flush, render_reverse_cons, render1, Opener.text]
    · simp only [step, h, if_false]; rw [text_stepCode]; simp [flush, render_reverse_cons, render1]
  | str q =>
    by_cases h : c = q
    · subst h; simp [step, flush, render_reverse_cons, render1]
    · simp [step, h, flush, render_reverse_cons, render1]
  | strQ q =>
    by_cases h : c = q
    · subst h; simp [step, flush, render_reverse_cons, render1]
    · simp only [step, h, if_false]; rw [text_stepCode]; simp [flush, render_reverse_cons, render1]
  | line op =>
    by_cases h : c = '\n'
    · subst h; simp [step, flush, render_reverse_cons, render1]
    · simp [step, h, flush, render_reverse_cons, render1]
  | block =>
    by_cases h : c = '*'
    · subst h; simp [step, flush, render_reverse_cons, render1]
    · simp [step, h, flush, render_reverse_cons, render1]
  | blockStar =>
    obtain ⟨r, hr⟩ := hg rfl
    simp only at hr
    subst hr
    by_cases h : c = '/'
    · subst h; simp [step, flush, render_reverse_cons, render1]
    · by_cases h' : c = '*'
      · subst h'; simp [step, flush, render_reverse_cons, render1]
      · simp [step, h, h', flush, render_reverse_cons, render1]

private theorem text_run (cs : List Char) : ∀ s, good s →
    render (flush (run s cs)).reverse = render (flush s).reverse ++ cs := by
  induction cs with
  | nil => intro s _; simp [run]
  | cons c r ih =>
    intro s hg
    rw [run_cons, ih _ (good_step s c hg), text_step s c hg]; simp

/-- **render_lex** — the lexer loses nothing: for EVERY string (well‑formed or not, terminated or not) the tokens print
    back to it.  Hence every piece `split` returns is a literal substring of the script. -/
theorem render_lex (s : List Char) : render (lex s) = s := by
  have := text_run s St.init (by intro h; simp [St.init] at h)
  simpa [lex, St.init, flush, render] using this

end SqlLineage.Props.C05
