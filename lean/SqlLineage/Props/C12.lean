/-
C12 — runs are isolated from one another.

All theorems are about `SqlLineage.Provider` (model of `core/metadata_provider.py`, `core/metadata/dummy.py` and
`LineageRunner._eval`).  They hold for EVERY script (arbitrary per‑statement analyses and assembly, `Analysis`), every
fault placement (`Faults`: split, statement k, provider lookup j, assembly) and every history / interleaving —
proved by induction, nothing is bounded.

What the model does not contain, and therefore what these theorems do not speak about: state inside sqlfluff /
sqlparse, and the configuration object (module‑level, thread‑keyed: property C15).  In the model — as in the code
(runner.py:186-192, :203: a new analyzer and new holders per `_eval`) — a run owns everything it touches except the
provider object it was given; the only provider object shared implicitly is the default one (runner.py:41).
-/
import SqlLineage.Model.Provider

namespace SqlLineage.Props.C12
open SqlLineage.Provider

/-! ### helper facts about `answer`, `exec`, `Tree.step` -/

private theorem answer_prov (fails : Nat → Bool) (st : PState) (t : Name) :
    (answer fails st t).1.prov = st.prov := by
  unfold answer
  split
  · split
    · rfl
    · split <;> rfl
  · rfl

private theorem exec_bind (fails : Nat → Bool) (st : PState) (t : Tree α) (f : α → Tree β) :
    exec fails st (t.bind f) =
      ((exec fails (exec fails st t).1 (f (exec fails st t).2.1)).1,
       (exec fails (exec fails st t).1 (f (exec fails st t).2.1)).2.1,
       (exec fails st t).2.2 ++ (exec fails (exec fails st t).1 (f (exec fails st t).2.1)).2.2) := by
  induction t generalizing st with
  | ret a => simp [Tree.bind, exec]
  | lookup t k ih => simp [Tree.bind, exec, ih, List.append_assoc]
  | register t c k ih => simp [Tree.bind, exec, ih]
  | deregister k ih => simp [Tree.bind, exec, ih]
  | mark i k ih => simp [Tree.bind, exec, ih]

/-- no access ever changes which kind of provider it is or what its base metadata says -/
private theorem exec_kind_base (fails : Nat → Bool) (st : PState) (t : Tree α) :
    (exec fails st t).1.prov.kind = st.prov.kind ∧ (exec fails st t).1.prov.base = st.prov.base := by
  induction t generalizing st with
  | ret a => simp [exec]
  | lookup t k ih =>
    simp only [exec]
    have := ih (answer fails st t).2.1 (answer fails st t).1
    rw [answer_prov] at this
    exact this
  | register t c k ih => simp only [exec]; exact ih _
  | deregister k ih => simp only [exec]; exact ih _
  | mark i k ih => simp only [exec]; exact ih _

private theorem step_kind_base (fails : Nat → Bool) (st : PState) (t : Tree α) :
    (t.step fails st).1.prov.kind = st.prov.kind ∧ (t.step fails st).1.prov.base = st.prov.base := by
  cases t with
  | ret a => simp [Tree.step]
  | lookup t k => simp [Tree.step, answer_prov]
  | register t c k => simp [Tree.step, Provider.register]
  | deregister k => simp [Tree.step, Provider.deregister]
  | mark i k => simp [Tree.step]

private theorem truthy_of_kind_base {p q : Provider} (hk : p.kind = q.kind) (hb : p.base = q.base) :
    p.truthy = q.truthy := by
  simp [Provider.truthy, hk, hb]

/-! ### 1. The session is closed on every exit path -/

/-- **Every way out of the `with` block deregisters.**  Whatever the provider's session held before, whatever the
    statements do, wherever a statement, the provider or the assembly raises: once `split` has returned (so the
    session is entered) the run leaves `_session_metadata` empty. -/
theorem session_empty_if_entered (p : Provider) (s : Script H R) (f : Faults) (h : f.split = none) :
    (runScript p s f).1.session = [] := by
  simp only [runScript, runTree, h, withSession, sessionExit, exec_bind, exec, Provider.deregister]

/-- if `split` raises, the `with` statement is never reached: the provider is not touched at all -/
theorem split_failure_touches_nothing (p : Provider) (s : Script H R) (f : Faults) (e : Err)
    (h : f.split = some e) :
    (runScript p s f).1 = p ∧ (runScript p s f).2.events = [] ∧ (runScript p s f).2.result = .error e := by
  simp [runScript, runTree, h, exec]

/-- `session_empty_after`: a provider whose session is empty before a run has an empty session after it, however
    the run ends -/
theorem session_empty_after (p : Provider) (s : Script H R) (f : Faults) (hp : p.session = []) :
    (runScript p s f).1.session = [] := by
  cases h : f.split with
  | none => exact session_empty_if_entered p s f h
  | some e => rw [(split_failure_touches_nothing p s f e h).1]; exact hp

/-- `base_unchanged`: no run changes the provider's own metadata, nor its truthiness -/
theorem base_unchanged (p : Provider) (s : Script H R) (f : Faults) :
    (runScript p s f).1.base = p.base ∧ (runScript p s f).1.kind = p.kind ∧
    (runScript p s f).1.truthy = p.truthy := by
  have h := exec_kind_base f.fails ⟨p, 0⟩ (runTree s f)
  exact ⟨h.2, h.1, truthy_of_kind_base h.1 h.2⟩

/-- the `__exit__` call is the last thing an entered run does to the provider -/
theorem deregister_is_last_event (p : Provider) (s : Script H R) (f : Faults) (h : f.split = none) :
    (runScript p s f).2.events.getLast? = some Event.deregister := by
  simp [runScript, runTree, h, withSession, sessionExit, exec_bind, exec]

/-- an exception raised inside the block still escapes after the cleanup (`__exit__` returns `None`): the run's
    result is exactly the body's result -/
theorem exception_propagates_through_exit (p : Provider) (s : Script H R) (f : Faults) (h : f.split = none) :
    (runScript p s f).2.result = (exec f.fails ⟨p, 0⟩ (body s f)).2.1 := by
  simp [runScript, runTree, h, withSession, sessionExit, exec_bind, exec]

/-! ### 2. A reused provider equals a fresh one -/

/-- after any run a provider that started with an empty session IS the fresh provider over the same metadata -/
theorem provider_after_run_eq_fresh (p : Provider) (s : Script H R) (f : Faults) (hp : p.session = []) :
    (runScript p s f).1 = fresh p.kind p.base := by
  have hb := base_unchanged p s f
  have hs := session_empty_after p s f hp
  generalize (runScript p s f).1 = q at hb hs
  obtain ⟨k, b, se⟩ := q
  simp only at hb hs
  simp [fresh, hb.1, hb.2.1, hs]

/-- `lookup_after_run_eq_fresh`: after any run, however it ended, the provider answers `get_table_columns` for every
    table exactly as a fresh provider does -/
theorem lookup_after_run_eq_fresh (p : Provider) (s : Script H R) (f : Faults) (hp : p.session = []) (t : Name) :
    (runScript p s f).1.getTableColumns t = (fresh p.kind p.base).getTableColumns t := by
  rw [provider_after_run_eq_fresh p s f hp]

/-- …and that answer is the base answer: nothing learned during the run is remembered -/
theorem lookup_after_run_is_base (p : Provider) (s : Script H R) (f : Faults) (hp : p.session = []) (t : Name) :
    (runScript p s f).1.getTableColumns t = p.baseColumns t := by
  rw [provider_after_run_eq_fresh p s f hp]
  simp [fresh, Provider.getTableColumns, mget, Provider.baseColumns]

/-- `reuse_equals_fresh`: on a provider with an empty session a run's outcome (result and every provider access with
    its answer) is its outcome on a newly constructed provider over the same metadata.  All run‑to‑run state of a
    provider is its session: there is nothing else in `MetaDataProvider` for a run to depend on. -/
theorem reuse_equals_fresh (p : Provider) (s : Script H R) (f : Faults) (hp : p.session = []) :
    (runScript p s f).2 = (runScript (fresh p.kind p.base) s f).2 := by
  obtain ⟨k, b, se⟩ := p
  simp only at hp
  subst hp
  rfl

private theorem runHistory_fresh (p : Provider) (hist : List (Script H R × Faults)) (hp : p.session = []) :
    (runHistory p hist).1 = fresh p.kind p.base ∧
    (runHistory p hist).2 = hist.map (fun sf => (runScript (fresh p.kind p.base) sf.1 sf.2).2) := by
  induction hist generalizing p with
  | nil =>
    obtain ⟨k, b, se⟩ := p
    simp only at hp
    subst hp
    simp [runHistory, fresh]
  | cons sf rest ih =>
    obtain ⟨s, f⟩ := sf
    have h1 := provider_after_run_eq_fresh p s f hp
    have := ih (runScript p s f).1 (by rw [h1]; rfl)
    rw [h1] at this
    simp only [runHistory, List.map_cons]
    rw [h1]
    simp only [fresh] at this ⊢
    exact ⟨this.1, by rw [this.2, reuse_equals_fresh p s f hp]; rfl⟩

/-- `after_any_history`: after ANY history of runs on one provider — any scripts, any of them failing at any point —
    the next run's outcome is its outcome on a fresh provider. -/
theorem after_any_history (p : Provider) (hist : List (Script H R × Faults)) (s : Script H R) (f : Faults)
    (hp : p.session = []) :
    (runScript (runHistory p hist).1 s f).2 = (runScript (fresh p.kind p.base) s f).2 := by
  rw [(runHistory_fresh p hist hp).1]

/-- the same for every run *inside* the history: each one's outcome is its fresh‑provider outcome, so the outcome of
    a run does not depend on its position in the history or on what else the history contains -/
theorem every_run_of_history_eq_fresh (p : Provider) (hist : List (Script H R × Faults)) (hp : p.session = []) :
    (runHistory p hist).2 = hist.map (fun sf => (runScript (fresh p.kind p.base) sf.1 sf.2).2) :=
  (runHistory_fresh p hist hp).2

/-- and the provider answers as a fresh one after any history -/
theorem lookup_after_history_eq_fresh (p : Provider) (hist : List (Script H R × Faults)) (hp : p.session = [])
    (t : Name) :
    (runHistory p hist).1.getTableColumns t = (fresh p.kind p.base).getTableColumns t := by
  rw [(runHistory_fresh p hist hp).1]

/-! ### 3. Runs on different provider objects -/

private theorem set_same (w : World) (i : Nat) (p : Provider) : (w.set i p) i = p := by simp [World.set]

private theorem set_other (w : World) (i j : Nat) (p : Provider) (h : j ≠ i) : (w.set i p) j = w j := by
  simp [World.set, h]

/-- `disjoint_runs_commute`: complete runs against two different provider objects can be performed in either order —
    same two outcomes, same final state of every provider object.  (The model has no other state for them to share;
    see the header for what that leaves out: the configuration object, C15.) -/
theorem disjoint_runs_commute (w : World) (i j : Nat) (hij : i ≠ j)
    (s₁ : Script H R) (f₁ : Faults) (s₂ : Script H' R') (f₂ : Faults) :
    (runOn (runOn w i s₁ f₁).1 j s₂ f₂).1 = (runOn (runOn w j s₂ f₂).1 i s₁ f₁).1 ∧
    (runOn w i s₁ f₁).2 = (runOn (runOn w j s₂ f₂).1 i s₁ f₁).2 ∧
    (runOn (runOn w i s₁ f₁).1 j s₂ f₂).2 = (runOn w j s₂ f₂).2 := by
  have hji : j ≠ i := Ne.symm hij
  refine ⟨?_, ?_, ?_⟩
  · funext k
    simp only [runOn, set_other _ _ _ _ hij, set_other _ _ _ _ hji]
    by_cases hki : k = i
    · subst hki; simp [World.set, hij]
    · by_cases hkj : k = j
      · subst hkj; simp [World.set, hji]
      · simp [World.set, hki, hkj]
  · simp only [runOn, set_other _ _ _ _ hij]
  · simp only [runOn, set_other _ _ _ _ hji]

/-- a run against provider object `i` leaves every other provider object exactly as it was -/
theorem run_touches_only_its_provider (w : World) (i j : Nat) (hji : j ≠ i) (s : Script H R) (f : Faults) :
    (runOn w i s f).1 j = w j := by
  simp [runOn, set_other _ _ _ _ hji]

/-! ### 4. Threads: every interleaving of provider accesses -/

private theorem wstep_pid_fails (w : World) (ths : Nat → Thread α) (k j : Nat) :
    ((wstep w ths k).2 j).pid = (ths j).pid ∧ ((wstep w ths k).2 j).fails = (ths j).fails := by
  simp only [wstep]
  by_cases h : j = k
  · subst h; simp
  · simp [h]

private theorem count_cons_self (i : Nat) (l : List Nat) : (i :: l).count i = l.count i + 1 := by
  simp

private theorem count_cons_ne (i k : Nat) (l : List Nat) (h : k ≠ i) : (k :: l).count i = l.count i := by
  simp [h]

/-- **Own provider ⇒ any interleaving is invisible.**  Take any number of threads in the middle of their runs and any
    schedule of their provider accesses.  If no other thread uses thread `i`'s provider object, then after the schedule
    thread `i` is exactly where it would be after taking the same number of steps alone: same remaining program (hence
    the same answers seen so far and the same eventual result), same lookup counter, same provider state. -/
theorem interleaving_invisible_with_own_provider (i : Nat) (sched : List Nat) (w : World) (ths : Nat → Thread α)
    (hown : ∀ j, j ≠ i → (ths j).pid ≠ (ths i).pid) :
    ((wrun w ths sched).2 i).tree =
      (stepN (ths i).fails (sched.count i) ⟨w (ths i).pid, (ths i).nBase⟩ (ths i).tree).2 ∧
    ((wrun w ths sched).2 i).nBase =
      (stepN (ths i).fails (sched.count i) ⟨w (ths i).pid, (ths i).nBase⟩ (ths i).tree).1.nBase ∧
    (wrun w ths sched).1 (ths i).pid =
      (stepN (ths i).fails (sched.count i) ⟨w (ths i).pid, (ths i).nBase⟩ (ths i).tree).1.prov := by
  induction sched generalizing w ths with
  | nil => simp [wrun, stepN]
  | cons k rest ih =>
    have hpid := fun j => (wstep_pid_fails w ths k j).1
    have hfl := fun j => (wstep_pid_fails w ths k j).2
    have hown' : ∀ j, j ≠ i → ((wstep w ths k).2 j).pid ≠ ((wstep w ths k).2 i).pid := by
      intro j hj; rw [hpid j, hpid i]; exact hown j hj
    have := ih (wstep w ths k).1 (wstep w ths k).2 hown'
    rw [hpid i, hfl i] at this
    simp only [wrun]
    by_cases hk : k = i
    · subst hk
      rw [count_cons_self]
      simp only [stepN]
      have e1 : ((wstep w ths k).2 k).tree = ((ths k).tree.step (ths k).fails ⟨w (ths k).pid, (ths k).nBase⟩).2.1 := by
        simp [wstep]
      have e2 : ((wstep w ths k).2 k).nBase = ((ths k).tree.step (ths k).fails ⟨w (ths k).pid, (ths k).nBase⟩).1.nBase := by
        simp [wstep]
      have e3 : (wstep w ths k).1 (ths k).pid = ((ths k).tree.step (ths k).fails ⟨w (ths k).pid, (ths k).nBase⟩).1.prov := by
        simp [wstep, World.set]
      rw [e1, e2, e3] at this
      exact this
    · rw [count_cons_ne i k rest hk]
      have e1 : ((wstep w ths k).2 i).tree = (ths i).tree := by
        simp [wstep, Ne.symm hk]
      have e2 : ((wstep w ths k).2 i).nBase = (ths i).nBase := by
        simp [wstep, Ne.symm hk]
      have e3 : (wstep w ths k).1 (ths i).pid = w (ths i).pid := by
        simp only [wstep]
        exact set_other _ _ _ _ (Ne.symm (hown k hk))
      rw [e1, e2, e3] at this
      exact this

/-- stepping alone and then finishing is the same as executing in one go -/
private theorem exec_step (fails : Nat → Bool) (st : PState) (t : Tree α) :
    (exec fails st t).1 = (exec fails (t.step fails st).1 (t.step fails st).2.1).1 ∧
    (exec fails st t).2.1 = (exec fails (t.step fails st).1 (t.step fails st).2.1).2.1 := by
  cases t <;> simp [exec, Tree.step]

private theorem exec_stepN (fails : Nat → Bool) (n : Nat) (st : PState) (t : Tree α) :
    (exec fails st t).1 = (exec fails (stepN fails n st t).1 (stepN fails n st t).2).1 ∧
    (exec fails st t).2.1 = (exec fails (stepN fails n st t).1 (stepN fails n st t).2).2.1 := by
  induction n generalizing st t with
  | zero => simp [stepN]
  | succ n ih =>
    simp only [stepN]
    have h1 := exec_step fails st t
    have h2 := ih (t.step fails st).1 (t.step fails st).2.1
    exact ⟨h1.1.trans h2.1, h1.2.trans h2.2⟩

/-- **Concurrent runs with their own providers.**  Thread `i` runs script `s` (with its own fault plan) on a provider
    object no other thread uses, while any other threads do anything, interleaved in any way.  If thread `i` has
    finished by the end of the schedule, its result and the final state of its provider are those of running the
    script alone: `runScript`. -/
theorem concurrent_run_eq_alone (i : Nat) (sched : List Nat) (w : World) (ths : Nat → Thread (Except Err R))
    (s : Script H R) (f : Faults)
    (hown : ∀ j, j ≠ i → (ths j).pid ≠ (ths i).pid)
    (hstart : (ths i).tree = runTree s f ∧ (ths i).nBase = 0 ∧ (ths i).fails = f.fails)
    (r : Except Err R) (hfin : ((wrun w ths sched).2 i).tree = .ret r) :
    r = (runScript (w (ths i).pid) s f).2.result ∧
    (wrun w ths sched).1 (ths i).pid = (runScript (w (ths i).pid) s f).1 := by
  obtain ⟨h1, h2, h3⟩ := interleaving_invisible_with_own_provider i sched w ths hown
  obtain ⟨ht, hn, hf⟩ := hstart
  rw [ht, hn, hf] at h1 h2 h3
  rw [h1] at hfin
  have hx := exec_stepN f.fails (sched.count i) ⟨w (ths i).pid, 0⟩ (runTree s f)
  rw [hfin] at hx
  simp only [exec] at hx
  simp only [runScript]
  rw [hx.1, hx.2, h3]
  exact ⟨rfl, rfl⟩

/-! ### 4b. …and every thread that gets enough turns finishes, with its result alone -/

private theorem stepN_ret (fails : Nat → Bool) (m : Nat) (st : PState) (a : α) :
    stepN fails m st (.ret a) = (st, .ret a) := by
  induction m with
  | zero => rfl
  | succ m ih => simp [stepN, Tree.step, ih]

/-- a program tree is finite: run alone it reaches its end after some number of steps (and stays there), in the state
    and with the value `exec` computes -/
theorem run_alone_terminates (fails : Nat → Bool) (st : PState) (t : Tree α) :
    ∃ n, ∀ m, n ≤ m → stepN fails m st t = ((exec fails st t).1, .ret (exec fails st t).2.1) := by
  induction t generalizing st with
  | ret a => exact ⟨0, fun m _ => by simp [stepN_ret, exec]⟩
  | lookup t k ih =>
    obtain ⟨n, hn⟩ := ih (answer fails st t).2.1 (answer fails st t).1
    refine ⟨n + 1, fun m hm => ?_⟩
    obtain ⟨m', rfl⟩ : ∃ m', m = m' + 1 := ⟨m - 1, by omega⟩
    simp only [stepN, Tree.step, exec]
    exact hn m' (by omega)
  | register t c k ih =>
    obtain ⟨n, hn⟩ := ih { st with prov := st.prov.register t c }
    refine ⟨n + 1, fun m hm => ?_⟩
    obtain ⟨m', rfl⟩ : ∃ m', m = m' + 1 := ⟨m - 1, by omega⟩
    simp only [stepN, Tree.step, exec]
    exact hn m' (by omega)
  | deregister k ih =>
    obtain ⟨n, hn⟩ := ih { st with prov := st.prov.deregister }
    refine ⟨n + 1, fun m hm => ?_⟩
    obtain ⟨m', rfl⟩ : ∃ m', m = m' + 1 := ⟨m - 1, by omega⟩
    simp only [stepN, Tree.step, exec]
    exact hn m' (by omega)
  | mark i k ih =>
    obtain ⟨n, hn⟩ := ih st
    refine ⟨n + 1, fun m hm => ?_⟩
    obtain ⟨m', rfl⟩ : ∃ m', m = m' + 1 := ⟨m - 1, by omega⟩
    simp only [stepN, Tree.step, exec]
    exact hn m' (by omega)

/-- **Total form.**  Thread `i` starts script `s` on a provider object of its own.  There is a number `n` of turns such
    that under EVERY schedule giving thread `i` at least `n` turns — whatever the other threads are and do — thread `i`
    has finished with exactly the result of `runScript`, and its provider is exactly what `runScript` leaves. -/
theorem concurrent_run_finishes_as_alone (i : Nat) (w : World) (ths : Nat → Thread (Except Err R))
    (s : Script H R) (f : Faults)
    (hown : ∀ j, j ≠ i → (ths j).pid ≠ (ths i).pid)
    (hstart : (ths i).tree = runTree s f ∧ (ths i).nBase = 0 ∧ (ths i).fails = f.fails) :
    ∃ n, ∀ sched : List Nat, n ≤ sched.count i →
      ((wrun w ths sched).2 i).tree = .ret (runScript (w (ths i).pid) s f).2.result ∧
      (wrun w ths sched).1 (ths i).pid = (runScript (w (ths i).pid) s f).1 := by
  obtain ⟨n, hn⟩ := run_alone_terminates f.fails ⟨w (ths i).pid, 0⟩ (runTree s f)
  refine ⟨n, fun sched hc => ?_⟩
  obtain ⟨h1, _, h3⟩ := interleaving_invisible_with_own_provider i sched w ths hown
  obtain ⟨ht, hnb, hf⟩ := hstart
  rw [ht, hnb, hf] at h1 h3
  rw [h1, h3, hn _ hc]
  exact ⟨rfl, rfl⟩

/-! ### 5. The shared default provider: falsy, so every lookup is gated off -/

/-- with a falsy provider the next step of a program does not depend on the provider's session (nor on the counter) -/
private theorem step_tree_falsy (fails fails' : Nat → Bool) (st st' : PState) (t : Tree α)
    (h : st.prov.truthy = false) (h' : st'.prov.truthy = false) :
    (t.step fails st).2.1 = (t.step fails' st').2.1 := by
  cases t <;> simp [Tree.step, answer, h, h']

private theorem wstep_kind_base (w : World) (ths : Nat → Thread α) (k : Nat) (q : Nat) :
    ((wstep w ths k).1 q).kind = (w q).kind ∧ ((wstep w ths k).1 q).base = (w q).base := by
  simp only [wstep]
  by_cases h : q = (ths k).pid
  · subst h
    rw [set_same]
    exact step_kind_base _ _ _
  · rw [set_other _ _ _ _ h]; exact ⟨rfl, rfl⟩

/-- **Threads sharing a falsy provider** (the module‑level default one, or any `DummyMetaDataProvider` without
    metadata): whatever other threads register on it or clear from it, in any interleaving, thread `i`'s program
    proceeds exactly as it does alone on an untouched copy — because no gated lookup ever reads it. -/
theorem shared_falsy_provider_invisible (i : Nat) (sched : List Nat) (w : World) (ths : Nat → Thread α)
    (st : PState) (hw : (w (ths i).pid).truthy = false) (hst : st.prov.truthy = false) :
    ((wrun w ths sched).2 i).tree = (stepN (ths i).fails (sched.count i) st (ths i).tree).2 := by
  induction sched generalizing w ths st with
  | nil => simp [wrun, stepN]
  | cons k rest ih =>
    have hpid := (wstep_pid_fails w ths k i).1
    have hfl := (wstep_pid_fails w ths k i).2
    have hkb := wstep_kind_base w ths k (ths i).pid
    have hw' : ((wstep w ths k).1 ((wstep w ths k).2 i).pid).truthy = false := by
      rw [hpid, truthy_of_kind_base hkb.1 hkb.2]; exact hw
    simp only [wrun]
    by_cases hk : k = i
    · subst hk
      rw [count_cons_self]
      simp only [stepN]
      have hkb' := step_kind_base (ths k).fails st (ths k).tree
      have hst' : ((ths k).tree.step (ths k).fails st).1.prov.truthy = false := by
        rw [truthy_of_kind_base hkb'.1 hkb'.2]; exact hst
      have := ih (wstep w ths k).1 (wstep w ths k).2 _ hw' hst'
      rw [hfl] at this
      rw [this]
      have e1 : ((wstep w ths k).2 k).tree = ((ths k).tree.step (ths k).fails ⟨w (ths k).pid, (ths k).nBase⟩).2.1 := by
        simp [wstep]
      rw [e1, step_tree_falsy (ths k).fails (ths k).fails ⟨w (ths k).pid, (ths k).nBase⟩ st (ths k).tree hw hst]
    · rw [count_cons_ne i k rest hk]
      have := ih (wstep w ths k).1 (wstep w ths k).2 st hw' hst
      rw [hfl] at this
      rw [this]
      have e1 : ((wstep w ths k).2 i).tree = (ths i).tree := by
        simp [wstep, Ne.symm hk]
      rw [e1]

/-- **Total form for the shared default provider.**  Thread `i` runs script `s` on a falsy provider object that any
    number of other threads use at the same time.  Under every schedule giving it enough turns it finishes with the
    result it has alone — the result of `runScript` on that provider, which by `default_provider_gated` does not
    depend on the session content either. -/
theorem shared_falsy_provider_finishes_as_alone (i : Nat) (w : World) (ths : Nat → Thread (Except Err R))
    (s : Script H R) (f : Faults) (hw : (w (ths i).pid).truthy = false)
    (hstart : (ths i).tree = runTree s f ∧ (ths i).fails = f.fails) :
    ∃ n, ∀ sched : List Nat, n ≤ sched.count i →
      ((wrun w ths sched).2 i).tree = .ret (runScript (w (ths i).pid) s f).2.result := by
  obtain ⟨n, hn⟩ := run_alone_terminates f.fails ⟨w (ths i).pid, 0⟩ (runTree s f)
  refine ⟨n, fun sched hc => ?_⟩
  have h := shared_falsy_provider_invisible i sched w ths ⟨w (ths i).pid, 0⟩ hw hw
  rw [hstart.1, hstart.2] at h
  rw [h, hn _ hc]
  rfl

/-- events of a program run against a falsy provider never contain a lookup, and the value it returns does not depend
    on the session content, the lookup counter or the fault plan -/
private theorem exec_falsy (fails fails' : Nat → Bool) (st st' : PState) (t : Tree α)
    (h : st.prov.truthy = false) (h' : st'.prov.truthy = false) :
    (exec fails st t).2.1 = (exec fails' st' t).2.1 ∧ (exec fails st t).2.2 = (exec fails' st' t).2.2 ∧
    ∀ e ∈ (exec fails st t).2.2, (∃ i, e = .analyze i) ∨ (∃ n c, e = .register n c) ∨ e = .deregister := by
  induction t generalizing st st' with
  | ret a => simp [exec]
  | lookup t k ih =>
    have ha : answer fails st t = (st, .gated, []) := by simp [answer, h]
    have ha' : answer fails' st' t = (st', .gated, []) := by simp [answer, h']
    simp only [exec, ha, ha', List.nil_append]
    exact ih .gated st st' h h'
  | register t c k ih =>
    simp only [exec]
    have := ih { st with prov := st.prov.register t c } { st' with prov := st'.prov.register t c }
      (by simpa [Provider.truthy, Provider.register] using h) (by simpa [Provider.truthy, Provider.register] using h')
    refine ⟨this.1, by rw [this.2.1], ?_⟩
    intro e he
    simp only [List.mem_cons] at he
    rcases he with he | he
    · exact Or.inr (Or.inl ⟨t, c, he⟩)
    · exact this.2.2 e he
  | deregister k ih =>
    simp only [exec]
    have := ih { st with prov := st.prov.deregister } { st' with prov := st'.prov.deregister }
      (by simpa [Provider.truthy, Provider.deregister] using h) (by simpa [Provider.truthy, Provider.deregister] using h')
    refine ⟨this.1, by rw [this.2.1], ?_⟩
    intro e he
    simp only [List.mem_cons] at he
    rcases he with he | he
    · exact Or.inr (Or.inr he)
    · exact this.2.2 e he
  | mark i k ih =>
    simp only [exec]
    have := ih st st' h h'
    refine ⟨this.1, by rw [this.2.1], ?_⟩
    intro e he
    simp only [List.mem_cons] at he
    rcases he with he | he
    · exact Or.inl ⟨i, he⟩
    · exact this.2.2 e he

/-- the program of a run does not mention the provider's fault plan (that plan belongs to the provider) -/
private theorem stmtLoop_faults (f f' : Faults) (h : f.analyzeAt = f'.analyzeAt) (i : Nat)
    (l : List (Analysis (StmtOut H))) (acc : List (StmtOut H)) :
    stmtLoop f i l acc = stmtLoop f' i l acc := by
  induction l generalizing i acc with
  | nil => rfl
  | cons a rest ih =>
    simp only [stmtLoop, analyzeAt, h]
    congr 1
    funext x
    cases x with
    | error e => rfl
    | ok o =>
      simp only
      split <;> simp [ih]

/-- `default_provider_gated`: a run against a falsy provider — in particular the shared default one — (a) performs no
    lookup at all: the only things that reach the provider are `register` calls (runner.py:211 is not gated) and the
    final `deregister`; (b) has a result and an event log that do not depend on what the provider's session holds
    (left there by whoever else uses the same object) nor on a fault plan for lookups. -/
theorem default_provider_gated (p : Provider) (s : Script H R) (f : Faults) (hp : p.truthy = false)
    (σ : TableMap) (lf : List Nat) :
    (runScript p s f).2.result = (runScript { p with session := σ } s { f with lookupFails := lf }).2.result ∧
    (runScript p s f).2.events = (runScript { p with session := σ } s { f with lookupFails := lf }).2.events ∧
    ∀ e ∈ (runScript p s f).2.events, (∃ i, e = .analyze i) ∨ (∃ n c, e = .register n c) ∨ e = .deregister := by
  have hp' : ({ p with session := σ } : Provider).truthy = false := by simpa [Provider.truthy] using hp
  have hrt : runTree s { f with lookupFails := lf } = runTree s f := by
    simp only [runTree, body]
    rw [stmtLoop_faults { f with lookupFails := lf } f rfl]
  simp only [runScript, hrt]
  exact exec_falsy _ _ _ _ _ hp hp'

/-! ### non‑vacuity: concrete scripts, faults at k = 2 of 3 and at lookup j = 1, histories, threads -/

private def base0 : TableMap := [("main.s", ["a", "b", "c"])]
private def p0 : Provider := fresh .dict base0

/-- `create table main.t as select a, b from main.s;
     insert into main.u select * from main.t;
     insert into main.w2 select zz from main.t join main.u on …`  (what each statement does to the provider was
    observed on the real code; see harness/c12.py for the same descriptions) -/
private def sc3 : Script Seen DescResult :=
  ({ stmts := [ { write := some (.table "main.t" [.lit ["a", "b"]]) },
                { lookups := ["main.u", "main.t"], write := some (.table "main.u" [.ans 0, .ans 1]) },
                { lookups := ["main.w2"], write := some (.table "main.w2" [.lit ["zz"]]) } ],
     assembleLookups := ["main.t", "main.u"] } : ScriptDesc).toScript

/-- the same with an unsupported second statement (`grant …`) -/
private def sc3bad : Script Seen DescResult :=
  ({ stmts := [ { write := some (.table "main.t" [.lit ["a", "b"]]) },
                { raises := some .unsupported },
                { lookups := ["main.w2"], write := some (.table "main.w2" [.lit ["zz"]]) } ] } : ScriptDesc).toScript

/-- normal run: the second statement sees what the first one registered; everything is forgotten at the end -/
example : (runScript p0 sc3 {}).2.events =
    [.analyze 0, .register "main.t" ["a", "b"],
     .analyze 1, .lookupBase "main.u" [], .lookupSession "main.t" ["a", "b"], .register "main.u" ["a", "b"],
     .analyze 2, .lookupBase "main.w2" [], .register "main.w2" ["zz"],
     .lookupSession "main.t" ["a", "b"], .lookupSession "main.u" ["a", "b"], .deregister] := by decide
example : (runScript p0 sc3 {}).1 = p0 := by decide

/-- the statement tap raises at statement 2 of 3: one registration happened, it is cleared, the error escapes -/
example : (runScript p0 sc3 { analyzeAt := some (1, .unsupported) }).2.events =
    [.analyze 0, .register "main.t" ["a", "b"], .analyze 1, .deregister] := by decide
example : (runScript p0 sc3 { analyzeAt := some (1, .unsupported) }).1 = p0 := by decide
example : (runScript p0 sc3bad {}).2.events =
    [.analyze 0, .register "main.t" ["a", "b"], .analyze 1, .deregister] := by decide
example : (match (runScript p0 sc3bad {}).2.result with | .error .unsupported => true | _ => false) = true := by decide

/-- the provider raises on base lookup j = 1 (the second one: `main.w2`, inside statement 3) and on j = 0 -/
example : (runScript p0 sc3 { lookupFails := [1] }).2.events =
    [.analyze 0, .register "main.t" ["a", "b"],
     .analyze 1, .lookupBase "main.u" [], .lookupSession "main.t" ["a", "b"], .register "main.u" ["a", "b"],
     .analyze 2, .lookupRaised "main.w2", .deregister] := by decide
example : (runScript p0 sc3 { lookupFails := [1] }).1 = p0 := by decide
example : (match (runScript p0 sc3 { lookupFails := [1] }).2.result with | .error .provider => true | _ => false) = true := by
  decide
example : (runScript p0 sc3 { lookupFails := [0] }).2.events =
    [.analyze 0, .register "main.t" ["a", "b"], .analyze 1, .lookupRaised "main.u", .deregister] := by decide

/-- failure inside the final assembly, and failure of `split` (session never entered: no `deregister`) -/
example : (runScript p0 sc3 { assemble := some (.other "boom") }).2.events.getLast? = some .deregister := by decide
example : (runScript p0 sc3 { split := some .invalidSyntax }).2.events = [] := by decide

/-- a history on ONE provider: a run failing at statement 2, a run whose provider fails, then a clean run — the clean
    run's events are those of the run on a fresh provider (instance of `after_any_history`, computed) -/
example :
    (runScript (runHistory p0 [(sc3, { analyzeAt := some (1, .unsupported) }), (sc3bad, {}),
        (sc3, { lookupFails := [1] })]).1 sc3 {}).2.events = (runScript p0 sc3 {}).2.events := by decide

/-- the hypothesis of `session_empty_if_entered` is needed: a `split` failure leaves a (hand‑made) stale session
    alone, because the `with` statement is never reached -/
example : (runScript { p0 with session := [("x", ["y"])] } sc3 { split := some .invalidSyntax }).1.session
    = [("x", ["y"])] := by decide

/-- the shared default provider: `register` still reaches it (runner.py:211 is not gated), no lookup does, the
    second statement therefore cannot expand its `*` and registers nothing; cleared at the end -/
example : (runScript defaultProvider sc3 {}).2.events =
    [.analyze 0, .register "main.t" ["a", "b"], .analyze 1, .analyze 2, .register "main.w2" ["zz"], .deregister] := by
  decide
example : (runScript defaultProvider sc3 {}).1 = defaultProvider := by decide
example : defaultProvider.truthy = false ∧ p0.truthy = true ∧ (fresh .other []).truthy = true := by decide

/-- two threads sharing the default provider, interleaved so that thread 1 runs from start to `__exit__` (clearing the shared
    session, which holds thread 0's `main.t`) in the middle of thread 0's run: thread 0 still finishes with the result it has alone -/
example :
    let ths : Nat → Thread (Except Err DescResult) := fun _ => ⟨0, fun _ => false, 0, runTree sc3 {}⟩
    (((wrun (fun _ => defaultProvider) ths ([0, 0, 0] ++ List.replicate 11 1 ++ List.replicate 8 0)).2 0).tree.result?.map
        (fun r => match r, (runScript defaultProvider sc3 {}).2.result with
          | .ok a, .ok b => decide (a = b)
          | _, _ => false)) = some true := by decide

/-- two threads with their own (truthy) providers 1 and 2, any schedule: each finishes as alone -/
example :
    let ths : Nat → Thread (Except Err DescResult) := fun i => ⟨i, fun _ => false, 0, runTree sc3 {}⟩
    let r := wrun (fun _ => p0) ths [1, 2, 2, 1, 1, 2, 1, 2, 2, 1, 1, 1, 2, 2, 1, 2, 1, 2, 1, 2, 1, 2, 1, 2]
    (r.2 1).tree.result?.isSome = true ∧ r.1 1 = p0 ∧ r.1 2 = p0 := by decide

/-- the hypotheses of the total forms are satisfiable: three threads, each with its own truthy provider object;
    and any number of threads on the one default provider -/
example : ∃ n, ∀ sched : List Nat, n ≤ sched.count 1 →
    ((wrun (fun _ => p0) (fun i => ⟨i, Faults.fails {}, 0, runTree sc3 {}⟩) sched).2 1).tree
      = .ret (runScript p0 sc3 {}).2.result ∧
    (wrun (fun _ => p0) (fun i => ⟨i, Faults.fails {}, 0, runTree sc3 {}⟩) sched).1 1 = (runScript p0 sc3 {}).1 :=
  concurrent_run_finishes_as_alone 1 (fun _ => p0) (fun i => ⟨i, Faults.fails {}, 0, runTree sc3 {}⟩) sc3 {}
    (fun _ hj => hj) ⟨rfl, rfl, rfl⟩

example : ∃ n, ∀ sched : List Nat, n ≤ sched.count 0 →
    ((wrun (fun _ => defaultProvider) (fun _ => ⟨0, Faults.fails {}, 0, runTree sc3 {}⟩) sched).2 0).tree
      = .ret (runScript defaultProvider sc3 {}).2.result :=
  shared_falsy_provider_finishes_as_alone 0 (fun _ => defaultProvider) (fun _ => ⟨0, Faults.fails {}, 0, runTree sc3 {}⟩)
    sc3 {} (by decide) ⟨rfl, rfl⟩

end SqlLineage.Props.C12
