/-
C16 — identifiers denote the same entity wherever they appear.

Theorems about the model `Model.Ident` / `Model.Names` (tied to the code by the correspondences of `harness/c16.py`).
All statements quantify over ALL strings (`List Char`); nothing is bounded.  The model describes the code with the
repairs D20 / D21 applied (see `Model/Names.lean`); `dev_D20` / `dev_D21` record, on the model's own constructors, why
the code before the repairs deviated, and `dev_D20_*` the two sites that still normalise twice (recorded findings).
Vocabulary (`NoQuote`, `Bracketed`, `Clean`, `IsLower`, `SameUpToCase`, `recase`, `Stable`) is defined at the top of
`Proofs/Ident.lean`.
-/
import SqlLineage.Model.Ident
import SqlLineage.Model.Names
import SqlLineage.Proofs.Ident
import SqlLineage.Proofs.Names

namespace SqlLineage.Props.C16
open SqlLineage.Ident SqlLineage.Names

/-! ## 1. unquoted identifiers compare case-insensitively -/

/-- any two spellings of an unquoted name that differ only in ASCII letter case normalise to the same text -/
theorem unquoted_case_insensitive_rel {s t : List Char} (h1 : NoQuote s) (h2 : ¬Bracketed s) (h : SameUpToCase s t) :
    escape t = escape s := by
  rw [escape_of_plain h1 h2, escape_of_plain (h.noQuote h1) (fun hb => h2 (h.bracketed_iff.mpr hb)), h.map_toLower]

/-- … in particular for every per-character case change `f` -/
theorem unquoted_case_insensitive {s : List Char} (f : Nat → Bool) (h1 : NoQuote s) (h2 : ¬Bracketed s) :
    escape (recase f s) = escape s :=
  unquoted_case_insensitive_rel h1 h2 (sameUpToCase_recase f s)

example : NoQuote "ab C.d".toList ∧ ¬Bracketed "ab C.d".toList ∧
    recase (fun i => i % 2 == 0) "ab C.d".toList = "Ab c.d".toList := by decide

/-- and the normal form differs from the spelling in letter case only -/
theorem unquoted_only_case_changes {s : List Char} (h1 : NoQuote s) (h2 : ¬Bracketed s) : SameUpToCase s (escape s) := by
  rw [escape_of_plain h1 h2]; exact sameUpToCase_map_toLower s

/-! ## 2. quoted identifiers keep their case and lose only the quotes -/

theorem quoted_keeps_case_loses_quotes_double {x : List Char} (hx : Clean x) : escape ('"' :: (x ++ ['"'])) = x :=
  escape_double_quoted hx

theorem quoted_keeps_case_loses_quotes_backtick {x : List Char} (hx : Clean x) : escape ('`' :: (x ++ ['`'])) = x :=
  escape_backtick_quoted hx

theorem quoted_keeps_case_loses_quotes_bracket {x : List Char} (hx : Clean x) : escape ('[' :: (x ++ [']'])) = x :=
  escape_bracket_quoted hx

example : Clean "My Col.1".toList := by decide

/-- hence two quoted names are the same entity only when they are the same text -/
theorem quoted_distinct {x y : List Char} (hx : Clean x) (hy : Clean y) :
    escape ('"' :: (x ++ ['"'])) = escape ('"' :: (y ++ ['"'])) ↔ x = y := by
  rw [escape_double_quoted hx, escape_double_quoted hy]

/-! ## 3. where normalising twice is harmless, and where it is not -/

/-- a text free of quotes, not bracketed and already lower-case is a fixed point -/
theorem escape_idempotent_on_plain {t : List Char} (h1 : NoQuote t) (h2 : ¬Bracketed t) (h3 : IsLower t) :
    escape t = t := escape_fixed_of_plain_lower h1 h2 h3

example : NoQuote "a.b c".toList ∧ ¬Bracketed "a.b c".toList ∧ IsLower "a.b c".toList := by decide

/-- every unquoted spelling is stable -/
theorem stable_of_unquoted {s : List Char} (h1 : NoQuote s) (h2 : ¬Bracketed s) : Stable s := stable_of_plain h1 h2

/-- every simply quoted lower-case spelling is stable (all three styles) -/
theorem stable_of_quoted_lower {x : List Char} (hx : Clean x) (hl : IsLower x) :
    Stable ('"' :: (x ++ ['"'])) ∧ Stable ('`' :: (x ++ ['`'])) ∧ Stable ('[' :: (x ++ [']'])) := by
  have hfix : escape x = x := escape_fixed_of_plain_lower (clean_noQuote hx) (clean_not_bracketed hx) hl
  refine ⟨?_, ?_, ?_⟩ <;> unfold Stable
  · rw [escape_double_quoted hx, hfix]
  · rw [escape_backtick_quoted hx, hfix]
  · rw [escape_bracket_quoted hx, hfix]

example : Clean "ab c".toList ∧ IsLower "ab c".toList := by decide

/-- quoted mixed case is NOT stable: the second pass lower-cases it (the root of D20 and D21) -/
theorem escape_not_idempotent_witness :
    escape (escape "\"Ab\"".toList) ≠ escape "\"Ab\"".toList ∧
    escape (escape "`Ab`".toList) ≠ escape "`Ab`".toList ∧
    escape (escape "[Ab]".toList) ≠ escape "[Ab]".toList ∧
    escape (escape "\"[a]\"".toList) ≠ escape "\"[a]\"".toList := by decide

/-! ## 4. dotted names: split at the last dot, at most three parts -/

/-- `Table("a.b")`: the text after the LAST dot is the table, the text before it the schema -/
theorem last_dot_split (a b : Name) (sch : Schema) (cfg : Name) (hb : '.' ∉ b) (ha : a.count '.' ≤ 1) :
    Table.mk (a ++ '.' :: b) sch cfg =
      .ok (⟨Schema.mk? (some a) cfg, escape b, escape b⟩, sch.isKnown) := by
  unfold Table.mk
  rw [rsplitLast_append hb]
  have : ¬ (splitOn '.' a).length > 2 := by rw [splitOn_length]; omega
  simp [this]

example : '.' ∉ "T".toList ∧ "db.\"S\"".toList.count '.' ≤ 1 := by decide

/-- an undotted name takes the schema it is given -/
theorem no_dot_keeps_schema (n : Name) (sch : Schema) (cfg : Name) (alias : Option Name) (h : '.' ∉ n) :
    Table.mk n sch cfg alias = .ok (⟨sch, escape n, match alias with | some a => escape a | none => escape n⟩, false) := by
  unfold Table.mk
  rw [rsplitLast_eq_none.mpr h]
  cases alias <;> rfl

/-- `Table(name)` is rejected (SQLLineageException) exactly when the name has more than three dot-separated parts -/
theorem part_limit (name : Name) (sch : Schema) (cfg : Name) (alias : Option Name) :
    (∃ e, Table.mk name sch cfg alias = .error e) ↔ (splitOn '.' name).length > 3 := by
  unfold Table.mk
  cases h : rsplitLast '.' name with
  | none =>
    have hn := rsplitLast_eq_none.mp h
    have : name.count '.' = 0 := List.count_eq_zero.mpr hn
    simp [splitOn_length, this]
  | some ab =>
    obtain ⟨a, b⟩ := ab
    obtain ⟨e, hb⟩ := rsplitLast_eq_some h
    have hcb : b.count '.' = 0 := List.count_eq_zero.mpr hb
    have hc : name.count '.' = a.count '.' + 1 := by
      rw [e, List.count_append, List.count_cons, hcb]; simp
    simp only [splitOn_length, hc]
    by_cases hgt : a.count '.' + 1 > 2
    · rw [if_pos hgt]
      exact ⟨fun _ => by omega, fun _ => ⟨_, rfl⟩⟩
    · simp [hgt]; omega

example : (splitOn '.' "a.b.c.d".toList).length > 3 ∧ ¬ (splitOn '.' "a.b.c".toList).length > 3 := by decide

/-! ## 5. entities that compare equal hash equally
(named `<entity>_eq_implies_hash_eq`: the audit skips names starting with `eq_`, which are Lean's equation lemmas) -/

theorem schema_eq_implies_hash_eq (h : Name → Nat) (a b : Schema) (e : a.eq b = true) : a.hash h = b.hash h := by
  simp only [Schema.eq, beq_iff_eq] at e; simp [Schema.hash, e]

theorem table_eq_implies_hash_eq (h : Name → Nat) (a b : Table) (e : a.eq b = true) : a.hash h = b.hash h := by
  simp only [Table.eq, beq_iff_eq] at e; simp [Table.hash, e]

theorem path_eq_implies_hash_eq (h : Name → Nat) (a b : Path) (e : a.eq b = true) : a.hash h = b.hash h := by
  simp only [Path.eq, beq_iff_eq] at e; simp [Path.hash, e]

theorem subquery_eq_implies_hash_eq (h : Name → Nat) (a b : SubQuery) (e : a.eq b = true) : a.hash h = b.hash h := by
  simp only [SubQuery.eq, beq_iff_eq] at e; simp [SubQuery.hash, e]

theorem parent_eq_implies_hash_eq (h : Name → Nat) (a b : Parent) (e : a.eq b = true) : a.hash h = b.hash h := by
  cases a <;> cases b <;> simp only [Parent.eq, Parent.hash] at e ⊢
  · exact path_eq_implies_hash_eq h _ _ e
  all_goals first | exact table_eq_implies_hash_eq h _ _ e | exact subquery_eq_implies_hash_eq h _ _ e | cases e

theorem column_eq_implies_hash_eq (h : Name → Nat) (a b : Column) (e : a.eq b = true) : a.hash h = b.hash h := by
  simp only [Column.eq, Bool.and_eq_true, beq_iff_eq] at e; simp [Column.hash, e.1]

/-- the hypotheses are met by differently spelled, equal entities -/
example : (Schema.mk? (some "AB".toList) []).eq (Schema.mk? (some "ab".toList) []) = true := by decide
example : ∃ a b, Table.mk "S.t".toList ⟨[]⟩ [] = .ok a ∧ Table.mk "s.T".toList ⟨[]⟩ [] = .ok b ∧ a.1.eq b.1 = true := by
  refine ⟨_, _, rfl, rfl, ?_⟩; decide
example : (Column.mk "\"Ab\"".toList).eq (Column.mk "[Ab]".toList) = true := by decide

/-! ## 6. the same spelling denotes the same entity at every position -/

/-- column names: target positions (select item, alias, INSERT column list) and source positions (same statement,
    later statement) all give the single normalisation of the spelling — for EVERY spelling (D20 repaired) -/
theorem same_spelling_same_entity (p q : ColPos) (σ : Name) :
    colNameAt p σ = colNameAt q σ ∧ colNameAt p σ = escape σ := by
  cases p <;> cases q <;> simp [colNameAt, colTargetName, colSourceName, Column.mk, normSourceTuple, toSrcCol,
    Column.fromRawName]

/-- a column written under a spelling is found again when read under the same spelling: the source column that
    `to_source_columns` produces for `σ` over the table `T` equals (and hashes like) the target column `T.σ` -/
theorem written_then_read (σ : Name) (T : Table) (imp : Schema) (cfg : Name) :
    ∃ src, (Column.mk ['x'] (some [(σ, none)])).toSourceColumns (aliasMapOf [T]) imp cfg = .ok [src] ∧
      src.eq ((Column.mk σ).addParent (.table T)) = true ∧
      ∀ h, src.hash h = ((Column.mk σ).addParent (.table T)).hash h := by
  refine ⟨(Column.fromRawName (escape σ)).addParent (.table T), ?_, ?_, ?_⟩
  · have hd : dedupParents ((aliasMapOf [T]).map (·.2)) = [.table T] := by
      simp [aliasMapOf, dedupParents, Parent.eq_refl]
    simp only [Column.toSourceColumns, Column.mk, normSourceTuple, Option.getD, List.map, Option.map, hd]
    by_cases hs : escape σ = ['*']
    · simp [hs, List.foldlM, addColumn, toSrcCol, pure, Except.pure, bind, Except.bind]
    · simp [hs, List.foldlM, addColumn, toSrcCol, pure, Except.pure, bind, Except.bind]
  · simp [Column.eq, Column.str, Column.parent, Column.addParent, Column.fromRawName, Column.mk, optParentEq,
      Parent.eq, Table.eq]
  · intro h
    simp [Column.hash, Column.str, Column.parent, Column.addParent, Column.fromRawName, Column.mk]

/-- the printed name of a table reference is the part-wise normalisation of its spelling, joined by dots — for EVERY
    spelling of the qualifier parts (D21 repaired); `qs` are the qualifier parts, `t` the last part -/
theorem table_name_is_partwise (qs : List Name) (t : Name) (cfg : Name) (alias : Option Name) (ht : '.' ∉ t)
    (hq : joinWith ['.'] (qs.map escape) ≠ []) :
    ∃ T w, Table.ofParts (qs ++ [t]) cfg alias = .ok (T, w) ∧
      T.str = joinWith ['.'] ((qs ++ [t]).map escape) ∧
      T.schema.str = joinWith ['.'] (qs.map escape) := by
  have hne : qs ≠ [] := by intro e; subst e; exact hq rfl
  have hdot : escape ['.'] = ['.'] := by decide
  unfold Table.ofParts
  rw [List.reverse_append]
  cases hr : qs.reverse with
  | nil => exact absurd (List.reverse_eq_nil_iff.mp hr) hne
  | cons q r =>
    have hqs : (q :: r).reverse = qs := by rw [← hr, List.reverse_reverse]
    simp only [List.reverse_cons, List.reverse_nil, List.nil_append, List.cons_append]
    have hqs' : r.reverse ++ [q] = qs := by simpa using hqs
    rw [hqs', hdot]
    cases hj : joinWith ['.'] (qs.map escape) with
    | nil => exact absurd hj hq
    | cons c cs =>
      simp only
      rw [no_dot_keeps_schema t _ cfg _ ht]
      refine ⟨_, _, rfl, ?_, rfl⟩
      rw [List.map_append, List.map_cons, List.map_nil, joinWith_concat _ _ _ (by simpa using hne), hj]
      simp [Table.str, Schema.str]

example : '.' ∉ "\"Tb\"".toList ∧ joinWith ['.'] (["DB".toList, "\"Sc\"".toList].map escape) ≠ [] := by decide

/-- the repaired behaviour on the D21 / D20 witnesses, evaluated -/
example : ((Table.ofParts ["DB".toList, "\"Sc\"".toList, "\"Tb\"".toList] []).map (·.1.str)).toOption
    = some "db.Sc.Tb".toList := by decide
example : colSourceName "\"Ab\"".toList = "Ab".toList ∧ colTargetName "\"Ab\"".toList = "Ab".toList := by decide

/-- a reference whose last part has no dot always builds, whatever its qualifier parts -/
theorem ofParts_ok (qs : List Name) (t : Name) (cfg : Name) (ht : '.' ∉ t) :
    ∃ sch, Table.ofParts (qs ++ [t]) cfg = .ok (⟨sch, escape t, escape t⟩, false) := by
  unfold Table.ofParts
  rw [List.reverse_append]
  cases hr : qs.reverse with
  | nil => exact ⟨_, by simpa using no_dot_keeps_schema t _ cfg none ht⟩
  | cons q r => exact ⟨_, by simpa using no_dot_keeps_schema t _ cfg none ht⟩

/-- a schema spelled `s` is the same `Schema` as qualifier of a table reference and built on its own -/
theorem schema_same_as_qualifier (s t : Name) (cfg : Name) (ht : '.' ∉ t) (hs : escape s ≠ []) :
    ∃ T w, Table.ofParts [s, t] cfg = .ok (T, w) ∧ T.schema = Schema.mk? (some s) cfg := by
  obtain ⟨T, w, h, _, h3⟩ := table_name_is_partwise [s] t cfg none ht (by simpa [joinWith] using hs)
  refine ⟨T, w, h, ?_⟩
  have hs' : s ≠ [] := by intro e; subst e; exact hs (by decide)
  obtain ⟨c, cs, rfl⟩ := List.exists_cons_of_ne_nil hs'
  cases T with | ctor sch raw al =>
  cases sch with | ctor r =>
  simp only [Schema.str, joinWith, List.map] at h3
  simp [Schema.mk?, h3]

example : '.' ∉ "T".toList ∧ escape "\"Sc\"".toList ≠ [] := by decide

/-- the qualifier of a column reference, spelled like the (last part of the) table reference in the FROM list,
    resolves to that table; every other position builds the table with `SqlFluffTable.of` — so the same reference
    denotes the same table at every position -/
theorem same_table_every_position (p q : TablePos) (qs : List Name) (t : Name) (cfg : Name) (imp : Schema)
    (ht : '.' ∉ t) : tableAt p (qs ++ [t]) cfg imp = tableAt q (qs ++ [t]) cfg imp := by
  obtain ⟨sch, hT⟩ := ofParts_ok qs t cfg ht
  have key : ∀ pos, tableAt pos (qs ++ [t]) cfg imp = .ok ⟨sch, escape t, escape t⟩ := by
    intro pos
    have hq : qualifierKey t = some (escape t) := by simp [qualifierKey, Column.mk, normSourceTuple]
    have hd : dictGet (aliasMapOf [⟨sch, escape t, escape t⟩]) (escape t)
        = some (.table ⟨sch, escape t, escape t⟩) :=
      dictGet_const (by simp [aliasMapOf])
        ⟨(escape t, .table ⟨sch, escape t, escape t⟩), by simp [aliasMapOf], rfl⟩
    cases pos <;> simp [tableAt, hT, hq, hd, bind, Except.bind, pure, Except.pure]
  rw [key p, key q]

/-- an alias spelled `α` is found again under the same spelling as a column qualifier -/
theorem alias_resolves (qs : List Name) (t α : Name) (cfg : Name) (ht : '.' ∉ t) (hα : α ≠ []) :
    ∃ T w, Table.ofParts (qs ++ [t]) cfg (some α) = .ok (T, w) ∧
      ∀ k, qualifierKey α = some k → dictGet (aliasMapOf [T]) k = some (.table T) := by
  obtain ⟨c, cs, rfl⟩ := List.exists_cons_of_ne_nil hα
  have hq : qualifierKey (c :: cs) = some (escape (c :: cs)) := by simp [qualifierKey, Column.mk, normSourceTuple]
  have build : ∃ sch, Table.ofParts (qs ++ [t]) cfg (some (c :: cs)) =
      .ok (⟨sch, escape t, escape (c :: cs)⟩, false) := by
    unfold Table.ofParts
    rw [List.reverse_append]
    cases hr : qs.reverse with
    | nil => exact ⟨_, by simpa using no_dot_keeps_schema t _ cfg (some (c :: cs)) ht⟩
    | cons q r => exact ⟨_, by simpa using no_dot_keeps_schema t _ cfg (some (c :: cs)) ht⟩
  obtain ⟨sch, hT⟩ := build
  refine ⟨_, _, hT, ?_⟩
  intro k hk
  rw [hq] at hk
  injection hk with hk
  subst hk
  exact dictGet_const (by simp [aliasMapOf])
    ⟨(escape (c :: cs), .table ⟨sch, escape t, escape (c :: cs)⟩), by simp [aliasMapOf], rfl⟩

example : '.' ∉ "t".toList ∧ "\"Al\"".toList ≠ [] := by decide

/-! ## 7. Schema fallback chain -/

theorem schema_fallback (cfg : Name) :
    (∀ c cs, Schema.mk? (some (c :: cs)) cfg = ⟨escape (c :: cs)⟩) ∧
    (∀ c cs, Schema.mk? none (c :: cs) = ⟨escape (c :: cs)⟩ ∧ Schema.mk? (some []) (c :: cs) = ⟨escape (c :: cs)⟩) ∧
    Schema.mk? none [] = ⟨unknownName⟩ ∧ Schema.mk? (some []) [] = ⟨unknownName⟩ ∧
    (Schema.mk? none []).isKnown = false := by
  refine ⟨fun _ _ => rfl, fun _ _ => ⟨rfl, rfl⟩, by decide, by decide, by decide⟩

/-! ## 8. the deviations -/

/-- D20 as it was before the repair: rebuilding the column from its normalised name through `Column.__init__`
    (what `to_source_columns` did) gives another column for a quoted mixed-case spelling.  Repaired by
    `fixes/D20-*.patch`; the harness reproduces it on the unrepaired tree. -/
theorem dev_D20 :
    (Column.mk (colTargetName "\"Ab\"".toList)).rawName ≠ colTargetName "\"Ab\"".toList ∧
    (Column.mk (colTargetName "`Ab`".toList)).rawName ≠ colTargetName "`Ab`".toList ∧
    (Column.mk (colTargetName "[Ab]".toList)).rawName ≠ colTargetName "[Ab]".toList := by decide

/-- D21 as it was before the repair: `Schema(parent_name)` applied to the part-wise normalised qualifier
    lower-cases a quoted mixed-case schema while the table keeps its case.  Repaired by `fixes/D21-*.patch`. -/
theorem dev_D21 :
    (Schema.mk? (some (escape "\"Sc\"".toList)) []).str ≠ escape "\"Sc\"".toList ∧
    (Schema.mk? (some (escape "`Sc`".toList)) []).str ≠ escape "`Sc`".toList ∧
    (Schema.mk? (some (escape "[Sc]".toList)) []).str ≠ escape "[Sc]".toList := by decide

/-- the repairs change nothing for stable spellings (all unquoted and all quoted lower-case names, §3): there the
    old route through the constructor and the new route agree -/
theorem repairs_are_noop_on_stable {σ : Name} (h : Stable σ) :
    (Column.mk (colTargetName σ)).rawName = colSourceName σ ∧
    (escape σ ≠ [] → Schema.mk? (some (escape σ)) [] = ⟨escape σ⟩) := by
  have h' : escape (escape σ) = escape σ := h
  constructor
  · simpa [Column.mk, colTargetName, colSourceName, normSourceTuple, toSrcCol, Column.fromRawName] using h'
  · intro hne
    obtain ⟨c, cs, e⟩ := List.exists_cons_of_ne_nil hne
    rw [e] at h' ⊢
    simp [Schema.mk?, h']

example : Stable "Ab".toList ∧ Stable "\"ab\"".toList := by decide

/-- still open (finding D20-unknown-qualifier): a qualifier that names no table of the FROM list falls back to
    `Table(qualifier)`, which normalises the normalised qualifier again.  For stable spellings the fallback is the
    table the same spelling denotes in a FROM clause … -/
theorem unknown_qualifier_ok_of_stable {τ : Name} (h : Stable τ) (hd : '.' ∉ τ) (c : Name) :
    ∃ src T w, (Column.mk ['x'] (some [(c, some τ)])).toSourceColumns [] (Schema.mk? none []) [] = .ok [src] ∧
      Table.ofParts [τ] [] = .ok (T, w) ∧ src.parent = some (.table T) := by
  have hd' : '.' ∉ escape τ := not_mem_escape_of_not_alpha (by decide) hd
  have h' : escape (escape τ) = escape τ := h
  let T : Table := ⟨Schema.mk? none [], escape τ, escape τ⟩
  refine ⟨(Column.fromRawName (escape c)).addParent (.table T), T, false, ?_, ?_, ?_⟩
  · simp only [Column.toSourceColumns, Column.mk, normSourceTuple, Option.getD, List.map, Option.map,
      dedupParents, dictGet, List.reverse_nil, List.find?_nil, List.foldlM, bind, Except.bind,
      no_dot_keeps_schema (escape τ) _ [] none hd', pure, Except.pure, addColumn, List.any_nil, toSrcCol]
    simp [T, h']
  · simpa [Table.ofParts] using no_dot_keeps_schema τ _ [] none hd
  · simp [Column.addParent, Column.fromRawName, Column.parent]

example : Stable "\"tb\"".toList ∧ '.' ∉ "\"tb\"".toList := by decide

/-- **D50 repaired**: a table written `"Tab"` without alias answers to `Tab` only - its default alias is its own, already
    normalised name, not normalised a second time (models.py:66); before the repair the alias was `tab`, which shadowed a table
    really called `tab` in the same FROM clause -/
theorem fixed_D50_default_alias :
    ((Table.mk "\"Tab\"".toList ⟨"s".toList⟩ []).toOption.map (fun r => (r.1.rawName, r.1.alias))) =
      some ("Tab".toList, "Tab".toList) := by decide

/-- in general: without an explicit alias, the alias IS the table's name -/
theorem default_alias_is_name (n : Name) (sch : Schema) (cfg : Name) (h : '.' ∉ n) :
    ∃ T w, Table.mk n sch cfg = .ok (T, w) ∧ T.alias = T.rawName :=
  ⟨_, _, no_dot_keeps_schema n sch cfg none h, rfl⟩

/-- … but not for quoted mixed case -/
theorem dev_D20_unknown_qualifier :
    (((Column.mk ['x'] (some [(['c'], some "\"Tb\"".toList)])).toSourceColumns [] (Schema.mk? none []) []).map
        (·.map (·.str))).toOption = some ["<default>.tb.c".toList] ∧
    ((Table.ofParts ["\"Tb\"".toList] []).map (·.1.str)).toOption = some "<default>.Tb".toList := by decide

/-- still open (finding D20-scalar-subquery): a column read inside a scalar subquery of the select list.  Unquoted
    spellings are unaffected … -/
theorem scalar_subquery_ok_of_unquoted {σ : Name} (h1 : NoQuote σ) (h2 : ¬Bracketed σ) :
    colScalarSubqueryName σ = colTargetName σ := by
  have hrm : sqlparseRemoveQuotes σ = σ := by
    cases σ with
    | nil => rfl
    | cons c r =>
      have hc : ¬(c = '"' ∨ c = '\'' ∨ c = '`') := by
        have := noQuote_iff.mp h1
        intro hc
        rcases hc with e | e | e <;> subst e
        · exact this '"' (by decide) (by simp)
        · exact this '\'' (by decide) (by simp)
        · exact this '`' (by decide) (by simp)
      simp [sqlparseRemoveQuotes, hc]
  have hs : escape (escape σ) = escape σ := stable_of_plain h1 h2
  simp [colScalarSubqueryName, hrm, colSourceName, colTargetName, Column.mk, normSourceTuple, toSrcCol,
    Column.fromRawName, hs]

example : NoQuote "Ab".toList ∧ ¬Bracketed "Ab".toList := by decide

/-- … quoted mixed case is lower-cased there -/
theorem dev_D20_scalar_subquery :
    colScalarSubqueryName "\"Ab\"".toList ≠ colTargetName "\"Ab\"".toList ∧
    colScalarSubqueryName "[Ab]".toList ≠ colTargetName "[Ab]".toList := by decide

end SqlLineage.Props.C16
