import SqlLineage.Model.Ident
import SqlLineage.Model.Names

namespace SqlLineage.Props.C16
open SqlLineage.Ident SqlLineage.Names

theorem escape_not_idempotent_witness :
    escape (escape "\"Ab\"".toList) ≠ escape "\"Ab\"".toList := by decide

end SqlLineage.Props.C16
