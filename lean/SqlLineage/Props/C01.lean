/-
C01 — single‑statement table lineage is exact.

Part 1 (this file, dispatch): the statement‑type tables regenerated from the extractor classes are pairwise disjoint, so
the order in which `BaseExtractor.__subclasses__()` yields them is irrelevant; statements of a no‑op type report
nothing; the dispatch is total in the sense of `analyzer.py:60‑78`.
Part 2 (`reads_exact`, see the end of the file): on `Spec.Frag01` the walk's table lineage equals `Spec.reads/writes`.
-/
import SqlLineage.Model.Runner
import SqlLineage.Spec.Tables
import SqlLineage.Proofs.ReadsExact
import SqlLineage.Proofs.FragDev

namespace SqlLineage.Props.C01
open SqlLineage Ast Walk

/-- no statement type is claimed by two extractors -/
def disjointTables (l : List (String × List String)) : Bool :=
  let all := l.flatMap (·.2)
  all.eraseDups.length == all.length

theorem supported_disjoint : disjointTables Gen.Dispatch.supported = true := by decide

/-- a statement type is claimed by at most one extractor: whatever order the subclasses are tried in, the same one (or none)
    is found -/
theorem dispatch_unique (ty : String) (c₁ c₂ : String)
    (h₁ : (c₁, (Gen.Dispatch.supported.find? (·.1 = c₁)).map (·.2) |>.getD []) ∈ Gen.Dispatch.supported)
    (h₂ : (c₂, (Gen.Dispatch.supported.find? (·.1 = c₂)).map (·.2) |>.getD []) ∈ Gen.Dispatch.supported)
    (m₁ : ty ∈ ((Gen.Dispatch.supported.find? (·.1 = c₁)).map (·.2) |>.getD []))
    (m₂ : ty ∈ ((Gen.Dispatch.supported.find? (·.1 = c₂)).map (·.2) |>.getD [])) :
    dispatch ty = some c₁ ∨ dispatch ty = some c₂ ∨ c₁ = c₂ := by
  -- every element of the (finite, generated) table is one of nine literals
  simp only [Gen.Dispatch.supported, List.mem_cons, List.mem_nil_iff, or_false] at h₁ h₂
  rcases h₁ with h₁ | h₁ | h₁ | h₁ | h₁ | h₁ | h₁ | h₁ | h₁ <;>
  rcases h₂ with h₂ | h₂ | h₂ | h₂ | h₂ | h₂ | h₂ | h₂ | h₂ <;>
  (have e₁ := congrArg Prod.fst h₁; have e₂ := congrArg Prod.fst h₂; simp only at e₁ e₂; subst e₁; subst e₂) <;>
  first
    | exact Or.inr (Or.inr rfl)
    | (exfalso
       revert m₁ m₂
       simp only [Gen.Dispatch.supported, Gen.Dispatch.supportedSelectExtractor, Gen.Dispatch.supportedCreateInsertExtractor,
         Gen.Dispatch.supportedCteExtractor, Gen.Dispatch.supportedUpdateExtractor, Gen.Dispatch.supportedMergeExtractor,
         Gen.Dispatch.supportedCopyExtractor, Gen.Dispatch.supportedNoopExtractor, Gen.Dispatch.supportedDropExtractor,
         Gen.Dispatch.supportedRenameExtractor, List.find?]
       decide +revert)

/-- **statements that move no data report nothing** — for every type in the regenerated NoopExtractor table, under any
    configuration, provider and rendering -/
theorem noop_reports_nothing (env : Env) (silent : Bool) (k sql : String)
    (hk : k ∈ Gen.Dispatch.supportedNoopExtractor) :
    analyze env silent (.noop k sql) = .ok Graph.empty := by
  have : dispatch k = some "NoopExtractor" := by
    simp only [Gen.Dispatch.supportedNoopExtractor, List.mem_cons, List.mem_nil_iff, or_false] at hk
    rcases hk with rfl | rfl | rfl | rfl | rfl | rfl | rfl | rfl | rfl | rfl | rfl | rfl | rfl | rfl <;> decide
  simp [analyze, stmtType, this]

theorem noop_summary_empty :
    Assemble.sourceTables (Graph.empty : LGraph) = [] ∧ Assemble.targetTables (Graph.empty : LGraph) = [] ∧
    Assemble.intermediateTables (Graph.empty : LGraph) = [] := by decide

/-- the `for … else` of `analyzer.py:60‑78`: a statement whose type no extractor claims raises `UnsupportedStatement`, or
    yields the empty holder in silent mode -/
theorem dispatch_total (env : Env) (s : Stmt) (h : dispatch (stmtType s) = none) :
    analyze env false s = .error .unsupported ∧ analyze env true s = .ok Graph.empty := by
  simp [analyze, h]


/-! ## Part 2 — table‑level exactness of the walk (machine‑checked on the fragment `fragQ`)

The FULL statement of the property is

    theorem reads_exact (env) (silent) (s : Stmt) (hs : Spec.Frag01 s) (g) (hg : analyze env silent s = .ok g) :
        (∀ t, t ∈ readNames g ↔ t ∈ Spec.reads env s) ∧ (∀ t, t ∈ writeNames g ↔ t ∈ Spec.writes env s)

for every statement of the core AST outside the deviation classes of DESIGN §6 (`Spec.Frag01 s ⇔ Spec.deviations s = []`).
What is PROVED below is `stmt_exact_partial`: the same conclusion under the stronger hypothesis `stmtFrag s`, i.e. for
query‑bearing statements whose query satisfies `Proofs.ReadsExact.fragQ`.  `fragQ` is compositional and unbounded:
derived tables at any depth and at any FROM position (base element, every JOIN, every comma position), set operations,
WHERE subqueries `(q)`, `x IN (q)`, `EXISTS (q)` combined by binary operators — each nested query again in `fragQ`.

What `_partial` lacks with respect to `Frag01`:
  * WITH (`Query.withq`): needs an invariant relating `cteObjs g` (the CTE nodes the walk has registered, looked up by
    alias with "last registered wins", payload aliases "first inserted wins") to the standard non‑recursive scoping of
    `Spec.rdCtes`; the specification side is already general (`mem_rdQuery_iff` holds for every query and every scope);
  * subqueries inside select items that `sqItems` does discover (function arguments, CAST operand, WHEN/THEN operands
    of the first CASE): `Frag01` allows them (`nItemFound e = nSub e`), `fragQ` asks for subquery‑free items;
  * a parenthesised WHERE operand whose first‑bracket chain reaches its only subquery (`Spec.chainFinds`).
These shapes are covered by the differential check of `harness/c01.py` only.
-/

section exact
open SqlLineage.Holder SqlLineage.Proofs.ReadsExact

/-- names a statement holder reports as read / written (`StatementLineageHolder.read` / `.write`, printed) -/
def readNames (g : LGraph) : List String := (Assemble.stmtRead g).map (printedNode g)
def writeNames (g : LGraph) : List String := (Assemble.stmtWrite g).map (printedNode g)

/-- read and write names follow from the READ / WRITE tags of the `Table`/`Path` nodes -/
theorem exact_of_profile (g : LGraph) (R W : List DS) (hR : ∀ d ∈ R, d.isDataset = true) (hW : ∀ d ∈ W, d.isDataset = true)
    (hr : ∀ d, d.isDataset = true → (g.tag (.ds d) .read = some true ↔ d ∈ R))
    (hw : ∀ d, d.isDataset = true → (g.tag (.ds d) .write = some true ↔ d ∈ W)) :
    (∀ t, t ∈ readNames g ↔ t ∈ R.map prDS) ∧ (∀ t, t ∈ writeNames g ↔ t ∈ W.map prDS) :=
  ⟨names_tagged g .read R hr hR, names_tagged g .write W hw hW⟩

/-- **the SELECT / set‑expression extractor reads exactly the specified tables** (and writes nothing) -/
theorem reads_exact_partial (env : Env) (q : Query) (hq : fragQ q = true) (g : LGraph) (hg : exQuery env {} q = .ok g) :
    (∀ t, t ∈ readNames g ↔ t ∈ Spec.rdQuery env [] q) ∧ (∀ t, t ∉ writeNames g) := by
  have R := exQuery_ok env q {} g hq rfl hg
  have E := exact_of_profile g (dsQuery env [] q) [] (fun d hd => dsQuery_isDataset env d q [] hd) (fun d hd => by cases hd)
    (fun d hd => R.rd d hd) (fun d hd => R.wr d hd)
  refine ⟨fun t => ?_, fun t => ?_⟩
  · rw [E.1 t, mem_rdQuery_iff]
  · rw [E.2 t]; simp

/-- **INSERT … query / CTAS / CREATE VIEW: reads = the query's tables, writes = the target** -/
theorem write_query_exact_partial (env : Env) (isInsert : Bool) (tgt : List String) (cols : Option (List String)) (q : Query)
    (hq : fragQ q = true) (g : LGraph) (hg : exWriteQuery env isInsert tgt cols q = .ok g) :
    (∀ t, t ∈ readNames g ↔ t ∈ Spec.rdQuery env [] q) ∧ (∀ t, t ∈ writeNames g ↔ t ∈ [Spec.tableName env tgt]) := by
  have E := exact_of_profile g (dsQuery env [] q) [(mkTable env tgt none).d]
    (fun d hd => dsQuery_isDataset env d q [] hd) (fun d hd => by rw [List.mem_singleton.mp hd]; rfl)
    (fun d hd => (exWriteQuery_ok env isInsert tgt cols q hq g hg d hd).1)
    (fun d hd => (exWriteQuery_ok env isInsert tgt cols q hq g hg d hd).2)
  refine ⟨fun t => ?_, fun t => ?_⟩
  · rw [E.1 t, mem_rdQuery_iff]
  · rw [E.2 t]; rfl

/-! ### every statement kind -/

/-- statements the exactness theorem covers: query‑bearing statements with a query of the fragment, and all statement
    kinds without a query that the model implements -/
def stmtFrag : Stmt → Bool
  | .query q _ => fragQ q
  | .insert _ _ _ _ q _ => fragQ q
  | .ctas _ _ _ q _ => fragQ q
  | .createView _ _ _ q => fragQ q
  | .insertValues .. => true
  | .createTable .. => true
  | .createTableLike .. => true
  | .drop .. => true
  | .alterRename .. => true
  | .renameTable .. => true
  | .noop .. => true
  | _ => false

theorem disp_select : dispatch "select_statement" = some "SelectExtractor" := by decide
theorem disp_setexpr : dispatch "set_expression" = some "SelectExtractor" := by decide
theorem disp_bracketed : dispatch "bracketed" = some "SelectExtractor" := by decide
theorem disp_insert : dispatch "insert_statement" = some "CreateInsertExtractor" := by decide
theorem disp_create_table : dispatch "create_table_statement" = some "CreateInsertExtractor" := by decide
theorem disp_create_view : dispatch "create_view_statement" = some "CreateInsertExtractor" := by decide
theorem disp_drop_table : dispatch "drop_table_statement" = some "DropExtractor" := by decide
theorem disp_drop_view : dispatch "drop_view_statement" = some "DropExtractor" := by decide
theorem disp_alter : dispatch "alter_table_statement" = some "RenameExtractor" := by decide
theorem disp_rename : dispatch "rename_table_statement" = some "RenameExtractor" := by decide

theorem analyze_query (env : Env) (silent : Bool) (q : Query) (b : Bool) (hq : fragQ q = true) :
    analyze env silent (.query q b) = exQuery env {} q := by
  cases q with
  | select _ _ _ _ _ _ => cases b <;> simp [analyze, stmtType, disp_select, disp_bracketed]
  | setop _ _ => cases b <;> simp [analyze, stmtType, disp_setexpr, disp_bracketed]
  | withq _ _ => simp [fragQ] at hq

/-- a graph without READ / WRITE tags reports nothing -/
theorem exact_of_untagged (g : LGraph) (h : ∀ d t, t = Tag.read ∨ t = Tag.write → g.tag (.ds d) t = none) :
    (∀ t, t ∈ readNames g ↔ t ∈ ([] : List String)) ∧ (∀ t, t ∈ writeNames g ↔ t ∈ ([] : List String)) :=
  exact_of_profile g [] [] (fun d hd => by cases hd) (fun d hd => by cases hd)
    (fun d _ => by rw [h d .read (Or.inl rfl)]; simp) (fun d _ => by rw [h d .write (Or.inr rfl)]; simp)

theorem tag_w0 (env : Env) (tgt : List String) (d : DS) (t : Tag) :
    (addWriteO Graph.empty (mkTable env tgt none)).tag (.ds d) t =
      if d = (mkTable env tgt none).d ∧ t = .write then some true else none := by
  rw [tag_addWriteO, Graph.tag_empty]; simp only [Node.ds.injEq]

/-- a holder that only carries the WRITE tag of the target -/
theorem exact_of_target (env : Env) (tgt : List String) (g : LGraph)
    (h : ∀ d t, g.tag (.ds d) t = if d = (mkTable env tgt none).d ∧ t = .write then some true else none) :
    (∀ t, t ∈ readNames g ↔ t ∈ ([] : List String)) ∧ (∀ t, t ∈ writeNames g ↔ t ∈ [Spec.tableName env tgt]) :=
  exact_of_profile g [] [(mkTable env tgt none).d] (fun d hd => by cases hd)
    (fun d hd => by rw [List.mem_singleton.mp hd]; rfl)
    (fun d _ => by rw [h]; simp)
    (fun d _ => by rw [h]; by_cases hx : d = (mkTable env tgt none).d <;> simp [hx])

/-- **single‑statement table lineage is exact** on `stmtFrag` (see the header of this part for what is missing with
    respect to `Spec.Frag01`) -/
theorem stmt_exact_partial (env : Env) (silent : Bool) (s : Stmt) (hs : stmtFrag s = true) (g : LGraph)
    (hg : analyze env silent s = .ok g) :
    (∀ t, t ∈ readNames g ↔ t ∈ Spec.reads env s) ∧ (∀ t, t ∈ writeNames g ↔ t ∈ Spec.writes env s) := by
  cases s with
  | query q b =>
    simp only [stmtFrag] at hs
    rw [analyze_query env silent q b hs] at hg
    have E := reads_exact_partial env q hs g hg
    exact ⟨E.1, fun t => by simp [Spec.writes, E.2 t]⟩
  | insert kind tk tgt cols q b =>
    simp only [stmtFrag] at hs
    simp only [analyze, stmtType, disp_insert] at hg
    exact write_query_exact_partial env true tgt cols q hs g hg
  | ctas tgt o i q b =>
    simp only [stmtFrag] at hs
    simp only [analyze, stmtType, disp_create_table] at hg
    exact write_query_exact_partial env false tgt none q hs g hg
  | createView tgt o cols q =>
    simp only [stmtFrag] at hs
    simp only [analyze, stmtType, disp_create_view] at hg
    exact write_query_exact_partial env false tgt cols q hs g hg
  | insertValues tgt cols rows =>
    simp only [analyze, stmtType, disp_insert] at hg
    rw [← ok_inj hg]
    apply exact_of_target env tgt
    intro d t
    clear hg hs
    exact tag_wq0 env true tgt cols d t
  | createTable tgt i cols =>
    simp only [analyze, stmtType, disp_create_table] at hg
    rw [← ok_inj hg]
    apply exact_of_target env tgt
    intro d t
    rw [(sameDs_addWriteColumns _ _).eq, tag_w0]
  | createTableLike tgt src =>
    simp only [analyze, stmtType, disp_create_table] at hg
    rw [← ok_inj hg]
    have E := exact_of_profile (addReadO (addWriteO Graph.empty (mkTable env tgt none)) (mkTable env src none))
      [(mkTable env src none).d] [(mkTable env tgt none).d]
      (fun d hd => by rw [List.mem_singleton.mp hd]; rfl) (fun d hd => by rw [List.mem_singleton.mp hd]; rfl)
      (fun d _ => by
        rw [tag_addReadO, tag_w0]
        by_cases hx : d = (mkTable env src none).d <;> simp [hx])
      (fun d _ => by
        rw [tag_addReadO, tag_w0]
        by_cases hx : d = (mkTable env tgt none).d <;> simp [hx])
    exact ⟨fun t => by rw [E.1 t]; rfl, fun t => by rw [E.2 t]; rfl⟩
  | drop v ie tgt =>
    have hg' : g = exDrop env tgt := by
      cases v <;> simp only [analyze, stmtType, disp_drop_table, disp_drop_view] at hg <;> exact (ok_inj hg).symm
    rw [hg']
    apply exact_of_untagged
    intro d t ht
    unfold exDrop addDrop
    rw [Graph.tag_setTag, Graph.tag_empty, if_neg]
    rintro ⟨_, h2⟩
    rcases ht with ht | ht <;> (rw [ht] at h2; cases h2)
  | alterRename x y =>
    simp only [analyze, stmtType, disp_alter] at hg
    rw [← ok_inj hg]
    apply exact_of_untagged
    intro d t _
    unfold exRename
    exact foldl_inv (fun g : LGraph => g.tag (.ds d) t = none) _ _ _ (Graph.tag_empty _ _)
      (fun b a _ hb => by unfold addRename; rw [Graph.tag_addEdge]; exact hb)
  | renameTable ps =>
    simp only [analyze, stmtType, disp_rename] at hg
    rw [← ok_inj hg]
    apply exact_of_untagged
    intro d t _
    unfold exRename
    exact foldl_inv (fun g : LGraph => g.tag (.ds d) t = none) _ _ _ (Graph.tag_empty _ _)
      (fun b a _ hb => by unfold addRename; rw [Graph.tag_addEdge]; exact hb)
  | noop k sql =>
    have hg' : g = Graph.empty := by
      simp only [analyze, stmtType] at hg
      split at hg
      · split at hg
        · exact (ok_inj hg).symm
        · cases hg
      · exact (ok_inj hg).symm
    rw [hg']
    exact exact_of_untagged _ (fun d t _ => Graph.tag_empty _ _)
  | update _ _ _ _ _ => simp [stmtFrag] at hs
  | merge _ _ _ _ _ _ => simp [stmtFrag] at hs
  | copy _ _ => simp [stmtFrag] at hs
  | unsupported _ => simp [stmtFrag] at hs

/-- **the proved fragment lies inside `Spec.Frag01`**: a statement of `stmtFrag` falls in no deviation class, so
    `stmt_exact_partial` is an instance of the full statement `reads_exact` (not a theorem about other inputs) -/
theorem stmtFrag_sub_Frag01 (s : Stmt) (hs : stmtFrag s = true) : Spec.Frag01 s := by
  unfold Spec.Frag01 Spec.deviations
  cases s with
  | query q b => simp only [stmtFrag] at hs; simp [Spec.stmtQuery?, fragQ_no_deviation q hs]
  | insert kind tk tgt cols q b => simp only [stmtFrag] at hs; simp [Spec.stmtQuery?, fragQ_no_deviation q hs]
  | ctas tgt o i q b => simp only [stmtFrag] at hs; simp [Spec.stmtQuery?, fragQ_no_deviation q hs]
  | createView tgt o cols q => simp only [stmtFrag] at hs; simp [Spec.stmtQuery?, fragQ_no_deviation q hs]
  | insertValues _ _ _ => rfl
  | createTable _ _ _ => rfl
  | createTableLike _ _ => rfl
  | drop _ _ _ => rfl
  | alterRename _ _ => rfl
  | renameTable _ => rfl
  | noop _ _ => rfl
  | update _ _ _ _ _ => simp [stmtFrag] at hs
  | merge _ _ _ _ _ _ => simp [stmtFrag] at hs
  | copy _ _ => rfl
  | unsupported _ => rfl

/-! ### non‑vacuity: a nested statement inside the fragment on which the walk succeeds

    INSERT INTO tgt
    SELECT a.x FROM t1 a JOIN (SELECT y FROM t2 WHERE y IN (SELECT z FROM t3)) b ON a.x = b.y, t4
    UNION ALL
    SELECT x FROM (SELECT x FROM t5, t6) c WHERE EXISTS (SELECT 1 FROM s.t7)

(derived table inside a join, comma list with a join, UNION branch, derived table holding a comma list, WHERE … IN
(subquery) inside a derived table, EXISTS with a qualified table) -/

def demoQ : Query :=
  .setop
    (.mk (.select false [.mk (.col ["a"] "x") none false]
        [ .mk (.table ["t1"] (some "a") false)
            [.mk "join" (.derived (.select false [.mk (.col [] "y") none false] [.mk (.table ["t2"] none false) []]
                 (some (.inSubq (.col [] "y") false
                    (.select false [.mk (.col [] "z") none false] [.mk (.table ["t3"] none false) []] none [] none))) [] none)
                 (some "b") false)
               (some (.bin "=" (.col ["a"] "x") (.col ["b"] "y"))) []],
          .mk (.table ["t4"] none false) [] ]
        none [] none) false)
    [.mk "union all" (.mk (.select false [.mk (.col [] "x") none false]
        [.mk (.derived (.select false [.mk (.col [] "x") none false]
            [.mk (.table ["t5"] none false) [], .mk (.table ["t6"] none false) []] none [] none) (some "c") false) []]
        (some (.exist false (.select false [.mk (.lit "1") none false] [.mk (.table ["s", "t7"] none false) []] none [] none)))
        [] none) false)]

def demoS : Stmt := .insert .insertInto false ["tgt"] none demoQ false

example : stmtFrag demoS = true := by decide
example : Spec.deviations demoS = [] := by decide +kernel
set_option maxRecDepth 100000 in
example : (analyze {} false demoS).toBool = true := by decide +kernel
set_option maxRecDepth 100000 in
example : ((analyze {} false demoS).map readNames).toOption =
    some ["<default>.t3", "<default>.t2", "<default>.t5", "<default>.t6", "s.t7", "<default>.t1", "<default>.t4"] := by
  decide +kernel
set_option maxRecDepth 100000 in
example : ((analyze {} false demoS).map writeNames).toOption = some ["<default>.tgt"] := by decide +kernel
example : Spec.reads {} demoS =
    ["<default>.t1", "<default>.t2", "<default>.t3", "<default>.t4", "<default>.t5", "<default>.t6", "s.t7"] := by
  decide +kernel

/-- the hypotheses of `stmt_exact_partial` are met by `demoS`: the theorem applies to the graph `analyze` returns -/
example : ∃ g, analyze {} false demoS = .ok g ∧
    (∀ t, t ∈ readNames g ↔ t ∈ Spec.reads {} demoS) ∧ (∀ t, t ∈ writeNames g ↔ t ∈ Spec.writes {} demoS) := by
  cases h : analyze {} false demoS with
  | error e =>
    have : (analyze {} false demoS).toBool = true := by decide +kernel
    rw [h] at this
    cases this
  | ok g => exact ⟨g, rfl, stmt_exact_partial {} false demoS (by decide) g h⟩

end exact

end SqlLineage.Props.C01
