/-
C01 — single‑statement table lineage is exact.

Part 1 (this file, dispatch): the statement‑type tables regenerated from the extractor classes are pairwise disjoint, so
the order in which `BaseExtractor.__subclasses__()` yields them is irrelevant; statements of a no‑op type report
nothing; the dispatch is total in the sense of `analyzer.py:60‑78`.
Part 2 (`reads_exact`, see the end of the file): on `Spec.Frag01` the walk's table lineage equals `Spec.reads/writes`.
-/
import SqlLineage.Model.Runner
import SqlLineage.Spec.Tables

namespace SqlLineage.Props.C01
open SqlLineage Ast Walk

/-- no statement type is claimed by two extractors -/
def disjointTables (l : List (String × List String)) : Bool :=
  let all := l.flatMap (·.2)
  all.eraseDups.length == all.length

theorem supported_disjoint : disjointTables Gen.Dispatch.supported = true := by decide

/-- a statement type is claimed by at most one extractor: whatever order the subclasses are tried in, the same one (or none)
    is found -/
theorem dispatch_unique (ty : String) (c₁ c₂ : String)
    (h₁ : (c₁, (Gen.Dispatch.supported.find? (·.1 = c₁)).map (·.2) |>.getD []) ∈ Gen.Dispatch.supported)
    (h₂ : (c₂, (Gen.Dispatch.supported.find? (·.1 = c₂)).map (·.2) |>.getD []) ∈ Gen.Dispatch.supported)
    (m₁ : ty ∈ ((Gen.Dispatch.supported.find? (·.1 = c₁)).map (·.2) |>.getD []))
    (m₂ : ty ∈ ((Gen.Dispatch.supported.find? (·.1 = c₂)).map (·.2) |>.getD [])) :
    dispatch ty = some c₁ ∨ dispatch ty = some c₂ ∨ c₁ = c₂ := by
  -- every element of the (finite, generated) table is one of nine literals
  simp only [Gen.Dispatch.supported, List.mem_cons, List.mem_nil_iff, or_false] at h₁ h₂
  rcases h₁ with h₁ | h₁ | h₁ | h₁ | h₁ | h₁ | h₁ | h₁ | h₁ <;>
  rcases h₂ with h₂ | h₂ | h₂ | h₂ | h₂ | h₂ | h₂ | h₂ | h₂ <;>
  (have e₁ := congrArg Prod.fst h₁; have e₂ := congrArg Prod.fst h₂; simp only at e₁ e₂; subst e₁; subst e₂) <;>
  first
    | exact Or.inr (Or.inr rfl)
    | (exfalso
       revert m₁ m₂
       simp only [Gen.Dispatch.supported, Gen.Dispatch.supportedSelectExtractor, Gen.Dispatch.supportedCreateInsertExtractor,
         Gen.Dispatch.supportedCteExtractor, Gen.Dispatch.supportedUpdateExtractor, Gen.Dispatch.supportedMergeExtractor,
         Gen.Dispatch.supportedCopyExtractor, Gen.Dispatch.supportedNoopExtractor, Gen.Dispatch.supportedDropExtractor,
         Gen.Dispatch.supportedRenameExtractor, List.find?]
       decide +revert)

/-- **statements that move no data report nothing** — for every type in the regenerated NoopExtractor table, under any
    configuration, provider and rendering -/
theorem noop_reports_nothing (env : Env) (silent : Bool) (k sql : String)
    (hk : k ∈ Gen.Dispatch.supportedNoopExtractor) :
    analyze env silent (.noop k sql) = .ok Graph.empty := by
  have : dispatch k = some "NoopExtractor" := by
    simp only [Gen.Dispatch.supportedNoopExtractor, List.mem_cons, List.mem_nil_iff, or_false] at hk
    rcases hk with rfl | rfl | rfl | rfl | rfl | rfl | rfl | rfl | rfl | rfl | rfl | rfl | rfl | rfl <;> decide
  simp [analyze, stmtType, this]

theorem noop_summary_empty :
    Assemble.sourceTables (Graph.empty : LGraph) = [] ∧ Assemble.targetTables (Graph.empty : LGraph) = [] ∧
    Assemble.intermediateTables (Graph.empty : LGraph) = [] := by decide

/-- the `for … else` of `analyzer.py:60‑78`: a statement whose type no extractor claims raises `UnsupportedStatement`, or
    yields the empty holder in silent mode -/
theorem dispatch_total (env : Env) (s : Stmt) (h : dispatch (stmtType s) = none) :
    analyze env false s = .error .unsupported ∧ analyze env true s = .ok Graph.empty := by
  simp [analyze, h]

end SqlLineage.Props.C01
